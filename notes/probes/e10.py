import numpy as np, pyfar as pf, sparrowpy as sp, warnings
warnings.filterwarnings('ignore')
from sparrowpy.form_factor import integration as I
rng=np.random.default_rng(0)
worst=0
for trial in range(30):
    dims=rng.uniform(1,6,3); p=float(rng.uniform(0.4,1.0))*dims.min()
    walls=sp.testing.shoebox_room_stub(*dims)
    r=sp.DirectionalRadiosityFast.from_polygon(walls,p)
    src=rng.uniform(0.001,1,3)*dims*0.998+0.001
    tot=sum(I.pt_solution(src, pts, mode='source') for pts in r.patches_points)
    vis=sp.geometry._check_point2patch_visibility(src, r.patches_center, r.walls_normal, r.walls_points)
    worst=max(worst,abs(tot-1))
    if abs(tot-1)>1e-9 or not vis.all(): print(trial,dims,p,src,tot,vis.sum(),len(vis))
print('worst',worst)
# triangle, random orientation
for t in range(5):
    tri=rng.normal(size=(3,3))+np.array([0,0,3]); pt=rng.normal(size=3)
    print(I.pt_solution(pt,tri,mode='source'), I.pt_solution(pt,tri[::-1].copy(),mode='source'))
