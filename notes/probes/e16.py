import numpy as np, sparrowpy as sp, pyfar as pf, warnings
warnings.filterwarnings('ignore')
from sparrowpy import geometry as g
print(g._rotation_matrix(np.array([0,0,2.5])))
print(g._rotation_matrix(np.array([0,0,-2.5])))
print(g._rotation_matrix(np.array([0,2.5,0.])))
walls=sp.testing.shoebox_room_stub(2,3,2.5)
for s_n,s_u in [(1,3.7),(2.5,1),(0.5,1)]:
    w2=[sp.geometry.Polygon(w.pts, s_u*w.up_vector, s_n*w.normal) for w in walls]
    r=sp.DirectionalRadiosityFast.from_polygon(w2,1.0)
    r.bake_geometry()
    r.init_source_energy(pf.Coordinates(1,1,1))
    print('scale n',s_n,'up',s_u,'vis pairs',r.visibility_matrix.sum(),'ff nan',np.isnan(r.form_factors).sum(),'e0 sum',r._energy_init_source.sum(), 'srcvis', r._source_visibility.sum())
