import numpy as np, sparrowpy as sp, warnings
warnings.filterwarnings('ignore')
from sparrowpy.form_factor import universal as U
from sparrowpy.testing import exact_ff_solutions as X
from ffref import contour_ref, area
rng=np.random.default_rng(7)
def nrm(P): 
    n=np.cross(P[1]-P[0],P[2]-P[0]); return n/np.linalg.norm(n)
# sanity: reference vs closed forms
w,h,l=1.0,1.5,2.0
Pi=np.array([[0,0,0],[l,0,0],[l,w,0],[0,w,0.]]); Pj=np.array([[0,0,0],[0,0,h],[l,0,h],[l,0,0.]])
print('perp common edge exact',X.perpendicular_patch_coincidentline(w,h,l),'ref',contour_ref(Pi,Pj,area(Pi)), 'impl', U.universal_form_factor(Pi,nrm(Pi),area(Pi),Pj,-nrm(Pj)))
a,b,c=1.,2.,1.5
Pi=np.array([[0,0,0],[a,0,0],[a,b,0],[0,b,0.]]); Pj=Pi+np.array([0,0,c])
print('parallel exact',X.parallel_patches(a,b,c),'ref',contour_ref(Pi,Pj,area(Pi)),'impl',U.universal_form_factor(Pi,nrm(Pi),area(Pi),Pj[::-1].copy(),-nrm(Pi)))
# shared-edge rectangles at dihedral angles
res=[]
for t in range(60):
    L=rng.uniform(0.3,3); w=L*rng.uniform(0.5,2); h=L*rng.uniform(0.5,2)
    if max(w,h)>3 or min(w,h)<0.3: continue
    phi=np.deg2rad(rng.uniform(45,170))
    Pi=np.array([[0,0,0],[L,0,0],[L,w,0],[0,w,0.]])
    d=np.array([0,np.cos(phi),np.sin(phi)])
    Pj=np.array([[0,0,0],[0,0,0]+h*d,[L,0,0]+h*d,[L,0,0.]])
    ni=np.array([0,0,1.]); nj=np.cross(Pj[1]-Pj[0],Pj[2]-Pj[0]); nj/=np.linalg.norm(nj)
    if nj@(Pi.mean(0)-Pj.mean(0))<0: nj=-nj
    ref=contour_ref(Pi,Pj,area(Pi)); imp=U.universal_form_factor(Pi,ni,area(Pi),Pj,nj)
    res.append((np.rad2deg(phi),w/L,h/L,imp/ref-1))
res=np.array(res); print('shared edge: n',len(res),'max |rel err|',np.abs(res[:,3]).max()); 
i=np.argmax(np.abs(res[:,3])); print(' worst at phi,w/L,h/L,err',res[i])
for lo,hi in [(45,60),(60,90),(90,120),(120,150),(150,170)]:
    s=res[(res[:,0]>=lo)&(res[:,0]<hi)]
    if len(s): print('  phi',lo,hi,'n',len(s),'max err',np.abs(s[:,3]).max())
