import numpy as np, pyfar as pf, sparrowpy as sp, warnings, itertools
warnings.filterwarnings('ignore')
def box(dims):
    lx,ly,lz=dims
    return [ ([[0,0,0],[lx,0,0],[lx,0,lz],[0,0,lz]],[1,0,0],[0,1,0]),
             ([[0,ly,0],[lx,ly,0],[lx,ly,lz],[0,ly,lz]],[1,0,0],[0,-1,0]),
             ([[0,0,0],[lx,0,0],[lx,ly,0],[0,ly,0]],[1,0,0],[0,0,1]),
             ([[0,0,lz],[lx,0,lz],[lx,ly,lz],[0,ly,lz]],[1,0,0],[0,0,-1]),
             ([[0,0,0],[0,0,lz],[0,ly,lz],[0,ly,0]],[0,0,1],[1,0,0]),
             ([[lx,0,0],[lx,0,lz],[lx,ly,lz],[lx,ly,0]],[0,0,1],[-1,0,0])]
def xform(walls, M, t):
    return [sp.geometry.Polygon(np.array(pts,float)@M.T+t, M@np.array(up,float), M@np.array(n,float)) for pts,up,n in walls]
def run(walls,src,rec,K=3,L=0.08,absorption=0.25):
    k=sp.RadiosityKang(walls,1.0,K,L,speed_of_sound=343.,sampling_rate=1000,absorption=absorption)
    s=sp.sound_object.SoundSource(src,[1,0,0],[0,0,1]); r=sp.sound_object.Receiver(rec,[1,0,0],[0,0,1])
    k.run(s); return k,k.energy_at_receiver(r)[0]
dims=np.array([2.,3.,4.]); base=box(dims); I=np.eye(3)
src=np.array([0.8,1.1,1.3]); rec=np.array([1.6,2.2,0.9])
k0,o0=run(xform(base,I,np.zeros(3)),src,rec)
def cmp(name,M,t):
    try:
        k,o=run(xform(base,M,t),M@src+t,M@rec+t)
        print(f'{name:24s} maxdiff/peak {np.abs(o-o0).max()/o0.max():.2e}')
    except Exception as e: print(name,'ERR',repr(e)[:80])
cmp('translate',I,np.array([13.37,-4.2,7.77]))
for perm in itertools.permutations(range(3)):
    M=np.zeros((3,3))
    for a,bb in enumerate(perm): M[a,bb]=1
    cmp('perm '+str(perm)+(' cyc' if perm in [(0,1,2),(1,2,0),(2,0,1)] else ''),M,np.zeros(3))
# recursion check per order
k=k0; pl=k.patch_list
errs=[]
for wj,pj in enumerate(pl):
    for j,patch in enumerate(pj.patches):
        for order in range(1,4):
            acc=np.zeros(pj.E_n_samples)
            for wi in pj.other_wall_ids:
                pi_=pl[wi]
                for i,sp_ in enumerate(pi_.patches):
                    d=np.linalg.norm(patch.center-sp_.center); n=int(d/343.*1000)
                    ff=pi_.get_form_factor(pl,i,pj.wall_id,j)
                    prev=pi_.E_matrix[0,order-1,i]
                    sh=np.zeros_like(prev); 
                    if n<len(prev): sh[n:]=prev[:len(prev)-n]
                    acc+=sh*ff*(1-pj.absorption[0])*np.exp(-pj.sound_attenuation_factor[0]*d)
            errs.append(np.abs(acc-pj.E_matrix[0,order,j]).max())
print('recursion max abs err (long hist)',max(errs))
