import numpy as np
from scipy import integrate
def gl(n):
    x,w=np.polynomial.legendre.leggauss(n); return (x+1)/2, w/2
def contour_ref(Pi,Pj,Ai,n=48,levels=12):
    """F_ij = |1/(2 pi A_i) sum_{a,b} (e_a.e_b) int_0^1 int_0^1 ln|p_a(s)-q_b(t)| ds dt|
    composite graded Gauss-Legendre (graded toward both ends) to cope with log singularities;
    coincident edges handled analytically."""
    # graded nodes on [0,1]: geometric refinement toward 0 and 1
    x,w=gl(n)
    br=[0.0]+[0.5**k for k in range(levels,0,-1)]  # 0, 2^-L, ..., 1/2
    nodes=[];wts=[]
    for a,b in zip(br[:-1],br[1:]):
        nodes.append(a+(b-a)*x); wts.append((b-a)*w)
    nodes=np.concatenate(nodes); wts=np.concatenate(wts)
    nodes=np.concatenate([nodes,1-nodes[::-1]]); wts=np.concatenate([wts,wts[::-1]])
    tot=0.0
    ni,nj=len(Pi),len(Pj)
    for a in range(ni):
        p0,p1=Pi[a],Pi[(a+1)%ni]; ea=p1-p0
        for b in range(nj):
            q0,q1=Pj[b],Pj[(b+1)%nj]; eb=q1-q0
            dot=ea@eb
            if abs(dot)<1e-15: continue
            same=(np.linalg.norm(p0-q0)<1e-9 and np.linalg.norm(p1-q1)<1e-9)
            opp=(np.linalg.norm(p0-q1)<1e-9 and np.linalg.norm(p1-q0)<1e-9)
            if same or opp:
                L=np.linalg.norm(ea); val=np.log(L)-1.5   # int int ln(L|s-t|)
            else:
                P=p0[None,:]+nodes[:,None]*ea[None,:]; Q=q0[None,:]+nodes[:,None]*eb[None,:]
                r=np.linalg.norm(P[:,None,:]-Q[None,:,:],axis=-1)
                r=np.maximum(r,1e-300)
                val=(wts[:,None]*wts[None,:]*np.log(r)).sum()
            tot+=dot*val
    return abs(tot/(2*np.pi*Ai))
def area(P): 
    return sum(0.5*np.linalg.norm(np.cross(P[k+1]-P[0],P[k+2]-P[0])) for k in range(len(P)-2))
