import numpy as np, pyfar as pf, warnings
warnings.filterwarnings('ignore')
# find_nearest semantics + weights aliasing
c=pf.Coordinates([1,0,0,0.6],[0,1,0,0.8],[0,0,1,0.0],weights=[1,2,3,4])
q=pf.Coordinates([0.7,0.1],[0.7,0.1],[0.1,1])
print(c.find_nearest(q))
w=c.weights; w*=2; print('weights aliasing:', c.weights)
import sparrowpy as sp
def gauss_hemi(n_colat, n_az):
    x,w = np.polynomial.legendre.leggauss(n_colat); z=(x+1)/2; wz=w/2
    az=np.arange(n_az)*2*np.pi/n_az; A,Z=np.meshgrid(az,z)
    W=np.repeat(wz[:,None],n_az,1)*(2*np.pi/n_az)
    return pf.Coordinates.from_spherical_colatitude(A.flatten(),np.arccos(Z).flatten(),1,weights=W.flatten()*3.7)
d=gauss_hemi(2,4); w0=d.weights.copy()
b=sp.brdf.create_from_scattering(d,d,pf.FrequencyData([[0.3]],[500]))
print('caller weights mutated by create_from_scattering:', not np.array_equal(w0,d.weights), w0[:2], d.weights[:2])
