import numpy as np, pyfar as pf, warnings
warnings.filterwarnings('ignore')
from sparrowpy.classes.RadiosityFast import _rotate_coords_to_normal
rng=np.random.default_rng(3)
worst=0
for t in range(200):
    n=rng.normal(size=3); n/=np.linalg.norm(n)
    u=rng.normal(size=3); u-=u.dot(n)*n; u/=np.linalg.norm(u)
    if t<6:
        ax=np.eye(3); n=ax[t%3]*(1 if t<3 else -1); u=ax[(t+1)%3]
    v=rng.normal(size=(5,3)); v[:,2]=np.abs(v[:,2]); v/=np.linalg.norm(v,axis=1)[:,None]
    c=pf.Coordinates(v[:,0],v[:,1],v[:,2])
    s,r=_rotate_coords_to_normal(n,u,c,c)
    R=np.stack([u,np.cross(n,u),n],axis=1)  # columns: x->u, y->n×u, z->n
    exp=v@R.T
    err=np.abs(r.cartesian-exp).max()
    worst=max(worst,err)
    if err>1e-9 and t<12: print(t,n,u,err)
print('worst',worst)
