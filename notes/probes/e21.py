import numpy as np, sparrowpy as sp, warnings
warnings.filterwarnings('ignore')
from sparrowpy.form_factor import universal as U
from sparrowpy import geometry as g
from ffref import contour_ref, area
rng=np.random.default_rng(9)
def randrot():
    q=rng.normal(size=4); q/=np.linalg.norm(q); a,b,c,d=q
    return np.array([[a*a+b*b-c*c-d*d,2*(b*c-a*d),2*(b*d+a*c)],[2*(b*c+a*d),a*a-b*b+c*c-d*d,2*(c*d-a*b)],[2*(b*d-a*c),2*(c*d+a*b),a*a-b*b-c*c+d*d]])
def shape(kind):
    s=rng.uniform(0.3,3)
    if kind=='rect': u=np.array([s,0,0]); v=np.array([0,s*rng.uniform(0.5,2),0]); P=np.array([0*u,u,u+v,v])
    elif kind=='para': u=np.array([s,0,0]); v=np.array([s*rng.uniform(-0.5,0.5),s*rng.uniform(0.5,1.5),0]); P=np.array([0*u,u,u+v,v])
    else: P=np.array([[0,0,0],[s,0,0],[s*rng.uniform(0.2,0.8),s*rng.uniform(0.5,1.2),0]])
    P=P-P.mean(0)
    sz=max(np.linalg.norm(P[(k+1)%len(P)]-P[k]) for k in range(len(P)))
    return P,sz
out={}
for kind in ['rect','para','tri']:
    errs=[]
    for t in range(150):
        Pi,si=shape(kind); Pj,sj=shape(kind)
        # place j facing i: j above i's plane with tilt
        R=randrot() if rng.random()<0.7 else np.eye(3)
        tilt=rng.uniform(-60,60); ax=np.deg2rad(tilt)
        Rt=np.array([[1,0,0],[0,np.cos(ax),-np.sin(ax)],[0,np.sin(ax),np.cos(ax)]])
        Pj2=Pj@Rt.T+np.array([rng.uniform(-1,1)*si,rng.uniform(-1,1)*si, 0])
        gap=0.5*max(si,sj)
        Pj2=Pj2+np.array([0,0, gap - Pj2[:,2].min() + rng.uniform(0,2)])
        ni=np.array([0,0,1.]); nj=np.cross(Pj2[1]-Pj2[0],Pj2[2]-Pj2[0]); nj/=np.linalg.norm(nj)
        if nj[2]>0: Pj2=Pj2[::-1].copy(); nj=-nj
        # require every point of i in front of j's plane & vice versa (mutually fully visible)
        if ((Pi-Pj2[0])@nj).min()<=1e-6 or ((Pj2-Pi[0])@ni).min()<=1e-6: continue
        # min distance check approx via vertices
        dmin=min(np.linalg.norm(a-b) for a in Pi for b in Pj2)
        if dmin<gap: continue
        Pi3=Pi@R.T; Pj3=Pj2@R.T; ni3=R@ni; nj3=R@nj
        ref=contour_ref(Pi3,Pj3,area(Pi3),n=24,levels=3)
        if ref<1e-4: continue
        imp=U.universal_form_factor(Pi3,ni3,area(Pi3),Pj3,nj3)
        errs.append(imp/ref-1)
    errs=np.array(errs); print(kind,'n',len(errs),'max |rel err| %.4f'%np.abs(errs).max(),'95pct %.4f'%np.quantile(np.abs(errs),0.95))
