import numpy as np, pyfar as pf, sparrowpy as sp, warnings, time
warnings.filterwarnings('ignore')
for dims,p in [((2,3,2.5),1.0),((3,3,3),1.5),((4,5,3),1.0)]:
    walls = sp.testing.shoebox_room_stub(*dims)
    r = sp.DirectionalRadiosityFast.from_polygon(walls, p)
    t=time.time(); r.bake_geometry(); t1=time.time()-t
    t=time.time(); r.init_source_energy(pf.Coordinates(1,1,1)); t2=time.time()-t
    t=time.time(); r.calculate_energy_exchange(343.,0.001,0.1,5); t3=time.time()-t
    t=time.time(); r.collect_energy_receiver_mono(pf.Coordinates(1.5,2,1.2)); t4=time.time()-t
    print(dims,p,'patches',r.n_patches,'pairs',len(r._visible_patches),'bake %.2f init %.2f exch %.2f coll %.2f'%(t1,t2,t3,t4), 'rowsum', (lambda F: (F+ (F.T*r.patches_area[None,:]/r.patches_area[:,None])).sum(1))(r.form_factors)[:3])
from sparrowpy.form_factor import universal as u
pts=r.patches_points; n=r.patches_normal; A=r.patches_area
t=time.time()
for k in range(20): u.universal_form_factor(pts[0],n[0],A[0],pts[-1],n[-1])
print('stokes per call', (time.time()-t)/20)
# find adjacent pair
from sparrowpy import geometry as g
for j in range(len(pts)):
    if r._patch_to_wall_ids[j]!=0 and g._coincidence_check(pts[0],pts[j]): break
t=time.time()
for k in range(5): u.universal_form_factor(pts[0],n[0],A[0],pts[j],n[j])
print('nusselt per call', (time.time()-t)/5)
