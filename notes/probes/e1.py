import numpy as np, pyfar as pf, sparrowpy as sp, warnings
warnings.filterwarnings('ignore')
walls = sp.testing.shoebox_room_stub(2,3,4)
r = sp.DirectionalRadiosityFast.from_polygon(walls, 1.0)
print('n_patches', r.n_patches)
freqs=np.array([500.,1000.])
# non-uniform absorption
absn=[0.1,0.9,0.3,0.5,0.0,1.0]
for w,a in enumerate(absn):
    r.set_wall_brdf([w], pf.FrequencyData(np.ones((1,1,2))*(1-a)/np.pi, freqs), pf.Coordinates(0,0,1,weights=1), pf.Coordinates(0,0,1,weights=1))
r.set_air_attenuation(pf.FrequencyData(np.array([0.0,0.2]),freqs))
r.bake_geometry()
fft=r._form_factors_tilde; ff=r.form_factors
i,j=0,r.n_patches-1
w=r._patch_to_wall_ids
F = lambda i,j: ff[i,j] if i<j else ff[j,i]*r.patches_area[j]/r.patches_area[i]
for (i,j) in [(0,r.n_patches-1),(r.n_patches-1,0),(3,20)]:
    print(i,j,'walls',w[i],w[j],'ratio band0',fft[i,j,0,0]/F(i,j),'refl send',1-absn[w[i]],'refl recv',1-absn[w[j]])
    d=np.linalg.norm(r.patches_center[i]-r.patches_center[j])
    print('   att ratio band1/band0', fft[i,j,0,1]/fft[i,j,0,0], 'exp(-0.2d)',np.exp(-0.2*d),'exp(-0.2)',np.exp(-0.2))
