import numpy as np, sparrowpy as sp, warnings, sys
warnings.filterwarnings('ignore')
from sparrowpy.form_factor import universal as U, integration as I
from ffref import contour_ref, area
print(sp.__file__)
rng=np.random.default_rng(7)
for phi_deg in [60,90,110,130,150,165]:
    L,w,h=1.0,1.0,1.0; phi=np.deg2rad(phi_deg)
    Pi=np.array([[0,0,0],[L,0,0],[L,w,0],[0,w,0.]]); d=np.array([0,np.cos(phi),np.sin(phi)])
    Pj=np.array([[0,0,0],[0,0,0]+h*d,[L,0,0]+h*d,[L,0,0.]])
    ni=np.array([0,0,1.]); nj=np.array([0,np.sin(phi),-np.cos(phi)])
    ref=contour_ref(Pi,Pj,area(Pi)); imp=U.universal_form_factor(Pi,ni,area(Pi),Pj,nj)
    imp2=U.universal_form_factor(Pi,ni,area(Pi),Pj[::-1].copy(),nj)
    # differential check at one point
    p0=np.array([0.5,0.5,0]); na=I.nusselt_analog(p0,ni,Pj,nj)/np.pi
    # exact differential ff point->polygon: 1/(2pi) sum_e  beta_e * (n . N_e)
    ex=0
    for k in range(4):
        a=Pj[k]-p0; b=Pj[(k+1)%4]-p0
        N=np.cross(a,b); N/=np.linalg.norm(N); beta=np.arccos(np.clip(a@b/np.linalg.norm(a)/np.linalg.norm(b),-1,1))
        ex+=beta*(ni@N)
    ex=abs(ex)/(2*np.pi)
    print(phi_deg,'ref %.5f impl %.5f (rev order %.5f) rel %.3f | point: nusselt %.5f exact %.5f'%(ref,imp,imp2,imp/ref-1,na,ex))
