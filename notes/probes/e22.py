import numpy as np, sofar as sf, pyfar as pf, sparrowpy as sp, warnings
warnings.filterwarnings('ignore')
rng=np.random.default_rng(1)
# synthetic directivity: R receivers on sphere, N freqs
az=np.repeat(np.arange(0,360,30),5); el=np.tile(np.array([-60,-30,0,30,60]),12)
R=len(az); N=3
sofa=sf.Sofa('FreeFieldDirectivityTF')
sofa.ReceiverPosition=np.stack([az,el,np.ones(R)],1).astype(float)
sofa.ReceiverPosition_Type='spherical'; sofa.ReceiverPosition_Units='degree, degree, metre'
g=rng.uniform(0.2,2,(1,R,N))
sofa.Data_Real=g; sofa.Data_Imag=np.zeros_like(g); sofa.N=np.array([250.,1000.,4000.])
try:
    sf.write_sofa('/tmp/exp/dir.sofa',sofa)
except Exception as e: print('write err',repr(e)[:300])
d=sp.sound_object.DirectivityMS('/tmp/exp/dir.sofa')
print(d.data.freq.shape, d.receivers.csize)
view=np.array([1,0,0.]); up=np.array([0,0,1.])
s=sp.sound_object.SoundSource([0,0,0],view,up,d)
for k in [7,23,41]:
    a=np.deg2rad(az[k]); e=np.deg2rad(el[k])
    # direction in source frame: (forward=view, left=up x view, up)
    left=np.cross(up,view); v=np.cos(e)*np.cos(a)*view+np.cos(e)*np.sin(a)*left+np.sin(e)*up
    print(k, s.get_directivity(2.0*v, 1000.), g[0,k,1])
