import numpy as np, warnings, math
warnings.filterwarnings('ignore')
import sparrowpy.classes.RadiosityFast as RF
rng=np.random.default_rng(1)
P,D,B,S,K=7,3,2,23,4
e0=rng.random((P,D,B)); d0=rng.random(P)*5; dij=rng.random((P,P))*6; dij=(dij+dij.T)/2
fft=rng.random((P,P,D,B)); p2o=rng.integers(0,D,(P,P))
vis=np.array([(i,j) for i in range(P) for j in range(i+1,P) if rng.random()<0.7],dtype=np.int32)
c,dt=343.,0.004
out=RF._energy_exchange(S,e0,d0,dij,fft,p2o,c,dt,K,vis)
# gather model in pure python floats
def model():
    bin0=[int(d0[i]/c/dt) for i in range(P)]
    H=[[[[ (float(e0[j,d,b]) if t==bin0[j] else 0.0) for t in range(S)] for b in range(B)] for d in range(D)] for j in range(P)]
    tot=[[[[H[j][d][b][t] for t in range(S)] for b in range(B)] for d in range(D)] for j in range(P)]
    arcs=[]
    for (i,j) in vis: arcs.append((int(i),int(j))); arcs.append((int(j),int(i)))
    for k in range(K):
        N=[[[[0.0]*S for b in range(B)] for d in range(D)] for j in range(P)]
        for j in range(P):
            for d in range(D):
                for b in range(B):
                    for t in range(S):
                        acc=0.0
                        for (i,jj) in arcs:
                            if jj!=j: continue
                            n=int(dij[i,j]/c/dt)
                            if n<=t:
                                acc=acc+float(fft[i,j,d,b])*H[i][int(p2o[i,j])][b][t-n]
                        N[j][d][b][t]=acc
        H=N
        for j in range(P):
            for d in range(D):
                for b in range(B):
                    for t in range(S): tot[j][d][b][t]=tot[j][d][b][t]+H[j][d][b][t]
    return np.array(tot)
m=model()
print('bitwise equal', np.array_equal(m,out), 'maxdiff', np.abs(m-out).max(), 'bins', sorted(set(int(x/c/dt) for x in dij.ravel()))[:10])
