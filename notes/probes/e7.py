import numpy as np, pyfar as pf, sparrowpy as sp, warnings
warnings.filterwarnings('ignore')
walls = sp.testing.shoebox_room_stub(2,3,2)
src=sp.sound_object.SoundSource([0.7,1.2,0.9],[1,0,0],[0,0,1])
rec=sp.sound_object.Receiver([1.5,2,1.2],[1,0,0],[0,0,1])
for L in [0.05, 0.012]:
    try:
        k=sp.RadiosityKang(walls, 1.0, 3, L, speed_of_sound=343., sampling_rate=1000, absorption=0.2)
        k.run(src)
        ir=k.energy_at_receiver(rec, ignore_direct=True)
        print(L, ir.shape, 'first bins', ir[0,:6], 'sum', ir.sum())
        for o in range(4):
            print('  order',o,'energy', sum(p.E_matrix[0,o].sum() for p in k.patch_list))
    except Exception as e: print(L,'ERR',repr(e))
k=sp.RadiosityKang(walls, 1.0, 2, 0.05, absorption=0.2); k.run(src)
k.write('/tmp/exp/k.far'); k2=sp.RadiosityKang.from_read('/tmp/exp/k.far')
print(np.array_equal(k2.energy_at_receiver(rec),k.energy_at_receiver(rec)))
print([p.absorption for p in k2.patch_list][:2], k2.max_order_k)
