import numpy as np, pyfar as pf, sparrowpy as sp, warnings, itertools
warnings.filterwarnings('ignore')
rng=np.random.default_rng(11)
one=lambda: pf.Coordinates(0,0,1,weights=1)
def build(walls,p,freqs,absn,m,src,c=343.,dt=0.001,dur=0.06,K=3,rec=None):
    r=sp.DirectionalRadiosityFast.from_polygon(walls,p)
    nb=len(freqs)
    for w in range(len(walls)):
        r.set_wall_brdf([w], pf.FrequencyData(((1-absn[w])/np.pi).reshape(1,1,nb),freqs), one(), one())
    r.set_air_attenuation(pf.FrequencyData(m,freqs))
    r.bake_geometry(); r.init_source_energy(pf.Coordinates(*src)); r.calculate_energy_exchange(c,dt,dur,K)
    out=r.collect_energy_receiver_mono(pf.Coordinates(*rec)).time[0] if rec is not None else None
    return r,out
# ---- C12 band independence
dims=(2.3,3.1,2.6); walls=sp.testing.shoebox_room_stub(*dims); p=1.1
freqs=np.array([250.,500.,1000.]); absn=rng.uniform(0,1,(6,3)); m=np.array([0.0,0.03,0.2])
src=(0.8,1.1,1.3); rec=(1.6,2.2,0.9)
R,o=build(walls,p,freqs,absn,m,src,rec=rec)
ok=True
for b in range(3):
    Rb,ob=build(walls,p,freqs[b:b+1],absn[:,b:b+1],m[b:b+1],src,rec=rec)
    e1=np.array_equal(R._form_factors_tilde[...,b],Rb._form_factors_tilde[...,0])
    e2=np.array_equal(R._energy_init_source[...,b],Rb._energy_init_source[...,0])
    e3=np.array_equal(R._energy_exchange_etc[:,:,b],Rb._energy_exchange_etc[:,:,0])
    e4=np.array_equal(o[b],ob[0])
    print('C12 band',b,e1,e2,e3,e4, 'maxrel', np.abs(o[b]-ob[0]).max()/o[b].max())
# ---- C16 reuse
r1,o1=build(walls,p,freqs,absn,m,src,rec=rec)
src2=(1.5,0.7,2.0)
r1.init_source_energy(pf.Coordinates(*src2)); r1.calculate_energy_exchange(343.,0.001,0.06,3,recalculate=True)
o1b=r1.collect_energy_receiver_mono(pf.Coordinates(*rec)).time[0]
r2,o2=build(walls,p,freqs,absn,m,src2,rec=rec)
print('C16 re-source == fresh', np.array_equal(r1._energy_exchange_etc,r2._energy_exchange_etc), np.array_equal(o1b,o2))
r2.bake_geometry(); r2.init_source_energy(pf.Coordinates(*src2)); r2.calculate_energy_exchange(343.,0.001,0.06,3,recalculate=True)
print('C16 repeat stages', np.array_equal(r1._energy_exchange_etc,r2._energy_exchange_etc))
# change order/resolution
r2.calculate_energy_exchange(343.,0.002,0.1,5,recalculate=True); r3,_=build(walls,p,freqs,absn,m,src2,dt=0.002,dur=0.1,K=5)
print('C16 new params', np.array_equal(r3._energy_exchange_etc,r2._energy_exchange_etc))
# ---- C05 closure over random shoeboxes aspect<2
worst=0
for t in range(12):
    d=rng.uniform(1,6,3); 
    n=[int(rng.integers(1,4)) for _ in range(3)]
    # choose p so patches aspect <2
    pp=float(min(d)/rng.uniform(1.05,2.9))
    w=sp.testing.shoebox_room_stub(*d); r=sp.DirectionalRadiosityFast.from_polygon(w,pp)
    sz=np.sort(np.abs(r.patches_size),axis=1)[:,1:]; asp=(sz[:,1]/sz[:,0]).max()
    if asp>=2 or r.n_patches>70: continue
    r.bake_geometry(); F=r.form_factors; A=r.patches_area; Fp=F+F.T*A[None,:]/A[:,None]
    dev=np.abs(Fp.sum(1)-1).max(); worst=max(worst,dev)
    print('C05 dims',np.round(d,2),'p',round(pp,2),'n',r.n_patches,'aspect',round(asp,2),'closure dev',round(dev,4),'Fmax',Fp.max().round(3),'Fmin',Fp.min())
print('worst closure',worst)
