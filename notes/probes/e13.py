import numpy as np, pyfar as pf, sparrowpy as sp, warnings
warnings.filterwarnings('ignore')
print(sp.__file__)
rng=np.random.default_rng(5)
freqs=[500.,2000.]
for trial in range(4):
    dims=rng.uniform(2,5,3); p=float(dims.min()*rng.uniform(0.45,0.9))
    walls=sp.testing.shoebox_room_stub(*dims)
    absn=rng.uniform(0,1,6); m=np.array([0.0,0.05]) if trial%2 else np.array([0.02,0.1])
    def run(A,Bp,order=3,dur=0.08):
        r=sp.DirectionalRadiosityFast.from_polygon(walls,p)
        for w in range(6):
            r.set_wall_brdf([w], pf.FrequencyData(np.ones((1,1,2))*(1-absn[w])/np.pi,freqs), pf.Coordinates(0,0,1,weights=1), pf.Coordinates(0,0,1,weights=1))
        r.set_air_attenuation(pf.FrequencyData(m,freqs))
        r.bake_geometry(); r.init_source_energy(pf.Coordinates(*A)); r.calculate_energy_exchange(343.,0.001,dur,order)
        return r.collect_energy_receiver_mono(pf.Coordinates(*Bp)).time[0], r
    A=rng.uniform(0.1,0.9,3)*dims; Bp=rng.uniform(0.1,0.9,3)*dims
    x,r=run(A,Bp); y,_=run(Bp,A)
    print(trial,'patches',r.n_patches,'peak',x.max(),'max abs diff',np.abs(x-y).max(),'rel',np.abs(x-y).max()/x.max())
    # energy per order check
    tot=[]
    for K in range(4):
        r.calculate_energy_exchange(343.,0.001,0.5,K,recalculate=True); tot.append(r._energy_exchange_etc.sum(axis=(1,3)))
    tot=np.array(tot); En=np.diff(np.concatenate([np.zeros((1,)+tot.shape[1:]),tot]),axis=0) # order,patch,band
    F=r.form_factors; Fp=F+F.T*r.patches_area[None,:]/r.patches_area[:,None]
    rho=1-absn[r._patch_to_wall_ids]
    cen=r.patches_center; d=np.linalg.norm(cen[:,None]-cen[None],axis=-1)
    for b in range(2):
        pred=rho*((Fp*np.exp(-m[b]*d)).T@En[1,:,b])
        print('   band',b,'order2 vs predicted rel err',np.abs(pred-En[2,:,b]).max()/En[2,:,b].max(),'rowsum max dev',np.abs(Fp.sum(1)-1).max())
