import numpy as np, pyfar as pf, sparrowpy as sp, warnings
warnings.filterwarnings('ignore')
walls = sp.testing.shoebox_room_stub(3,3,3)
def run(setb, src):
    r = sp.DirectionalRadiosityFast.from_polygon(walls, 1.5)
    if setb:
        r.set_wall_brdf(np.arange(6), pf.FrequencyData(np.ones((1,1,1))/np.pi,[1000]), pf.Coordinates(0,0,1,weights=1), pf.Coordinates(0,0,1,weights=1))
    r.bake_geometry(); r.init_source_energy(src); r.calculate_energy_exchange(343.,0.001,0.05,2)
    return r
a=run(True, pf.Coordinates(1,1.2,1.4)); b=run(False, pf.Coordinates(1,1.2,1.4))
print('default brdf: e0 ratio', (b._energy_init_source/a._energy_init_source).ravel()[:3], 'sum e0', a._energy_init_source.sum(), b._energy_init_source.sum())
print('fft ratio', np.nanmax(b._form_factors_tilde/a._form_factors_tilde))
s=sp.sound_object.SoundSource([1,1.2,1.4],[1,0,0],[0,0,1])
c=run(True, s)
print('oriented no directivity e0 equal', np.array_equal(c._energy_init_source,a._energy_init_source))
rec=pf.Coordinates(2,2,1)
print(a.collect_energy_receiver_mono(rec,direct_sound=True).time.sum())
try: print(c.collect_energy_receiver_mono(rec,direct_sound=True).time.sum())
except Exception as e: print('ERR', repr(e))
# two receivers
rec2=pf.Coordinates([2,1],[2,1],[1,2])
try:
    o=a.collect_energy_receiver_mono(rec2,direct_sound=True); print(o.time.shape)
except Exception as e: print('ERR2', repr(e))
