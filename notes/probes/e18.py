import numpy as np, sparrowpy as sp, warnings
warnings.filterwarnings('ignore')
from sparrowpy import geometry as g
rng=np.random.default_rng(4)
def randrot():
    q=rng.normal(size=4); q/=np.linalg.norm(q); a,b,c,d=q
    return np.array([[a*a+b*b-c*c-d*d,2*(b*c-a*d),2*(b*d+a*c)],[2*(b*c+a*d),a*a-b*b+c*c-d*d,2*(c*d-a*b)],[2*(b*d-a*c),2*(c*d+a*b),a*a-b*b-c*c+d*d]])
def convex_poly(n):
    ang=np.sort(rng.uniform(0,2*np.pi,n)); 
    while np.min(np.diff(np.r_[ang,ang[0]+2*np.pi]))<0.3 or np.max(np.diff(np.r_[ang,ang[0]+2*np.pi]))>np.pi*0.95:
        ang=np.sort(rng.uniform(0,2*np.pi,n))
    r=rng.uniform(0.5,1.5)
    P=np.stack([r*np.cos(ang),r*np.sin(ang),np.zeros(n)],1)
    if rng.random()<0.5: P=P[::-1].copy()
    return P
def seg_poly_exact(a,b,P,n):
    # returns (blocked, margin) : crossing strictly inside polygon
    da=np.dot(a-P[0],n); db=np.dot(b-P[0],n)
    if da*db>=0: return False, min(abs(da),abs(db))
    t=da/(da-db); x=a+t*(b-a)
    # inside test via cross products
    m=len(P); s=[]
    for i in range(m):
        e=P[(i+1)%m]-P[i]; s.append(np.dot(np.cross(e,x-P[i]),n)/np.linalg.norm(e))
    s=np.array(s); inside=(s>0).all() or (s<0).all()
    return inside, min(np.abs(s).min(),abs(da),abs(db))
mism=0; tot=0; amb=0
for trial in range(3000):
    n=int(rng.integers(3,9)); P=convex_poly(n); R=randrot(); t=rng.normal(size=3)*2
    Pw=P@R.T+t; nrm=R@np.array([0,0,1.]) * (1 if rng.random()<0.5 else -1)
    a=(rng.uniform(-2,2,3))@R.T+t; b=(rng.uniform(-2,2,3))@R.T+t
    exact,margin=seg_poly_exact(a,b,Pw,nrm)
    if margin<1e-3: amb+=1; continue
    vis=g._basic_visibility(a,b,Pw,nrm)
    tot+=1
    if vis==exact:   # vis True means not blocked
        mism+=1
        if mism<=5: print('MISMATCH n',n,'exact blocked',exact,'vis',vis,'margin',margin,'normal',nrm)
print('tot',tot,'amb',amb,'mismatch',mism)
