import numpy as np, pyfar as pf, sparrowpy as sp, warnings
warnings.filterwarnings('ignore')
def gauss_hemi(n_colat, n_az):
    # gauss-legendre in cos(colat) over [0,1], equiangular in azimuth
    x,w = np.polynomial.legendre.leggauss(n_colat)
    z = (x+1)/2; wz = w/2
    az = np.arange(n_az)*2*np.pi/n_az
    A,Z = np.meshgrid(az,z)
    W = np.repeat(wz[:,None], n_az, 1)*(2*np.pi/n_az)
    col = np.arccos(Z)
    c = pf.Coordinates.from_spherical_colatitude(A.flatten(), col.flatten(), 1, weights=W.flatten())
    return c
d = gauss_hemi(3,8)
print(d.csize, d.weights.sum(), 2*np.pi)
s = pf.FrequencyData(np.array([[0.3,0.7]]), [500,1000])
a = pf.FrequencyData(np.array([[0.2,0.5]]), [500,1000])
b = sp.brdf.create_from_scattering(d, d.copy(), s, a)
print(b.freq.shape)
cosw = np.cos(d.colatitude)*d.weights
refl = np.einsum('iob,o->ib', np.real(b.freq), cosw)
print('reflected fraction', refl.min(0), refl.max(0))
print('min', np.real(b.freq).min(), 'sym err', np.abs(np.real(b.freq)-np.real(b.freq).transpose(1,0,2)).max())
walls = sp.testing.shoebox_room_stub(2,3,2.5)
r = sp.DirectionalRadiosityFast.from_polygon(walls, 1.0)
r.set_wall_brdf(np.arange(6), b, d, d)
r.set_air_attenuation(pf.FrequencyData(np.array([0.01,0.02]),[500,1000]))
r.bake_geometry()
r.init_source_energy(pf.Coordinates(1,1,1))
r.calculate_energy_exchange(343., 0.002, 0.1, 3)
print(r._energy_exchange_etc.shape, r._form_factors_tilde.shape)
out = r.collect_energy_receiver_mono(pf.Coordinates(1.5,2,1.2))
print(out.time.shape, out.time.sum(-1))
for w in range(6):
    o = r._brdf_outgoing_directions[w].cartesian
    print(w, r.walls_normal[w], 'min dot normal', (o@r.walls_normal[w]).min(), 'norm', np.linalg.norm(o,axis=1).min())
