import numpy as np, pyfar as pf, sparrowpy as sp, warnings, itertools
warnings.filterwarnings('ignore')
rng=np.random.default_rng(2)
one=lambda: pf.Coordinates(0,0,1,weights=1)
def box(dims):
    lx,ly,lz=dims
    return [ ([[0,0,0],[lx,0,0],[lx,0,lz],[0,0,lz]],[1,0,0],[0,1,0]),
             ([[0,ly,0],[lx,ly,0],[lx,ly,lz],[0,ly,lz]],[1,0,0],[0,-1,0]),
             ([[0,0,0],[lx,0,0],[lx,ly,0],[0,ly,0]],[1,0,0],[0,0,1]),
             ([[0,0,lz],[lx,0,lz],[lx,ly,lz],[0,ly,lz]],[1,0,0],[0,0,-1]),
             ([[0,0,0],[0,0,lz],[0,ly,lz],[0,ly,0]],[0,0,1],[1,0,0]),
             ([[lx,0,0],[lx,0,lz],[lx,ly,lz],[lx,ly,0]],[0,0,1],[-1,0,0])]
def xform(walls, M, t):
    out=[]
    for pts,up,n in walls:
        P=np.array(pts,float)@M.T+t
        out.append(sp.geometry.Polygon(P, M@np.array(up,float), M@np.array(n,float)))
    return out
def run(walls,p,absn,m,src,rec,K=3):
    r=sp.DirectionalRadiosityFast.from_polygon(walls,p)
    for w in range(6):
        r.set_wall_brdf([w], pf.FrequencyData(np.ones((1,1,1))*(1-absn[w])/np.pi,[1000.]), one(), one())
    r.set_air_attenuation(pf.FrequencyData([m],[1000.]))
    r.bake_geometry(); r.init_source_energy(pf.Coordinates(*src)); r.calculate_energy_exchange(343.,0.001,0.08,K)
    return r, r.collect_energy_receiver_mono(pf.Coordinates(*rec)).time[0,0]
dims=np.array([2.3,3.4,2.9]); p=1.05; absn=rng.uniform(0.05,0.6,6); absn[:]=0.3  # uniform to dodge D1
src=np.array([0.8,1.1,1.3]); rec=np.array([1.6,2.2,0.9])
base=box(dims); I=np.eye(3)
r0,o0=run(xform(base,I,np.zeros(3)),p,absn,0.01,src,rec)
def cmp(name,M,t):
    r,o=run(xform(base,M,t),p,absn,0.01,M@src+t,M@rec+t)
    e0a=np.sort(r0._energy_init_source.ravel()); e0b=np.sort(r._energy_init_source.ravel())
    nz0=(o0>0).argmax(); nz=(o>0).argmax()
    print(f'{name:28s} curve maxdiff/peak {np.abs(o-o0).max()/o0.max():.2e}  e0 sorted maxdiff {np.abs(e0a-e0b).max():.2e} first bin {nz0}->{nz} npatch {r.n_patches}')
cmp('translate',I,np.array([13.37,-4.2,7.77]))
cmp('mirror x',np.diag([-1.,1,1]),np.array([dims[0],0,0]))
cmp('mirror z + shift',np.diag([1.,1,-1]),np.array([1.234,0,5.0]))
for perm in itertools.permutations(range(3)):
    M=np.zeros((3,3)); 
    for a,bb in enumerate(perm): M[a,bb]=1
    cmp('perm '+str(perm),M,np.zeros(3))
M=np.zeros((3,3)); M[0,1]=-1; M[1,0]=1; M[2,2]=1
cmp('rot90 z (perm+mirror)',M,np.array([5.,0,0]))
# normal/up rescale
w2=[sp.geometry.Polygon(np.array(pts,float), 3.7*np.array(up,float), 2.5*np.array(n,float)) for pts,up,n in base]
r,o=run(w2,p,absn,0.01,src,rec); print('scale normal/up: bitident', np.array_equal(o,o0), np.abs(o-o0).max()/o0.max())
