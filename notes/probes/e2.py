import numpy as np, pyfar as pf, sparrowpy as sp, warnings
warnings.filterwarnings('ignore')
walls = sp.testing.shoebox_room_stub(3,3,3)
r = sp.DirectionalRadiosityFast.from_polygon(walls, 1.5)
r.bake_geometry()
src=pf.Coordinates(1.0,1.2,1.4)
r.init_source_energy(src)
c=343.; dt=0.001
# short duration
for dur in [0.02, 0.012, 0.008, 0.004]:
    try:
        r.calculate_energy_exchange(c, dt, dur, max_reflection_order=4, recalculate=True)
        etc=r._energy_exchange_etc
        rec=pf.Coordinates(2.0,2.0,1.0)
        out=r.collect_energy_receiver_mono(rec)
        t=out.time[0,0]
        direct=np.linalg.norm(rec.cartesian-src.cartesian)/c/dt
        print(dur,'nsamples',etc.shape[-1],'first nonzero bin rec',np.nonzero(t)[0][:5],'direct bin',direct, 'sum',t.sum())
        try:
            out=r.collect_energy_receiver_mono(rec,direct_sound=True)
        except Exception as e: print('  direct err',repr(e))
    except Exception as e:
        print(dur,'ERR',repr(e))
print('d0 bins', (r._distance_patches_to_source/c/dt).astype(int))
