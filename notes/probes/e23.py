import numpy as np, pyfar as pf, sparrowpy as sp, warnings
warnings.filterwarnings('ignore')
rng=np.random.default_rng(3)
# tetrahedron / triangular prism room from triangles via plain constructor
V=np.array([[0,0,0],[3,0,0],[0,3,0],[0,0,3.]])+0.0
faces=[(0,2,1),(0,1,3),(0,3,2),(1,2,3)]
cen=V.mean(0)
pts=[];nrm=[];ups=[]
for f in faces:
    P=V[list(f)]; n=np.cross(P[1]-P[0],P[2]-P[0]); n/=np.linalg.norm(n)
    if n@(cen-P.mean(0))<0: n=-n
    u=P[1]-P[0]; u/=np.linalg.norm(u)
    pts.append(P);nrm.append(n);ups.append(u)
pts=np.array(pts);nrm=np.array(nrm);ups=np.array(ups)
r=sp.DirectionalRadiosityFast(pts,nrm,ups,pts.copy(),4,np.arange(4))
freqs=[1000.]
for w in range(4):
    r.set_wall_brdf([w], pf.FrequencyData(np.ones((1,1,1))*(1-0.1*w)/np.pi,freqs), pf.Coordinates(0,0,1,weights=1), pf.Coordinates(0,0,1,weights=1))
r.set_air_attenuation(pf.FrequencyData([0.01],freqs))
r.bake_geometry()
print('vis',r.visibility_matrix.astype(int)); F=r.form_factors;A=r.patches_area;Fp=F+F.T*A[None,:]/A[:,None]
print('rowsums',Fp.sum(1))
r.init_source_energy(pf.Coordinates(0.6,0.7,0.5)); print('e0 sum (with refl)',r._energy_init_source.ravel(), 'sum shares', (r._energy_init_source.ravel()/(1-0.1*np.arange(4))/np.exp(-0.01*r._distance_patches_to_source)).sum())
r.calculate_energy_exchange(343.,0.001,0.05,3)
o=r.collect_energy_receiver_mono(pf.Coordinates([0.5,1.0,5.0],[0.5,0.4,5.0],[0.9,0.3,5.0]))
print(o.time.shape, o.time.sum(-1).ravel())
# C11: multi vs single
o1=r.collect_energy_receiver_mono(pf.Coordinates(1.0,0.4,0.3)); print('multi==single', np.array_equal(o.time[1],o1.time[0]))
pw=r.collect_energy_receiver_patchwise(pf.Coordinates(1.0,0.4,0.3)); print('mono==sum', np.array_equal(pw.time.sum(1),o1.time), np.abs(pw.time.sum(1)-o1.time).max())
