import numpy as np, pyfar as pf, sparrowpy as sp, warnings, traceback, os
warnings.filterwarnings('ignore')
freqs=[500,1000]
def brdf(a): return pf.FrequencyData(np.ones((1,1,2))*(1-a)/np.pi, freqs)
one=lambda: pf.Coordinates(0,0,1,weights=1)
def stages():
    walls = sp.testing.shoebox_room_stub(2,3,2.5)
    r = sp.DirectionalRadiosityFast.from_polygon(walls, 1.0); yield 'constructed', r
    r.set_wall_brdf(np.arange(6), brdf(0.1), one(), one()); r.set_air_attenuation(pf.FrequencyData([0.01,0.02],freqs)); yield 'materials', r
    r.bake_geometry(); yield 'baked', r
    r.init_source_energy(pf.Coordinates(1,1,1)); yield 'sourced', r
    r.calculate_energy_exchange(343.,0.002,0.1,3); yield 'exchanged', r
for name, r in stages():
    print('==',name)
    for how in ['dict','file']:
        try:
            if how=='dict':
                r2 = sp.DirectionalRadiosityFast.from_dict(r.to_dict())
            else:
                r.write('/tmp/exp/t.far'); r2 = sp.DirectionalRadiosityFast.from_read('/tmp/exp/t.far')
            print(how,'eq', r2==r)
            try:
                r2.set_wall_brdf([0], brdf(0.5), one(), one()); print('  set_wall_brdf ok')
            except Exception as e: print('  set_wall_brdf ERR', repr(e)[:100])
            try:
                r2.set_air_attenuation(pf.FrequencyData([0.01,0.02],freqs)); print('  set_air ok')
            except Exception as e: print('  set_air ERR', repr(e)[:100])
        except Exception as e:
            print(how,'ERR', repr(e)[:200])
# continue after restore at exchanged
r2 = sp.DirectionalRadiosityFast.from_dict(r.to_dict())
rec=pf.Coordinates(1.5,2,1.2)
a=r.collect_energy_receiver_mono(rec).time
b=r2.collect_energy_receiver_mono(rec).time
print('bitident', np.array_equal(a,b))
try:
    b=r2.collect_energy_receiver_mono(rec, direct_sound=True).time
    print('direct ok')
except Exception as e: print('direct ERR', repr(e))
