"""Generators for planar convex polygons, patch pairs and rigid motions (C04-C07, C17)."""
import numpy as np


def rand_rotation(rng):
    q, _ = np.linalg.qr(rng.normal(size=(3, 3)))
    if np.linalg.det(q) < 0:
        q[:, 0] *= -1
    return q


def convex_polygon(rng, n=None, size=None):
    """Planar convex n-gon (3..8 vertices) in a random plane, random orientation and winding.
    Returns (pts (n,3), unit normal consistent with the winding)."""
    n = int(n or rng.integers(3, 9))
    size = float(size or rng.uniform(0.3, 3.0))
    ang = np.sort(rng.uniform(0, 2 * np.pi, size=n))
    # keep it well-conditioned: no two vertices closer than 0.25 rad
    while np.min(np.diff(np.concatenate([ang, [ang[0] + 2 * np.pi]]))) < 0.25:
        ang = np.sort(rng.uniform(0, 2 * np.pi, size=n))
    rx, ry = size * rng.uniform(0.5, 1.0), size * rng.uniform(0.5, 1.0)
    p2 = np.stack([rx * np.cos(ang), ry * np.sin(ang), np.zeros(n)], axis=1)
    normal = np.array([0., 0., 1.])
    if rng.random() < 0.5:
        p2 = p2[::-1].copy()
        normal = -normal
    Q = rand_rotation(rng)
    off = rng.uniform(-5, 5, size=3)
    return p2 @ Q.T + off, Q @ normal


def rectangle(rng, a=None, b=None):
    a = float(a or rng.uniform(0.3, 3.0))
    b = float(b or rng.uniform(0.3, 3.0))
    return np.array([[0, 0, 0], [a, 0, 0], [a, b, 0], [0, b, 0]], dtype=float)


def point_off_plane(rng, pts, normal, min_dist=1e-3):
    """A point at least `min_dist` from the polygon's plane, anywhere around it (constructive: a
    rejection loop never ends for a polygon much smaller than `min_dist`)."""
    c = pts.mean(axis=0)
    r = np.abs(pts - c).max() * 3
    n = np.asarray(normal, float) / np.linalg.norm(normal)
    lo = max(min_dist, 1e-3)
    d = float(rng.choice([-1.0, 1.0])) * float(rng.uniform(lo, max(r, 4 * lo)))
    t = rng.uniform(-r, r, size=3)
    t = t - n * np.dot(t, n)
    return c + t + d * n


def shape(rng, kind):
    """triangle / rectangle / parallelogram in the z=0 plane, centred, sizes 0.3-3 m."""
    s = rng.uniform(0.3, 3)
    if kind == 'rect':
        u = np.array([s, 0, 0])
        v = np.array([0, s * rng.uniform(0.5, 2), 0])
        P = np.array([0 * u, u, u + v, v])
    elif kind == 'para':
        u = np.array([s, 0, 0])
        v = np.array([s * rng.uniform(-0.5, 0.5), s * rng.uniform(0.5, 1.5), 0])
        P = np.array([0 * u, u, u + v, v])
    else:
        P = np.array([[0, 0, 0], [s, 0, 0], [s * rng.uniform(0.2, 0.8), s * rng.uniform(0.5, 1.2), 0]])
    P = P - P.mean(0)
    sz = max(np.linalg.norm(P[(k + 1) % len(P)] - P[k]) for k in range(len(P)))
    return P, sz


def detached_pair(rng, kind):
    """Two patches of the same vertex count that fully see each other, detached by at least
    half the larger side, in a random rigid motion and random vertex rotation.
    Returns (Pi, ni, Pj, nj)."""
    while True:
        Pi, si = shape(rng, kind)
        Pj, sj = shape(rng, kind)
        tilt = np.deg2rad(rng.uniform(-60, 60))
        Rt = np.array([[1, 0, 0], [0, np.cos(tilt), -np.sin(tilt)], [0, np.sin(tilt), np.cos(tilt)]])
        Pj2 = Pj @ Rt.T + np.array([rng.uniform(-1, 1) * si, rng.uniform(-1, 1) * si, 0])
        gap = 0.5 * max(si, sj)
        Pj2 = Pj2 + np.array([0, 0, gap - Pj2[:, 2].min() + rng.uniform(0, 2)])
        ni = np.array([0, 0, 1.])
        nj = np.cross(Pj2[1] - Pj2[0], Pj2[2] - Pj2[0])
        nj /= np.linalg.norm(nj)
        if nj[2] > 0:
            Pj2 = Pj2[::-1].copy()
            nj = -nj
        if ((Pi - Pj2[0]) @ nj).min() <= 1e-6 or ((Pj2 - Pi[0]) @ ni).min() <= 1e-6:
            continue
        dmin = min(np.linalg.norm(a - b) for a in Pi for b in Pj2)
        if dmin < gap * 1.05:
            continue
        R = rand_rotation(rng) if rng.random() < 0.8 else np.eye(3)
        t = rng.uniform(-5, 5, size=3)
        k1, k2 = int(rng.integers(0, len(Pi))), int(rng.integers(0, len(Pj2)))
        return (np.roll(Pi, k1, axis=0) @ R.T + t, R @ ni, np.roll(Pj2, k2, axis=0) @ R.T + t, R @ nj)


def shared_edge_pair(rng, angle_deg, a=None, b=None, c=None):
    """Two rectangles sharing an edge of length `a` at dihedral angle `angle_deg` (interior angle
    between the two faces; 90 = perpendicular walls of a room), widths b and c, ratios <= 2."""
    # all side ratios up to 2 (the envelope of the statement): every side within [a/sqrt2, a*sqrt2]
    a = float(a or rng.uniform(0.45, 2.1))
    b = float(b or a * rng.uniform(0.7072, 1.4142))
    c = float(c or a * rng.uniform(0.7072, 1.4142))
    th = np.deg2rad(angle_deg)
    Pi = np.array([[0, 0, 0], [a, 0, 0], [a, b, 0], [0, b, 0]], dtype=float)      # normal +z
    d = np.array([0, np.cos(th), np.sin(th)])
    Pj = np.array([[0, 0, 0], [0, 0, 0] + c * d, [a, 0, 0] + c * d, [a, 0, 0]], dtype=float)
    ni = np.array([0, 0, 1.])
    nj = np.cross(Pj[1] - Pj[0], Pj[2] - Pj[0])
    nj /= np.linalg.norm(nj)
    return Pi, ni, Pj, nj


def shared_vertex_pair(rng, a=None):
    """Two rectangles at a right angle sharing only one vertex (diagonal neighbours across an edge)."""
    # all side ratios up to 2: every side within [a/sqrt2, a*sqrt2]
    a = float(a or rng.uniform(0.45, 2.1))
    b, c, e = (a * rng.uniform(0.7072, 1.4142) for _ in range(3))
    Pi = np.array([[0, 0, 0], [a, 0, 0], [a, b, 0], [0, b, 0]], dtype=float)
    Pj = np.array([[a, 0, 0], [a, 0, c], [a + e, 0, c], [a + e, 0, 0]], dtype=float)
    ni = np.array([0, 0, 1.])
    nj = np.cross(Pj[1] - Pj[0], Pj[2] - Pj[0])
    nj /= np.linalg.norm(nj)
    return Pi, ni, Pj, nj


def rigid(rng, *polys_and_normals):
    R = rand_rotation(rng)
    t = rng.uniform(-5, 5, size=3)
    out = []
    for k, x in enumerate(polys_and_normals):
        out.append(x @ R.T + t if x.ndim == 2 else R @ x)
    return out


def far_canted_pair(rng):
    """Two small perpendicular rectangles (0.3-0.8 m, detached) as in a large hall: parallel to the
    coordinate planes but for a cant of 1-3 degrees about one axis, 15-30 m from the origin."""
    a = float(rng.uniform(0.3, 0.6))
    b = a * float(rng.uniform(0.7, 1.4))
    Pi = np.array([[0, 0, 0], [a, 0, 0], [a, b, 0], [0, b, 0.]])
    c = float(rng.uniform(0.3, 0.6))
    d = c * float(rng.uniform(0.7, 1.4))
    x0 = a + float(rng.uniform(0.3, 0.8))
    Pj = np.array([[x0, 0, 0.1], [x0, 0, 0.1 + d], [x0, c, 0.1 + d], [x0, c, 0.1]])
    ni = np.array([0, 0, 1.])
    nj = np.cross(Pj[1] - Pj[0], Pj[2] - Pj[0])
    nj = nj / np.linalg.norm(nj)
    if nj[0] > 0:
        Pj = Pj[::-1].copy()
        nj = -nj
    ang = np.deg2rad(float(rng.uniform(1, 3)))
    ax = int(rng.integers(0, 3))
    cs, sn = np.cos(ang), np.sin(ang)
    R = np.eye(3)
    a1, a2 = [q for q in range(3) if q != ax]
    R[a1, a1], R[a1, a2], R[a2, a1], R[a2, a2] = cs, -sn, sn, cs
    t = rng.uniform(15, 30, size=3) * rng.choice([-1., 1.], size=3)
    return Pi @ R.T + t, R @ ni, Pj @ R.T + t, R @ nj



def touching_general_pair(rng, kind=None, share=None):
    """Two convex patches of equal vertex count (parallelograms / triangles, strongly skewed ones included) in two planes
    meeting along the x axis at a dihedral angle of 60..120 degrees, sharing exactly ONE VERTEX (`share='vertex'`, the origin)
    or one whole EDGE (`share='edge'`), every vertex-list start and a random rigid motion.  The shared vertex is an end of the
    LONG diagonal of a parallelogram in half of the cases (its centre is then far from that corner).
    Returns (Pi, ni, Pj, nj) with the normals facing each other's half space."""
    kind = kind or ['para', 'tri'][int(rng.integers(0, 2))]
    share = share or ['vertex', 'edge'][int(rng.integers(0, 2))]

    def flat(first):
        s = rng.uniform(0.4, 2.5)
        if share == 'edge':
            e1 = np.array([first, 0.0])
        else:
            a1 = np.deg2rad(rng.uniform(15, 165))
            e1 = s * np.array([np.cos(a1), np.sin(a1)])
        lo = np.arctan2(e1[1], e1[0])
        a2 = rng.uniform(lo + np.deg2rad(20), np.deg2rad(165)) if lo < np.deg2rad(140) else lo + np.deg2rad(10)
        e2 = s * rng.uniform(0.6, 1.6) * np.array([np.cos(a2), np.sin(a2)])
        if kind == 'para':
            return np.array([[0, 0], e1, e1 + e2, e2])
        return np.array([[0, 0], e1, e2])
    edge = float(rng.uniform(0.4, 2.5))
    Qi, Qj = flat(edge), flat(edge)
    th = np.deg2rad(rng.uniform(60, 120))
    Pi = np.array([[u, v, 0.0] for u, v in Qi])
    d = np.array([0, np.cos(th), np.sin(th)])
    Pj = np.array([np.array([u, 0, 0]) + v * d for u, v in Qj])
    ni = np.array([0, 0, 1.0])
    nj = np.cross(Pj[1] - Pj[0], Pj[2] - Pj[0])
    nj /= np.linalg.norm(nj)
    if nj @ np.array([0, 1.0, 0]) < 0 and th < np.pi / 2 or (nj @ (Pi.mean(0) - Pj.mean(0)) < 0):
        Pj = Pj[::-1].copy()
        nj = np.cross(Pj[1] - Pj[0], Pj[2] - Pj[0])
        nj /= np.linalg.norm(nj)
    k1, k2 = int(rng.integers(0, len(Pi))), int(rng.integers(0, len(Pj)))
    Pi, Pj = np.roll(Pi, k1, axis=0), np.roll(Pj, k2, axis=0)
    if rng.random() < 0.7:
        Pi, ni, Pj, nj = rigid(rng, Pi, ni, Pj, nj)
    return Pi, ni, Pj, nj
