"""Proof side of a check: regenerate Generated/*.lean from /repo, build the property's
theorem file, audit axioms, count obligations."""
import os
import re
import subprocess
from . import common

ALLOWED_AXIOMS = {'propext', 'Classical.choice', 'Quot.sound'}
FORBIDDEN = re.compile(r'\b(sorry|admit|native_decide|bv_decide|implemented_by|unsafe)\b|^axiom\s|maxHeartbeats\s+0\b', re.M)


def _strip_comments(src):
    # remove block comments (nesting-aware enough for our files) and line comments
    out = []
    i = 0
    depth = 0
    n = len(src)
    while i < n:
        if src.startswith('/-', i):
            depth += 1
            i += 2
        elif src.startswith('-/', i) and depth > 0:
            depth -= 1
            i += 2
        elif depth > 0:
            i += 1
        elif src.startswith('--', i):
            while i < n and src[i] != '\n':
                i += 1
        else:
            out.append(src[i])
            i += 1
    return ''.join(out)


def theorems_of(prop):
    """Names of the property theorems declared in Props/<prop>.lean (fully qualified)."""
    path = os.path.join(common.LEAN_DIR, 'Sparrow', 'Props', prop + '.lean')
    src = _strip_comments(open(path).read())
    ns = []
    names = []
    for line in src.split('\n'):
        m = re.match(r'\s*namespace\s+(\S+)', line)
        if m:
            ns.append(m.group(1))
            continue
        m = re.match(r'\s*end\s+(\S+)', line)
        if m and ns and ns[-1] == m.group(1):
            ns.pop()
            continue
        m = re.match(r'\s*(?:@\[[^\]]*\]\s*)?(?:private\s+|protected\s+)?theorem\s+(\S+)', line)
        if m:
            names.append('.'.join(ns + [m.group(1)]))
    return names


def lean_sources_for_grep():
    root = os.path.join(common.LEAN_DIR, 'Sparrow')
    for d, _, fs in os.walk(root):
        for f in fs:
            if f.endswith('.lean'):
                yield os.path.join(d, f)


def forbidden_tokens():
    hits = []
    for p in lean_sources_for_grep():
        src = _strip_comments(open(p).read())
        for m in FORBIDDEN.finditer(src):
            hits.append('%s: %s' % (os.path.relpath(p, common.LEAN_DIR), m.group(0).strip()))
    return hits


def lake(args, timeout=3600):
    env = dict(os.environ)
    p = subprocess.run(['lake'] + args, cwd=common.LEAN_DIR, stdout=subprocess.PIPE,
                       stderr=subprocess.STDOUT, timeout=timeout, env=env)
    return p.returncode, p.stdout.decode(errors='replace')


def build(targets):
    return lake(['build'] + targets)


def translate():
    """Regenerate lean/Sparrow/Generated/*.lean from /repo's working tree (never raises)."""
    from .translate import run_all
    return run_all(validate=lambda module: lake(['build', module]))


def generated_deps(prop):
    """Names of the Generated modules that Props/<prop>.lean imports, transitively."""
    root = os.path.join(common.LEAN_DIR)
    seen, todo, gens = set(), ['Sparrow.Props.' + prop], set()
    while todo:
        m = todo.pop()
        if m in seen or not m.startswith('Sparrow.'):
            continue
        seen.add(m)
        if m.startswith('Sparrow.Generated.'):
            gens.add(m.split('.')[-1])
        path = os.path.join(root, *m.split('.')) + '.lean'
        try:
            with open(path) as f:
                for line in f:
                    mm = re.match(r'\s*import\s+(\S+)', line)
                    if mm:
                        todo.append(mm.group(1))
        except FileNotFoundError:
            pass
    # CheckParse re-exports Check
    if 'CheckParse' in gens:
        gens.add('Check')
    return gens


def audit(prop, names):
    """#print axioms for every property theorem; returns {name: [axioms]} and raw output."""
    aud_dir = os.path.join(common.LEAN_DIR, 'Sparrow', 'Audit')
    os.makedirs(aud_dir, exist_ok=True)
    path = os.path.join(aud_dir, 'Run_' + prop + '.lean')
    with open(path, 'w') as f:
        f.write('import Sparrow.Props.%s\n' % prop)
        for n in names:
            f.write('#print axioms %s\n' % n)
    rc, out = lake(['env', 'lean', path])
    os.remove(path)
    res = {}
    cur = None
    # output: "'name' depends on axioms: [a, b]"  or "'name' does not depend on any axioms"
    for m in re.finditer(r"'([^']+)' (does not depend on any axioms|depends on axioms: \[([^\]]*)\])", out):
        name = m.group(1)
        ax = [] if m.group(3) is None else [a.strip() for a in m.group(3).replace('\n', ' ').split(',') if a.strip()]
        res[name] = ax
    return rc, res, out


def check(prop, extra_targets=()):
    """Returns dict(ok, obligations, discharged, failures, axioms, trusted_base, log)."""
    info = {'ok': True, 'failures': [], 'log': ''}
    tr = translate()
    info['translated'] = tr
    deps = generated_deps(prop)
    info['generated_deps'] = sorted(deps)
    for name, r in tr.items():
        if r.get('error') and name in deps:  # translation failure of a file this property uses = broken tie
            info['ok'] = False
            info['failures'].append({'kind': 'translator', 'what': '%s: %s' % (name, r['error'])})
    not_tr = ((tr.get('Constants') or {}).get('facts') or {}).get('_not_translated') or {}
    rc, out = build(['Sparrow.Props.' + prop, 'sparrow-driver'] + list(extra_targets))
    info['log'] = out[-4000:]
    names = []
    try:
        names = theorems_of(prop)
    except FileNotFoundError:
        info['ok'] = False
        info['failures'].append({'kind': 'missing', 'what': 'Props/%s.lean' % prop})
    info['obligations'] = len(names)
    info['theorems'] = names
    if rc != 0:
        info['ok'] = False
        errs = re.findall(r'error: ([^\n]*)', out)
        info['failures'].append({'kind': 'build', 'what': 'lake build Sparrow.Props.%s failed' % prop,
                                 'errors': errs[:10],
                                 'facts_not_translated': {k: v for k, v in not_tr.items()
                                                          if any(k in e for e in errs)}})
        info['discharged'] = 0
        info['axioms'] = {}
        return info
    rc2, axs, raw = audit(prop, names)
    info['axioms'] = axs
    bad = {n: [a for a in ax if a not in ALLOWED_AXIOMS] for n, ax in axs.items()}
    bad = {n: a for n, a in bad.items() if a}
    missing = [n for n in names if n not in axs]
    if rc2 != 0 or bad or missing:
        info['ok'] = False
        info['failures'].append({'kind': 'audit', 'what': 'axiom audit', 'bad_axioms': bad,
                                 'not_reported': missing, 'raw': raw[-1000:]})
    hits = forbidden_tokens()
    if hits:
        info['ok'] = False
        info['failures'].append({'kind': 'forbidden-token', 'what': hits[:10]})
    info['discharged'] = len([n for n in names if n in axs and n not in bad]) if not hits else 0
    used = sorted({a for ax in axs.values() for a in ax})
    info['axioms_used'] = used
    return info
