"""Pipeline-level, stage-wise correspondence: real objects on generated scenes; after each
stage the stage's inputs *as the object holds them* and its outputs are dumped, the model
recomputes the stage from those inputs (so a flipped decision cannot cascade)."""
import numpy as np
from . import common, scenes
from .common import fhex, fhexs

MARGIN = 1e-9


def ints(a):
    return ' '.join(str(int(x)) for x in np.asarray(a).ravel())


def geo_tokens(r, b):
    """<geo> block of the driver protocol for band b."""
    P = r.n_patches
    vi = np.array([s.cartesian for s in r._brdf_incoming_directions])
    vo = np.array([s.cartesian for s in r._brdf_outgoing_directions])
    tab = np.array(r._brdf)                    # (nT, nIn, D, B)
    W = r.n_walls
    nIn, D = vi.shape[1], vo.shape[1]
    toks = [str(P), str(D), str(nIn), str(W), str(tab.shape[0]), fhexs(r.patches_center),
            ints(r._patch_to_wall_ids), ints(r._brdf_index), fhexs(vi), fhexs(vo),
            fhexs(np.real(tab[..., b]))]
    return toks, (P, D, nIn, W)


def split_sections(line):
    assert line.startswith('ok '), line[:200]
    return [s.strip().split(' ') if s.strip() else [] for s in line[3:].split('|')]


def corr_bake(ctx, r, tag=''):
    """Stage `bake_geometry`: form_factors_tilde and the outgoing-index map."""
    B = 1 if r._frequencies is None else r.n_bins
    has_table = r._brdf_incoming_directions is not None
    P = r.n_patches
    lines = []
    for b in range(B):
        if has_table:
            toks, (P, D, nIn, W) = geo_tokens(r, b)
        else:
            D, nIn, W = 1, 1, r.n_walls
            toks = [str(P), '1', '1', str(W), '1', fhexs(r.patches_center),
                    ints(r._patch_to_wall_ids), ints(np.zeros(W)), fhexs(np.zeros((W, 1, 3))),
                    fhexs(np.zeros((W, 1, 3))), fhexs(np.ones((1, 1, 1)))]
        att = r._air_attenuation
        toks = ['bake'] + toks + ['1' if has_table else '0', '0' if att is None else '1',
                                   fhex(0.0 if att is None else att[b]),
                                   fhexs(r.patches_area), fhexs(r.form_factors),
                                   ints(np.asarray(r.visibility_matrix).astype(int))]
        lines.append(' '.join(toks))
    outs = common.run_driver(lines)
    fft_impl = np.asarray(r._form_factors_tilde)
    oi_impl = np.asarray(r._patch_2_brdf_outgoing_index)
    for b, line in enumerate(outs):
        if not line.startswith('ok '):
            ctx.cmp.tag('corr:bake%s status' % tag, 'ok', line[:80])
            continue
        sec = split_sections(line)
        fft = common.parse_floats(sec[0]).reshape(P, P, -1)
        oi = np.array([int(x) for x in sec[1]]).reshape(P, P)
        mi = common.parse_floats(sec[2]).reshape(P, P)
        mo = common.parse_floats(sec[3]).reshape(P, P)
        # GUARDED: pairs whose nearest-sample decision is within the margin are set aside
        amb_in = mi < MARGIN
        amb_out = mo < MARGIN
        ctx.cmp.ambiguous(int(amb_in.sum() + amb_out.sum()))
        a = fft_impl[:, :, :, b].copy()
        m = fft.copy()
        a[amb_in] = 0
        m[amb_in] = 0
        what = 'corr:_form_factors_with_directivity_dim%s[band %d, P=%d]' % (tag, b, P)
        if ctx.cmp.ints(what + ' zero pattern', (a != 0).astype(int), (m != 0).astype(int)):
            ctx.cmp.ulp(what, a, m, rtol=1e-11)
        if b == 0:
            x = oi_impl.copy()
            y = oi.copy()
            x[amb_out] = 0
            y[amb_out] = 0
            ctx.cmp.ints('corr:patch_2_brdf_outgoing_index%s' % tag, x, y)
    ctx.cases += 1
    ctx.count('pipeline.bake')


def corr_init(ctx, r, src_pos, tag=''):
    """Stage `init_source_energy` (the `_add_directional` half; energy_0 from the real
    `_source2patch_energy_universal` until the point-patch kernel is compared separately)."""
    sp = common.import_repo()
    from sparrowpy.form_factor import universal
    from sparrowpy import geometry
    vis = geometry._check_point2patch_visibility(
        eval_point=np.asarray(src_pos, dtype=float), patches_center=r.patches_center,
        surf_points=r.walls_points, surf_normal=r.walls_normal)
    e0, d0 = universal._source2patch_energy_universal(
        np.asarray(src_pos, dtype=float), r.patches_center, r.patches_points, vis,
        r._air_attenuation, r.n_bins)
    ctx.cmp.exact('corr:distance_patches_to_source%s' % tag, r._distance_patches_to_source, d0)
    lines = []
    for b in range(r.n_bins):
        toks, (P, D, nIn, W) = geo_tokens(r, b)
        lines.append(' '.join(['adddir'] + toks + [fhexs(src_pos), fhexs(e0[:, b])]))
    outs = common.run_driver(lines)
    impl = np.asarray(r._energy_init_source)
    for b, line in enumerate(outs):
        if not line.startswith('ok '):
            ctx.cmp.tag('corr:adddir%s status' % tag, 'ok', line[:80])
            continue
        sec = split_sections(line)
        m = common.parse_floats(sec[0]).reshape(P, D)
        mg = common.parse_floats(sec[1])
        amb = mg < MARGIN
        ctx.cmp.ambiguous(int(amb.sum()))
        a = impl[:, :, b].copy()
        a[amb] = 0
        m[amb] = 0
        ctx.cmp.exact('corr:_add_directional%s[band %d]' % (tag, b), a, m)
    ctx.cases += 1
    ctx.count('pipeline.init')
    return e0, d0, vis


def distance_ij(r):
    c = r.patches_center
    n = r.n_patches
    d = np.empty((n, n))
    for i in range(n):
        for j in range(n):
            d[i, j] = np.linalg.norm(c[i, :] - c[j, :])
    return d


def corr_exchange(ctx, r, c, dt, duration, K, tag=''):
    """Stage `calculate_energy_exchange` recomputed by the model from the object's own
    initial energy, source distances, baked factors, index map and visible list."""
    S = int(duration / dt)
    P = r.n_patches
    D = r._energy_init_source.shape[1]
    dij = distance_ij(r)
    pairs = [(int(a), int(b)) for a, b in np.asarray(r._visible_patches)]
    lines = []
    for b in range(r.n_bins):
        toks = ['exchange', str(P), str(D), str(S), str(max(K, 0)), fhex(c), fhex(dt), str(len(pairs))]
        for (i, j) in pairs:
            toks += [str(i), str(j)]
        toks += [fhexs(r._distance_patches_to_source), fhexs(dij),
                 fhexs(r._energy_init_source[:, :, b]), fhexs(r._form_factors_tilde[:, :, :, b]),
                 ints(np.minimum(r._patch_2_brdf_outgoing_index, D))]
        lines.append(' '.join(t for t in toks if t != ''))
    outs = common.run_driver(lines)
    impl = np.asarray(r._energy_exchange_etc)
    for b, line in enumerate(outs):
        st, val = common.parse_ok_floats(line)
        what = 'corr:calculate_energy_exchange%s[band %d P=%d S=%d K=%d]' % (tag, b, P, S, K)
        if ctx.cmp.tag(what + ' status', 'ok', st):
            ctx.cmp.exact(what, impl[:, :, b, :], val)
    ctx.cases += 1
    ctx.count('pipeline.exchange')


def corr_collect(ctx, r, rec_pos, tag=''):
    """Stage `collect_energy_receiver_patchwise` for one receiver position."""
    sp = common.import_repo()
    from sparrowpy.form_factor import universal
    from sparrowpy import geometry
    rec_pos = np.asarray(rec_pos, dtype=float)
    P = r.n_patches
    etc = np.asarray(r._energy_exchange_etc)
    D, S = etc.shape[1], etc.shape[3]
    vis = geometry._check_point2patch_visibility(
        eval_point=rec_pos, patches_center=r.patches_center,
        surf_points=r.walls_points, surf_normal=r.walls_normal)
    g = universal._patch2receiver_energy_universal(rec_pos, r.patches_points, vis)
    dist = np.linalg.norm(r.patches_center - rec_pos, axis=1)
    impl = r.collect_energy_receiver_patchwise(scenes.coords(rec_pos)).time[0]   # (P, B, S)
    # receiver index
    toks, _ = geo_tokens(r, 0)
    out = common.run_driver([' '.join(['ridx'] + toks + [fhexs(rec_pos)])])[0]
    sec = split_sections(out)
    ridx = np.array([int(x) for x in sec[0]])
    mg = common.parse_floats(sec[1])
    amb = mg < MARGIN
    ctx.cmp.ambiguous(int(amb.sum()))
    from sparrowpy.classes.RadiosityFast import get_scattering_data_receiver_index
    ridx_impl = get_scattering_data_receiver_index(
        r.patches_center, rec_pos, np.array([s.cartesian for s in r._brdf_outgoing_directions]),
        r._patch_to_wall_ids)
    x, y = ridx_impl.copy(), ridx.copy()
    x[amb] = 0
    y[amb] = 0
    ctx.cmp.ints('corr:receiver_idx%s' % tag, x, y)
    lines = []
    for b in range(r.n_bins):
        lines.append(' '.join(['patchwise', str(P), str(D), str(S), fhex(r.speed_of_sound),
                               fhex(r._etc_time_resolution), fhex(r._air_attenuation[b]),
                               fhexs(dist), fhexs(g), ints(ridx_impl), fhexs(etc[:, :, b, :])]))
    outs = common.run_driver(lines)
    for b, line in enumerate(outs):
        st, val = common.parse_ok_floats(line)
        what = 'corr:collect_energy_receiver_patchwise%s[band %d]' % (tag, b)
        if ctx.cmp.tag(what + ' status', 'ok', st):
            a = impl[:, b, :]
            m = val.reshape(a.shape)
            if ctx.cmp.ints(what + ' zero pattern', (a != 0).astype(int), (m != 0).astype(int)):
                ctx.cmp.ulp(what, a, m)
    ctx.cases += 1
    ctx.count('pipeline.collect')
    return impl, g, dist, vis
