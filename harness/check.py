"""./check <Cxx> [--tier quick|thorough] [--replay file]

Exit 0: property held on everything explored.  Exit 1 + `VIOLATION property=<id>
replay=<path>` : violation (or: proof/tie broken and no failing input found, the line then
ends with `no-failing-input-found`).  Exit 2: infrastructure failure.
"""
import argparse
import importlib
import json
import os
import sys
import traceback

sys.path.insert(0, os.path.dirname(os.path.dirname(os.path.abspath(__file__))))
from harness import common, leanproof  # noqa: E402


class Ctx:
    def __init__(self, prop, tier, seed):
        import numpy as np
        self.prop = prop
        self.tier = tier
        self.seed = seed
        self.rng = np.random.Generator(np.random.PCG64(seed))
        self.cmp = common.Cmp()
        self.cases = 0                 # correspondence cases run
        self.nontrivial = set()        # hashes of distinct non-trivial cases
        self.samples = []              # a few cases written out
        self.dist = {}                 # distribution counters
        self.violations = []           # concrete failing inputs on the implementation (not listed as known)
        self.known = [f for f in common.load_known_findings()
                      if f.get('property') == prop and f.get('status') == 'finding']
        self.known_hits = {}           # signature -> first reproduction of a listed known finding
        self.measured = {}             # sampled (not proved) claims, kept apart
        self.oracle_evals = 0
        self.notes = []

    def count(self, key, n=1):
        self.dist[key] = self.dist.get(key, 0) + n

    def sample(self, s, limit=4):
        if len(self.samples) < limit:
            self.samples.append(s)

    def nontriv(self, obj):
        self.nontrivial.add(common.sha(obj))

    def violation(self, signature, what, inp, observed, required):
        v = {'signature': signature, 'what': what, 'input': inp, 'observed': observed, 'required': required}
        if any(f.get('signature') == signature for f in self.known):
            # a listed known finding: recorded apart, so that searches go on looking for anything else
            self.known_hits.setdefault(signature, v)
            return
        self.violations.append(v)


def finding_matches(f, prop, v):
    return f.get('property') == prop and f.get('status') == 'finding' and \
        f.get('signature') == v['signature']


def main(argv=None):
    ap = argparse.ArgumentParser()
    ap.add_argument('prop')
    ap.add_argument('--tier', default=os.environ.get('VERIF_TIER', 'quick'))
    ap.add_argument('--replay', default=None)
    ap.add_argument('--skip-lean', action='store_true', help=argparse.SUPPRESS)
    a = ap.parse_args(argv)
    prop = a.prop.upper()
    tier = a.tier if a.tier in ('quick', 'thorough') else 'quick'
    seed = int(os.environ.get('VERIF_SEED', '0') or 0)
    timer = common.Timer()
    try:
        mod = importlib.import_module('harness.props.' + prop.lower())
    except ModuleNotFoundError:
        print('no check for', prop)
        return 2
    ctx = Ctx(prop, tier, seed)

    if a.replay:
        with open(a.replay) as f:
            rp = json.load(f)
        ok = mod.replay(ctx, rp)
        print('replay:', 'property holds on this input' if ok else 'property FAILS on this input')
        for v in ctx.violations:
            print(json.dumps(v, default=common._json_default)[:2000])
        return 0 if ok else 1

    # ---- proof side --------------------------------------------------------------
    try:
        proof = leanproof.check(prop, extra_targets=getattr(mod, 'EXTRA_TARGETS', ()))
    except Exception as e:
        print('infrastructure failure (lean):', repr(e))
        traceback.print_exc()
        return 2
    if tier == 'thorough' and proof['ok']:
        rc, out = leanproof.lake(['env', 'leanchecker', 'Sparrow.Props.' + prop], timeout=3600)
        proof['leanchecker'] = 'ok' if rc == 0 else out[-500:]
        if rc != 0:
            proof['ok'] = False
            proof['failures'].append({'kind': 'leanchecker', 'what': out[-500:]})

    # ---- tie + proactive oracle --------------------------------------------------
    driver_ok = os.path.exists(common.DRIVER)

    def guarded(fn, stage):
        """An exception raised INSIDE the implementation on an input the check generated as legal
        is a finding about the implementation (reported with the call stack as replay), not an
        infrastructure failure; anything else propagates (exit 2)."""
        try:
            fn()
        except common.DriverError:
            raise
        except Exception as e:
            repo = os.path.realpath(common.REPO) + os.sep
            tb = traceback.extract_tb(e.__traceback__)
            inside = [f for f in tb if os.path.realpath(f.filename).startswith(repo)]
            if not inside:
                raise
            last = inside[-1]
            ctx.violation('implementation-raises:%s' % last.name,
                          'the implementation raised %s in %s (%s:%d) on an input the check generated as legal: %s'
                          % (type(e).__name__, last.name, os.path.relpath(last.filename, repo), last.lineno, str(e)[:200]),
                          {'stage': stage, 'call_stack': ['%s:%d %s' % (os.path.basename(f.filename), f.lineno, f.name) for f in tb][-8:]},
                          repr(e)[:300], 'a result')
    try:
        if driver_ok:
            guarded(lambda: mod.run(ctx), 'correspondence / proactive oracle')
        else:
            ctx.notes.append('driver missing (build failed): correspondence not run')
            guarded(lambda: mod.oracle(ctx, budget_s=120 if tier == 'quick' else 900), 'oracle')
    except common.DriverError as e:
        print('infrastructure failure (driver):', e)
        return 2
    tie_broken = len(ctx.cmp.mismatches) > 0 or not driver_ok

    # ---- broken proof / tie: search for a failing input --------------------------
    searched = False
    if (not proof['ok'] or tie_broken) and not ctx.violations:
        searched = True
        guarded(lambda: mod.oracle(ctx, budget_s=60 if tier == 'quick' else 900), 'failing-input search')

    # ---- verdict -----------------------------------------------------------------
    rc = 0
    for f in ctx.known:
        hit = f.get('signature') in ctx.known_hits
        print('KNOWN-FINDING: property=%s %s%s' % (prop, f.get('what', ''), ' [reproduced in this run]' if hit else ' [listed; not exercised in this run]'))
    new_violations = list(ctx.violations)
    if new_violations:
        v = new_violations[0]
        path = common.write_replay(prop, {
            'property': prop, 'seed': seed, 'tier': tier, 'kind': 'failing-input',
            'signature': v['signature'], 'what': v['what'], 'input': v['input'],
            'observed': v['observed'], 'required': v['required'],
            'replay_cmd': './check %s --replay <this file>' % prop})
        print('VIOLATION property=%s replay=%s' % (prop, path))
        print('  ', v['what'])
        rc = 1
    elif not proof['ok'] or tie_broken:
        broken = []
        for f in proof['failures']:
            broken.append({'theorem_or_step': f})
        for (what, detail) in ctx.cmp.mismatches[:5]:
            broken.append({'correspondence': what, 'first_disagreement': detail})
        path = common.write_replay(prop, {
            'property': prop, 'seed': seed, 'tier': tier, 'kind': 'no-failing-input-found',
            'no_longer_checks': broken, 'searched': searched,
            'proof_log_tail': proof.get('log', '')[-1500:]})
        print('VIOLATION property=%s replay=%s no-failing-input-found' % (prop, path))
        for b in broken[:5]:
            print('  ', json.dumps(b, default=common._json_default)[:600])
        rc = 1

    # ---- evidence ----------------------------------------------------------------
    level = getattr(mod, 'LEVEL', 'proof')
    cov = {
        'obligations': proof.get('obligations', 0),
        'discharged': proof.get('discharged', 0),
        'checker_cmd': 'cd lean && lake build Sparrow.Props.%s && lake env lean <#print axioms of every theorem>%s'
                       % (prop, ' && lake env leanchecker Sparrow.Props.' + prop if tier == 'thorough' else ''),
        'trusted_base': ['Lean 4.33.0 kernel', 'Mathlib v4.33.0 (kernel-checked library)',
                         'axioms: ' + ', '.join(proof.get('axioms_used', []) or ['none']),
                         'translator harness/translate (AST rules -> Generated/*.lean; for bake_geometry, the setters, the brdf constructors, get_directivity and the two visibility scans: recognisers = recorded normal forms + fixed Lean text); opaque in the translated glue: _point_in_polygon, patch2patch_ff_universal, _rotate_coords_to_normal, pyfar arithmetic and nearest-point query',
                         'correspondence check (differential, finite sample) between Lean model at Float and /repo',
                         'real-number semantics of the theorems vs float64 of the code'],
        'theorems': proof.get('theorems', []),
        'proof_failures': proof.get('failures', []),
        'generated_facts': {k: v.get('facts') for k, v in proof.get('translated', {}).items()},
        'evaluations': ctx.cases + ctx.oracle_evals,
        'distinct_nontrivial': len(ctx.nontrivial),
        'rule': getattr(mod, 'RULE', ''),
        'samples': ctx.samples if ctx.samples else ['(none)'],
        'correspondence': dict(ctx.cmp.summary(), cases=ctx.cases,
                               first_mismatches=[list(m) for m in ctx.cmp.mismatches[:3]]),
        'oracle_evaluations_on_implementation': ctx.oracle_evals,
        'distribution': ctx.dist,
        'measured_not_proved': ctx.measured,
        'notes': ctx.notes,
        'explanation': getattr(mod, 'EXPLANATION', ''),
    }
    if 'leanchecker' in proof:
        cov['leanchecker'] = proof['leanchecker']
    if cov['discharged'] < 1 or cov['obligations'] < 1:
        # proof side broken: the proof-level keys would not validate; fall back to the generic keys
        cov['discharged_count'] = cov.pop('discharged')
        cov['obligations_count'] = cov.pop('obligations')
    common.write_evidence(prop, tier, seed, level, cov, getattr(mod, 'ASSUMPTIONS', []),
                          timer.s(), len(new_violations) + (1 if rc == 1 and not new_violations else 0))
    print('%s %s: theorems %d/%d, correspondence cases %d (values %d, mismatches %d), oracle evals %d, %.1fs -> %s'
          % (prop, tier, proof.get('discharged', 0), proof.get('obligations', 0), ctx.cases, ctx.cmp.n_values,
             len(ctx.cmp.mismatches), ctx.oracle_evals, timer.s(), 'OK' if rc == 0 else 'VIOLATION'))
    return rc


if __name__ == '__main__':
    try:
        sys.exit(main())
    except SystemExit:
        raise
    except Exception:
        traceback.print_exc()
        sys.exit(2)
