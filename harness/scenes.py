"""Scene generators built from the repo's own constructors (mostly valid inputs)."""
import numpy as np
from . import common

FREQS = [31.5, 62.5, 125.0, 250.0, 500.0, 1000.0]      # third-octave style centres: not all whole numbers of Hz


def pf():
    common.import_repo()
    import pyfar
    return pyfar


def hemisphere_sampling(n_theta, n_phi, weight_scale=1.0):
    """Gauss-Legendre in cos(theta) x equiangular azimuth on the upper hemisphere.
    Weights integrate the hemisphere (sum = 2*pi*weight_scale)."""
    x, w = np.polynomial.legendre.leggauss(n_theta)
    ct = (x + 1) / 2            # cos(theta) in (0,1)
    wt = w / 2
    phi = (np.arange(n_phi) + 0.5) * 2 * np.pi / n_phi
    col = np.repeat(np.arccos(ct), n_phi)
    az = np.tile(phi, n_theta)
    weights = np.repeat(wt, n_phi) * (2 * np.pi / n_phi) * weight_scale
    return pf().Coordinates.from_spherical_colatitude(az, col, np.ones_like(az), weights=weights)


def single_dir():
    return pf().Coordinates(0, 0, 1, weights=1)


def gen_room_params(rng, small=True):
    """Shoebox sides and a patch size keeping side/p at least 0.05 away from an integer."""
    while True:
        sides = rng.uniform(1.2, 3.2 if small else 6.0, size=3)
        p = float(rng.uniform(0.8, 1.9 if small else 2.5))
        q = sides / p
        if np.all(q >= 1.05) and np.all(np.abs(q - np.round(q)) >= 0.05):
            n = np.floor(q).astype(int)
            npatch = 2 * (n[0] * n[1] + n[0] * n[2] + n[1] * n[2])
            if npatch <= (30 if small else 120):
                # aspect of patches < 2
                real = sides / n
                if real.max() / real.min() < 1.95:
                    return [float(s) for s in sides], p


def build_fast(sides, patch, absorption=None, att=None, n_bands=1, sampling=None,
               tables=None, setter_order=None, origin=(0., 0., 0.), install=None, sampling_in=None):
    """DirectionalRadiosityFast on a shoebox.
    absorption: (6, B) per-wall per-band absorption for Lambertian single/multi-direction
    tables: optional list of 6 arrays (n_in, n_out, B) of raw BRDF values (before *pi)
    sampling: pf.Coordinates for in/out directions (default single direction)
    att: (B,) air attenuation or None
    """
    sp = common.import_repo()
    P = pf()
    walls = sp.testing.shoebox_room_stub(*sides)
    if any(origin):
        walls = [sp.geometry.Polygon(w.pts + np.array(origin), w.up_vector, w.normal) for w in walls]
    r = sp.DirectionalRadiosityFast.from_polygon(walls, patch)
    freqs = FREQS[:n_bands]
    ops = []
    if absorption is not None or tables is not None:
        for w in range(6):
            ops.append(('brdf', w))
    if att is not None:
        ops.append(('att', None))
    if setter_order is not None:
        ops = [ops[k] for k in setter_order]
    if install == 'default-first' and (absorption is not None or tables is not None):
        # another way to reach the same configuration: wall 0's material on ALL walls first, the
        # other walls re-assigned one by one afterwards
        ops = [('brdf-all', 0)] + [o for o in ops if o != ('brdf', 0)]
    for kind, w in ops:
        if kind == 'att':
            r.set_air_attenuation(P.FrequencyData(np.asarray(att, dtype=float), freqs))
        else:
            samp = single_dir() if sampling is None else sampling.copy()
            samp_i = samp if sampling_in is None else sampling_in.copy()
            n = samp.csize
            if tables is not None:
                data = np.asarray(tables[w], dtype=float)
            else:
                data = np.ones((samp_i.csize, n, n_bands)) * (1 - np.asarray(absorption[w], dtype=float)) / np.pi
            r.set_wall_brdf(list(range(6)) if kind == 'brdf-all' else [w], P.FrequencyData(data, freqs), samp_i.copy(), samp.copy())
    return r


def gen_materials(rng, n_bands, kind=None):
    """(6, B) absorption; mixture of uniform / non-uniform / with fully absorbing or rigid walls."""
    kind = kind or rng.choice(['uniform', 'nonuniform', 'extremes'])
    if kind == 'uniform':
        a = np.tile(rng.uniform(0.05, 0.9, size=(1, n_bands)), (6, 1))
    elif kind == 'nonuniform':
        a = rng.uniform(0.0, 1.0, size=(6, n_bands))
    else:
        a = rng.uniform(0.0, 1.0, size=(6, n_bands))
        a[rng.integers(0, 6)] = 1.0
        a[rng.integers(0, 6)] = 0.0
        if n_bands > 1:
            # fully absorbing / rigid in ONE band only (e.g. the first), ordinary in the others
            a[rng.integers(0, 6), int(rng.choice([0, 0, n_bands - 1]))] = 1.0
            a[rng.integers(0, 6), int(rng.integers(0, n_bands))] = 0.0
    return a, str(kind)


def gen_point_inside(rng, sides, margin=0.2, origin=(0., 0., 0.)):
    s = np.asarray(sides)
    return (rng.uniform(margin, 1 - margin, size=3) * s + np.asarray(origin))


def coords(p):
    p = np.atleast_2d(np.asarray(p, dtype=float))
    return pf().Coordinates(p[:, 0], p[:, 1], p[:, 2])
