"""Shape-level life-cycle correspondence (C18, C15): random call histories on a real
DirectionalRadiosityFast — including the ones the implementation refuses — against the Lean
model `Sparrow.Shape` (driver command `shapelife`): after every step the abstract saved
dictionary (shapes of everything `to_dict()` saves) and whether `from_dict` accepts it."""
from fractions import Fraction
import copy
import numpy as np
from . import common, scenes, lifecycle

# frequency vectors and their (size, tag) identity in the model; tag 0 is the default vector [0]
FREQS = {'Z': ([0.0], (1, 0)), 'F1': ([62.5], (1, 1)), 'F2': ([31.5, 62.5], (2, 1)),
         'F3': ([31.5, 62.5, 125.0], (3, 1)), 'G2': ([40.5, 80.0], (2, 2))}
W = 6


def directions(n):
    """n directions in the upper half space (n = 1: the normal)."""
    import pyfar as pf
    if n == 1:
        return pf.Coordinates(0, 0, 1, weights=1)
    az = np.arange(n) * 2 * np.pi / n + 0.1
    col = np.full(n, 0.7)
    return pf.Coordinates.from_spherical_colatitude(az, col, np.ones(n), weights=np.full(n, 2 * np.pi / n))


def frac(x):
    f = Fraction(float(x))
    return '%d %d' % (f.numerator, f.denominator)


def gen_ops(rng):
    """A history; mostly the legal pipeline, with deliberate irregularities mixed in."""
    fkey = str(rng.choice(['F1', 'F2', 'F3', 'Z']))
    n_in = int(rng.choice([1, 1, 3]))
    n_out = int(rng.choice([1, 3, 4])) if n_in > 1 else 1
    ops = []

    def setter(walls=None, nin=n_in, nout=n_out, fk=fkey):
        return ('S', sorted(int(w) for w in (range(W) if walls is None else walls)), nin, nout, fk)
    style = str(rng.choice(['all', 'all', 'groups', 'none', 'partial', 'mixed-sizes', 'freq-mismatch']))
    if style == 'all':
        ops.append(setter())
    elif style == 'groups':
        walls = list(rng.permutation(W))
        while walls:
            k = int(rng.integers(1, len(walls) + 1))
            ops.append(setter(walls[:k]))
            walls = walls[k:]
    elif style == 'partial':
        ops.append(setter(list(rng.permutation(W))[:int(rng.integers(1, W))]))
    elif style == 'mixed-sizes':
        ops.append(setter([0, 1, 2]))
        ops.append(setter([3, 4, 5], nin=n_in, nout=n_out + 1))
    elif style == 'freq-mismatch':
        ops.append(setter([0, 1, 2]))
        ops.append(setter([3, 4, 5], fk=str(rng.choice([k for k in FREQS if k != fkey]))))
    if rng.random() < 0.6:
        ops.insert(int(rng.integers(0, len(ops) + 1)), ('A', fkey if rng.random() < 0.85 else 'G2'))
    if rng.random() < 0.15:
        ops.append(('I',))                      # source before the bake
    if rng.random() < 0.9:
        ops.append(('B',))
    if rng.random() < 0.35:
        # setter after the bake, sometimes changing the counts, sometimes followed by a new bake
        if rng.random() < 0.5:
            ops.append(('A', fkey))
        else:
            ops.append(setter(nout=n_out if rng.random() < 0.5 else n_out + 1, nin=n_in))
        if rng.random() < 0.6:
            ops.append(('B',))
    for _ in range(int(rng.integers(0, 3))):
        ops.append(('I',))
        for _ in range(int(rng.integers(0, 3))):
            dt = float(rng.choice([0.01, 0.004]))
            S = int(rng.integers(2, 9))
            ops.append(('X', 343.0, dt, (S + 0.5) * dt, int(rng.choice([0, 1, 2])), int(rng.random() < 0.6)))
    for _ in range(int(rng.integers(0, 3))):
        ops.insert(int(rng.integers(0, len(ops) + 1)), ('R',))
    return ops


def apply_real(r, op):
    import pyfar as pf
    sp = common.import_repo()
    k = op[0]
    if k == 'S':
        _, walls, nin, nout, fk = op
        f = FREQS[fk][0]
        data = np.full((nin, nout, len(f)), 0.25)
        r.set_wall_brdf(np.array(walls, dtype=int), pf.FrequencyData(data, f), directions(nin), directions(nout))
    elif k == 'A':
        f = FREQS[op[1]][0]
        r.set_air_attenuation(pf.FrequencyData(np.full(len(f), 0.01), f))
    elif k == 'B':
        r.bake_geometry()
    elif k == 'I':
        r.init_source_energy(pf.Coordinates(0.4, 0.45, 0.55))
    elif k == 'X':
        _, c, dt, dur, K, rec = op
        r.calculate_energy_exchange(c, dt, dur, K, recalculate=bool(rec))
    elif k == 'R':
        r = sp.DirectionalRadiosityFast.from_dict(r.to_dict())
    return r


def model_tokens(op, r):
    k = op[0]
    if k == 'S':
        _, walls, nin, nout, fk = op
        n, tag = FREQS[fk][1]
        return ['S', str(len(walls))] + [str(w) for w in walls] + [str(nin), str(nout), str(n), str(tag)]
    if k == 'A':
        n, tag = FREQS[op[1]][1]
        return ['A', str(n), str(tag)]
    if k == 'B':
        vp = getattr(r, '_visible_patches', None)
        return ['B', str(0 if vp is None else int(np.shape(vp)[0]))]
    if k == 'I':
        return ['I']
    if k == 'X':
        _, c, dt, dur, K, rec = op
        return ['X', frac(c), frac(dt), frac(dur), str(K), str(rec)]
    return ['R']


def snapshot(r, kinds):
    sp = common.import_repo()
    d = lifecycle.decode_none(r.to_dict())
    toks = ' '.join(lifecycle.cfg_tokens(d, kinds))
    acc = lifecycle.classify(lambda: sp.DirectionalRadiosityFast.from_dict(copy.deepcopy(r.to_dict())))
    return toks, acc


def run_history(ctx, ops, sides=(1.0, 1.0, 2.0), patch=1.0):
    """Returns (driver line, list of real step results) — a step result is ('ok', tokens, accepted)
    or ('fail', exception name)."""
    kinds = lifecycle.field_kinds()
    r = scenes.build_fast(list(sides), patch)
    ids = [int(x) for x in r._patch_to_wall_ids]
    real = [('ok',) + snapshot(r, kinds)]
    toks = []
    for op in ops:
        try:
            r = apply_real(r, op)
        except Exception as e:  # the implementation refuses the step: the history ends here
            toks += model_tokens(op, r)
            real.append(('fail', type(e).__name__ + ': ' + str(e)[:100]))
            break
        toks += model_tokens(op, r)
        real.append(('ok',) + snapshot(r, kinds))
    n_ops = len(real) - 1
    line = ' '.join(['shapelife', str(W), '4', str(len(ids)), str(len(ids))] + [str(i) for i in ids] + [str(n_ops)] + toks)
    return line, real


def compare(ctx, label, ops, real, out_line):
    assert out_line.startswith('ok '), out_line[:200]
    steps = out_line[3:].split(' | ')
    for k, (rs, ms) in enumerate(zip(real, steps)):
        ms = ms.strip()
        where = '%s step %d (%s)' % (label, k, 'start' if k == 0 else ' '.join(map(str, ops[k - 1]))[:60])
        if rs[0] == 'fail':
            if ms != 'fail':
                ctx.cmp.tag('corr:shape history, refused step [%s]' % where, 'refused: ' + rs[1], 'model accepts the step')
            else:
                ctx.cmp.tag('corr:shape history, refused step', 'fail', 'fail')
            ctx.count('shape.step_refused.' + rs[1].split(':')[0])
            return
        if ms == 'fail':
            op = ops[k - 1]
            if op[0] == 'X' and op[4] >= 1:
                # documented: exchanging with baked factors that do not fit the configuration is unspecified
                ctx.count('shape.unspecified_exchange_with_stale_factors')
                return
            ctx.cmp.tag('corr:shape history [%s]' % where, 'step succeeds', 'model refuses the step')
            return
        mt, macc = ms.rsplit(' # ', 1)
        ctx.cmp.tag('corr:shape history, saved shapes [%s]' % where, rs[1], mt)
        ctx.cmp.tag('corr:shape history, restore accepted [%s]' % where, rs[2] == 'ok', macc == '1')
        ctx.count('shape.state_accepted' if rs[2] == 'ok' else 'shape.state_rejected.' + rs[2])


def corr(ctx, n):
    if lifecycle.field_kinds() is None:
        ctx.count('shape.translator_unavailable')
        return
    lines, reals, opss = [], [], []
    for h in range(n):
        ops = gen_ops(ctx.rng)
        line, real = run_history(ctx, ops)
        lines.append(line)
        reals.append(real)
        opss.append(ops)
        ctx.cases += 1
        ctx.oracle_evals += len(real)
        ctx.count('shape.history_len_%d' % min(len(ops), 12))
        ctx.nontriv([list(map(str, o)) for o in ops])
        ctx.sample({'shape_history': [list(map(str, o)) for o in ops]}, limit=2)
    for h, out in enumerate(common.run_driver(lines)):
        compare(ctx, 'h%d' % h, opss[h], reals[h], out)


ALPHABET = [('S', [0, 1, 2, 3, 4, 5], 1, 1, 'F2'), ('S', [0, 2], 3, 4, 'F2'), ('S', [0, 1, 2, 3, 4, 5], 3, 4, 'F2'),
            ('A', 'F2'), ('A', 'Z'), ('B',), ('I',), ('X', 343.0, 0.01, 0.045, 0, 1), ('X', 343.0, 0.004, 0.03, 1, 0), ('R',)]


def exhaustive(ctx, depth, budget_s=1200):
    """Thorough tier: EVERY call history up to `depth` steps over a fixed alphabet (materials on all
    walls / on two walls / multi-direction, attenuation with matching and with other frequencies,
    bake, source, exchange order 0 with recalculation, exchange order 1 without, save/restore) on a
    one-patch-per-wall room, against the shape-level model, step by step."""
    import itertools
    if lifecycle.field_kinds() is None:
        return
    t = common.Timer()
    lines, reals, opss = [], [], []
    n = 0
    for L in range(1, depth + 1):
        for ops in itertools.product(ALPHABET, repeat=L):
            if t.s() > budget_s:
                ctx.notes.append('exhaustive shape histories stopped by the time budget after %d histories' % n)
                break
            ops = list(ops)
            line, real = run_history(ctx, ops, sides=(1.0, 1.0, 1.0), patch=1.0)
            lines.append(line)
            reals.append(real)
            opss.append(ops)
            n += 1
            ctx.oracle_evals += len(real)
    ctx.count('shape.exhaustive_histories', n)
    ctx.cases += n
    for h, out in enumerate(common.run_driver(lines, timeout=3600)):
        compare(ctx, 'x%d' % h, opss[h], reals[h], out)

