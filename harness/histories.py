"""Operation histories on real DirectionalRadiosityFast objects and on the Lean life-cycle
model (driver command `life`); content hashes of every attribute after every step."""
import hashlib
import os
import tempfile
import numpy as np
from . import common, scenes, energy

W = 6


class Pool:
    """A configuration family: geometry + pools of named materials, attenuations, sources,
    run parameters.  Equal names denote equal data (the model's `inp` terms)."""

    def __init__(self, rng, multi_dir=None, n_bands=None, in_sampling=None, seed=None):
        # every pool has its own seed (drawn from the run's generator), so a replay can rebuild it
        self.seed = int(rng.integers(0, 2**31)) if seed is None else int(seed)
        self.ctor = [multi_dir, n_bands, in_sampling]
        rng = np.random.Generator(np.random.PCG64(self.seed))
        self.sides, self.patch = scenes.gen_room_params(rng, small=True)
        self.B = int(n_bands or rng.choice([1, 2, 3]))
        md = (rng.random() < 0.4) if multi_dir is None else multi_dir
        self.samp_par = (1, int(rng.choice([3, 4])), float(rng.uniform(0.5, 2)), float(rng.uniform(0, 1))) if md else None
        n = 1 if not md else self.samp_par[0] * self.samp_par[1]
        # incoming directions on their own sampling (other count, other positions) in some pools
        self.samp_in_par = (1, int(rng.choice([2, 3, 5])), float(rng.uniform(0.5, 2)), float(rng.uniform(0, 1))) \
            if (md and (rng.random() < 0.6 if in_sampling is None else in_sampling)) else None
        n_in = n if self.samp_in_par is None else self.samp_in_par[0] * self.samp_in_par[1]
        self.mats = {}
        for k in range(4):
            if md and k % 2 == 1:
                t = rng.uniform(0, 1 / np.pi, size=(n_in, n, self.B))
            else:
                t = np.ones((n_in, n, self.B)) * (1 - rng.uniform(0, 1, size=self.B)) / np.pi
            self.mats['m%d' % k] = t
        self.atts = {'a%d' % k: rng.uniform(0, 0.3, size=self.B) for k in range(2)}
        self.atts['a0'] = np.zeros(self.B) if rng.random() < 0.3 else self.atts['a0']
        self.srcs = {'s%d' % k: scenes.gen_point_inside(rng, self.sides) for k in range(3)}
        # a source that sees only part of the room: in the plane of the floor (the coplanar floor
        # patches get nothing), and one outside the room
        self.srcs['s3'] = np.array([0.45 * self.sides[0], 0.55 * self.sides[1], 0.0])
        self.srcs['s4'] = np.array([-0.7, 0.4 * self.sides[1], 0.6 * self.sides[2]])
        diag = float(np.linalg.norm(self.sides))
        self.pars = {}
        for k in range(3):
            c = float(rng.uniform(330, 350))
            dt = float(rng.choice([1e-3, 2e-3, 4e-3]))
            K = int(rng.integers(0, 3))
            S = int(np.ceil((K + 2) * diag / c / dt)) + int(rng.integers(2, 6))
            if k == 2:
                # a histogram shorter than the first arrival at the farthest patches
                S = max(2, int(float(rng.uniform(0.15, 0.6)) * diag / c / dt))
            self.pars['p%d' % k] = (c, dt, (S + 0.5) * dt, K)
        self.recv = scenes.gen_point_inside(rng, self.sides)
        self.freqs = scenes.FREQS[:self.B]

    def sampling(self, variant=0):
        """Outgoing direction set; `variant` 1 is another grid with the SAME number of directions
        (used by the materials m2, m3)."""
        if self.samp_par is None:
            return scenes.single_dir()
        nt, nph, scale, off = self.samp_par
        s = scenes.hemisphere_sampling(nt, nph, weight_scale=scale)
        s.azimuth = s.azimuth + off * 0.37 + 0.9 * variant
        if variant:
            s.colatitude = np.clip(s.colatitude * 0.8 + 0.05, 0.02, np.pi / 2 - 0.02)
        return s

    def sampling_in(self, variant=0):
        if self.samp_in_par is None:
            return self.sampling(variant)
        nt, nph, scale, off = self.samp_in_par
        s = scenes.hemisphere_sampling(nt, nph, weight_scale=scale)
        s.azimuth = s.azimuth + off * 0.41 + 0.7 * variant
        s.colatitude = np.clip(s.colatitude + 0.11 - 0.05 * variant, 0.02, np.pi / 2 - 0.02)
        return s

    def describe(self):
        return {'sides': self.sides, 'patch': self.patch, 'B': self.B, 'multi_dir': self.samp_par, 'incoming_sampling': self.samp_in_par,
                'pars': {k: [float(x) for x in v] for k, v in self.pars.items()}, 'pool_seed': self.seed, 'pool_ctor': self.ctor}

    @staticmethod
    def from_description(d):
        md, nb, ins = d.get('pool_ctor', [None, None, None])
        return Pool(None, multi_dir=md, n_bands=nb, in_sampling=ins, seed=d['pool_seed'])


def parse_ops(ops):
    """Inverse of `[list(map(str, o)) for o in ops]` (replay files)."""
    import ast as _ast
    out = []
    for o in ops:
        if o[0] == 'S':
            out.append(('S', list(_ast.literal_eval(o[1])), o[2]))
        elif o[0] == 'X':
            out.append(('X', o[1], int(o[2])))
        else:
            out.append(tuple(o))
    return out


def gen_setters(rng, pool, none_prob=0.2, overrides=False):
    """Setter ops covering all six walls (or none at all), in random grouping and order; with
    `overrides`, sometimes followed by a call that re-assigns a strict subset of the walls."""
    if rng.random() < none_prob:
        ops = []
    else:
        walls = list(rng.permutation(W))
        ops = []
        while walls:
            k = int(rng.integers(1, len(walls) + 1))
            grp, walls = walls[:k], walls[k:]
            ops.append(('S', sorted(int(w) for w in grp), 'm%d' % int(rng.integers(0, 4))))
        if overrides and rng.random() < 0.4:
            sub = sorted(int(w) for w in rng.permutation(W)[:int(rng.integers(1, W))])
            ops.append(('S', sub, 'm%d' % int(rng.integers(0, 4))))
    if rng.random() < 0.7:
        ops.insert(int(rng.integers(0, len(ops) + 1)), ('A', 'a%d' % int(rng.integers(0, 2))))
    return ops


def gen_history(rng, pool, with_restore=True, n_cycles=None, norecalc=False, late_setters=False):
    ops = gen_setters(rng, pool, overrides=True)
    ops += [('B',)] * int(rng.choice([1, 1, 2]))
    if late_setters and rng.random() < 0.4:
        # materials / attenuation set (again) AFTER the bake, then (optionally saved and) baked again
        if rng.random() < 0.5:
            ops.append(('A', 'a%d' % int(rng.integers(0, 2))))
        else:
            ops.append(('S', list(range(W)), 'm%d' % int(rng.integers(0, 4))))
        if with_restore and rng.random() < 0.6:
            ops.append(('R', str(rng.choice(['dict', 'file']))))
        ops.append(('B',))
    n_cycles = int(rng.integers(1, 4)) if n_cycles is None else n_cycles
    for _ in range(n_cycles):
        src = 's%d' % int(rng.choice([0, 1, 2, 0, 1, 2, 3, 4]))
        ops += [('I', src)] * int(rng.choice([1, 1, 2]))
        if rng.random() < 0.5:
            # change duration with recalculate=True: first a histogram shorter than the first
            # arrival at the farthest patches (p2), then a long one, without re-sourcing
            ops.append(('X', 'p2', 1))
            ops.append(('X', 'p%d' % int(rng.integers(0, 2)), 1))
        else:
            for _ in range(int(rng.choice([1, 1, 2]))):
                p = 'p%d' % int(rng.integers(0, 3))
                ops.append(('X', p, 1))
        if rng.random() < 0.25 and any(o[0] == 'S' for o in ops):
            # another attenuation on the same object, then bake / same source / exchange again
            lastx = [o for o in ops if o[0] == 'X'][-1]
            ops += [('A', 'a%d' % int(rng.integers(0, 2))), ('B',), ('I', src), ('X', lastx[1], 1)]
        if norecalc and rng.random() < 0.4:
            # ask again with other parameters but WITHOUT recalculate: the histogram is kept
            last = [o for o in ops if o[0] == 'X'][-1][1]
            other = [q for q in ('p0', 'p1', 'p2') if q != last]
            ops.append(('X', str(rng.choice(other)), 0))
            if with_restore and rng.random() < 0.6:
                ops.append(('R', str(rng.choice(['dict', 'file']))))
    if with_restore:
        for _ in range(int(rng.integers(0, 3))):
            ops.insert(int(rng.integers(0, len(ops) + 1)), ('R', str(rng.choice(['dict', 'file']))))
    return ops


def canonical(ops):
    """setters ; bake ; init(last src) ; exchange(last par)."""
    setters = [o for o in ops if o[0] in ('S', 'A')]
    last_i = [o for o in ops if o[0] == 'I'][-1]
    last_x = [o for o in ops if o[0] == 'X'][-1]
    return setters + [('B',), last_i, ('X', last_x[1], 1)]


# ------------------------------------------------------------------ real side
def h_arr(x):
    if x is None:
        return '~'
    a = np.ascontiguousarray(np.asarray(x, dtype=np.float64))
    return hashlib.sha1(repr(a.shape).encode() + a.tobytes()).hexdigest()[:16]


def snapshot(r):
    """Content hashes of the attributes the model tracks."""
    d = {}
    d['freq'] = h_arr(r._frequencies)
    d['brdf'] = None if r._brdf is None else [h_arr(np.real(b)) for b in r._brdf]
    d['index'] = None if r._brdf_index is None else [int(x) for x in r._brdf_index]
    d['dirsIn'] = None if r._brdf_incoming_directions is None else \
        [h_arr(c.cartesian) if c is not None else '~' for c in r._brdf_incoming_directions]
    d['dirsOut'] = None if r._brdf_outgoing_directions is None else \
        [h_arr(c.cartesian) if c is not None else '~' for c in r._brdf_outgoing_directions]
    for k, a in (('att', '_air_attenuation'), ('vis', '_visibility_matrix'), ('visible', '_visible_patches'),
                 ('ff', '_form_factors'), ('fft', '_form_factors_tilde'), ('p2o', '_patch_2_brdf_outgoing_index'),
                 ('c', '_speed_of_sound'), ('dt', '_etc_time_resolution'), ('dur', '_etc_duration'),
                 ('d0', '_distance_patches_to_source'), ('e0', '_energy_init_source'), ('etc', '_energy_exchange_etc')):
        d[k] = h_arr(getattr(r, a))
    d['source'] = '~' if getattr(r, '_source', None) is None else 'set'
    if r._brdf is not None and r._brdf_index is not None and len(r._brdf) > 0:
        d['eff'] = [h_arr(np.real(r._brdf[int(k)])) for k in r._brdf_index]
    else:
        d['eff'] = None
    return d


def restore(r, how, tmpdir):
    sp = common.import_repo()
    if how == 'dict':
        return sp.DirectionalRadiosityFast.from_dict(r.to_dict())
    path = os.path.join(tmpdir, 'state.far')
    r.write(path)
    return sp.DirectionalRadiosityFast.from_read(path)


def apply_op(r, op, pool, tmpdir, inputs_log=None):
    """Apply one op to a real object; returns the (possibly new) object."""
    import pyfar as pf
    k = op[0]
    if k == 'S':
        data = pool.mats[op[2]].copy()
        fd = pf.FrequencyData(data, pool.freqs)
        variant = 1 if op[2] in ('m2', 'm3') else 0
        si, so = pool.sampling_in(variant), pool.sampling(variant)
        walls = np.array(op[1])
        before = (h_arr(fd.freq), h_arr(si.cartesian), h_arr(so.cartesian), h_arr(walls), h_arr(si.weights))
        r.set_wall_brdf(walls, fd, si, so)
        after = (h_arr(fd.freq), h_arr(si.cartesian), h_arr(so.cartesian), h_arr(walls), h_arr(si.weights))
        if inputs_log is not None:
            inputs_log.append(('set_wall_brdf', before == after))
    elif k == 'A':
        fd = pf.FrequencyData(pool.atts[op[1]].copy(), pool.freqs)
        before = h_arr(fd.freq)
        r.set_air_attenuation(fd)
        if inputs_log is not None:
            inputs_log.append(('set_air_attenuation', before == h_arr(fd.freq)))
    elif k == 'B':
        r.bake_geometry()
    elif k == 'I':
        src = scenes.coords(pool.srcs[op[1]])
        before = h_arr(src.cartesian)
        r.init_source_energy(src)
        if inputs_log is not None:
            inputs_log.append(('init_source_energy', before == h_arr(src.cartesian)))
    elif k == 'X':
        c, dt, dur, K = pool.pars[op[1]]
        r.calculate_energy_exchange(c, dt, dur, K, recalculate=bool(op[2]))
    elif k == 'R':
        r = restore(r, op[1], tmpdir)
    else:
        raise ValueError(op)
    return r


class OpFailed(Exception):
    def __init__(self, k, op, exc):
        super().__init__('%s at step %d: %s' % (op, k, repr(exc)[:200]))
        self.k, self.op, self.exc = k, op, exc


def run_real(ops, pool, tmpdir, inputs_log=None):
    r = scenes.build_fast(pool.sides, pool.patch)
    snaps = [snapshot(r)]

    def counts(obj):
        d = obj._brdf_outgoing_directions
        n_out = 1 if d is None else next((c.csize for c in d if c is not None), 1)
        return (n_out, 1 if obj._frequencies is None else int(np.size(obj._frequencies)))
    at_bake = None
    for k, op in enumerate(ops):
        try:
            r = apply_op(r, op, pool, tmpdir, inputs_log)
        except Exception as e:      # a legal history step that the implementation refuses
            err = OpFailed(k, op, e)
            walls_set = set(w for o in ops[:k] if o[0] == 'S' for w in o[1])
            err.partial_walls = 0 < len(walls_set) < W
            # a setter since the last bake changed the number of bands / outgoing directions
            err.stale_baked = at_bake is not None and counts(r) != at_bake
            raise err
        if op[0] == 'B':
            at_bake = counts(r)
        snaps.append(snapshot(r))
    return r, snaps


# ------------------------------------------------------------------ model side
def life_line(ops, pool):
    toks = ['life', str(W), 'G', str(len(ops))]
    for op in ops:
        k = op[0]
        if k == 'S':
            toks += ['S', str(len(op[1]))] + [str(w) for w in op[1]] + [op[2]]
        elif k == 'A':
            toks += ['A', op[1]]
        elif k == 'B':
            toks += ['B']
        elif k == 'I':
            toks += ['I', op[1]]
        elif k == 'X':
            z = 1 if pool.pars[op[1]][3] < 1 else 0
            toks += ['X', op[1], str(z), str(int(op[2]))]
        elif k == 'R':
            toks += ['R']
    return ' '.join(toks)


def parse_states(line):
    assert line.startswith('ok '), line[:200]
    out = []
    for st in line[3:].split(' | '):
        d = {}
        for kv in st.strip().split(';'):
            k, v = kv.split('=', 1)
            d[k] = v
        out.append(d)
    return out


def split_list(v):
    """'[a/b/c]' -> list of term strings (terms contain no '/' at depth 0 other than separators)."""
    if v == '~':
        return None
    body = v[1:-1]
    if body == '':
        return []
    out, depth, cur = [], 0, ''
    for ch in body:
        if ch == '(':
            depth += 1
        elif ch == ')':
            depth -= 1
        if ch == '/' and depth == 0:
            out.append(cur)
            cur = ''
        else:
            cur += ch
    out.append(cur)
    return out


class TermTable:
    """Global 'same term => same content' table of one check run."""

    def __init__(self, ctx):
        self.ctx = ctx
        self.t = {}

    def see(self, where, term, h):
        if term == '~' or h == '~':
            self.ctx.cmp.tag('corr:life none-ness %s' % where, h == '~', term == '~')
            return
        key = hashlib.sha1(term.encode()).hexdigest()
        if key in self.t:
            h0, w0 = self.t[key]
            ok = self.ctx.cmp.tag('corr:life same-term-same-content %s (first seen %s)' % (where, w0), h, h0)
        else:
            self.t[key] = (h, where)
            self.ctx.cmp.n_values += 1
            self.ctx.cmp.n_bit_equal += 1


def compare(ctx, table, tag, ops, snaps, states):
    cmpo = ctx.cmp
    if len(snaps) != len(states):
        cmpo.tag('corr:life length ' + tag, len(snaps), len(states))
        return
    for k, (real, mod) in enumerate(zip(snaps, states)):
        where = '%s step %d (%s)' % (tag, k, '-' if k == 0 else ' '.join(str(x) for x in ops[k - 1]))
        for f in ('freq', 'att', 'vis', 'visible', 'ff', 'fft', 'p2o', 'c', 'dt', 'dur', 'd0', 'e0', 'etc'):
            table.see(where + ' ' + f, mod[f], real[f])
        cmpo.tag('corr:life source ' + where, real['source'] == '~', mod['source'] == '~')
        mi = split_list(mod['index'])
        cmpo.tag('corr:life brdf_index ' + where, real['index'], None if mi is None else [int(x) for x in mi])
        for f in ('dirsIn', 'dirsOut'):
            ml = split_list(mod[f])
            if (ml is None) != (real[f] is None) or (ml is not None and len(ml) != len(real[f])):
                cmpo.tag('corr:life %s presence %s' % (f, where), real[f] is None, ml is None)
                continue
            if ml is not None:
                for w, (t, h) in enumerate(zip(ml, real[f])):
                    table.see('%s %s[%d]' % (where, f, w), t, h)
        mb = split_list(mod['brdf']) or []
        rb = real['brdf'] or []
        if cmpo.tag('corr:life len(_brdf) ' + where, len(rb), len(mb)):
            for i, (t, h) in enumerate(zip(mb, rb)):
                table.see('%s brdf[%d]' % (where, i), t, h)
        me = split_list(mod['eff'])
        if real['eff'] is not None and me is not None and real['index'] is not None:
            for w, (t, h) in enumerate(zip(me, real['eff'])):
                table.see('%s eff[%d]' % (where, w), t, h)
