"""Reference view-factor integrator, independent of the repo: the double contour integral
F_ij = |1/(2 pi A_i) sum_{a,b} (e_a.e_b) int int ln|p_a(s)-q_b(t)| ds dt| with composite Gauss-Legendre
quadrature graded towards the edge ends (copes with the log singularity of touching patches);
coincident edges are integrated analytically.  Reproduces the closed forms of
sparrowpy.testing.exact_ff_solutions to 1e-10 or better on the configurations they cover."""
import numpy as np


def _gl(n):
    x, w = np.polynomial.legendre.leggauss(n)
    return (x + 1) / 2, w / 2


def _graded(n, levels):
    x, w = _gl(n)
    br = [0.0] + [0.5 ** k for k in range(levels, 0, -1)]
    nodes, wts = [], []
    for a, b in zip(br[:-1], br[1:]):
        nodes.append(a + (b - a) * x)
        wts.append((b - a) * w)
    nodes = np.concatenate(nodes)
    wts = np.concatenate(wts)
    return np.concatenate([nodes, 1 - nodes[::-1]]), np.concatenate([wts, wts[::-1]])


def contour_ref(Pi, Pj, Ai, n=24, levels=10):
    nodes, wts = _graded(n, levels)
    tot = 0.0
    ni, nj = len(Pi), len(Pj)
    for a in range(ni):
        p0, p1 = Pi[a], Pi[(a + 1) % ni]
        ea = p1 - p0
        for b in range(nj):
            q0, q1 = Pj[b], Pj[(b + 1) % nj]
            eb = q1 - q0
            dot = ea @ eb
            if abs(dot) < 1e-15:
                continue
            same = np.linalg.norm(p0 - q0) < 1e-9 and np.linalg.norm(p1 - q1) < 1e-9
            opp = np.linalg.norm(p0 - q1) < 1e-9 and np.linalg.norm(p1 - q0) < 1e-9
            if same or opp:
                L = np.linalg.norm(ea)
                val = np.log(L) - 1.5
            else:
                P = p0[None, :] + nodes[:, None] * ea[None, :]
                Q = q0[None, :] + nodes[:, None] * eb[None, :]
                r = np.linalg.norm(P[:, None, :] - Q[None, :, :], axis=-1)
                r = np.maximum(r, 1e-300)
                val = (wts[:, None] * wts[None, :] * np.log(r)).sum()
            tot += dot * val
    return abs(tot / (2 * np.pi * Ai))


def area(P):
    return sum(0.5 * np.linalg.norm(np.cross(P[k + 1] - P[0], P[k + 2] - P[0])) for k in range(len(P) - 2))
