"""Life-cycle utilities shared by C15, C16, C18: staged real objects, saved states, the
abstraction of a saved dict to the generated `Cfg` record, the corruption catalogue."""
import copy
from fractions import Fraction
import numpy as np
from . import common, scenes, energy

STAGES = ['constructed', 'materials', 'baked', 'sourced', 'exchanged']


def staged_objects(sc):
    """Yield (stage name, object) for the pipeline prefix stages of scene `sc`."""
    sp = common.import_repo()
    r = scenes.build_fast(sc['sides'], sc['patch'])
    yield 'constructed', r
    r = energy.build(sc)
    yield 'materials', r
    r.bake_geometry()
    yield 'baked', r
    r.init_source_energy(scenes.coords(sc['src']))
    yield 'sourced', r
    r.calculate_energy_exchange(sc['c'], sc['dt'], energy.duration_of(sc), sc['K'], recalculate=True)
    yield 'exchanged', r


def decode_none(d):
    return {k: (None if isinstance(v, str) and v == 'None' else v) for k, v in d.items()}


def field_kinds():
    """Constructor fields and their conversion kinds, from the translator; `None` when the
    constructor is outside the translator's whitelist (the tie of C18 is then broken — reported by
    the proof side — and the checks go on with the oracle on the implementation alone)."""
    from .translate import checkgen
    from .translate.pyast import TranslationError
    try:
        return checkgen.init_fields()
    except TranslationError:
        return None


def _shape(v):
    return list(np.shape(np.array(v)))


def cfg_tokens(d, kinds):
    """Line-protocol tokens of the abstract configuration of constructor kwargs `d`."""
    import pyfar as pf
    toks = []

    def shape_t(s):
        return [str(len(s))] + [str(int(x)) for x in s]
    for name, kind, _ in kinds:
        v = d.get(name)
        if kind in ('arr3', 'arr2'):
            toks += shape_t(_shape(v))
        elif kind == 'ids':
            a = np.array(v)
            toks += shape_t(list(a.shape))
            vals = a.astype(np.int64).ravel().tolist()
            toks += shape_t(vals)
        elif kind == 'optarr':
            toks += ['0'] if v is None else ['1'] + shape_t(_shape(v))
        elif kind == 'optscalar':
            if v is None:
                toks += ['0']
            else:
                fr = Fraction(float(v))
                toks += ['1', str(fr.numerator), str(fr.denominator)]
        elif kind == 'optlist':
            toks += ['0'] if v is None else ['1', str(len(v))]
        elif kind == 'int':
            toks += [str(int(v))]
        elif kind == 'coordlist':
            if v is None:
                toks += ['0']
            else:
                toks += ['1', str(len(v))]
                for e in v:
                    isc = isinstance(e, pf.Coordinates)
                    toks += ['1' if isc else '0', str(int(e.csize) if isc else 0)]
        else:
            raise ValueError(kind)
    return toks


def classify(fn):
    try:
        fn()
        return 'ok'
    except ValueError:
        return 'value_error'
    except TypeError:
        return 'type_error'
    except IndexError:
        return 'index_error'
    except AssertionError:
        return 'assertion'
    except Exception as e:  # noqa
        return 'other:' + type(e).__name__


# ------------------------------------------------------------------ corruption catalogue
def A(x):
    return np.array(x)


def catalogue():
    """(name, field it needs, mutation) — exactly the statement's list: wrong ranks or lengths of
    walls / normals / up vectors / patches / wall ids / frequencies / form factors / transfer
    factors / attenuation / distances / initial energy / histogram; wall ids outside the wall
    list; non-positive speed, resolution, duration; direction lists with non-Coordinates."""
    C = []

    def add(name, field, fn):
        C.append((name, field, fn))
    add('walls_points rank 4', 'walls_points', lambda d: d.update(walls_points=A(d['walls_points'])[..., None].tolist()))
    add('walls_points last dim 2', 'walls_points', lambda d: d.update(walls_points=A(d['walls_points'])[..., :2].tolist()))
    add('walls_points rank 2', 'walls_points', lambda d: d.update(walls_points=A(d['walls_points'])[:, 0, :].tolist()))
    add('walls_normal fewer rows', 'walls_normal', lambda d: d.update(walls_normal=d['walls_normal'][:-1]))
    add('walls_normal 2 columns', 'walls_normal', lambda d: d.update(walls_normal=A(d['walls_normal'])[:, :2].tolist()))
    add('walls_normal rank 3', 'walls_normal', lambda d: d.update(walls_normal=[d['walls_normal']]))
    add('walls_up_vector fewer rows', 'walls_up_vector', lambda d: d.update(walls_up_vector=d['walls_up_vector'][:-1]))
    add('walls_up_vector rank 1', 'walls_up_vector', lambda d: d.update(walls_up_vector=d['walls_up_vector'][0]))
    add('patches_points fewer', 'patches_points', lambda d: d.update(patches_points=d['patches_points'][:-1]))
    add('patches_points rank 4', 'patches_points', lambda d: d.update(patches_points=A(d['patches_points'])[..., None].tolist()))
    add('patches_points last dim 2', 'patches_points', lambda d: d.update(patches_points=A(d['patches_points'])[..., :2].tolist()))
    add('n_patches + 1', 'n_patches', lambda d: d.update(n_patches=d['n_patches'] + 1))
    add('patch_to_wall_ids fewer', 'patch_to_wall_ids', lambda d: d.update(patch_to_wall_ids=d['patch_to_wall_ids'][:-1]))
    add('patch_to_wall_ids rank 2', 'patch_to_wall_ids', lambda d: d.update(patch_to_wall_ids=[d['patch_to_wall_ids']]))
    add('patch_to_wall_ids id = n_walls', 'patch_to_wall_ids', lambda d: d.update(patch_to_wall_ids=[len(d['walls_points'])] + list(d['patch_to_wall_ids'][1:])))
    add('patch_to_wall_ids id = -1', 'patch_to_wall_ids', lambda d: d.update(patch_to_wall_ids=[-1] + list(d['patch_to_wall_ids'][1:])))
    add('frequencies rank 2', 'frequencies', lambda d: d.update(frequencies=[list(d['frequencies'])]))
    add('frequencies one more bin', 'frequencies', lambda d: d.update(frequencies=list(d['frequencies']) + [16000.0]))
    add('form_factors fewer rows', 'form_factors', lambda d: d.update(form_factors=d['form_factors'][:-1]))
    add('form_factors rank 3', 'form_factors', lambda d: d.update(form_factors=[d['form_factors']]))
    add('form_factors_tilde fewer rows', 'form_factors_tilde', lambda d: d.update(form_factors_tilde=d['form_factors_tilde'][:-1]))
    add('form_factors_tilde one band less', 'form_factors_tilde', lambda d: d.update(form_factors_tilde=A(d['form_factors_tilde'])[..., :-1].tolist()))
    add('form_factors_tilde rank 3', 'form_factors_tilde', lambda d: d.update(form_factors_tilde=A(d['form_factors_tilde'])[..., 0].tolist()))
    add('air_attenuation rank 2', 'air_attenuation', lambda d: d.update(air_attenuation=[list(d['air_attenuation'])]))
    add('air_attenuation one more bin', 'air_attenuation', lambda d: d.update(air_attenuation=list(d['air_attenuation']) + [0.0]))
    add('speed_of_sound 0', 'speed_of_sound', lambda d: d.update(speed_of_sound=0.0))
    add('speed_of_sound negative', 'speed_of_sound', lambda d: d.update(speed_of_sound=-343.0))
    add('etc_time_resolution 0', 'etc_time_resolution', lambda d: d.update(etc_time_resolution=0.0))
    add('etc_duration 0', 'etc_duration', lambda d: d.update(etc_duration=0.0))
    add('etc_duration negative', 'etc_duration', lambda d: d.update(etc_duration=-1.0))
    add('etc_duration missing with histogram', 'energy_exchange_etc', lambda d: d.update(etc_duration=None))
    add('etc_time_resolution missing with histogram', 'energy_exchange_etc', lambda d: d.update(etc_time_resolution=None))
    add('distance_patches_to_source fewer', 'distance_patches_to_source', lambda d: d.update(distance_patches_to_source=d['distance_patches_to_source'][:-1]))
    add('distance_patches_to_source rank 2', 'distance_patches_to_source', lambda d: d.update(distance_patches_to_source=[d['distance_patches_to_source']]))
    add('energy_init_source fewer patches', 'energy_init_source', lambda d: d.update(energy_init_source=d['energy_init_source'][:-1]))
    add('energy_init_source one band less', 'energy_init_source', lambda d: d.update(energy_init_source=A(d['energy_init_source'])[..., :-1].tolist()))
    add('energy_init_source rank 2 (band axis dropped)', 'energy_init_source', lambda d: d.update(energy_init_source=A(d['energy_init_source'])[..., 0].tolist()))
    add('energy_init_source rank 2 (direction axis dropped)', 'energy_init_source', lambda d: d.update(energy_init_source=A(d['energy_init_source'])[:, 0, :].tolist()))
    add('energy_init_source rank 4', 'energy_init_source', lambda d: d.update(energy_init_source=A(d['energy_init_source'])[..., None].tolist()))
    add('form_factors_tilde rank 5', 'form_factors_tilde', lambda d: d.update(form_factors_tilde=A(d['form_factors_tilde'])[..., None].tolist()))
    add('energy_exchange_etc rank 5', 'energy_exchange_etc', lambda d: d.update(energy_exchange_etc=A(d['energy_exchange_etc'])[..., None].tolist()))
    add('energy_exchange_etc fewer patches', 'energy_exchange_etc', lambda d: d.update(energy_exchange_etc=d['energy_exchange_etc'][:-1]))
    add('energy_exchange_etc one sample less', 'energy_exchange_etc', lambda d: d.update(energy_exchange_etc=A(d['energy_exchange_etc'])[..., :-1].tolist()))
    add('energy_exchange_etc rank 3', 'energy_exchange_etc', lambda d: d.update(energy_exchange_etc=A(d['energy_exchange_etc'])[..., 0].tolist()))
    add('brdf_index fewer', 'brdf_index', lambda d: d.update(brdf_index=list(d['brdf_index'])[:-1]))
    add('brdf_incoming_directions not Coordinates', 'brdf_incoming_directions', lambda d: d.update(brdf_incoming_directions=[[0, 0, 1]] + list(d['brdf_incoming_directions'])[1:]))
    add('brdf_outgoing_directions not Coordinates', 'brdf_outgoing_directions', lambda d: d.update(brdf_outgoing_directions=list(d['brdf_outgoing_directions'])[:-1] + [[0, 0, 1]]))
    return C
