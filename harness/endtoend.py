"""End-to-end correspondence: the Lean pipeline model is fed only with the bare scene
description and must reproduce the implementation's visible-pair list, form factors, initial
energies, patch histograms and mono receiver curve."""
import time
import numpy as np
from . import common, scenes, energy
from .common import fhex, fhexs


def pipeline_line(sc, b):
    sp = common.import_repo()
    walls = sp.testing.shoebox_room_stub(*sc['sides'])
    wp = np.array([w.pts for w in walls])
    wn = np.array([w.normal for w in walls], dtype=float)
    wu = np.array([w.up_vector for w in walls], dtype=float)
    samp = energy.sampling_of(sc)
    ref = np.array([[0., 0., 1.]]) if samp is None else np.asarray(samp.cartesian)
    samp_i = energy.sampling_in_of(sc)
    ref_in = np.array([[0., 0., 1.]]) if samp_i is None else np.asarray(samp_i.cartesian)
    n = len(ref)
    n_in = len(ref_in)
    if sc['tables'] is not None:
        tabs = np.array([t[:, :, b] for t in sc['tables']]) * np.pi
    else:
        tabs = np.array([np.ones((n_in, n)) * (1 - sc['absorption'][w, b]) / np.pi for w in range(6)]) * np.pi
    S = int(energy.duration_of(sc) / sc['dt'])
    toks = ['pipeline', '6', fhex(sc['patch']), fhexs(wp), fhexs(wn), fhexs(wu), str(n_in), str(n), '6', fhexs(ref_in), fhexs(ref),
            ' '.join(str(w) for w in range(6)), fhexs(tabs), fhex(sc['att'][b]), fhex(sc['c']), fhex(sc['dt']), str(S), str(max(sc['K'], 0)),
            fhexs(sc['src']), fhexs(sc['recs'][0])]
    return ' '.join(toks)


def corr_end_to_end(ctx, sc):
    """Compare one scene end to end (all bands)."""
    r = energy.run_all(sc)
    mono = r.collect_energy_receiver_mono(scenes.coords(sc['recs'][0])).time[0]          # (B, S)
    lines = [pipeline_line(sc, b) for b in range(sc['B'])]
    t0 = time.time()
    outs = common.run_driver(lines, timeout=3600)
    ctx.count('endtoend.model_seconds', int(time.time() - t0))
    P = r.n_patches
    for b, line in enumerate(outs):
        if not line.startswith('ok '):
            ctx.cmp.tag('corr:end-to-end status', 'ok', line[:80])
            continue
        sec = [x.strip().split(' ') if x.strip() else [] for x in line[3:].split('|')]
        Pm, Dm = int(sec[0][0]), int(sec[0][1])
        if not ctx.cmp.tag('corr:end-to-end patch count', P, Pm):
            continue
        pairs_m = [int(x) for x in sec[1]]
        pairs_i = np.asarray(r._visible_patches).ravel().tolist()
        if not ctx.cmp.tag('corr:end-to-end visible pairs', pairs_i, pairs_m):
            continue
        F = common.parse_floats(sec[4]).reshape(P, P)
        ctx.cmp.ulp('corr:end-to-end form factors', np.asarray(r.form_factors), F, rtol=1e-8, atol=1e-15)
        e0 = common.parse_floats(sec[3]).reshape(P, Dm)
        e0i = np.asarray(r._energy_init_source)[:, :, b]
        # guarded decisions (nearest sample, bins) can flip on rounding: compare only if the zero pattern agrees
        etc_m = common.parse_floats(sec[5]).reshape(P, Dm, -1)
        etc_i = np.asarray(r._energy_exchange_etc)[:, :, b, :]
        if e0.shape == e0i.shape and np.allclose(e0, e0i, rtol=1e-7, atol=1e-14) and etc_m.shape == etc_i.shape and \
                np.array_equal(etc_m != 0, etc_i != 0):
            ctx.cmp.ulp('corr:end-to-end initial energy', e0i, e0, rtol=1e-7, atol=1e-14)
            ctx.cmp.ulp('corr:end-to-end patch histograms', etc_i, etc_m, rtol=1e-6, atol=1e-14)
            ctx.cmp.ulp('corr:end-to-end mono curve', mono[b], common.parse_floats(sec[2]), rtol=1e-6, atol=1e-14)
        else:
            # decide whether this is a flipped guarded decision (counted) or a real disagreement
            bad = np.abs(e0 - e0i).max() if e0.shape == e0i.shape else np.inf
            if bad > 1e-6 * max(np.abs(e0i).max(), 1e-300) and sc['samp_par'] is None:
                ctx.cmp.ulp('corr:end-to-end initial energy', e0i, e0, rtol=1e-7, atol=1e-14)
            else:
                ctx.cmp.ambiguous()
    ctx.cases += 1
    ctx.count('endtoend.scenes')
