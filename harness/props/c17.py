"""C17 — simulation results do not depend on where or how the room is placed."""
import itertools
import numpy as np
from .. import common, scenes, energy, geomgen

LEVEL = 'other'
RULE = ('shoebox scenes (random sides, patch sizes away from the integer rounding edge, per-wall absorption, attenuation, order 0-2) '
        'under the 48 signed axis permutations (quick: 8 sampled per scene incl. mirrorings, thorough: all 48), random translations, '
        'positive rescalings of wall normals and up vectors; patches matched by their transformed centres; kernels under arbitrary '
        'rotations are covered by the C04/C05/C07 checks; non-trivial = every transformed scene')
ASSUMPTIONS = ['PARTIAL: the 0.5 % bound of the receiver curve under axis permutations is an accuracy fact about which patch of a pair is integrated (measured); the lifting of the kernel invariances to the whole pipeline is not a single theorem',
               'theorems at real numbers ("up to rounding" is in the statement)']
EXPLANATION = ('PROVED (kernel level, re-exported): point-to-patch factor invariant under translations and all linear isometries; contour form factor invariant under translations, axis permutations and mirrorings; '
               'projection/visibility plane part translation covariant; patch tiling translation covariant and vertex-order free; wall frame scale-free in normal and up. MEASURED: whole-pipeline invariance on the implementation.')


def signed_perms():
    out = []
    for perm in itertools.permutations(range(3)):
        for signs in itertools.product([1, -1], repeat=3):
            M = np.zeros((3, 3))
            for r, (c, s) in enumerate(zip(perm, signs)):
                M[r, c] = s
            out.append(M)
    return out


def build(sc, M, t, nscale=1.0, uscale=1.0):
    sp = common.import_repo()
    import pyfar as pf
    walls0 = sp.testing.shoebox_room_stub(*sc['sides'])
    walls = [sp.geometry.Polygon(w.pts @ M.T + t, (M @ w.up_vector) * uscale, (M @ np.asarray(w.normal, float)) * nscale) for w in walls0]
    r = sp.DirectionalRadiosityFast.from_polygon(walls, sc['patch'])
    freqs = scenes.FREQS[:sc['B']]
    for w in range(6):
        data = np.ones((1, 1, sc['B'])) * (1 - sc['absorption'][w]) / np.pi
        r.set_wall_brdf([w], pf.FrequencyData(data, freqs), scenes.single_dir(), scenes.single_dir())
    r.set_air_attenuation(pf.FrequencyData(sc['att'], freqs))
    r.bake_geometry()
    src = np.asarray(sc['src']) @ M.T + t
    rec = np.asarray(sc['recs'][0]) @ M.T + t
    r.init_source_energy(scenes.coords(src))
    r.calculate_energy_exchange(sc['c'], sc['dt'], energy.duration_of(sc, sc['long_bins'] + 5), min(sc['K'], 2), recalculate=True)
    curve = r.collect_energy_receiver_mono(scenes.coords(rec)).time[0]
    return r, curve


def match(r0, r1, M, t):
    """index map: patch k of r0 -> patch of r1 whose centre is the transformed centre"""
    c0 = r0.patches_center @ M.T + t
    c1 = r1.patches_center
    idx = []
    for k in range(len(c0)):
        d = np.linalg.norm(c1 - c0[k], axis=1)
        j = int(np.argmin(d))
        if d[j] > 1e-9 * max(1.0, float(np.abs(t).max())):
            return None
        idx.append(j)
    return np.array(idx)


def check_scene(ctx, sc, transforms):
    I3, z3 = np.eye(3), np.zeros(3)
    r0, curve0 = build(sc, I3, z3)
    ctx.oracle_evals += 1
    peak = max(float(curve0.max()), 1e-300)
    F0 = np.asarray(r0._form_factors_tilde)[:, :, 0, :]
    e0 = np.asarray(r0._energy_init_source)[:, 0, :]
    b0 = (np.asarray(r0._distance_patches_to_source) / sc['c'] / sc['dt']).astype(int)
    for name, M, t, ns, us in transforms:
        r1, curve1 = build(sc, M, t, ns, us)
        ctx.oracle_evals += 1
        ctx.cases += 1
        ctx.count('transform.' + name.split(' ')[0])
        inp = dict(energy.scene_input(sc), transform=name, M=M, t=t, normal_scale=ns, up_scale=us)
        idx = match(r0, r1, M, t)
        if idx is None:
            ctx.violation('placement-tiling', 'under %s the patches of the transformed room are not the transformed patches' % name, inp, None, None)
            return
        is_perm = not np.allclose(np.abs(M), I3)
        e1 = np.asarray(r1._energy_init_source)[idx, 0, :]
        b1 = (np.asarray(r1._distance_patches_to_source)[idx] / sc['c'] / sc['dt']).astype(int)
        far = name.startswith('far')
        tol = 1e-6 if far else 1e-9      # coordinates of 1e5..1e6 m carry 1e-10 m of rounding each
        if far:
            # bins: only where the delay is not within rounding of a bin edge
            x0 = np.asarray(r0._distance_patches_to_source) / sc['c'] / sc['dt']
            safe = np.abs(x0 - np.round(x0)) > 1e-6
            b1 = np.where(safe, b1, b0)
        if np.abs(e1 - e0).max() > tol * max(e0.max(), 1e-300) or not np.array_equal(b0, b1):
            ctx.violation('placement-initial-energy', 'initial patch energies or arrival bins change under %s' % name, inp, float(np.abs(e1 - e0).max()), 0.0)
            return
        dev = float(np.abs(curve1 - curve0).max() / peak)
        key = 'curve_dev_axis_permutation_max' if is_perm else 'curve_dev_translation_mirror_scaling_max'
        ctx.measured[key] = max(ctx.measured.get(key, 0.0), dev)
        if is_perm:
            if dev > 5e-3:
                ctx.violation('placement-curve-permutation', 'receiver curve changes by %.3g of its peak (> 0.5 %%) under %s' % (dev, name), inp, dev, 5e-3)
                return
        else:
            F1 = np.asarray(r1._form_factors_tilde)[np.ix_(idx, idx)][:, :, 0, :]
            if np.abs(F1 - F0).max() > tol * max(F0.max(), 1e-300):
                ctx.violation('placement-form-factors', 'form factors change under %s' % name, inp, float(np.abs(F1 - F0).max()), 0.0)
                return
            if dev > tol:
                ctx.violation('placement-curve', 'receiver curve changes by %.3g of its peak under %s' % (dev, name), inp, dev, tol)
                return
        ctx.nontriv([energy.describe(sc), name])
    ctx.sample({'scene': energy.describe(sc), 'transforms': [n for n, *_ in transforms]}, limit=2)


def gen_transforms(rng, all48):
    sp_all = signed_perms()
    I3 = np.eye(3)
    out = [('translation', I3, rng.uniform(-20, 20, size=3), 1.0, 1.0),
           # survey / georeferenced coordinates (dyadic, so that the room keeps its shape to 1e-10 m)
           ('far translation', I3, np.array([2.0 ** 19, 2.0 ** 22, 2.0 ** 7]) * rng.choice([-1.0, 1.0], size=3), 1.0, 1.0),
           ('normal-scaling x2.5', I3, np.zeros(3), 2.5, 1.0),
           ('up-scaling x0.3', I3, np.zeros(3), 1.0, 0.3),
           ('normal-and-up-scaling + translation', I3, rng.uniform(-5, 5, size=3), float(rng.uniform(0.2, 7)), float(rng.uniform(0.2, 7)))]
    mirrors = [M for M in sp_all if np.allclose(np.abs(M), I3) and not np.allclose(M, I3)]
    perms = [M for M in sp_all if not np.allclose(np.abs(M), I3)]
    if all48:
        pick_m, pick_p = mirrors, perms
    else:
        pick_m = [mirrors[int(k)] for k in rng.choice(len(mirrors), size=2, replace=False)]
        pick_p = [perms[int(k)] for k in rng.choice(len(perms), size=3, replace=False)]
    for M in pick_m:
        out.append(('mirror %s' % np.diag(M).astype(int).tolist(), M, rng.uniform(-3, 3, size=3), 1.0, 1.0))
    for M in pick_p:
        out.append(('axis-permutation %s' % M.astype(int).tolist(), M, np.zeros(3), 1.0, 1.0))
    return out


def run(ctx):
    n = 1 if ctx.tier == 'quick' else 6
    for k in range(n):
        sc = energy.gen_scene(ctx.rng, small=True, multi_dir=False, att_zero=False, kinds=['nonuniform'])
        check_scene(ctx, sc, gen_transforms(ctx.rng, all48=(ctx.tier != 'quick' and k == 0)))


def oracle(ctx, budget_s=60):
    t = common.Timer()
    while t.s() < budget_s and not ctx.violations:
        sc = energy.gen_scene(ctx.rng, small=True, multi_dir=False, att_zero=False, kinds=['nonuniform'])
        check_scene(ctx, sc, gen_transforms(ctx.rng, all48=False))


def replay(ctx, rp):
    from . import c03
    inp = rp['input']
    sc = c03._scene_from_json({k: v for k, v in inp.items() if k not in ('transform', 'M', 't', 'normal_scale', 'up_scale')})
    check_scene(ctx, sc, [(inp['transform'], np.array(inp['M'], float), np.array(inp['t'], float), float(inp['normal_scale']), float(inp['up_scale']))])
    return not ctx.violations
