"""C11 — receiver collection is geometric, per-receiver and additive over patches."""
import numpy as np
from .. import common, kernels, pipeline, energy, scenes, endtoend
from . import c03

LEVEL = 'proof'
RULE = c03.RULE + '; C11: 1-4 receivers per scene inside and outside the room, receiver kernel cases with delays straddling the histogram end'
RULE = RULE + '; one receiver outside the room and one so far away that every leg and the direct sound arrive after the end'
ASSUMPTIONS = c03.ASSUMPTIONS + ['the solid-angle factor itself is C04; known finding D3 (np.roll) is listed in known_findings.json']
EXPLANATION = 'patchwise = ETC slot x geometric weight x exp(-m d), delayed by the ceil-rounded travel time (partial: when nothing is delayed past the end); hidden patches contribute 0; mono = sum; direct sound law.'


def check_receivers(ctx, sc, r=None):
    from sparrowpy.form_factor import universal
    from sparrowpy import geometry
    r = energy.run_all(sc) if r is None else r
    recs = sc['recs']
    # include one receiver outside the room
    out_pt = np.array(sc['sides']) * np.array([1.5, 0.5, 0.5])
    recs = np.vstack([recs, out_pt[None, :]])
    # ... and one so far away that its direct sound (and every patch leg) arrives after the end
    S_run = np.asarray(r._energy_exchange_etc).shape[-1]
    far_pt = np.asarray(sc['src'], float) + np.array([(S_run + 2.5) * r.speed_of_sound * r._etc_time_resolution, 0.3, 0.2])
    recs = np.vstack([far_pt[None, :], recs]) if ctx.rng.random() < 0.5 else np.vstack([recs, far_pt[None, :]])
    pw_all = r.collect_energy_receiver_patchwise(scenes.coords(recs)).time
    mono = r.collect_energy_receiver_mono(scenes.coords(recs)).time
    ctx.oracle_evals += 2
    S = pw_all.shape[-1]
    etc = np.asarray(r._energy_exchange_etc)
    vo = np.array([s.cartesian for s in r._brdf_outgoing_directions])
    for k in range(len(recs)):
        single = r.collect_energy_receiver_patchwise(scenes.coords(recs[k])).time[0]
        ctx.oracle_evals += 1
        if not np.array_equal(single, pw_all[k]):
            ctx.violation('receivers-not-independent', 'result for receiver %d in a set differs from the result for that receiver alone' % k,
                          dict(energy.scene_input(sc), recs=recs), None, 'bit-identical')
            return
        if not np.allclose(mono[k], pw_all[k].sum(axis=0), rtol=1e-12, atol=0):
            ctx.violation('mono-not-sum', 'mono curve is not the sum of the patch-wise curves', dict(energy.scene_input(sc), recs=recs), None, None)
            return
        # blockers: the walls as GIVEN to from_polygon (not what the object stores)
        sp_ = common.import_repo()
        walls_in = sp_.testing.shoebox_room_stub(*sc['sides'])
        vis = geometry._check_point2patch_visibility(
            eval_point=recs[k], patches_center=r.patches_center,
            surf_points=np.array([w.pts for w in walls_in]), surf_normal=np.array([w.normal for w in walls_in], dtype=float))
        for j in range(r.n_patches):
            d = float(np.linalg.norm(r.patches_center[j] - recs[k]))
            n = int(np.ceil(d / r.speed_of_sound / r._etc_time_resolution))
            if not vis[j]:
                if np.any(pw_all[k, j] != 0):
                    ctx.violation('hidden-patch-contributes', 'patch %d is hidden from receiver %d but contributes energy' % (j, k),
                                  dict(energy.scene_input(sc), recs=recs), float(np.abs(pw_all[k, j]).max()), 0.0)
                    return
                continue
            u = (recs[k] - r.patches_center[j]) / d
            d2 = np.sum((vo[r._patch_to_wall_ids[j]] - u) ** 2, axis=-1)
            if len(d2) > 1 and np.sort(d2)[1] - np.sort(d2)[0] < 1e-9:
                continue
            slot = int(np.argmin(d2))
            from sparrowpy.form_factor import integration
            omega_over_piA = integration.pt_solution(point=recs[k].copy(), patch_points=r.patches_points[j].copy(), mode='receiver')
            for b in range(r.n_bins):
                row = etc[j, slot, b] * omega_over_piA * np.exp(-r._air_attenuation[b] * d)
                expect = np.zeros(S)
                if n < S:
                    expect[n:] = row[:S - n]
                wrapped = (n >= S and np.any(row != 0)) or (0 < n < S and np.any(row[S - n:] != 0))
                got = pw_all[k, j, b]
                if np.abs(got - expect).max() > 1e-12 * max(np.abs(expect).max(), np.abs(got).max(), 1e-300):
                    if wrapped and np.abs(got - np.roll(row, n)).max() <= 1e-12 * max(np.abs(row).max(), 1e-300):
                        ctx.violation('receiver-wrap:_collect_receiver_energy',
                                      'receiver %d, patch %d: energy delayed past the end of the %d-bin histogram re-appears at the start' % (k, j, S),
                                      dict(energy.scene_input(sc), recs=recs), None, None)
                        break
                    ctx.violation('patchwise-formula', 'receiver %d, patch %d, band %d: patch-wise curve is not ETC[slot %d] x solid angle/(pi A) x exp(-m d) delayed by %d bins' % (k, j, b, slot, n),
                                  dict(energy.scene_input(sc), recs=recs), {'first_bins': got[:8]}, {'first_bins': expect[:8]})
                    return
    # direct sound
    mono_d = r.collect_energy_receiver_mono(scenes.coords(recs), direct_sound=True).time
    ctx.oracle_evals += 1
    for k in range(len(recs)):
        rr = float(np.linalg.norm(recs[k] - sc['src']))
        nb = int(rr / r.speed_of_sound / r._etc_time_resolution)
        for b in range(r.n_bins):
            expect = mono[k, b].copy()
            if nb < S:
                expect[nb] += np.exp(-r._air_attenuation[b] * rr) / (4 * np.pi * rr ** 2)
            if not np.allclose(mono_d[k, b], expect, rtol=1e-12, atol=0):
                ctx.violation('direct-sound', 'direct sound is not 1/(4 pi r^2) exp(-m r) added in bin int(r/c/dt)=%d' % nb,
                              dict(energy.scene_input(sc), recs=recs), None, None)
                return


def corridor_scene(rng):
    """A long narrow room (1 x L x 1 m, L = 6..9, patch size 1): patches many patch-sides away from a receiver near one end
    (the compact rooms of `gen_scene` never have a patch farther than a few sides)."""
    sc = energy.gen_scene(rng, small=True, multi_dir=False)
    L = float(rng.uniform(6.1, 8.9))
    sides = [1.0, L, 1.0]
    if rng.random() < 0.5:
        sides = [L, 1.0, 1.0]
    sc['sides'], sc['patch'] = sides, 1.0
    diag = float(np.linalg.norm(sides))
    sc['K'] = min(sc['K'], 1)
    sc['long_bins'] = int(np.ceil((sc['K'] + 3) * diag / sc['c'] / sc['dt'])) + 3
    sc['S'] = sc['long_bins']
    lo = np.array([0.15, 0.15, 0.15])
    hi = np.array(sides) - 0.15
    sc['src'] = lo + (hi - lo) * rng.uniform(0.3, 0.7, size=3)
    ends = rng.uniform(0.05, 0.2, size=(2, 3))
    ends[1] = 1 - ends[1]
    sc['recs'] = np.array([lo + (hi - lo) * e for e in ends])
    return sc


def run(ctx):
    n_k = 30 if ctx.tier == 'quick' else 800
    kernels.corr_collect(ctx, [kernels.gen_collect_case(ctx.rng) for _ in range(n_k)])
    n_s = 3 if ctx.tier == 'quick' else 24
    for k in range(n_s):
        sc = energy.gen_scene(ctx.rng, small=True, multi_dir=(k % 2 == 1))
        r = c03.stagewise(ctx, sc)
        for rec in sc['recs']:
            pipeline.corr_collect(ctx, r, rec)
        check_receivers(ctx, sc, r)
    check_receivers(ctx, corridor_scene(ctx.rng))
    ctx.count('scenes.corridor')
    sc = energy.gen_scene(ctx.rng, small=True, multi_dir=False, att_zero=False)
    endtoend.corr_end_to_end(ctx, sc)


def oracle(ctx, budget_s=60):
    t = common.Timer()
    while t.s() < budget_s and not [v for v in ctx.violations if not v['signature'].startswith('receiver-wrap')]:
        sc = energy.gen_scene(ctx.rng, small=True)
        check_receivers(ctx, sc)
        if not ctx.violations:
            check_receivers(ctx, corridor_scene(ctx.rng))


def replay(ctx, rp):
    sc = c03._scene_from_json(rp['input'])
    check_receivers(ctx, sc)
    return not ctx.violations
