"""C03 — patch histograms equal an independent solution of the radiosity recursion."""
import numpy as np
from .. import common, kernels, pipeline, energy, scenes, endtoend

LEVEL = 'proof'
RULE = ('kernel-level exchange cases (as C02) plus pipeline-level scenes: random shoeboxes '
        '(sides 1.2-3.2 m quick / up to 6 m thorough, 6-30 / up to 120 patches), per-wall Lambertian '
        'or arbitrary non-negative multi-direction tables, 1-3 bands, attenuation, orders 0-3, long and '
        'truncating histograms; each stage recomputed by the Lean model from the inputs the object holds; '
        'non-trivial = order>=1 with non-zero result; distinct = different scene parameters')
RULE = RULE + '; direction sets with non-unit radii, incoming directions on their own sampling (other count and positions), band-specific fully absorbing / rigid walls'
ASSUMPTIONS = ['theorems at real numbers, code at float64 (exchange kernel compared bit for bit)',
               'stage-wise runs take form factors, visibility and the point-to-patch factor from the object; the end-to-end runs recompute everything in the Lean pipeline model from the bare scene description (walls, patch size, tables, attenuation, source, receiver, run parameters)']
EXPLANATION = 'etc = coefficients of the polynomial recursion (spec), for every slot; order K = order K-1 + a non-negative term; diffuse walls make slots irrelevant.'


def stagewise(ctx, sc):
    r = energy.build(sc)
    r.bake_geometry()
    pipeline.corr_bake(ctx, r)
    r.init_source_energy(scenes.coords(sc['src']))
    pipeline.corr_init(ctx, r, sc['src'])
    dur = energy.duration_of(sc)
    r.calculate_energy_exchange(sc['c'], sc['dt'], dur, sc['K'], recalculate=True)
    pipeline.corr_exchange(ctx, r, sc['c'], sc['dt'], dur, sc['K'])
    ctx.count('scene.kind.' + sc['kind'])
    ctx.count('scene.multi_dir', sc['samp_par'] is not None)
    ctx.count('scene.truncating', sc['S'] < sc['long_bins'])
    ctx.count('scene.att_nonzero', bool(np.any(sc['att'] != 0)))
    ctx.count('scene.bands_%d' % sc['B'])
    if sc['K'] >= 1 and np.any(r._energy_exchange_etc != 0):
        ctx.nontriv(energy.describe(sc))
    ctx.sample(energy.describe(sc, r), limit=3)
    return r


def check_against_solver(ctx, sc, r):
    """Implementation ETC vs the independent numpy solver fed with the scene description."""
    sd = energy.scene_description(r)
    fft, dirm, dist, margin = energy.reference_factors(sd)
    bins0, bins, dij = energy.bins_of(r, sc)
    # initial energy from the scene: solid-angle share * attenuation * table of the patch's own wall
    from sparrowpy.form_factor import universal
    from sparrowpy import geometry
    vis = geometry._check_point2patch_visibility(
        eval_point=np.asarray(sc['src'], float), patches_center=r.patches_center,
        surf_points=r.walls_points, surf_normal=r.walls_normal)
    P, D, B = sd['P'], sd['tab'].shape[2], sd['tab'].shape[3]
    e0 = np.zeros((P, D, B))
    d0 = np.zeros(P)
    from sparrowpy.form_factor import integration
    for j in range(P):
        if vis[j]:
            d0[j] = np.linalg.norm(np.asarray(sc['src']) - sd['centers'][j])
            share = integration.pt_solution(point=np.asarray(sc['src'], float).copy(),
                                            patch_points=r.patches_points[j].copy(), mode='source')
            u = (np.asarray(sc['src']) - sd['centers'][j])
            u = u / np.sqrt(np.dot(u, u))
            k = energy.nearest(sd['vi'][sd['wall'][j]], u)
            e0[j] = share * np.exp(-sd['att'] * d0[j])[None, :] * sd['tab'][sd['tidx'][sd['wall'][j]], k]
    b0 = [int(x / sc['c'] / sc['dt']) for x in d0]
    S = int(energy.duration_of(sc) / sc['dt'])
    ref = energy.solve_recursion(P, D, B, S, max(sc['K'], 0), energy.pairs_of(r), b0, bins, e0, fft, dirm)
    got = np.asarray(r._energy_exchange_etc)
    ctx.oracle_evals += 1
    if np.any(margin < 1e-9):
        ctx.count('oracle.skipped_near_tie')
        return
    scale = max(float(np.abs(ref).max()), 1e-300)
    if got.shape != ref.shape or not np.all(np.isfinite(got)) or \
            np.abs(got - ref).max() > 1e-9 * scale:
        k = np.unravel_index(int(np.argmax(np.abs(got - ref))), ref.shape) if got.shape == ref.shape else None
        ctx.violation('etc-differs-from-independent-solver',
                      'patch histogram differs from the independent solver of the recursion (receiving wall\'s table, '
                      'exp(-m d) over the centre distance) at index %s' % (k,),
                      energy.scene_input(sc),
                      {'got': None if k is None else float(got[k]), 'max_abs_diff': float(np.abs(got - ref).max()) if k else None},
                      {'expected': None if k is None else float(ref[k]), 'relative_tolerance': 1e-9})


def check_order_monotone(ctx, sc, r):
    prev = None
    for k in range(0, 3):
        r.calculate_energy_exchange(sc['c'], sc['dt'], energy.duration_of(sc), k, recalculate=True)
        cur = np.array(r._energy_exchange_etc)
        ctx.oracle_evals += 1
        if prev is not None and np.any(cur - prev < -1e-12 * max(cur.max(), 1e-300)):
            ctx.violation('order-not-monotone', 'ETC for order %d is smaller than for order %d in some bin' % (k, k - 1),
                          energy.scene_input(sc), float((cur - prev).min()), 'order K = order K-1 + non-negative contribution')
        prev = cur


def check_diffuse_slots(ctx, sc):
    """Lambertian table sampled on n directions must give, in every slot, the 1-direction result."""
    if sc['tables'] is not None:
        return
    sc1 = dict(sc, samp_par=None, samp_in=None)
    scn = dict(sc, samp_par=sc['samp_par'] or (1, 4, 1.0, 0.3), samp_in=None)
    r1 = energy.run_all(sc1)
    rn = energy.run_all(scn)
    ctx.oracle_evals += 2
    a = np.asarray(r1._energy_exchange_etc)
    b = np.asarray(rn._energy_exchange_etc)
    scale = max(a.max(), 1e-300)
    for d in range(b.shape[1]):
        if np.abs(b[:, d] - a[:, 0]).max() > 1e-9 * scale:
            ctx.violation('diffuse-slot-differs', 'Lambertian walls: slot %d of the multi-direction run differs from the single-direction run' % d,
                          energy.scene_input(scn), float(np.abs(b[:, d] - a[:, 0]).max()), 'all slots equal the one-slot histogram')
            break


def run(ctx):
    n_k = 30 if ctx.tier == 'quick' else 1000
    kernels.corr_exchange(ctx, [kernels.gen_exchange_case(ctx.rng, big=ctx.tier != 'quick') for _ in range(n_k)])
    n_s = 5 if ctx.tier == 'quick' else 40
    for k in range(n_s):
        sc = energy.gen_scene(ctx.rng, small=(ctx.tier == 'quick' or k % 4 != 0),
                              multi_dir=(k % 2 == 1))
        r = stagewise(ctx, sc)
        check_against_solver(ctx, sc, r)
        if k % 3 == 0:
            check_order_monotone(ctx, sc, r)
        if k % 3 == 1:
            check_diffuse_slots(ctx, sc)
    # end to end: the Lean pipeline model is fed with the bare scene description only
    for k in range(2 if ctx.tier == 'quick' else 16):
        sc = energy.gen_scene(ctx.rng, small=True, multi_dir=(k % 2 == 1), att_zero=False)
        endtoend.corr_end_to_end(ctx, sc)


def oracle(ctx, budget_s=60):
    t = common.Timer()
    while t.s() < budget_s:
        sc = energy.gen_scene(ctx.rng, small=True)
        r = energy.run_all(sc)
        check_against_solver(ctx, sc, r)
        check_order_monotone(ctx, sc, r)
        if ctx.violations:
            return


def replay(ctx, rp):
    sc = _scene_from_json(rp['input'])
    r = energy.run_all(sc)
    check_against_solver(ctx, sc, r)
    check_order_monotone(ctx, sc, r)
    check_diffuse_slots(ctx, sc)
    return not ctx.violations


def _scene_from_json(d):
    sc = dict(d)
    for k in ('absorption', 'att', 'src', 'recs'):
        if k in sc and sc[k] is not None:
            sc[k] = np.array(sc[k], dtype=float)
    if sc.get('tables') is not None:
        sc['tables'] = [np.array(t, dtype=float) for t in sc['tables']]
    if sc.get('samp_par') is not None:
        sc['samp_par'] = tuple(sc['samp_par'])
    return sc
