"""C12 — frequency bands are simulated independently."""
import numpy as np
from .. import common, kernels, pipeline, energy, scenes
from . import c03

LEVEL = 'proof'
RULE = ('kernel-level exchange/collect cases with band-dependent data, including shapes with D=B, P=B, S=B '
        '(a transposed band axis would stay shape-correct); pipeline scenes with 2-6 bands of band-dependent '
        'absorption/attenuation compared stage by stage with the single-band model and, on the implementation, '
        'with B single-band runs bit for bit; non-trivial = B>=2 with non-zero result')
RULE = RULE + '; always one wall that absorbs fully in the FIRST band only'
ASSUMPTIONS = ['for _energy_exchange and _collect_receiver_energy band independence is proved about the TRANSLATED source (Generated/Kernels.lean + KernelEquiv); for the other stages (bake, source, glue) the model is band-wise by construction and the property rests on the tie and the bitwise oracle']
EXPLANATION = 'band b of a multi-band run is a function of band b of the inputs only; for the exchange and receiver kernels this is a theorem about the code as translated on this run (energyExchange_band_local, collectReceiverEnergy_band_local).'


def shape_coincidence_cases(rng, n):
    out = []
    for _ in range(n):
        c = kernels.gen_exchange_case(rng)
        B = int(rng.choice([2, 3]))
        which = rng.choice(['D', 'P', 'S'])
        P = B if which == 'P' else c['P']
        D = B if which == 'D' else c['D']
        S = B if which == 'S' else c['S']
        c2 = kernels.gen_exchange_case(rng)
        # regenerate with forced sizes
        while not (c2['P'] == P and c2['D'] == D):
            c2 = kernels.gen_exchange_case(rng)
        c2['B'] = B
        c2['S'] = S
        c2['fft'] = rng.uniform(0, 1, size=(P, P, D, B))
        c2['e0'] = rng.uniform(0, 1, size=(P, D, B))
        c2['bins_ij'] = (c2['dij'] / c2['c'] / c2['dt']).astype(int)
        c2['bins0'] = (c2['d0'] / c2['c'] / c2['dt']).astype(int)
        out.append(c2)
    return out


def check_bands(ctx, sc):
    """Implementation: multi-band run == B single-band runs, bit for bit, at every stage."""
    r = energy.run_all(sc)
    rec = scenes.coords(sc['recs'])
    pw = r.collect_energy_receiver_patchwise(rec).time
    mono_d = np.asarray(r.collect_energy_receiver_mono(rec, direct_sound=True).time)
    dval, dbin = r.calculate_direct_sound(rec)
    ctx.oracle_evals += 1
    for b in range(sc['B']):
        scb = dict(sc, B=1, absorption=sc['absorption'][:, b:b + 1], att=sc['att'][b:b + 1],
                   tables=None if sc['tables'] is None else [t[:, :, b:b + 1] for t in sc['tables']])
        rb = energy.run_all(scb)
        pwb = rb.collect_energy_receiver_patchwise(rec).time
        mono_db = np.asarray(rb.collect_energy_receiver_mono(rec, direct_sound=True).time)
        dvalb, dbinb = rb.calculate_direct_sound(rec)
        ctx.oracle_evals += 1
        for name, ax in (('_form_factors_tilde', 3), ('_energy_init_source', 2), ('_energy_exchange_etc', 2)):
            full = np.take(np.asarray(getattr(r, name)), b, axis=ax)
            one = np.take(np.asarray(getattr(rb, name)), 0, axis=ax)
            if not np.array_equal(full, one):
                ctx.violation('band-not-independent', 'band %d of %s in a %d-band run differs from the single-band run of that band' % (b, name, sc['B']),
                              energy.scene_input(sc), float(np.abs(full - one).max()), 'bit-identical')
                return
        if not (np.array_equal(np.asarray(dval)[:, b], np.asarray(dvalb)[:, 0]) and np.array_equal(np.asarray(dbin), np.asarray(dbinb))):
            ctx.violation('band-not-independent', 'band %d of the direct sound (calculate_direct_sound) in a %d-band run differs from the single-band run (attenuation %s)' % (b, sc['B'], np.asarray(sc['att']).tolist()),
                          energy.scene_input(sc), None, 'bit-identical')
            return
        if not np.array_equal(mono_d[:, b, :], mono_db[:, 0, :]):
            ctx.violation('band-not-independent', 'band %d of the mono receiver curve with direct sound differs from the single-band run' % b,
                          energy.scene_input(sc), None, 'bit-identical')
            return
        if not np.array_equal(pw[:, :, b, :], pwb[:, :, 0, :]):
            ctx.violation('band-not-independent', 'band %d of the receiver curves differs from the single-band run' % b,
                          energy.scene_input(sc), None, 'bit-identical')
            return


def check_kernel_bands(ctx, case):
    """Receiver kernel, multi-band call vs one call per band, bit for bit."""
    full = kernels.impl_collect(case)
    ctx.oracle_evals += 1
    for b in range(case['B']):
        one = kernels.impl_collect(dict(case, B=1, att=case['att'][b:b + 1], E=case['E'][:, b:b + 1, :]))
        if not np.array_equal(full[:, b], one[:, 0]):
            ctx.violation('band-not-independent', 'receiver kernel: band %d of a %d-band call differs from the single-band call (attenuation %s)' % (b, case['B'], case['att'].tolist()),
                          {k: case[k] for k in ('P', 'B', 'S', 'c', 'dt', 'dist', 'att', 'E')}, None, 'bit-identical')
            return


def run(ctx):
    n_k = 20 if ctx.tier == 'quick' else 600
    kernels.corr_exchange(ctx, shape_coincidence_cases(ctx.rng, n_k))
    cc = [kernels.gen_collect_case(ctx.rng) for _ in range(n_k)]
    kernels.corr_collect(ctx, cc)
    for case in cc:
        check_kernel_bands(ctx, case)
    n_s = 2 if ctx.tier == 'quick' else 16
    for k in range(n_s):
        sc = energy.gen_scene(ctx.rng, small=True, multi_dir=(k % 2 == 1), att_zero=False,
                              kinds=['extremes'] if k % 2 == 0 else None,
                              n_bands=int(ctx.rng.integers(2, 7 if ctx.tier != 'quick' else 4)))
        sc['K'] = max(sc['K'], 2)
        if k % 2 == 1:
            # a lossless band next to lossy ones
            sc['att'] = np.array(sc['att'], dtype=float)
            sc['att'][int(ctx.rng.integers(0, sc['B']))] = 0.0
            if not np.any(sc['att'] != 0):
                sc['att'][-1] = 0.07
        if k % 2 == 0 and sc['tables'] is None:
            # a wall that is fully absorbing in the FIRST band only
            sc['absorption'][int(ctx.rng.integers(0, 6)), 0] = 1.0
        r = c03.stagewise(ctx, sc)
        pipeline.corr_collect(ctx, r, sc['recs'][0])
        check_bands(ctx, sc)


def oracle(ctx, budget_s=60):
    t = common.Timer()
    while t.s() < budget_s and not ctx.violations:
        for _ in range(20):
            check_kernel_bands(ctx, kernels.gen_collect_case(ctx.rng))
        sc = energy.gen_scene(ctx.rng, small=True, att_zero=False, n_bands=int(ctx.rng.integers(2, 5)))
        check_bands(ctx, sc)


def replay(ctx, rp):
    if 'E' in rp['input']:
        case = {k: (np.array(v) if isinstance(v, list) else v) for k, v in rp['input'].items()}
        check_kernel_bands(ctx, case)
        return not ctx.violations
    check_bands(ctx, c03._scene_from_json(rp['input']))
    return not ctx.violations
