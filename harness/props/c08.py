"""C08 — patch subdivision is an exact congruent tiling of each wall."""
import itertools
import numpy as np
from .. import common, scenes

LEVEL = 'proof'
RULE = ('axis-aligned rectangles in each of the three coordinate planes, random offsets and sides 0.5-6 m, all 8 vertex '
        'orderings (4 rotations x 2 directions), patch sizes from side down to side/12 with side/p kept >= 0.05 away from an '
        'integer (main stream) plus a boundary stream on exact ratios (guarded); real _create_patches / _process_patches / '
        'PatchesKang vs the Lean model, coordinates bit for bit; non-trivial = at least 2 patches; _process_patches on random rooms and on '
        'rooms with integer sides and decimal patch sizes (0.1, 0.2, 0.25, 0.4, 0.5, side/k, 2.5/k): every wall block is a tiling of its wall and equals the Kang tiling')
ASSUMPTIONS = ['theorems at real numbers; coordinates compared bit for bit with the model at float64',
               'numpy max/min/int semantics as modelled']
EXPLANATION = 'floor(side/p) patches per direction, each the rectangle (x0+ix*rx, y0+iy*ry)+(rx,ry), congruent, pairwise interior-disjoint, covering the wall, areas summing to the wall area; result depends only on per-axis min/max and the flat coordinate (vertex-order free), commutes with translation; both engines use the same loop.'


def orderings(pts):
    out = []
    for rot in range(4):
        q = np.roll(pts, -rot, axis=0)
        out.append(q)
        out.append(q[::-1].copy())
    return out


def gen_wall(rng, boundary=False):
    plane = int(rng.integers(0, 3))           # flat axis
    ax = [a for a in range(3) if a != plane]
    off = rng.uniform(-5, 5, size=3)
    sides = rng.uniform(0.5, 6.0, size=2)
    if boundary:
        p = float(sides.min() / rng.integers(1, 7))
        sides[int(rng.integers(0, 2))] = p * float(rng.integers(1, 7))
    else:
        while True:
            p = float(sides.min() / rng.uniform(1.0, 12.0))
            q = sides / p
            if np.all(np.abs(q - np.round(q)) >= 0.05) and np.all(q >= 1.05):
                break
    base = np.zeros((4, 3))
    base[:, plane] = off[plane]
    corners = [(0, 0), (1, 0), (1, 1), (0, 1)]
    for v, (a, b) in enumerate(corners):
        base[v, ax[0]] = off[ax[0]] + a * sides[0]
        base[v, ax[1]] = off[ax[1]] + b * sides[1]
    return dict(plane=plane, pts=base, p=p, sides=sides, off=off, boundary=boundary)


def tiling_predicate(ctx, wall, pts, patches, tag):
    """The property, evaluated on an implementation output (n,4,3)."""
    plane, p = wall['plane'], wall['p']
    ax = [a for a in range(3) if a != plane]
    mn, mx = pts.min(axis=0), pts.max(axis=0)
    side = mx - mn
    n_exp = [int(np.floor(side[a] / p)) for a in ax]
    inp = {'pts': pts, 'patch_size': p}
    if wall.get('boundary') and len(patches):
        # side/p sits on an integer: in exact arithmetic floor may be one less than in floats; take the count
        # from the patches themselves (either value is a legitimate floor), everything else is checked as usual
        e0 = patches[0].max(axis=0) - patches[0].min(axis=0)
        for k, a in enumerate(ax):
            n = int(round(side[a] / e0[a])) if e0[a] > 0 else 0
            if n != n_exp[k] and not (n == n_exp[k] - 1 and abs(side[a] / p - n_exp[k]) < 1e-9 and n >= 1):
                ctx.violation('tiling-count', '%s: %d patches along axis %d, side/p = %r' % (tag, n, a, side[a] / p), inp, n, n_exp)
                return False
            n_exp[k] = n
    if len(patches) != n_exp[0] * n_exp[1]:
        ctx.violation('tiling-count', '%s: %d patches, expected floor(side/p) per direction = %d x %d' % (tag, len(patches), n_exp[0], n_exp[1]), inp, len(patches), n_exp)
        return False
    r = [side[a] / n_exp[k] for k, a in enumerate(ax)]
    tol = 1e-9 * max(1.0, np.abs(pts).max())
    area = 0.0
    seen = set()
    for q in patches:
        if np.abs(q[:, plane] - pts[0, plane]).max() > tol:
            ctx.violation('tiling-plane', '%s: patch leaves the wall plane' % tag, inp, None, None)
            return False
        lo, hi = q.min(axis=0), q.max(axis=0)
        ext = hi - lo
        if abs(ext[ax[0]] - r[0]) > tol or abs(ext[ax[1]] - r[1]) > tol:
            ctx.violation('tiling-congruent', '%s: patches are not congruent rectangles of side/floor(side/p)' % tag, inp, ext.tolist(), r)
            return False
        # each vertex on the bounding box corners (a rectangle)
        for vtx in q:
            for a in ax:
                if min(abs(vtx[a] - lo[a]), abs(vtx[a] - hi[a])) > tol:
                    ctx.violation('tiling-rectangle', '%s: patch is not an axis-aligned rectangle' % tag, inp, None, None)
                    return False
        cell = (int(round((lo[ax[0]] - mn[ax[0]]) / r[0])), int(round((lo[ax[1]] - mn[ax[1]]) / r[1])))
        if abs(lo[ax[0]] - (mn[ax[0]] + cell[0] * r[0])) > tol or abs(lo[ax[1]] - (mn[ax[1]] + cell[1] * r[1])) > tol or cell in seen \
                or not (0 <= cell[0] < n_exp[0] and 0 <= cell[1] < n_exp[1]):
            ctx.violation('tiling-grid', '%s: patches overlap or leave gaps (not on the grid)' % tag, inp, cell, None)
            return False
        seen.add(cell)
        area += ext[ax[0]] * ext[ax[1]]
    if abs(area - side[ax[0]] * side[ax[1]]) > 1e-9 * side[ax[0]] * side[ax[1]]:
        ctx.violation('tiling-area', '%s: patch areas do not sum to the wall area' % tag, inp, area, side[ax[0]] * side[ax[1]])
        return False
    allp = patches.reshape(-1, 3)
    if np.abs(allp.min(axis=0) - mn).max() > tol or np.abs(allp.max(axis=0) - mx).max() > tol:
        ctx.violation('tiling-bbox', '%s: union of the patches has not the wall\'s bounding box' % tag, inp, None, None)
        return False
    return True


def run_wall(ctx, wall, lines, meta):
    sp = common.import_repo()
    from sparrowpy import geometry
    normal = np.zeros(3)
    normal[wall['plane']] = 1.0
    up = np.zeros(3)
    up[(wall['plane'] + 1) % 3] = 1.0
    ref = None
    for oi, pts in enumerate(orderings(wall['pts'])):
        out = geometry._create_patches(pts.copy(), wall['p'])
        n = geometry._total_number_of_patches(pts.copy(), wall['p'])
        ctx.oracle_evals += 1
        if not wall['boundary']:
            if n != len(out):
                ctx.violation('tiling-count', '_total_number_of_patches disagrees with _create_patches', {'pts': pts, 'patch_size': wall['p']}, int(n), len(out))
            if not tiling_predicate(ctx, wall, pts, out, 'fast engine'):
                return
            # vertex-order independence: same set of patches (as point sets)
            key = sorted(tuple(np.round(np.sort(q.reshape(-1)), 9)) for q in out)
            if ref is None:
                ref = key
            elif key != ref:
                ctx.violation('tiling-vertex-order', 'tiling depends on the vertex order of the wall', {'pts': pts, 'patch_size': wall['p']}, None, None)
                return
            # Kang engine
            try:
                poly = sp.geometry.Polygon(pts, up, normal)
                pk = sp.PatchesKang(poly, wall['p'], [1], 0)
                kang = np.array([q.pts for q in pk.patches])
                if kang.shape != out.shape or not np.array_equal(kang, out):
                    ctx.violation('tiling-engines-differ', 'Kang engine and fast engine tile the wall differently', {'pts': pts, 'patch_size': wall['p']}, None, 'same tiling')
                    return
            except AssertionError:
                pass
        lines.append(' '.join(['patches', common.fhex(wall['p']), common.fhexs(pts)]))
        meta.append((wall, oi, out))


DECIMAL_P = [0.2, 0.4, 0.25, 0.5, 0.1]


def gen_decimal_room(rng):
    """Rooms as users type them: integer sides, decimal patch sizes (side/p an exact float integer although p is
    not exactly representable), plus side/k patch sizes."""
    while True:
        sides = [float(x) for x in rng.integers(1, 6, size=3)]
        kind = int(rng.integers(0, 3))
        if kind == 0:
            p = float(DECIMAL_P[int(rng.integers(0, len(DECIMAL_P)))])
        elif kind == 1:
            p = float(min(sides) / int(rng.integers(2, 13)))
        else:
            p = 2.5 / int(rng.integers(3, 13))
        n = [int(np.floor(s / p)) for s in sides]
        if min(n) >= 1 and 2 * (n[0] * n[1] + n[0] * n[2] + n[1] * n[2]) <= 900:
            return sides, p


def corr_process(ctx, rng, decimal=False, room=None):
    """_process_patches on a shoebox: wall ids in index blocks; patches of each wall = _create_patches = the Kang
    engine's patches, and the block of each wall is a tiling of that wall."""
    sp = common.import_repo()
    from sparrowpy import geometry
    if room is not None:
        sides, p = room
        decimal = True
    else:
        sides, p = gen_decimal_room(rng) if decimal else scenes.gen_room_params(rng, small=False)
    ctx.count('process_decimal_room', decimal)
    walls = sp.testing.shoebox_room_stub(*sides)
    wp = np.array([w.pts for w in walls])
    wn = np.array([w.normal for w in walls])
    pts, normals, n, ids = geometry._process_patches(wp, wn, p, len(walls))
    counts = [len(geometry._create_patches(w.pts.copy(), p)) for w in walls]
    ks = list(range(sum(counts)))
    outs = common.run_driver(['wallof %d %s %d' % (len(counts), ' '.join(map(str, counts)), k) for k in ks])
    model_ids = [int(o.split(' ')[1]) for o in outs]
    inp = {'sides': sides, 'patch_size': p}
    ctx.oracle_evals += 1
    ctx.cases += 1
    if int(n) != len(pts) or len(ids) != len(pts) or len(normals) != len(pts):
        ctx.violation('tiling-count', '_process_patches returns inconsistent lengths', inp, [int(n), len(pts), len(ids)], None)
        return
    if int(n) != sum(counts):
        ctx.violation('tiling-count', '_process_patches returns %d patches, the walls tile into %d' % (int(n), sum(counts)), inp, int(n), sum(counts))
        return
    ctx.cmp.ints('corr:_process_patches wall ids', ids, model_ids)
    if not np.array_equal(normals, wn[ids]):
        ctx.violation('tiling-normals', 'patches do not carry their wall\'s normal', inp, None, None)
    start = 0
    for w, c in enumerate(counts):
        block = pts[start:start + c]
        if not np.array_equal(block, geometry._create_patches(walls[w].pts.copy(), p)):
            ctx.violation('tiling-attribution', 'patch block of wall %d is not the tiling of that wall' % w, inp, None, None)
            return
        wpts = np.asarray(walls[w].pts, dtype=float)
        ext = wpts.max(axis=0) - wpts.min(axis=0)
        wall = dict(plane=int(np.argmin(ext)), p=p, boundary=decimal)
        if not tiling_predicate(ctx, wall, wpts, block, 'fast engine, wall %d of a room' % w):
            return
        try:
            pk = sp.PatchesKang(walls[w], p, [1], 0)
            kang = np.array([q.pts for q in pk.patches])
            if kang.shape != block.shape or not np.array_equal(kang, block):
                ctx.violation('tiling-engines-differ', 'Kang engine and fast engine tile wall %d of a room differently' % w, inp, None, 'same tiling')
                return
        except AssertionError:
            pass
        start += c


def corr_area_center(ctx, n):
    """`_calculate_area` / `_calculate_center` (used for every patch) vs the model."""
    common.import_repo()
    from sparrowpy import geometry
    from .. import geomgen
    lines, impl = [], []
    for _ in range(n):
        pts, _ = geomgen.convex_polygon(ctx.rng)
        a = geometry._calculate_area(pts[None, :, :].copy())[0]
        c = geometry._calculate_center(pts.copy())
        lines.append(' '.join(['polyinfo', str(len(pts)), common.fhexs(pts)]))
        impl.append((a, c))
    for (a, c), line in zip(impl, common.run_driver(lines)):
        sec = [x.strip().split(' ') for x in line[3:].split('|')]
        ctx.cmp.ulp('corr:_polygon_area', [a], [common.unhex(sec[0][0])], rtol=1e-12)
        ctx.cmp.ulp('corr:_calculate_center', c, common.parse_floats(sec[1]), rtol=1e-12, atol=1e-13)
    ctx.cases += 1


def run(ctx):
    corr_area_center(ctx, 30 if ctx.tier == 'quick' else 500)
    n = 25 if ctx.tier == 'quick' else 600
    lines, meta = [], []
    for k in range(n):
        wall = gen_wall(ctx.rng, boundary=(k % 8 == 7))
        run_wall(ctx, wall, lines, meta)
        ctx.count('plane_%d' % wall['plane'])
        ctx.count('boundary', wall['boundary'])
    outs = common.run_driver(lines)
    for (wall, oi, out), line in zip(meta, outs):
        ctx.cases += 1
        what = 'corr:_create_patches[plane %d, ordering %d]' % (wall['plane'], oi)
        if not line.startswith('ok '):
            ctx.cmp.tag(what + ' status', 'ok', line)
            continue
        sec = line[3:].split(' | ')
        nxny = [int(x) for x in sec[0].split(' ')]
        vals = common.parse_floats(sec[1].split(' ')) if len(sec) > 1 and sec[1].strip() else np.zeros(0)
        if wall['boundary']:
            # guarded: side/p sits on an integer, floor may go either way after rounding
            if len(vals) != out.size:
                ctx.cmp.ambiguous()
                continue
        if ctx.cmp.tag(what + ' count', len(out), nxny[0] * nxny[1]):
            ctx.cmp.exact(what, out, vals)
        if len(out) >= 2:
            ctx.nontriv([wall['plane'], oi, round(wall['p'], 6), [round(x, 6) for x in wall['sides']]])
        ctx.sample({'plane': wall['plane'], 'sides': wall['sides'].tolist(), 'patch_size': wall['p'], 'ordering': oi, 'n_patches': len(out)}, limit=3)
    for k in range(20 if ctx.tier == 'quick' else 120):
        corr_process(ctx, ctx.rng, decimal=(k % 2 == 1))


def oracle(ctx, budget_s=60):
    t = common.Timer()
    while t.s() < budget_s and not ctx.violations:
        run_wall(ctx, gen_wall(ctx.rng), [], [])
        corr_process(ctx, ctx.rng, decimal=bool(ctx.rng.integers(0, 2)))


def replay(ctx, rp):
    inp = rp['input']
    if 'sides' in inp:
        corr_process(ctx, ctx.rng, room=([float(x) for x in inp['sides']], float(inp['patch_size'])))
        return not ctx.violations
    pts = np.array(inp['pts'], dtype=float)
    ext = pts.max(axis=0) - pts.min(axis=0)
    wall = dict(plane=int(np.argmin(ext)), pts=pts, p=float(inp['patch_size']), sides=np.sort(ext)[1:], boundary=False)
    run_wall(ctx, wall, [], [])
    return not ctx.violations
