"""C16 — a baked object can be reused: results depend only on the final configuration."""
import tempfile
import numpy as np
from .. import common, scenes, energy, histories

LEVEL = 'proof'
RULE = ('random histories of the grammar setters*;bake+;(init+;exchange(recalculate)+)* (repeats, re-sourcing, changed '
        'order/resolution/duration, permuted setters) on real objects and on the Lean life-cycle model, each compared with '
        'the canonical fresh history of its final configuration; caller-owned inputs hashed before/after each call; '
        'non-trivial = history with >= 2 cycles or a repeated stage')
RULE = RULE + '; overriding setters, two installation styles of one configuration, re-sourcing from sources in the floor plane / outside the room; setters after a bake followed by another bake (random, and as fixed probes: bake before any material, materials replaced by ones on other direction sets, replaced after a complete run)'
ASSUMPTIONS = ['equal terms denote equal arrays (kernels are deterministic pure functions; numerical correspondence)',
               'parameter-mutation scan is syntactic (generated list of in-place sites whose base is a parameter)']
EXPLANATION = 'config_determines: the whole state after any history of the grammar equals that of the fresh canonical history; stages are idempotent; setters commute up to private numbering; no in-place site targets a parameter.'


def check_history_vs_fresh(ctx, pool, td, ops=None):
    ops = histories.gen_history(ctx.rng, pool, with_restore=False, late_setters=True) if ops is None else ops
    log = []
    r, snaps = histories.run_real(ops, pool, td, log)
    can = histories.canonical(ops)
    r0, snaps0 = histories.run_real(can, pool, td)
    ctx.oracle_evals += 2
    inp = {'pool': pool.describe(), 'ops': [list(map(str, o)) for o in ops]}
    a, b = snaps[-1], snaps0[-1]
    diff = [k for k in a if a[k] != b[k] and k not in ('brdf', 'index')]
    if diff:
        ctx.violation('history-dependent', 'attributes %s after the history differ from a fresh object configured the same way' % diff, inp, diff, 'bit-identical')
    rec = scenes.coords(pool.recv)
    if not np.array_equal(r.collect_energy_receiver_mono(rec).time, r0.collect_energy_receiver_mono(rec).time):
        ctx.violation('history-dependent', 'receiver curve after the history differs from a fresh object configured the same way', inp, None, 'bit-identical')
    bad = [n for n, ok in log if not ok]
    if bad:
        ctx.violation('input-modified', 'call %s modified an array / frequency data / coordinates object passed in by the caller' % bad[0], inp, bad, 'inputs untouched')
    return ops, snaps, can, snaps0


def check_setter_permutation(ctx, pool, td):
    setters = histories.gen_setters(ctx.rng, pool, none_prob=0.0)
    tail = [('B',), ('I', 's0'), ('X', 'p0', 1)]
    perm = [setters[i] for i in ctx.rng.permutation(len(setters))]
    _, s1 = histories.run_real(setters + tail, pool, td)
    _, s2 = histories.run_real(perm + tail, pool, td)
    ctx.oracle_evals += 2
    a, b = s1[-1], s2[-1]
    diff = [k for k in a if a[k] != b[k] and k not in ('brdf', 'index')]
    if diff:
        ctx.violation('setter-order-matters', 'permuting the material/attenuation setters changes %s' % diff,
                      {'pool': pool.describe(), 'setters': [list(map(str, o)) for o in setters], 'perm': [list(map(str, o)) for o in perm]}, diff, 'bit-identical')


def check_override_equivalence(ctx, pool, td):
    """Two ways of installing the SAME final configuration: one material on all walls and another
    one on a subset afterwards, versus each wall group set once.  Only the configuration in force
    may matter."""
    m0, m1 = ['m%d' % int(x) for x in ctx.rng.permutation(4)[:2]]
    sub = sorted(int(w) for w in ctx.rng.permutation(histories.W)[:int(ctx.rng.integers(1, histories.W))])
    rest = [w for w in range(histories.W) if w not in sub]
    tail = [('A', 'a0'), ('B',), ('I', 's0'), ('X', 'p0', 1)]
    style_a = [('S', list(range(histories.W)), m0), ('S', sub, m1)]
    style_b = [('S', rest, m0), ('S', sub, m1)]
    ra, s1 = histories.run_real(style_a + tail, pool, td)
    rb, s2 = histories.run_real(style_b + tail, pool, td)
    ctx.oracle_evals += 2
    a, b = s1[-1], s2[-1]
    diff = [k for k in a if a[k] != b[k] and k not in ('brdf', 'index')]
    rec = scenes.coords(pool.recv)
    if diff or not np.array_equal(ra.collect_energy_receiver_mono(rec).time, rb.collect_energy_receiver_mono(rec).time):
        ctx.violation('installation-style-matters',
                      'material %s on all walls then %s on walls %s gives different %s than %s on walls %s and %s on walls %s' % (m0, m1, sub, diff or 'receiver curve', m0, rest, m1, sub),
                      {'pool': pool.describe(), 'style_a': [list(map(str, o)) for o in style_a], 'style_b': [list(map(str, o)) for o in style_b]}, diff, 'bit-identical')


def check_idempotent(ctx, pool, td):
    base = [('S', [0, 1, 2, 3, 4, 5], 'm0'), ('A', 'a0')]
    for rep in ([('B',)], [('B',), ('I', 's1')], [('B',), ('I', 's1'), ('X', 'p1', 1)]):
        once = base + rep
        twice = base + rep[:-1] + [rep[-1], rep[-1]]
        _, s1 = histories.run_real(once, pool, td)
        _, s2 = histories.run_real(twice, pool, td)
        ctx.oracle_evals += 2
        diff = [k for k in s1[-1] if s1[-1][k] != s2[-1][k]]
        if diff:
            ctx.violation('stage-not-idempotent', 'repeating %s with the same arguments changes %s' % (rep[-1], diff),
                          {'pool': pool.describe(), 'stage': list(map(str, rep[-1]))}, diff, 'nothing changes')


def run(ctx):
    try:
        _run(ctx)
    except histories.OpFailed as e:
        sig = 'history-step-fails'
        if e.op[0] == 'R' and 'brdf_incoming_directions' in repr(e.exc) and getattr(e, 'partial_walls', False):
            sig = 'restore-fails:partially-set-walls'
        ctx.violation(sig, 'a legal history step is refused by the implementation: %s' % e, {'op': list(map(str, e.op)), 'step': e.k}, repr(e.exc)[:300], 'the step succeeds')


def _run(ctx):
    n_pools = 2 if ctx.tier == 'quick' else 10
    n_hist = 3 if ctx.tier == 'quick' else 8
    with tempfile.TemporaryDirectory(dir='/var/tmp') as td:
        for pi in range(n_pools):
            pool = histories.Pool(ctx.rng, multi_dir=(pi % 2 == 1))
            table = histories.TermTable(ctx)
            lines, reals, opss = [], [], []
            for h in range(n_hist):
                ops, snaps, can, snaps0 = check_history_vs_fresh(ctx, pool, td)
                for o, s in ((ops, snaps), (can, snaps0)):
                    lines.append(histories.life_line(o, pool))
                    reals.append(s)
                    opss.append(o)
                ctx.cases += 2
                n_cycles = sum(1 for o in ops if o[0] == 'I')
                ctx.count('history.inits_%d' % n_cycles)
                if n_cycles >= 2:
                    ctx.nontriv([pool.describe(), ops])
                ctx.sample({'pool': pool.describe(), 'ops': [list(map(str, o)) for o in ops]}, limit=2)
            for h, line in enumerate(common.run_driver(lines)):
                histories.compare(ctx, table, 'pool%d.h%d' % (pi, h), opss[h], reals[h], histories.parse_states(line))
            # re-sourcing from a source that sees fewer patches than the previous one
            for last in ('s3', 's4'):
                check_history_vs_fresh(ctx, pool, td, ops=[('S', list(range(histories.W)), 'm1'), ('A', 'a1'), ('B',), ('I', 's0'),
                                                            ('X', 'p0', 1), ('I', last), ('X', 'p0', 1)])
            # the attenuation is changed on a used object and every stage is run again for the SAME source
            check_history_vs_fresh(ctx, pool, td, ops=[('S', list(range(histories.W)), 'm2'), ('A', 'a0'), ('B',), ('I', 's1'), ('X', 'p1', 1),
                                                        ('A', 'a1'), ('B',), ('I', 's1'), ('X', 'p1', 1)])
            # baking again after the materials were set for the first time / replaced (other direction sets in the
            # multi-direction pool): everything baked must follow the materials in force
            W_ = list(range(histories.W))
            for probe in ([('B',), ('S', W_, 'm2'), ('A', 'a0'), ('B',), ('I', 's1'), ('X', 'p1', 1)],
                          [('S', W_, 'm0'), ('B',), ('S', W_, 'm2'), ('B',), ('I', 's0'), ('X', 'p0', 1)],
                          [('S', W_, 'm1'), ('A', 'a1'), ('B',), ('I', 's0'), ('X', 'p0', 1), ('S', W_, 'm3'), ('B',), ('I', 's0'), ('X', 'p0', 1)]):
                ctx.count('probe.rebake_after_materials')
                check_history_vs_fresh(ctx, pool, td, ops=probe)
            check_setter_permutation(ctx, pool, td)
            check_override_equivalence(ctx, pool, td)
            if pi == 0 or ctx.tier != 'quick':
                check_idempotent(ctx, pool, td)


def oracle(ctx, budget_s=60):
    try:
        _oracle(ctx, budget_s)
    except histories.OpFailed as e:
        sig = 'history-step-fails'
        if e.op[0] == 'R' and 'brdf_incoming_directions' in repr(e.exc) and getattr(e, 'partial_walls', False):
            sig = 'restore-fails:partially-set-walls'
        ctx.violation(sig, 'a legal history step is refused by the implementation: %s' % e, {'op': list(map(str, e.op)), 'step': e.k}, repr(e.exc)[:300], 'the step succeeds')


def _oracle(ctx, budget_s=60):
    t = common.Timer()
    with tempfile.TemporaryDirectory(dir='/var/tmp') as td:
        while t.s() < budget_s and not ctx.violations:
            pool = histories.Pool(ctx.rng)
            check_history_vs_fresh(ctx, pool, td)
            check_setter_permutation(ctx, pool, td)
            check_override_equivalence(ctx, pool, td)
            check_idempotent(ctx, pool, td)


def replay(ctx, rp):
    inp = rp['input']
    with tempfile.TemporaryDirectory(dir='/var/tmp') as td:
        if isinstance(inp, dict) and 'pool' in inp and 'pool_seed' in inp['pool']:
            pool = histories.Pool.from_description(inp['pool'])
            if 'ops' in inp:
                check_history_vs_fresh(ctx, pool, td, ops=histories.parse_ops(inp['ops']))
            else:
                check_setter_permutation(ctx, pool, td)
                check_override_equivalence(ctx, pool, td)
                check_idempotent(ctx, pool, td)
            return not ctx.violations
        rng = np.random.Generator(np.random.PCG64(rp.get('seed', 0)))
        pool = histories.Pool(rng)
        check_history_vs_fresh(ctx, pool, td)
        check_setter_permutation(ctx, pool, td)
        check_idempotent(ctx, pool, td)
    return not ctx.violations
