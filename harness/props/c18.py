"""C18 — inconsistent simulation states are rejected, not simulated."""
import copy
import numpy as np
from .. import common, energy, lifecycle, shapehist

LEVEL = 'proof'
RULE = ('every stage (constructed, materials, baked, sourced, exchanged) of random configurations (1-3 bands, '
        'single/multi-direction tables, attenuation) saved with to_dict; every corruption of the documented-constraint '
        'catalogue (42 entries) applicable to that state, plus the unmodified state; real from_dict outcome compared with '
        'the generated checkGen(convert(.)) run by the driver; non-trivial = a corruption that changes the abstract configuration; '
        'plus random call histories on a real object (setters on all / some / no walls, mixed direction-set sizes, frequency mismatches, '
        'source before bake, setters after bake, exchange with and without recalculation, restores anywhere; refused steps included): '
        'after every step the shapes of everything to_dict() saves and whether from_dict accepts it, against the shape-level model Sparrow.Shape')
RULE = RULE + '; and EVERY call history of at most 2 (quick) / 4 (thorough) steps over a fixed alphabet of ten calls (materials on all / two walls / multi-direction, attenuation with matching / other frequencies, bake, source, exchange with and without recalculation, save-restore) on a one-patch-per-wall room'
ASSUMPTIONS = ['translator: AST patterns of __init__/check() mean in Python what the emitted Lean says (index accesses assumed in range)',
               'the abstraction of a dict to shapes/ids/scalars is done by the harness (np.shape of np.array(value))']
EXPLANATION = ('check_sound: accepted => every documented constraint holds (all ranks/lengths/ids/scalars); rejection is always ValueError; valid states with every wall owning a patch are accepted; '
               'reachable_accepted_iff: a state reachable by ANY call history is accepted on restore iff it is neither partially set (D13) nor stale (D15) - every other reachable state is accepted.')


def sweep(ctx, sc, stages=None):
    sp = common.import_repo()
    kinds = lifecycle.field_kinds()
    cat = lifecycle.catalogue()
    lines, meta = [], []
    for stage, r in lifecycle.staged_objects(sc):
        if stages is not None and stage not in stages:
            continue
        base = lifecycle.decode_none(r.to_dict())
        todo = [('valid', None, lambda d: None)] + [c for c in cat if base.get(c[1]) is not None]
        for name, field, mut in todo:
            d = copy.deepcopy(base)
            try:
                mut(d)
            except Exception:
                continue
            got = lifecycle.classify(lambda: sp.DirectionalRadiosityFast.from_dict(copy.deepcopy(d)))
            ctx.oracle_evals += 1
            want = 'ok' if name == 'valid' else 'value_error'
            if got != want:
                ctx.violation('check:%s' % name,
                              '%s state, corruption "%s": from_dict gives %s, the property requires %s' % (stage, name, got, 'acceptance' if want == 'ok' else 'ValueError'),
                              {'scene': energy.scene_input(sc), 'stage': stage, 'corruption': name}, got, want)
            if kinds is None:
                ctx.count('translator_unavailable')
                continue
            try:
                toks = lifecycle.cfg_tokens(d, kinds)
            except Exception as e:
                ctx.count('abstraction_failed')
                continue
            lines.append('checkcfg ' + ' '.join(toks))
            meta.append((stage, name, got))
            ctx.count('stage.' + stage)
            if name != 'valid':
                ctx.nontriv([stage, name, sc['B'], sc['samp_par'] is not None])
    outs = common.run_driver(lines)
    for (stage, name, got), line in zip(meta, outs):
        model = 'ok' if line.startswith('ok') else line.split(' ', 1)[1]
        ctx.cmp.tag('corr:from_dict/check [%s, %s]' % (stage, name), got, model)
        ctx.cases += 1
    ctx.sample({'scene': energy.describe(sc), 'states': len(meta), 'example': meta[:3]}, limit=2)


def run(ctx):
    n = 2 if ctx.tier == 'quick' else 12
    for k in range(n):
        sc = energy.gen_scene(ctx.rng, small=True, multi_dir=(k % 2 == 1), att_zero=False)
        sc['K'] = max(sc['K'], 1)
        sweep(ctx, sc)
    # shape-level life cycle: random call histories (also irregular ones) against `Sparrow.Shape`
    shapehist.corr(ctx, 10 if ctx.tier == 'quick' else 120)
    # every history up to 2 (quick) / 4 (thorough) steps over a fixed alphabet of calls
    shapehist.exhaustive(ctx, 2 if ctx.tier == 'quick' else 4, budget_s=60 if ctx.tier == 'quick' else 2400)


def oracle(ctx, budget_s=60):
    t = common.Timer()
    while t.s() < budget_s and not ctx.violations:
        sc = energy.gen_scene(ctx.rng, small=True, att_zero=False)
        sweep(ctx, sc)
        shapehist.corr(ctx, 10)


def replay(ctx, rp):
    from . import c03
    sc = c03._scene_from_json(rp['input']['scene'])
    sweep(ctx, sc, stages=[rp['input']['stage']])
    return not ctx.violations
