"""C15 — saving and restoring a simulation at any stage is lossless."""
import os
import tempfile
import numpy as np
from .. import common, scenes, energy, histories, lifecycle

LEVEL = 'proof'
RULE = ('random histories of the grammar setters*;bake+;(init+;exchange+)* over random configurations (1-3 bands, '
        'single/multi-direction tables, attenuation, non-uniform walls) with save/restore (dict and file) inserted at '
        'random points, run on real objects and on the Lean life-cycle model; every attribute after every step: '
        'model term none <=> attribute None, equal terms => equal content hashes; oracle: round trip at every stage x '
        'continue both objects; non-trivial = history with a restore before the last stage')
RULE = RULE + '; exchanges with recalculate=False and other parameters, setters after the bake (then saved, then baked again), re-assignment of wall subsets, separate incoming sampling in the multi-direction pool'
RULE = RULE + '; completed Kang simulations in rooms anywhere in space (corner at the origin, random offset, source on coordinate planes, source at the origin): restored object compared through receiver responses of every order with and without direct sound, patch energies, source and to_dict'
ASSUMPTIONS = ['equal terms denote equal arrays: kernels are deterministic pure functions (numerical correspondence); tolist/np.array and the pyfar .far codec are library code tied by the hashes',
               'model footprints tied to the source by the generated read/write sets (Generated/Lifecycle.lean)']
EXPLANATION = 'restored and original differ at most in the unsaved _source; identical after the next init; receiver collection identical. D8 (direct sound after restore) is a known finding.'


def continue_ops(stage):
    """Pipeline stages that remain after `stage` (plus setting materials again)."""
    rest = {'constructed': [('S', [0, 1, 2, 3, 4, 5], 'm0'), ('A', 'a1'), ('B',), ('I', 's0'), ('X', 'p0', 1)],
            'materials': [('S', [2], 'm3'), ('B',), ('I', 's0'), ('X', 'p0', 1)],
            'baked': [('I', 's0'), ('X', 'p0', 1)],
            'sourced': [('X', 'p0', 1)],
            'exchanged': [('S', [1], 'm2'), ('B',), ('I', 's1'), ('X', 'p1', 1)]}
    return rest[stage]


def stage_prefix(stage):
    pre = {'constructed': [],
           'materials': [('S', [0, 1, 2], 'm0'), ('S', [3, 4, 5], 'm1'), ('A', 'a1')],
           'baked': [('S', [0, 1, 2], 'm0'), ('S', [3, 4, 5], 'm1'), ('A', 'a1'), ('B',)],
           'sourced': [('S', [0, 1, 2], 'm0'), ('S', [3, 4, 5], 'm1'), ('A', 'a1'), ('B',), ('I', 's2')],
           'exchanged': [('S', [0, 1, 2], 'm0'), ('S', [3, 4, 5], 'm1'), ('A', 'a1'), ('B',), ('I', 's2'), ('X', 'p2', 1)]}
    return pre[stage]


def check_roundtrip(ctx, pool, td, stages=None):
    """Implementation: restore at every stage, compare equal, continue both, compare bit for bit."""
    sp = common.import_repo()
    for stage in lifecycle.STAGES:
        if stages is not None and stage not in stages:
            continue
        for how in ('dict', 'file'):
            r, _ = histories.run_real(stage_prefix(stage), pool, td)
            inp = {'pool': pool.describe(), 'stage': stage, 'how': how}
            try:
                r2 = histories.restore(r, how, td)
            except Exception as e:
                ctx.violation('restore-fails', 'restoring (%s) a %s object raises %s' % (how, stage, type(e).__name__), inp, repr(e)[:200], 'an equal object')
                continue
            ctx.oracle_evals += 1
            try:
                eq = (r2 == r)
            except Exception as e:
                eq = False
            if not eq:
                ctx.violation('restored-not-equal', 'restored (%s) %s object does not compare equal to the original' % (how, stage), inp, False, True)
                continue
            # direct sound on an object restored after the exchange (known finding D8)
            if stage == 'exchanged':
                rec = scenes.coords(pool.recv)
                oa = lifecycle.classify(lambda: r.collect_energy_receiver_mono(rec, direct_sound=True))
                ob = lifecycle.classify(lambda: r2.collect_energy_receiver_mono(rec, direct_sound=True))
                ctx.oracle_evals += 1
                if oa == 'ok' and ob != 'ok':
                    ctx.violation('direct-sound-after-restore:_source-not-serialised',
                                  'direct sound on an object restored after the exchange raises %s (the source is not saved)' % ob, inp, ob, 'same curve as the original')
            a, b = r, r2
            for op in continue_ops(stage):
                sa = lifecycle.classify(lambda: None)
                try:
                    a = histories.apply_op(a, op, pool, td)
                    ra = 'ok'
                except Exception as e:
                    ra = type(e).__name__
                try:
                    b = histories.apply_op(b, op, pool, td)
                    rb = 'ok'
                except Exception as e:
                    rb = type(e).__name__
                if ra != rb:
                    ctx.violation('restored-rejects-call', 'after restoring (%s) at stage %s the call %s gives %s but %s on the original' % (how, stage, op, rb, ra), inp, rb, ra)
                    break
                sa, sb = histories.snapshot(a), histories.snapshot(b)
                diff = [k for k in sa if sa[k] != sb[k] and k != 'source']
                if diff:
                    ctx.violation('restored-diverges', 'after restoring (%s) at stage %s and running %s the attributes %s differ from continuing with the original' % (how, stage, op, diff), inp, diff, 'bit-identical')
                    break
            else:
                rec = scenes.coords(pool.recv)
                ca = a.collect_energy_receiver_mono(rec).time
                cb = b.collect_energy_receiver_mono(rec).time
                if not np.array_equal(ca, cb):
                    ctx.violation('restored-diverges', 'receiver curve after restore (%s at %s) differs' % (how, stage), inp, None, 'bit-identical')


def _same(a, b):
    if isinstance(a, dict) and isinstance(b, dict):
        return a.keys() == b.keys() and all(_same(a[k], b[k]) for k in a)
    if isinstance(a, (list, tuple)) and isinstance(b, (list, tuple)):
        return len(a) == len(b) and all(_same(x, y) for x, y in zip(a, b))
    if a is None or b is None:
        return a is None and b is None
    try:
        a_, b_ = np.asarray(a), np.asarray(b)
        if a_.dtype == object or b_.dtype == object:
            return a_.shape == b_.shape and all(_same(x, y) for x, y in zip(a_.ravel().tolist(), b_.ravel().tolist()))
        return a_.shape == b_.shape and bool(np.array_equal(a_, b_))
    except Exception:
        return a == b


def check_kang_roundtrip(ctx, rng, fixed=None, place=None):
    """The same for a completed Kang simulation: rooms anywhere in space (also centred on the origin, the source then
    on coordinate planes or at the origin itself), restored object compared through everything the original offers."""
    sp = common.import_repo()
    sides = [float(x) for x in rng.integers(2, 4, size=3)]
    place = int(rng.integers(0, 4)) if place is None else place          # 0: corner at origin, 1: random offset, 2/3: source on planes / at origin
    rel = rng.uniform(0.25, 0.75, size=3) * np.array(sides)
    if place == 0:
        origin = np.zeros(3)
    elif place == 1:
        origin = np.round(rng.uniform(-4, 4, size=3), 2)
    else:
        origin = -rel
        if place == 2:
            origin[int(rng.integers(0, 3))] += float(rng.uniform(0.1, 0.4))
    if fixed is not None:
        sides, origin, fsrc = [float(x) for x in fixed[0]], np.array(fixed[1], dtype=float), np.array(fixed[2], dtype=float)
        place = -1
    ctx.count('kang_roundtrip_place_%d' % place)
    walls = [sp.geometry.Polygon(w.pts + origin, w.up_vector, w.normal) for w in sp.testing.shoebox_room_stub(*sides)]
    spos = origin + rel
    if place == 3:
        spos = np.zeros(3)
    if fixed is not None:
        spos = fsrc
    src = sp.geometry.SoundSource(spos, [0, 1, 0], [0, 0, 1])
    K = 2
    rad = sp.RadiosityKang(walls, 1.0, K, 0.05, speed_of_sound=343., sampling_rate=500, absorption=float(rng.uniform(0.05, 0.5)))
    rad.run(src)
    rec = sp.sound_object.Receiver(origin + rng.uniform(0.2, 0.8, size=3) * np.array(sides), [0, 1, 0], [0, 0, 1])
    inp = {'sides': sides, 'origin': origin.tolist(), 'source': spos.tolist()}

    def probes(r):
        out = {'default': r.energy_at_receiver(rec)}
        out['no_direct'] = r.energy_at_receiver(rec, ignore_direct=True)
        for k in range(K + 1):
            out['order_%d' % k] = r.energy_at_receiver(rec, max_order_k=k)
        out['E'] = [np.array(p.E_matrix) for p in r.patch_list]
        out['source'] = None if getattr(r, 'source', None) is None else np.array(r.source.position, dtype=float)
        out['dict'] = r.to_dict()
        return out
    ref = probes(rad)
    ctx.oracle_evals += 1
    with tempfile.TemporaryDirectory(dir='/var/tmp') as td:
        for how in ('dict', 'file'):
            try:
                if how == 'dict':
                    r2 = sp.RadiosityKang.from_dict(rad.to_dict())
                else:
                    rad.write(os.path.join(td, 'k.far'))
                    r2 = sp.RadiosityKang.from_read(os.path.join(td, 'k.far'))
                got = probes(r2)
            except Exception as e:
                ctx.violation('kang-restore', 'restoring (%s) a completed Kang simulation, or using the restored one, fails: %s' % (how, type(e).__name__), inp, repr(e)[:200], None)
                continue
            for key in ref:
                if not _same(ref[key], got[key]):
                    ctx.violation('kang-restore', 'restored (%s) Kang simulation differs from the original in %s' % (how, key), inp, None, 'bit-identical')
                    break


def _sig(e):
    sig = 'history-step-fails'
    if e.op[0] == 'R' and 'brdf_incoming_directions' in repr(e.exc) and getattr(e, 'partial_walls', False):
        sig = 'restore-fails:partially-set-walls'
    if e.op[0] == 'R' and 'form_factors_tilde need to be of shape' in repr(e.exc) and getattr(e, 'stale_baked', False):
        sig = 'restore-fails:setter-after-bake-changed-band-or-direction-count'
    return sig


def _op_failed(ctx, e):
    sig = _sig(e)
    ctx.violation(sig, 'a legal history step is refused by the implementation: %s' % e, {'op': list(map(str, e.op)), 'step': e.k}, repr(e.exc)[:300], 'the step succeeds')


def run(ctx):
    try:
        _run(ctx)
    except histories.OpFailed as e:
        sig = _sig(e)
        ctx.violation(sig, 'a legal history step is refused by the implementation: %s' % e, {'op': list(map(str, e.op)), 'step': e.k}, repr(e.exc)[:300], 'the step succeeds')


def _run(ctx):
    n_pools = 2 if ctx.tier == 'quick' else 10
    n_hist = 3 if ctx.tier == 'quick' else 8
    with tempfile.TemporaryDirectory(dir='/var/tmp') as td:
        for pi in range(n_pools):
            pool = histories.Pool(ctx.rng, multi_dir=(pi % 2 == 1), in_sampling=True if pi % 2 == 1 else None)
            table = histories.TermTable(ctx)
            lines, reals, opss = [], [], []
            for h in range(n_hist):
                ops = histories.gen_history(ctx.rng, pool, with_restore=True, norecalc=True, late_setters=True)
                try:
                    r, snaps = histories.run_real(ops, pool, td)
                except histories.OpFailed as e:
                    _op_failed(ctx, e)
                    continue
                lines.append(histories.life_line(ops, pool))
                reals.append(snaps)
                opss.append(ops)
                ctx.cases += 1
                ctx.count('history.len_%d' % min(len(ops), 15))
                ctx.count('history.restores', sum(1 for o in ops if o[0] == 'R'))
                if any(o[0] == 'R' for o in ops[:-1]):
                    ctx.nontriv([pool.describe(), ops])
                ctx.sample({'pool': pool.describe(), 'ops': [list(map(str, o)) for o in ops]}, limit=2)
            if lines:
                for h, line in enumerate(common.run_driver(lines)):
                    histories.compare(ctx, table, 'pool%d.h%d' % (pi, h), opss[h], reals[h], histories.parse_states(line))
            check_roundtrip(ctx, pool, td, stages=None if (ctx.tier != 'quick' or pi == 0) else ['baked', 'exchanged'])
            # saving between a setter that follows a bake and the next bake
            for probe in ([('B',), ('A', 'a0'), ('R', 'dict'), ('B',)],
                          [('B',), ('S', list(range(histories.W)), 'm0'), ('R', 'file'), ('B',)]):
                ctx.oracle_evals += 1
                ctx.count('probe.setter_after_bake')
                try:
                    histories.run_real(probe, pool, td)
                except histories.OpFailed as e:
                    _op_failed(ctx, e)
    for k in range(4 if ctx.tier == 'quick' else 24):
        check_kang_roundtrip(ctx, ctx.rng, place=(k + 3) % 4)


def oracle(ctx, budget_s=60):
    try:
        _oracle(ctx, budget_s)
    except histories.OpFailed as e:
        sig = _sig(e)
        ctx.violation(sig, 'a legal history step is refused by the implementation: %s' % e, {'op': list(map(str, e.op)), 'step': e.k}, repr(e.exc)[:300], 'the step succeeds')


def _oracle(ctx, budget_s=60):
    t = common.Timer()
    with tempfile.TemporaryDirectory(dir='/var/tmp') as td:
        while t.s() < budget_s and not [v for v in ctx.violations if 'direct-sound-after-restore' not in v['signature']]:
            pool = histories.Pool(ctx.rng)
            check_roundtrip(ctx, pool, td)
            check_kang_roundtrip(ctx, ctx.rng)


def replay(ctx, rp):
    import numpy as np
    rng = np.random.Generator(np.random.PCG64(rp.get('seed', 0)))
    if 'origin' in rp['input']:
        check_kang_roundtrip(ctx, rng, fixed=(rp['input']['sides'], rp['input']['origin'], rp['input']['source']))
        return not ctx.violations
    with tempfile.TemporaryDirectory(dir='/var/tmp') as td:
        pool = histories.Pool(rng)
        check_roundtrip(ctx, pool, td, stages=[rp['input']['stage']])
    return not ctx.violations
