"""C13 — constructed BRDFs conserve energy, are non-negative and reciprocal."""
import numpy as np
from .. import common, scenes

LEVEL = 'proof'
RULE = ('Gauss-type hemisphere samplings built by the harness (Gauss-Legendre in cos(theta) x equiangular azimuth with an '
        'even number of azimuth steps so that the sampling is mirror-closed; 1-4 x 2-8 directions; any positive weight scale), '
        's, a in {0, 1} U (0,1) per band, 1-3 bands; real create_from_scattering / create_from_directional_scattering vs '
        'the Lean model; non-trivial = more than one direction and 0 < s < 1')
ASSUMPTIONS = ['theorems at real numbers; pyfar Coordinates (colatitude, weights, find_nearest) is library code: the mirror index is compared with the model\'s nearest-sample rule',
               'sampling hypotheses (cosine integrates to pi, mirror closure) are decidable predicates checked on every generated sampling']
EXPLANATION = 'non-negativity; for every incident direction sum_o brdf*cos*w = 1-a, split s diffuse / (1-s) mirror; symmetric on mirror-closed samplings; weight scale free; directional scattering summing to 1 reflects 1-a.'


def gen_case(rng):
    # any resolution: mostly coarse, regularly fine (down to directions within a fraction of a
    # degree of grazing incidence, where cos(theta) is tiny)
    nt = int(rng.choice([1, 2, 3, 4, 4, 6, 8, 12, 16, 24]))
    nph = int(rng.choice([2, 4, 6, 8])) if nt <= 4 else int(rng.choice([2, 4]))
    scale = float(rng.choice([1.0, rng.uniform(0.1, 10)]))
    B = int(rng.integers(1, 4))
    def coef():
        return np.array([rng.choice([0.0, 1.0, rng.uniform(0, 1)]) for _ in range(B)], dtype=float)
    # the incoming sampling's weights on ANOTHER scale than the outgoing one's (weights need not be normalised)
    return dict(nt=nt, nph=nph, scale=scale, B=B, s=coef(), a=coef(), src_scale=float(rng.choice([1.0, 0.159, 3.7])))


def run_case(ctx, case, lines, meta):
    sp = common.import_repo()
    import pyfar as pf
    samp = scenes.hemisphere_sampling(case['nt'], case['nph'], weight_scale=case['scale'])
    n = samp.csize
    freqs = scenes.FREQS[:case['B']]
    S = pf.FrequencyData(case['s'], freqs)
    A = pf.FrequencyData(case['a'], freqs)
    src, rec = samp.copy(), samp.copy()
    src.weights = np.array(src.weights, dtype=float) * float(case.get('src_scale', 1.0))
    w_raw = np.array(rec.weights, dtype=float).copy()
    brdf = sp.brdf.create_from_scattering(src, rec, S, A)
    data = np.real(brdf.freq)                      # (n, n, B)
    cosT = np.cos(samp.colatitude)
    wn = w_raw * (2 * np.pi / np.sum(w_raw))
    img = samp.copy()
    img.azimuth += np.pi
    mir = np.atleast_1d(samp.find_nearest(img)[0][0])
    # --- the property on the implementation's output
    ctx.oracle_evals += 1
    inp = dict(case)
    closure = abs(np.sum(cosT * wn) - np.pi) < 1e-9 and np.allclose(cosT[mir], cosT, atol=1e-12) and np.allclose(wn[mir], wn, rtol=1e-12) and np.array_equal(mir[mir], np.arange(n))
    ctx.count('sampling.mirror_closed_and_cosine_exact', bool(closure))
    if np.any(data < 0):
        ctx.violation('brdf-negative', 'create_from_scattering returns a negative BRDF value', inp, float(data.min()), '>= 0')
    if closure:
        for b in range(case['B']):
            refl = (data[:, :, b] * (cosT * wn)[None, :]).sum(axis=1)
            if np.abs(refl - (1 - case['a'][b])).max() > 1e-9:
                i = int(np.argmax(np.abs(refl - (1 - case['a'][b]))))
                ctx.violation('brdf-energy', 'incident direction %d: reflected energy fraction %.9f is not 1-a = %.9f' % (i, refl[i], 1 - case['a'][b]), inp, float(refl[i]), float(1 - case['a'][b]))
                break
            diffuse = case['s'][b] * (1 - case['a'][b])
            spec = data[np.arange(n), mir, b] * cosT[mir] * wn[mir] - (case['s'][b] * (1 - case['a'][b]) / np.pi) * cosT[mir] * wn[mir]
            if np.abs(spec - (1 - case['s'][b]) * (1 - case['a'][b])).max() > 1e-9:
                ctx.violation('brdf-split', 'the mirror direction does not carry (1-s)(1-a)', inp, None, None)
                break
            if np.abs(data[:, :, b] - data[:, :, b].T).max() > 1e-9 * max(1.0, np.abs(data[:, :, b]).max()):
                ctx.violation('brdf-not-reciprocal', 'BRDF is not symmetric in incoming/outgoing direction on a mirror-closed sampling', inp, None, None)
                break
    # directional scattering summing to 1
    sd = ctx.rng.uniform(0, 1, size=(n, n, case['B']))
    sd /= sd.sum(axis=1, keepdims=True)
    bd = sp.brdf.create_from_directional_scattering(samp.copy(), samp.copy(), pf.FrequencyData(sd, freqs), A)
    dd = np.real(bd.freq)
    for b in range(case['B']):
        refl = (dd[:, :, b] * (cosT * wn)[None, :]).sum(axis=1)
        if np.abs(refl - (1 - case['a'][b])).max() > 1e-9:
            ctx.violation('brdf-directional-energy', 'directional scattering summing to 1 does not reflect 1-a', inp, float(refl[0]), float(1 - case['a'][b]))
            break
    # --- correspondence
    for b in range(case['B']):
        lines.append(' '.join(['brdfscat', str(n), common.fhex(case['s'][b]), common.fhex(case['a'][b]),
                               common.fhexs(cosT), common.fhexs(w_raw), ' '.join(str(int(x)) for x in mir)]))
        meta.append(('scat', data[:, :, b]))
        lines.append(' '.join(['brdfdir', str(n), common.fhex(case['a'][b]), common.fhexs(cosT), common.fhexs(w_raw),
                               common.fhexs(sd[:, :, b])]))
        meta.append(('dir', dd[:, :, b]))
    # mirror index vs the model's nearest-sample rule
    imgc = img.cartesian
    lines.append(' '.join(['nearestidx', str(n), str(n), common.fhexs(samp.cartesian), common.fhexs(imgc)]))
    meta.append(('mir', mir))
    ctx.cases += 1
    ctx.count('dirs_%d' % n)
    if n > 1 and np.any((case['s'] > 0) & (case['s'] < 1)):
        ctx.nontriv([case['nt'], case['nph'], round(case['scale'], 6), case['s'].tolist(), case['a'].tolist()])
    ctx.sample({'n_theta': case['nt'], 'n_phi': case['nph'], 'weight_scale': case['scale'], 's': case['s'].tolist(), 'a': case['a'].tolist()}, limit=3)


def finish(ctx, lines, meta):
    outs = common.run_driver(lines)
    for (kind, impl), line in zip(meta, outs):
        if not line.startswith('ok'):
            ctx.cmp.tag('corr:brdf %s status' % kind, 'ok', line[:60])
            continue
        if kind == 'mir':
            sec = line[3:].split(' | ')
            idx = np.array([int(x) for x in sec[0].split(' ')])
            mg = common.parse_floats(sec[1].split(' '))
            amb = mg < 1e-9
            ctx.cmp.ambiguous(int(amb.sum()))
            a, m = impl.copy(), idx.copy()
            a[amb] = 0
            m[amb] = 0
            ctx.cmp.ints('corr:mirror index (find_nearest)', a, m)
        else:
            val = common.parse_floats(line.split(' ')[1:])
            what = 'corr:create_from_%s' % ('scattering' if kind == 'scat' else 'directional_scattering')
            if ctx.cmp.ints(what + ' zero pattern', (impl != 0).astype(int).ravel(), (val != 0).astype(int)):
                ctx.cmp.ulp(what, impl, val, rtol=1e-12)


def run(ctx):
    n = 25 if ctx.tier == 'quick' else 600
    lines, meta = [], []
    for _ in range(n):
        run_case(ctx, gen_case(ctx.rng), lines, meta)
    finish(ctx, lines, meta)


def oracle(ctx, budget_s=60):
    t = common.Timer()
    while t.s() < budget_s and not ctx.violations:
        run_case(ctx, gen_case(ctx.rng), [], [])


def replay(ctx, rp):
    c = rp['input']
    case = dict(nt=int(c['nt']), nph=int(c['nph']), scale=float(c['scale']), B=int(c['B']), s=np.array(c['s'], float), a=np.array(c['a'], float))
    run_case(ctx, case, [], [])
    return not ctx.violations
