"""C19 — Kang engine: exact order recursion, placement invariance, direct-sound law."""
import numpy as np
from .. import common, scenes
from ..common import fhex, fhexs

LEVEL = 'proof'
RULE = ('Kang rooms: 2-6 walls of a shoebox with integer sides 2-4 m, patch size 1, per-wall per-band absorption, band-dependent '
        'attenuation, orders 1-3, histogram lengths from "holds the tail" down to just above the longest single leg; real form '
        'factors / first-order energy / per-order E_matrix / receiver response vs the Lean model (1e-11 relative); oracle on the '
        'implementation: recursion from order k, prefix property of short histograms, translation, cyclic axis permutation, '
        'monotone in max order, direct-sound increment; non-trivial = at least 3 walls and order >= 2')
ASSUMPTIONS = ['theorems at real numbers; values compared at 1e-11 relative (sequential float products are re-associated in the model)',
               '_add_delay tied bit for bit in the C02 check; generated constants record that it zeroes the wrapped head']
EXPLANATION = 'order k+1 = sum over patches of other walls of the truncating delay of order k scaled by ff, (1-alpha) of the receiving wall, exp(-m d) (instance of the core refinement theorem); truncation; response monotone in the maximum order; direct-sound law; form factors and first-order term are functions of coordinate differences and follow the axes under cyclic permutation.'


def make_room(rng, n_walls=None, B=None):
    sp = common.import_repo()
    sides = [float(x) for x in rng.integers(2, 5, size=3)]
    n_walls = int(n_walls or rng.integers(2, 7))
    keep = sorted(rng.choice(6, size=n_walls, replace=False).tolist()) if n_walls < 6 else list(range(6))
    if n_walls == 2 and rng.random() < 0.5:
        keep = [2, 3] if rng.random() < 0.5 else [0, 1]
    B = int(B or rng.integers(1, 4))
    absorption = rng.uniform(0.05, 0.9, size=(6, B))
    att = rng.choice([0.0, 1.0], size=B) * rng.uniform(0.0, 0.2, size=B)
    c = float(rng.uniform(330, 350))
    fs = float(rng.choice([500, 1000, 441, 333.3]))
    if rng.random() < 0.25:
        # normalised units: a sampling rate that is not a whole number (delays of 0..13 samples per leg)
        c = float(rng.uniform(0.8, 1.3))
        fs = float(rng.choice([3.3, 2.5, 7.7]))
    K = int(rng.integers(1, 4))
    src = scenes.gen_point_inside(rng, sides, margin=0.25)
    rec = scenes.gen_point_inside(rng, sides, margin=0.25)
    diag = float(np.linalg.norm(sides))
    s_min = int(diag / c * fs) + 3
    s_long = int((K + 2) * diag / c * fs) + 5
    S = int(rng.choice([s_long, s_long, s_min + int(rng.integers(0, 4))]))
    return dict(sides=sides, keep=keep, B=B, absorption=absorption, att=att, c=c, fs=fs, K=K, src=src, rec=rec,
                S=S, s_long=s_long, offset=np.zeros(3), perm=0)


def transform(pt, room):
    """cyclic permutation (x->y->z->x, `perm` times) then translation"""
    p = np.asarray(pt, dtype=float)
    for _ in range(room['perm']):
        p = np.roll(p, 1, axis=-1)
    return p + room['offset']


def tvec(v, room):
    v = np.asarray(v, dtype=float)
    for _ in range(room['perm']):
        v = np.roll(v, 1, axis=-1)
    return v


def build(room, S=None, K=None):
    sp = common.import_repo()
    walls0 = sp.testing.shoebox_room_stub(*room['sides'])
    walls = []
    for w in room['keep']:
        q = walls0[w]
        walls.append(sp.geometry.Polygon(transform(q.pts, room), tvec(q.up_vector, room), tvec(q.normal, room)))
    n = len(walls)
    pk = []
    for i, w in enumerate(walls):
        others = [j for j in range(n) if j != i]
        pk.append(sp.PatchesKang(w, 1.0, others, i, scattering=np.ones(room['B']),
                                 absorption=room['absorption'][room['keep'][i]].copy(),
                                 sound_attenuation_factor=room['att'].copy()))
    S = room['S'] if S is None else S
    K = room['K'] if K is None else K
    rad = sp.RadiosityKang(pk, 1.0, K, (S + 0.5) / room['fs'], speed_of_sound=room['c'], sampling_rate=room['fs'])
    src = sp.geometry.SoundSource(transform(room['src'], room), [0, 1, 0], [0, 0, 1])
    rad.run(src)
    rec = sp.sound_object.Receiver(transform(room['rec'], room), [0, 1, 0], [0, 0, 1])
    return rad, src, rec


def flat(rad):
    """global patch list: (wall, local index, Polygon)"""
    out = []
    for w, pl in enumerate(rad.patch_list):
        for i, q in enumerate(pl.patches):
            out.append((w, i, q))
    return out


def E_of(rad, b, k):
    return np.vstack([pl.E_matrix[b, k] for pl in rad.patch_list])     # (P, S)


def ff_matrix(rad):
    pats = flat(rad)
    P = len(pats)
    ff = np.zeros((P, P))
    for a, (wa, ia, _) in enumerate(pats):
        for bq, (wb, ib, _) in enumerate(pats):
            if wa != wb:
                ff[a, bq] = np.squeeze(rad.patch_list[wa].get_form_factor(rad.patch_list, ia, wb, ib))
    return ff


def shift_trunc(h, n):
    out = np.zeros_like(h)
    if n < len(h):
        out[n:] = h[:len(h) - n]
    return out


def recursion_oracle(ctx, room, rad):
    pats = flat(rad)
    P = len(pats)
    centers = np.array([q.center for _, _, q in pats])
    ff = ff_matrix(rad)
    c, fs = room['c'], room['fs']
    S = rad.patch_list[0].E_matrix.shape[3]
    ctx.oracle_evals += 1
    for b in range(room['B']):
        for k in range(room['K']):
            Ek = E_of(rad, b, k)
            Ek1 = E_of(rad, b, k + 1)
            ref = np.zeros_like(Ek1)
            for j, (wj, _, _) in enumerate(pats):
                plj = rad.patch_list[wj]
                for i, (wi, _, _) in enumerate(pats):
                    if wi == wj:
                        continue
                    d = np.linalg.norm(centers[j] - centers[i])
                    n = int(d / c * fs)
                    ref[j] += shift_trunc(Ek[i], n) * ff[i, j] * plj.scattering[b] * (1 - plj.absorption[b]) * \
                        np.exp(-plj.sound_attenuation_factor[b] * d)
            scale = max(float(np.abs(ref).max()), 1e-300)
            if np.abs(Ek1 - ref).max() > 1e-9 * scale:
                j = int(np.argmax(np.abs(Ek1 - ref).max(axis=1)))
                ctx.violation('kang-recursion', 'order-%d energy of patch %d (band %d) is not the delayed, truncated order-%d energy of the other walls scaled by ff, (1-absorption) of the receiving wall and exp(-m d)' % (k + 1, j, b, k),
                              _inp(room), None, None)
                return False
    return True


def _inp(room):
    return {k: room[k] for k in ('sides', 'keep', 'B', 'absorption', 'att', 'c', 'fs', 'K', 'src', 'rec', 'S', 's_long', 'offset', 'perm')}


def invariance_oracle(ctx, room, rad, rec):
    ir = rad.energy_at_receiver(rec, ignore_direct=True)
    # prefix property: a short histogram is the prefix of a long one, order by order
    if room['S'] < room['s_long']:
        long_rad, _, long_rec = build(room, S=room['s_long'])
        ctx.oracle_evals += 1
        for w in range(len(rad.patch_list)):
            a = rad.patch_list[w].E_matrix
            b = long_rad.patch_list[w].E_matrix[..., :a.shape[-1]]
            if not np.allclose(a, b, rtol=1e-12, atol=0):
                ctx.violation('kang-truncation', 'with a histogram of %d bins the patch energies are not the first bins of the %d-bin run (late energy re-appears)' % (room['S'], room['s_long']), _inp(room), None, None)
                return
    # translation and cyclic permutation (dyadic offsets: with integer sides and patch size 1 the
    # ratio side/patch sits exactly on the integer rounding edge, which a non-representable offset
    # would push to either side; the statement says "up to rounding")
    for name, ch in (('translation', dict(offset=np.array([3.5, -1.25, 12.0]))), ('cyclic axis permutation', dict(perm=1)), ('cyclic axis permutation', dict(perm=2))):
        r2 = dict(room, **ch)
        rad2, _, rec2 = build(r2)
        ir2 = rad2.energy_at_receiver(rec2, ignore_direct=True)
        ctx.oracle_evals += 1
        peak = max(float(np.abs(ir).max()), 1e-300)
        if ir.shape != ir2.shape or np.abs(ir - ir2).max() > 1e-9 * peak:
            ctx.violation('kang-placement', 'receiver response changes under %s' % name, _inp(r2), float(np.abs(ir - ir2).max() / peak), '<= 1e-9 of the peak')
            return
    # monotone in the maximum order, direct sound
    prev = None
    for k in range(room['K'] + 1):
        cur = rad.energy_at_receiver(rec, max_order_k=k, ignore_direct=True)
        if prev is not None and np.any(cur < prev - 1e-15 * max(cur.max(), 1e-300)):
            ctx.violation('kang-monotone', 'receiver response for maximum order %d is smaller than for %d in some bin' % (k, k - 1), _inp(room), None, None)
            return
        prev = cur
    r = float(np.linalg.norm(rec.position - rad.source.position))
    nb = int(r / room['c'] * room['fs'])
    if nb < ir.shape[1]:
        with_d = rad.energy_at_receiver(rec, ignore_direct=False)
        inc = with_d - ir
        ref = np.zeros_like(inc)
        ref[:, nb] = np.exp(-room['att'] * r) / (4 * np.pi * r * r)
        if not np.allclose(inc, ref, rtol=1e-12, atol=1e-300):
            ctx.violation('kang-direct', 'direct sound is not 1/(4 pi r^2) exp(-m r) in bin int(r/c*fs)=%d' % nb, _inp(room), None, None)


def correspondence(ctx, room, rad, rec, src):
    pats = flat(rad)
    P = len(pats)
    centers = np.array([q.center for _, _, q in pats])
    normals = np.array([q.normal for _, _, q in pats])
    sizes = np.array([q.size for _, _, q in pats])
    walls = [w for w, _, _ in pats]
    ff = ff_matrix(rad)
    c, fs, K = room['c'], room['fs'], room['K']
    S = rad.patch_list[0].E_matrix.shape[3]
    lines, meta = [], []
    # form factors
    for a, (wa, ia, qa) in enumerate(pats):
        for bq, (wb, ib, qb) in enumerate(pats):
            if wa == wb:
                continue
            if np.dot(qb.normal, qa.normal) == 0:
                lines.append(' '.join(['kangff', 'orth', fhexs(qa.center), fhexs(qb.center), fhexs(qa.normal), fhexs(qb.normal), fhex(1.0)]))
            else:
                wd = np.abs(rad.patch_list[wb].center - rad.patch_list[wa].center)
                lines.append(' '.join(['kangff', 'par', fhexs(qa.center), fhexs(qb.center), fhexs(wd), fhex(1.0)]))
            meta.append(('ff', ff[a, bq]))
    # first-order energies
    dist0 = np.array([np.linalg.norm(q.center - src.position) for _, _, q in pats])
    for b in range(room['B']):
        e0 = np.array([E_of(rad, b, 0)[j].sum() for j in range(P)])
        for j, (wj, ij, q) in enumerate(pats):
            plj = rad.patch_list[wj]
            lines.append(' '.join(['kanginitp', fhexs(q.normal), fhexs(q.center), fhexs(q.size), fhexs(src.position),
                                   fhex(src.sound_power), fhex(plj.absorption[b]), fhex(plj.sound_attenuation_factor[b])]))
            meta.append(('init', e0[j]))
        # recursion and receiver
        dist = np.array([[np.linalg.norm(centers[j] - centers[i]) for j in range(P)] for i in range(P)])
        refl = np.array([rad.patch_list[w].scattering[b] * (1 - rad.patch_list[w].absorption[b]) for w in walls])
        lines.append(' '.join(['kangrun', str(P), str(S), str(K), fhex(c), fhex(fs), fhex(room['att'][b]),
                               ' '.join(map(str, walls)), fhexs(dist0), fhexs(e0), fhexs(dist), fhexs(ff), fhexs(refl)]))
        H = np.array([E_of(rad, b, k) for k in range(K + 1)])
        meta.append(('run', H))
        lines.append(' '.join(['kangrecv', str(P), str(S), str(K), fhex(c), fhex(fs), fhex(room['att'][b]), fhexs(rec.position),
                               fhexs(centers), fhexs(normals), fhexs(H)]))
        meta.append(('recv', rad.energy_at_receiver(rec, ignore_direct=True)[b]))
    outs = common.run_driver(lines)
    for (kind, impl), line in zip(meta, outs):
        st, val = common.parse_ok_floats(line)
        what = 'corr:kang %s' % {'ff': 'calculate_form_factor', 'init': '_init_energy_exchange', 'run': 'calculate_energy_exchange', 'recv': 'energy_at_receiver'}[kind]
        if not ctx.cmp.tag(what + ' status', 'ok', st):
            continue
        impl = np.asarray(impl, dtype=float).ravel()
        if kind in ('run', 'recv'):
            if not ctx.cmp.ints(what + ' zero pattern', (impl != 0).astype(int), (val != 0).astype(int)):
                continue
        ctx.cmp.ulp(what, impl, val, rtol=1e-10, atol=1e-300)
    ctx.cases += 1
    ctx.count('walls_%d' % len(rad.patch_list))
    ctx.count('truncating', room['S'] < room['s_long'])
    ctx.count('att_nonzero', bool(np.any(room['att'] != 0)))
    if len(rad.patch_list) >= 3 and K >= 2:
        ctx.nontriv([room['sides'], room['keep'], K, room['S']])
    ctx.sample({'sides': room['sides'], 'walls': room['keep'], 'patches': P, 'K': K, 'S': S, 'bands': room['B']}, limit=3)


def corr_e2e(ctx, room, rad, rec, src):
    """The composed model `runKang` (driver command `kangpipe`) against the real run, band by band:
    form factors, first-order energy and its bin, every order's patch histograms, the receiver
    response without and with direct sound — from the bare scene description only."""
    sp = common.import_repo()
    pats = flat(rad)
    P = len(pats)
    ff = ff_matrix(rad)
    c, fs, K = room['c'], room['fs'], room['K']
    S = rad.patch_list[0].E_matrix.shape[3]
    walls0 = sp.testing.shoebox_room_stub(*room['sides'])
    wpts = np.array([transform(walls0[w].pts, room) for w in room['keep']])
    wnrm = np.array([tvec(walls0[w].normal, room) for w in room['keep']])
    ir = rad.energy_at_receiver(rec, ignore_direct=True)
    r = float(np.linalg.norm(rec.position - rad.source.position))
    full = rad.energy_at_receiver(rec, ignore_direct=False) if int(r / c * fs) < S else None
    lines = []
    for b in range(room['B']):
        ab = [room['absorption'][w][b] for w in room['keep']]
        lines.append(' '.join(['kangpipe', str(len(room['keep'])), fhex(1.0), fhexs(wpts), fhexs(wnrm), fhexs(ab),
                               fhexs(np.ones(len(ab))), fhexs(np.full(len(ab), room['att'][b])), fhex(c), fhex(fs),
                               str(S), str(K), fhex(float(src.sound_power)), fhexs(src.position), fhexs(rec.position)]))
    for b, line in enumerate(common.run_driver(lines)):
        if not line.startswith('ok '):
            ctx.cmp.tag('corr:kang end to end (band %d)' % b, 'run succeeds', line[:60])
            continue
        sec = [x.strip().split(' ') for x in line[3:].split('|')]
        ctx.cmp.ints('corr:kang e2e patch count', [P], [int(sec[0][0])])
        if int(sec[0][0]) != P:
            continue
        ctx.cmp.ulp('corr:kang e2e form factors', ff.ravel(), common.parse_floats(sec[1]), rtol=1e-11, atol=1e-300)
        e0 = np.array([rad.patch_list[w].E_matrix[b, 0, i].sum() for w, i, _ in pats])
        ctx.cmp.ulp('corr:kang e2e first-order energy', e0, common.parse_floats(sec[2]), rtol=1e-11, atol=1e-300)
        bins = [int(np.flatnonzero(rad.patch_list[w].E_matrix[b, 0, i])[0]) if np.any(rad.patch_list[w].E_matrix[b, 0, i]) else -1 for w, i, _ in pats]
        mb = [int(x) for x in sec[3]]
        ctx.cmp.ints('corr:kang e2e first-order bins', [x for x, y in zip(bins, mb) if x >= 0], [y for x, y in zip(bins, mb) if x >= 0])
        od = np.array([E_of(rad, b, k) for k in range(K + 1)]).ravel()
        mo = np.array(common.parse_floats(sec[4]))
        scale = max(float(np.abs(od).max()), 1e-300)
        ctx.cmp.ulp('corr:kang e2e order histograms', od, mo, rtol=1e-10, atol=1e-13 * scale)
        mr = np.array(common.parse_floats(sec[5]))
        ctx.cmp.ulp('corr:kang e2e receiver response', ir[b], mr, rtol=1e-10, atol=1e-13 * max(float(np.abs(ir[b]).max()), 1e-300))
        if full is not None and sec[7] != ['-']:
            mf = np.array(common.parse_floats(sec[7]))
            ctx.cmp.ulp('corr:kang e2e response with direct sound', full[b], mf, rtol=1e-10, atol=1e-13 * max(float(np.abs(full[b]).max()), 1e-300))
        ctx.cmp.tag('corr:kang e2e direct sound present', full is not None, sec[7] != ['-'])
    ctx.count('e2e_rooms')


def corr_refusal(ctx, n):
    """Histograms too short for a delay the engine has to index or roll with: the implementation
    raises (IndexError in init_energy_exchange / ValueError in _add_delay) exactly where the
    composed model returns `none`; otherwise both succeed."""
    sp = common.import_repo()
    lines, meta = [], []
    for _ in range(n):
        room = make_room(ctx.rng, B=1)
        diag = float(np.linalg.norm(room['sides']))
        room['S'] = int(ctx.rng.integers(1, int(diag / room['c'] * room['fs']) + 3))
        try:
            rad, src, rec = build(room)
            rad.energy_at_receiver(rec, ignore_direct=True)
            got = 'ok'
        except (IndexError, ValueError):
            got = 'raises'
        ctx.oracle_evals += 1
        walls0 = sp.testing.shoebox_room_stub(*room['sides'])
        wpts = np.array([walls0[w].pts for w in room['keep']])
        wnrm = np.array([walls0[w].normal for w in room['keep']])
        ab = [room['absorption'][w][0] for w in room['keep']]
        S = int((room['S'] + 0.5) / room['fs'] * room['fs'])
        lines.append(' '.join(['kangpipe', str(len(room['keep'])), fhex(1.0), fhexs(wpts), fhexs(wnrm), fhexs(ab),
                               fhexs(np.ones(len(ab))), fhexs(np.full(len(ab), room['att'][0])), fhex(room['c']), fhex(room['fs']),
                               str(S), str(room['K']), fhex(1.0), fhexs(room['src']), fhexs(room['rec'])]))
        meta.append(got)
        ctx.count('refusal.' + got)
    for got, line in zip(meta, common.run_driver(lines)):
        ctx.cmp.tag('corr:kang run refused for a histogram shorter than a delay', got, 'ok' if line.startswith('ok ') else 'raises')
    ctx.cases += 1


def corr_arrays(ctx, n):
    """The array versions in sparrowpy/form_factor/kang.py (`patch2patch_ff_kang`,
    `_source2patch_energy_kang`, `_patch2receiver_energy_kang`) against the Lean kernels: random
    axis-aligned patch pairs with their own in-plane sizes, both branches, random placement."""
    common.import_repo()
    from sparrowpy.form_factor import kang as K
    rng = ctx.rng
    lines, impl, kinds = [], [], []
    for _ in range(n):
        aS = int(rng.integers(0, 3))
        orth = rng.random() < 0.6
        aR = int(rng.choice([a for a in range(3) if a != aS])) if orth else aS
        ns = np.zeros(3)
        ns[aS] = float(rng.choice([1.0, -1.0]))
        nr = np.zeros(3)
        nr[aR] = float(rng.choice([1.0, -1.0]))
        size_s = rng.uniform(0.3, 2.0, size=3)
        size_s[aS] = 0.0
        size_r = rng.uniform(0.3, 2.0, size=3)
        size_r[aR] = 0.0
        off = rng.uniform(-6, 6, size=3)
        sc = rng.uniform(0.5, 4.0, size=3) + off
        rc = rng.uniform(0.5, 4.0, size=3) + off
        if not orth:
            rc[aS] = sc[aS] + float(rng.choice([1.0, -1.0])) * rng.uniform(0.8, 4.0)
        else:
            # keep the two patches apart along both normals (no division by zero in eq. 15)
            rc[aS] = sc[aS] + rng.uniform(0.3, 3.0) * float(rng.choice([1.0, -1.0]))
            rc[aR] = rc[aR] + 0.0
            if abs(sc[aR] - rc[aR]) < 0.3:
                sc[aR] = rc[aR] + 0.5
        centers = np.array([sc, rc])
        normals = np.array([ns, nr])
        sizes = np.array([size_s, size_r])
        ff = K.patch2patch_ff_kang(centers, normals, sizes, np.array([[0, 1]]))
        ctx.oracle_evals += 1
        lines.append(' '.join(['kangffarr', fhexs(sc), fhexs(rc), fhexs(ns), fhexs(nr), fhexs(size_s)]))
        impl.append(float(ff[0, 1]))
        kinds.append('patch2patch_ff_kang (%s)' % ('orthogonal' if orth else 'parallel'))
        ctx.count('arrays.ff_%s' % ('orth' if orth else 'par'))
        # first-order energy of the receiver patch from a source, and the receiver weight
        src = rc + nr * rng.uniform(0.3, 3.0) + rng.uniform(-1.5, 1.5, size=3) * (1 - np.abs(nr))
        att = float(rng.choice([0.0, rng.uniform(0, 0.2)]))
        e, dist = K._source2patch_energy_kang(src.copy(), rc[None, :].copy(), nr[None, :].copy(), np.array([att]), size_r[None, :].copy(), 1)
        lines.append(' '.join(['kanginitp', fhexs(nr), fhexs(rc), fhexs(size_r), fhexs(src), fhex(1.0), fhex(0.0), fhex(att)]))
        impl.append(float(e[0, 0]))
        kinds.append('_source2patch_energy_kang')
        rec = rc + nr * rng.uniform(0.3, 3.0) + rng.uniform(-1.5, 1.5, size=3) * (1 - np.abs(nr))
        rf = K._patch2receiver_energy_kang((rec - rc)[None, :], nr[None, :])
        lines.append(' '.join(['kangrecvf', fhexs(nr), fhexs(rc), fhexs(rec), fhex(0.0)]))
        impl.append(float(rf[0]))
        kinds.append('_patch2receiver_energy_kang')
        ctx.oracle_evals += 2
    for kind, v, line in zip(kinds, impl, common.run_driver(lines)):
        st, val = common.parse_ok_floats(line)
        if ctx.cmp.tag('corr:form_factor/kang.py %s status' % kind, 'ok', st):
            ctx.cmp.ulp('corr:form_factor/kang.py %s' % kind, [v], val, rtol=1e-10, atol=1e-300)
    ctx.cases += 1


def rerun_oracle(ctx, room):
    """The same engine object run again (for another source, then for the first one): every order
    and the receiver response must be those of a fresh engine — the recursion holds on every run."""
    sp = common.import_repo()
    fresh, src, rec = build(room)
    used, _, _ = build(room)
    other = sp.geometry.SoundSource(transform(scenes.gen_point_inside(ctx.rng, room['sides'], margin=0.25), room), [0, 1, 0], [0, 0, 1])
    used.run(other)
    used.run(src)
    ctx.oracle_evals += 3
    for w in range(len(fresh.patch_list)):
        if not np.array_equal(fresh.patch_list[w].E_matrix, used.patch_list[w].E_matrix):
            k_bad = [k for k in range(fresh.patch_list[w].E_matrix.shape[1])
                     if not np.array_equal(fresh.patch_list[w].E_matrix[:, k], used.patch_list[w].E_matrix[:, k])]
            ctx.violation('kang-rerun', 'running the same RadiosityKang object again (other source, then this one) gives other order-%s energies on wall %d than a fresh object' % (k_bad, w),
                          _inp(room), None, 'bit-identical')
            return
    if not np.array_equal(fresh.energy_at_receiver(rec, ignore_direct=True), used.energy_at_receiver(rec, ignore_direct=True)):
        ctx.violation('kang-rerun', 'receiver response of a re-run engine differs from a fresh one', _inp(room), None, 'bit-identical')


def run(ctx):
    n = 4 if ctx.tier == 'quick' else 40
    for k in range(n):
        room = make_room(ctx.rng, n_walls=[6, 2, 3, 4][k % 4] if ctx.tier == 'quick' else None)
        rad, src, rec = build(room)
        correspondence(ctx, room, rad, rec, src)
        corr_e2e(ctx, room, rad, rec, src)
        if recursion_oracle(ctx, room, rad):
            invariance_oracle(ctx, room, rad, rec)
        if k == 0 or ctx.tier != 'quick':
            rerun_oracle(ctx, room)
    corr_refusal(ctx, 12 if ctx.tier == 'quick' else 150)
    corr_arrays(ctx, 60 if ctx.tier == 'quick' else 1500)


def oracle(ctx, budget_s=60):
    t = common.Timer()
    while t.s() < budget_s and not ctx.violations:
        room = make_room(ctx.rng)
        rad, src, rec = build(room)
        if recursion_oracle(ctx, room, rad):
            invariance_oracle(ctx, room, rad, rec)
        rerun_oracle(ctx, room)


def replay(ctx, rp):
    room = {k: (np.array(v) if isinstance(v, list) and k not in ('sides', 'keep') else v) for k, v in rp['input'].items()}
    rad, src, rec = build(room)
    if recursion_oracle(ctx, room, rad):
        invariance_oracle(ctx, room, rad, rec)
    return not ctx.violations
