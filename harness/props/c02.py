"""C02 — energy arrives at its time of flight and is never wrapped around the histogram."""
import numpy as np
from .. import common, kernels, energy, scenes

LEVEL = 'proof'
RULE = ('kernel-level cases: random scenes (P<=8 patches, D<=3 slots, B<=3 bands, S in {1..64} bins, '
        'orders 0..5) with per-leg delays drawn to straddle the histogram end (0,1,S-1,S,S+3); '
        'non-trivial = has visible pairs, order>=1 and a non-zero result; distinct = different '
        '(sizes, pair list, delay bins)')
RULE = RULE + '; object level: direct sound for receivers whose travel-time bin is inside / the last / the first beyond / far beyond the histogram'
ASSUMPTIONS = ['theorems are about the Lean model at real numbers; the code runs float64',
               'model tied to /repo by kernel-level differential runs (EXACT class for the exchange, '
               'zero-pattern exact + 1e-12 relative for the receiver kernel) and by the generated constants']
EXPLANATION = ('Theorems: every non-zero bin is a sum of per-leg bins along a chain of visible arcs; '
               'shortening the histogram changes no earlier bin; the receiver kernel is a truncating shift.')


def run(ctx):
    n = 40 if ctx.tier == 'quick' else 1500
    cases = [kernels.gen_exchange_case(ctx.rng, big=(ctx.tier != 'quick')) for _ in range(n)]
    kernels.corr_exchange(ctx, cases)
    ccases = [kernels.gen_collect_case(ctx.rng) for _ in range(n)]
    kernels.corr_collect(ctx, ccases)
    corr_kang_delay(ctx, n)
    oracle(ctx, budget_s=20 if ctx.tier == 'quick' else 300, cases=cases, ccases=ccases)
    for _ in range(1 if ctx.tier == 'quick' else 10):
        direct_sound_oracle(ctx)


def direct_sound_oracle(ctx):
    """Object level: the direct sound is one more arrival — it lands in bin int(r/c/dt) and nowhere
    else, and is dropped (not moved to another bin) when that bin lies beyond the histogram."""
    sc = energy.gen_scene(ctx.rng, small=True)
    r = energy.run_all(sc)
    S = np.asarray(r._energy_exchange_etc).shape[-1]
    step = r.speed_of_sound * r._etc_time_resolution
    src = np.asarray(sc['src'], float)
    recs = np.vstack([np.asarray(sc['recs'], float)[:1],
                      (src + np.array([(S - 0.5) * step, 0.0, 0.0]))[None, :],     # last bin
                      (src + np.array([(S + 0.5) * step, 0.0, 0.0]))[None, :],     # first bin beyond the end
                      (src + np.array([(2 * S + 3.5) * step, 0.2, 0.1]))[None, :]])
    recs = recs[ctx.rng.permutation(len(recs))]       # receivers beyond the end anywhere in the set
    mono = r.collect_energy_receiver_mono(scenes.coords(recs)).time
    mono_d = r.collect_energy_receiver_mono(scenes.coords(recs), direct_sound=True).time
    ctx.oracle_evals += 2
    # several receivers in ONE call, near ones first: nothing may reach a receiver before its own
    # direct path (every reflected path is longer), whatever the other receivers of the call are
    # fine time resolution (patch-to-receiver legs of different receivers then differ by several
    # bins) and a histogram that holds every arrival
    dt_f = 2.5e-4
    sc_l = dict(sc, dt=dt_f, S=int(np.ceil((max(sc['K'], 0) + 3) * float(np.linalg.norm(sc['sides'])) / sc['c'] / dt_f)) + 8)
    r_l = energy.run_all(sc_l)
    S_l = np.asarray(r_l._energy_exchange_etc).shape[-1]
    diag = float(np.linalg.norm(sc['sides']))
    inside = [scenes.gen_point_inside(ctx.rng, sc['sides'], margin=0.1) for _ in range(3)]
    order_ = np.argsort([np.linalg.norm(p - src) for p in inside])
    set_ = np.array([inside[i] for i in order_] + [src + np.array([0.9 * diag, 0.2, 0.1])])
    mono_set = r_l.collect_energy_receiver_mono(scenes.coords(set_)).time
    ctx.oracle_evals += 1
    cdt = r_l.speed_of_sound * r_l._etc_time_resolution
    pc = np.asarray(r_l.patches_center)
    # patch by patch: the contribution of patch j to receiver k cannot start before the first bin of
    # the patch histogram plus the patch-to-receiver time of flight (ceil-rounded; one bin of slack)
    pw_set = r_l.collect_energy_receiver_patchwise(scenes.coords(set_)).time       # (R, P, B, S)
    etc_l = np.asarray(r_l._energy_exchange_etc)                                      # (P, D, B, S)
    ctx.oracle_evals += 1
    for k in range(len(set_)):
        for j in range(len(pc)):
            nz_e = np.nonzero(etc_l[j].reshape(-1, S_l).any(axis=0))[0]
            nz_p = np.nonzero(pw_set[k, j].any(axis=0))[0]
            if len(nz_e) == 0 or len(nz_p) == 0:
                continue
            first_allowed = int(nz_e[0]) + int(np.ceil(np.linalg.norm(pc[j] - set_[k]) / cdt)) - 1
            if int(nz_p[0]) < first_allowed:
                ctx.violation('patch-contribution-before-time-of-flight',
                              'receiver %d of a set of %d: the contribution of patch %d starts in bin %d, the patch histogram starts in bin %d and the patch is %d bins away'
                              % (k, len(set_), j, int(nz_p[0]), int(nz_e[0]), first_allowed + 1 - int(nz_e[0])),
                              dict(energy.scene_input(sc_l), recs=set_), {'first_bin': int(nz_p[0])}, {'first_possible_bin': first_allowed})
                return
    b0 = np.floor(np.linalg.norm(pc - src, axis=1) / cdt)
    for k in range(len(set_)):
        # earliest possible bin: source leg floored + receiver leg ceiled, over all patches; every
        # further leg of a higher order is floored too and can gain at most one bin
        bk = np.ceil(np.linalg.norm(pc - set_[k], axis=1) / cdt)
        nb_k = int((b0 + bk).min()) - max(int(sc['K']), 0) - 1      # one bin of slack for rounding at bin edges
        early = np.nonzero(mono_set[k][:, :max(0, min(nb_k, S_l))].any(axis=0))[0]
        if len(early):
            ctx.violation('energy-before-first-possible-arrival',
                          'receiver %d of a set of %d shows energy in bin %d; the shortest source-patch-receiver time of flight is %d bins' % (k, len(set_), int(early[0]), nb_k),
                          dict(energy.scene_input(sc_l), recs=set_), {'first_bin': int(early[0])}, {'first_possible_bin': nb_k})
            return
    for k in range(len(recs)):
        rr = float(np.linalg.norm(recs[k] - src))
        nb = int(rr / r.speed_of_sound / r._etc_time_resolution)
        diff = mono_d[k] - mono[k]
        where = sorted(set(int(x) for x in np.nonzero(diff)[1]))
        allowed = [nb] if nb < S else []
        ctx.count('direct.bin_%s' % ('inside' if nb < S else 'beyond_end'))
        if any(w not in allowed for w in where):
            ctx.violation('direct-sound-misplaced',
                          'direct sound with travel-time bin %d in a %d-bin histogram shows up in bin(s) %s' % (nb, S, where),
                          dict(energy.scene_input(sc), recs=recs), {'bins': where}, {'bins': allowed})
            return


def corr_kang_delay(ctx, n):
    common.import_repo()
    from sparrowpy.classes.RadiosityKang import _add_delay
    lines, impl = [], []
    for _ in range(n):
        S = int(ctx.rng.choice([1, 2, 3, 5, 8, 20]))
        d = min(S, int(ctx.rng.choice([0, 1, 2, max(S - 1, 0), S])))
        h = ctx.rng.uniform(0, 1, size=S) * (ctx.rng.random(S) < 0.7)
        impl.append(np.asarray(_add_delay(h.copy(), d)))
        lines.append(' '.join(['shift', str(d), str(S), common.fhexs(h)]))
    kang_delay_oracle(ctx, 10)
    outs = common.run_driver(lines)
    for k, (line, a) in enumerate(zip(outs, impl)):
        st, val = common.parse_ok_floats(line)
        ctx.cmp.tag('corr:kang._add_delay status', 'ok', st)
        if st == 'ok':
            ctx.cmp.exact('corr:kang._add_delay[%d]' % k, a, val)
        ctx.cases += 1
        ctx.count('kang_delay.cases')


def kang_delay_oracle(ctx, n):
    """Kang `_add_delay` on the implementation: the delayed response is the input shifted by the
    delay with the tail dropped; nothing re-appears in the first `delay` bins."""
    common.import_repo()
    from sparrowpy.classes.RadiosityKang import _add_delay
    for _ in range(n):
        S = int(ctx.rng.choice([2, 3, 5, 8, 20]))
        d = int(ctx.rng.integers(0, S + 1))
        h = ctx.rng.uniform(0.1, 1, size=S)
        out = np.asarray(_add_delay(h.copy(), d))
        ctx.oracle_evals += 1
        ref = np.zeros(S)
        if d < S:
            ref[d:] = h[:S - d]
        if not np.array_equal(out, ref):
            ctx.violation('kang-delay-wrap', 'Kang _add_delay(%d bins of %d): energy shifted past the end re-appears at the start' % (d, S),
                          {'kang_delay': True, 'h': h, 'delay': d}, out, ref)
            return


def reach_sets(case):
    """Bins reachable per order and patch as sums of per-leg bins (independent of the code)."""
    P, S = case['P'], case['S']
    c, dt = case['c'], case['dt']
    b0 = [int(case['d0'][j] / c / dt) for j in range(P)]
    bij = [[int(case['dij'][i, j] / c / dt) for j in range(P)] for i in range(P)]
    arcs = []
    for (i, j) in case['pairs']:
        arcs += [(i, j), (j, i)]
    cur = [{b0[j]} for j in range(P)]
    allr = [set(s) for s in cur]
    for _ in range(case['K']):
        nxt = [set() for _ in range(P)]
        for (i, j) in arcs:
            for t in cur[i]:
                nxt[j].add(t + bij[i][j])
        cur = nxt
        for j in range(P):
            allr[j] |= cur[j]
    return allr


def oracle(ctx, budget_s=60, cases=None, ccases=None):
    """Property predicates evaluated on the *implementation's* outputs."""
    t = common.Timer()
    rng = ctx.rng
    if cases is None:
        cases = [kernels.gen_exchange_case(rng) for _ in range(200)]
    if ccases is None:
        ccases = [kernels.gen_collect_case(rng) for _ in range(200)]
    kang_delay_oracle(ctx, 20)
    for case in cases:
        if t.s() > budget_s:
            break
        st, out = kernels.impl_exchange(case)
        ctx.oracle_evals += 1
        if st != 'ok':
            ctx.violation('exchange-raises', 'energy exchange raises %s instead of dropping late arrivals' % out,
                          _exc_input(case), out, 'a histogram; arrivals beyond the end are dropped')
            continue
        allr = reach_sets(case)
        for j in range(case['P']):
            nz = np.nonzero(out[j].reshape(-1, case['S']).any(axis=0))[0]
            bad = [int(x) for x in nz if int(x) not in allr[j]]
            if bad:
                ctx.violation('patch-bin-not-leg-sum',
                              'patch %d shows energy in bin %d which is no sum of per-leg travel-time bins' % (j, bad[0]),
                              _exc_input(case), {'patch': j, 'nonzero_bins': nz.tolist()},
                              {'allowed_bins': sorted(x for x in allr[j] if x < case['S'])})
                break
        # truncation: a shorter histogram is a prefix of the longer one
        if case['S'] >= 2:
            S2 = int(rng.integers(1, case['S']))
            c2 = dict(case, S=S2)
            st2, out2 = kernels.impl_exchange(c2)
            ctx.oracle_evals += 1
            if st2 != 'ok' or not np.array_equal(out2, out[..., :S2]):
                ctx.violation('truncation-changes-prefix',
                              'shortening the histogram from %d to %d bins changes earlier bins' % (case['S'], S2),
                              _exc_input(c2), 'prefix differs or error %s' % (st2,),
                              'bins below the new length are unchanged')
    for case in ccases:
        if t.s() > budget_s:
            break
        out = kernels.impl_collect(case)
        ctx.oracle_evals += 1
        c, dt = case['c'], case['dt']
        for i in range(case['P']):
            n = int(np.ceil(case['dist'][i] / c / dt))
            for b in range(case['B']):
                w = np.exp(-case['att'][b] * case['dist'][i])
                exp_row = np.zeros(case['S'])
                if n < case['S']:
                    exp_row[n:] = (case['E'][i, b] * w)[:case['S'] - n]
                if not np.allclose(out[i, b], exp_row, rtol=1e-12, atol=0) or \
                        np.any((out[i, b] != 0) != (exp_row != 0)):
                    rolled = np.roll(case['E'][i, b] * w, n)
                    if np.allclose(out[i, b], rolled, rtol=1e-12, atol=0):
                        sig = 'receiver-wrap:_collect_receiver_energy'
                        what = 'receiver kernel: patch %d delayed by %d of %d bins shows energy where the truncating shift has none (wrapped around)' % (i, n, case['S'])
                    else:
                        sig = 'receiver-kernel-wrong'
                        what = 'receiver kernel: patch %d band %d is neither the delayed nor the wrapped attenuated histogram' % (i, b)
                    ctx.violation(sig, what,
                                  {'P': case['P'], 'B': case['B'], 'S': case['S'], 'c': c, 'dt': dt,
                                   'dist': case['dist'], 'att': case['att'], 'E': case['E']},
                                  {'row': out[i, b]}, {'row': exp_row})
                    break
            else:
                continue
            break


def _exc_input(case):
    return {k: case[k] for k in ('P', 'D', 'B', 'S', 'K', 'c', 'dt', 'pairs', 'dij', 'd0', 'fft', 'e0', 'dir')}


def replay(ctx, rp):
    inp = rp['input']
    if inp.get('kang_delay'):
        kang_delay_oracle(ctx, 50)
        return not ctx.violations
    if 'dij' in inp:
        case = {k: (np.array(v) if isinstance(v, list) and k not in ('pairs',) else v) for k, v in inp.items()}
        case['pairs'] = [tuple(p) for p in inp['pairs']]
        case['dir'] = np.array(inp['dir'], dtype=np.int64)
        c, dt = case['c'], case['dt']
        case['bins_ij'] = (case['dij'] / c / dt).astype(int)
        case['bins0'] = (case['d0'] / c / dt).astype(int)
        oracle(ctx, budget_s=60, cases=[case], ccases=[])
    else:
        case = {k: (np.array(v) if isinstance(v, list) else v) for k, v in inp.items()}
        case['bins'] = np.ceil(case['dist'] / case['c'] / case['dt']).astype(int)
        oracle(ctx, budget_s=60, cases=[], ccases=[case])
    return not ctx.violations
