"""C10 — air attenuation follows exp(-m d) on every propagation leg."""
import numpy as np
from .. import common, kernels, pipeline, energy, scenes
from . import c03

LEVEL = 'proof'
RULE = c03.RULE + '; C10 scenes always have band-dependent attenuation, and are re-run with m=0 and with no attenuation set'
ASSUMPTIONS = c03.ASSUMPTIONS
EXPLANATION = 'each leg = unattenuated value x exp(-m d) with d the geometric leg length; m=0 identity; antitone in m.'


def corr_direct(ctx, n):
    """`calculate_direct_sound` value/bin vs the model's `directSound`."""
    rng = ctx.rng
    sc = energy.gen_scene(rng, small=True, multi_dir=False, n_bands=2)
    r = energy.run_all(sc)
    recs = np.array([scenes.gen_point_inside(rng, sc['sides']) for _ in range(n)])
    val, bins = r.calculate_direct_sound(scenes.coords(recs))
    src = scenes.coords(sc['src'])
    rr = (scenes.coords(recs) - src).radius
    lines = []
    for k in range(n):
        for b in range(2):
            lines.append(' '.join(['direct', common.fhex(rr[k]), common.fhex(r._air_attenuation[b]),
                                   common.fhex(r.speed_of_sound), common.fhex(r._etc_time_resolution)]))
    outs = common.run_driver(lines)
    idx = 0
    for k in range(n):
        for b in range(2):
            sec = pipeline.split_sections(outs[idx])
            idx += 1
            ctx.cmp.ulp('corr:calculate_direct_sound value', [val[k, b]], [common.unhex(sec[0][0])])
            ctx.cmp.ints('corr:calculate_direct_sound bin', [bins[k]], [int(sec[1][0])])
    ctx.cases += 1
    ctx.count('direct.cases', n)


def check_legs(ctx, sc):
    """On the implementation: fft(m)/fft(0) = exp(-m d_centres); m=0 == no attenuation (bit-identical);
    results non-increasing in m."""
    sc = dict(sc)
    if not np.any(sc['att'] != 0):
        sc['att'] = ctx.rng.uniform(0.05, 0.4, size=sc['B'])
    r_m = energy.run_all(sc)
    r_0 = energy.run_all(dict(sc, att=np.zeros(sc['B'])))
    r_none = energy.build(sc, att=False)
    r_none = energy.run_all(sc, r=r_none)
    r_2m = energy.run_all(dict(sc, att=2 * sc['att']))
    ctx.oracle_evals += 4
    # m = 0 identity, every stage, bit for bit
    for name in ('_form_factors_tilde', '_energy_init_source', '_energy_exchange_etc'):
        if not np.array_equal(getattr(r_0, name), getattr(r_none, name)):
            ctx.violation('m0-not-identity', 'm = 0 does not reproduce the unattenuated %s exactly' % name,
                          energy.scene_input(sc), 'arrays differ', 'bit-identical arrays')
            return
    # patch leg ratio
    c = r_m.patches_center
    f_m, f_0 = np.asarray(r_m._form_factors_tilde), np.asarray(r_0._form_factors_tilde)
    P = r_m.n_patches
    for i in range(P):
        for j in range(P):
            if np.all(f_0[i, j] == 0):
                continue
            d = np.linalg.norm(c[i] - c[j])
            for b in range(sc['B']):
                ref = f_0[i, j, :, b] * np.exp(-sc['att'][b] * d)
                if np.abs(f_m[i, j, :, b] - ref).max() > 1e-12 * max(np.abs(ref).max(), 1e-300):
                    ctx.violation('patch-leg-attenuation',
                                  'baked factor %d->%d (centre distance %.3f m) is not the unattenuated factor x exp(-m d)' % (i, j, d),
                                  energy.scene_input(sc), {'ratio': float(f_m[i, j, 0, b] / f_0[i, j, 0, b]) if f_0[i, j, 0, b] else None},
                                  {'ratio': float(np.exp(-sc['att'][b] * d)), 'band': b})
                    return
    # source leg
    e_m, e_0 = np.asarray(r_m._energy_init_source), np.asarray(r_0._energy_init_source)
    d0 = np.asarray(r_m._distance_patches_to_source)
    for b in range(sc['B']):
        ref = e_0[:, :, b] * np.exp(-sc['att'][b] * d0)[:, None]
        if np.abs(e_m[:, :, b] - ref).max() > 1e-12 * max(np.abs(ref).max(), 1e-300):
            ctx.violation('source-leg-attenuation', 'initial energy is not the unattenuated energy x exp(-m d_source)',
                          energy.scene_input(sc), None, {'band': b})
            return
    # monotone in m
    a, b2 = np.asarray(r_m._energy_exchange_etc), np.asarray(r_2m._energy_exchange_etc)
    z = np.asarray(r_0._energy_exchange_etc)
    if np.any(a > z * (1 + 1e-12) + 1e-300) or np.any(b2 > a * (1 + 1e-12) + 1e-300):
        ctx.violation('not-antitone-in-m', 'a larger attenuation coefficient gives a larger histogram bin',
                      energy.scene_input(sc), None, 'ETC(2m) <= ETC(m) <= ETC(0) in every bin')
        return
    # receiver leg + direct sound
    rec = sc['recs'][:1]
    pm = r_m.collect_energy_receiver_patchwise(scenes.coords(rec)).time[0]
    p0 = r_0.collect_energy_receiver_patchwise(scenes.coords(rec)).time[0]
    # the direct sound of ALL receivers of the scene in one call (several receivers x several bands)
    recs_all = np.asarray(sc['recs'])
    dm, nb = r_m.calculate_direct_sound(scenes.coords(recs_all))
    dm = np.asarray(dm)
    for k in range(len(recs_all)):
        rr = float(np.linalg.norm(recs_all[k] - sc['src']))
        for b in range(sc['B']):
            ref = np.exp(-sc['att'][b] * rr) / (4 * np.pi * rr ** 2)
            if abs(dm[k, b] - ref) > 1e-12 * ref:
                ctx.violation('direct-sound-attenuation', 'direct sound of receiver %d (of %d), band %d is not exp(-m r)/(4 pi r^2)' % (k, len(recs_all), b),
                              energy.scene_input(sc), float(dm[k, b]), ref)
                return
    ctx.oracle_evals += 3
    # the coefficient in force is the LAST one set: the object that ran with m is given 2m and every
    # stage is run again (same source) - every leg must carry 2m, as on the fresh object r_2m
    import pyfar as pf
    r_m.set_air_attenuation(pf.FrequencyData(np.asarray(2 * sc['att'], dtype=float), scenes.FREQS[:sc['B']]))
    r_m.bake_geometry()
    r_re = energy.run_all(sc, r=r_m)
    ctx.oracle_evals += 1
    for name in ('_form_factors_tilde', '_energy_init_source', '_energy_exchange_etc'):
        if not np.array_equal(getattr(r_re, name), getattr(r_2m, name)):
            ctx.violation('stale-attenuation', 'after set_air_attenuation(2m) on an object that had run with m, re-running every stage gives a %s that differs from a fresh object with 2m' % name,
                          energy.scene_input(sc), 'arrays differ', 'bit-identical arrays')
            return


def check_collect_kernel(ctx, case):
    """Receiver kernel: the total of every (patch, band) row is the input total x exp(-m_b d_i)
    (the delay is a permutation of bins in the code as it is, so sums are preserved)."""
    out = kernels.impl_collect(case)
    ctx.oracle_evals += 1
    for i in range(case['P']):
        for b in range(case['B']):
            ref = case['E'][i, b].sum() * np.exp(-case['att'][b] * case['dist'][i])
            n = int(np.ceil(case['dist'][i] / case['c'] / case['dt']))
            got = out[i, b].sum()
            if abs(got - ref) > 1e-12 * max(abs(ref), 1e-300):
                # a truncating (repaired) kernel may drop the tail: accept the truncated total too
                S = case['S']
                ref2 = (case['E'][i, b][:max(S - n, 0)].sum()) * np.exp(-case['att'][b] * case['dist'][i])
                if abs(got - ref2) <= 1e-12 * max(abs(ref2), 1e-300):
                    continue
                ctx.violation('receiver-leg-attenuation',
                              'receiver kernel: patch %d (distance %.3f m), band %d (m=%.4f): energy is not the input x exp(-m d)' % (i, case['dist'][i], b, case['att'][b]),
                              {k: case[k] for k in ('P', 'B', 'S', 'c', 'dt', 'dist', 'att', 'E')}, float(got), float(ref))
                return


def run(ctx):
    n_k = 30 if ctx.tier == 'quick' else 800
    ccases = [kernels.gen_collect_case(ctx.rng) for _ in range(n_k)]
    kernels.corr_collect(ctx, ccases)
    for case in ccases:
        check_collect_kernel(ctx, case)
    corr_direct(ctx, 6 if ctx.tier == 'quick' else 60)
    n_s = 3 if ctx.tier == 'quick' else 24
    for k in range(n_s):
        sc = energy.gen_scene(ctx.rng, small=True, multi_dir=(k % 3 == 2), att_zero=False,
                              n_bands=int(ctx.rng.choice([2, 3])))
        r = c03.stagewise(ctx, sc)
        pipeline.corr_collect(ctx, r, sc['recs'][0])
        check_legs(ctx, sc)


def oracle(ctx, budget_s=60):
    t = common.Timer()
    while t.s() < budget_s and not ctx.violations:
        for _ in range(20):
            check_collect_kernel(ctx, kernels.gen_collect_case(ctx.rng))
        sc = energy.gen_scene(ctx.rng, small=True, att_zero=False)
        check_legs(ctx, sc)


def replay(ctx, rp):
    if 'E' in rp['input']:
        case = {k: (np.array(v) if isinstance(v, list) else v) for k, v in rp['input'].items()}
        check_collect_kernel(ctx, case)
        return not ctx.violations
    check_legs(ctx, c03._scene_from_json(rp['input']))
    return not ctx.violations
