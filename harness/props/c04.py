"""C04 — initial source energy is the solid-angle share of each patch."""
import numpy as np
from .. import common, scenes, energy, geomgen
from ..common import fhex, fhexs

LEVEL = 'other'
RULE = ('planar convex 3..8-gons in random planes, orientations and windings, points >= 1 mm off the plane (near and far); '
        'real pt_solution (source and receiver mode) vs the Lean model; measured on the implementation: range [0, 1/2), shares of a '
        'closed room sum to 1 (random shoeboxes, random interior sources), wall share independent of the patch size, hidden / '
        'away-facing patches exactly 0; non-trivial = all cases')
ASSUMPTIONS = ['PARTIAL: that the spherical excess IS the solid angle (Girard), hence the range, the sum-to-one law and subdivision independence, is spherical geometry not proved here; it is MEASURED on the implementation and reported under measured_not_proved',
               'theorems at real numbers; arccos is ill-conditioned near +-1: cases within 1e-6 of it are compared with a wider tolerance']
EXPLANATION = ('PROVED: pt_solution depends only on the directions from the point to the vertices: invariant under translating point and patch together, '
               'under scaling about the point, under every linear isometry (rotations and reflections), and under reversing or rotating the vertex order; '
               'invisible patches get exactly zero energy and distance. MEASURED (sampling, not a proof): range, sum to 1 over a closed room, subdivision independence.')


def corr_pt(ctx, n):
    common.import_repo()
    from sparrowpy.form_factor import integration
    lines, impl = [], []
    for k in range(n):
        pts, normal = geomgen.convex_polygon(ctx.rng)
        x = geomgen.point_off_plane(ctx.rng, pts, normal, min_dist=float(ctx.rng.choice([1e-3, 0.05, 0.5])))
        if k % 4 == 3:
            # a SMALL patch (5..30 cm) with the point 1..4 mm above its interior: fine subdivisions with a source close to a wall
            pts, normal = geomgen.convex_polygon(ctx.rng, size=float(ctx.rng.uniform(0.05, 0.3)))
            c = pts.mean(axis=0)
            x = c + 0.3 * (pts[int(ctx.rng.integers(0, len(pts)))] - c) * float(ctx.rng.uniform(0, 1)) \
                + float(ctx.rng.choice([-1.0, 1.0])) * float(ctx.rng.uniform(1e-3, 4e-3)) * np.asarray(normal)
            ctx.count('small_patch_close_point')
        for mode in (0, 1):
            v = integration.pt_solution(point=x.copy(), patch_points=pts.copy(), mode='source' if mode == 0 else 'receiver')
            lines.append(' '.join(['ptsol', str(mode), str(len(pts)), fhexs(x), fhexs(pts)]))
            impl.append(float(v))
        ctx.cases += 1
        ctx.count('vertices_%d' % len(pts))
        ctx.nontriv([np.round(pts, 6).tolist(), np.round(x, 6).tolist()])
        ctx.sample({'vertices': len(pts), 'patch': np.round(pts, 3).tolist(), 'point': np.round(x, 3).tolist()}, limit=2)
        # invariances on the implementation (the proved part, replayed on the code)
        ctx.oracle_evals += 1
        base = integration.pt_solution(point=x.copy(), patch_points=pts.copy(), mode='source')
        Q = geomgen.rand_rotation(ctx.rng)
        if ctx.rng.random() < 0.5:
            Q = Q @ np.diag([1, 1, -1.])
        t = ctx.rng.uniform(-10, 10, size=3)
        s = float(ctx.rng.uniform(0.1, 20))
        variants = {
            'translation': (x + t, pts + t),
            'scaling about the point': (x, x + s * (pts - x)),
            'isometry': (Q @ x, pts @ Q.T),
            'reversed vertex order': (x, pts[::-1].copy()),
            'rotated vertex order': (x, np.roll(pts, 2, axis=0)),
        }
        for name, (xx, pp) in variants.items():
            v2 = integration.pt_solution(point=np.asarray(xx).copy(), patch_points=np.asarray(pp).copy(), mode='source')
            if abs(v2 - base) > 1e-9:
                ctx.violation('pt-invariance', 'point-to-patch share changes under %s: %.12g vs %.12g' % (name, v2, base),
                              {'point': x, 'patch': pts, 'variant': name}, float(v2), float(base))
                break
        if not (-1e-12 <= base < 0.5):
            ctx.violation('pt-range', 'share %.6g outside [0, 1/2)' % base, {'point': x, 'patch': pts}, float(base), '[0, 0.5)')
    outs = common.run_driver(lines)
    for v, line in zip(impl, outs):
        sec = [x.strip().split(' ') for x in line[3:].split('|')]
        mg = common.unhex(sec[1][0])
        tol = 1e-11 if mg > 1e-6 else 1e-6
        ctx.cmp.ulp('corr:pt_solution', [v], [common.unhex(sec[0][0])], rtol=tol, atol=tol)


def measure_room(ctx):
    """MEASURED (not proved): shares of a closed room sum to 1; wall share independent of patch size;
    hidden patches get exactly zero."""
    sp = common.import_repo()
    from sparrowpy.form_factor import universal
    from sparrowpy import geometry
    sides, p = scenes.gen_room_params(ctx.rng, small=False)
    src = scenes.gen_point_inside(ctx.rng, sides, margin=0.05)
    walls = sp.testing.shoebox_room_stub(*sides)
    per_wall = []
    for patch in (p, min(sides) * 0.999):
        r = sp.DirectionalRadiosityFast.from_polygon(walls, patch)
        vis = geometry._check_point2patch_visibility(eval_point=src, patches_center=r.patches_center,
                                                     surf_points=r.walls_points, surf_normal=r.walls_normal)
        e, d = universal._source2patch_energy_universal(src, r.patches_center, r.patches_points, vis, None, 1)
        ctx.oracle_evals += 1
        tot = float(e.sum())
        ctx.measured['sum_to_one_max_abs_error'] = max(ctx.measured.get('sum_to_one_max_abs_error', 0.0), abs(tot - 1))
        ctx.measured['rooms_measured'] = ctx.measured.get('rooms_measured', 0) + 1
        if abs(tot - 1) > 1e-9 or np.any(e < -1e-15) or np.any(e >= 0.5):
            ctx.violation('shares-sum', 'shares of a closed room sum to %.12f (range %.3g..%.3g)' % (tot, e.min(), e.max()),
                          {'sides': sides, 'patch': patch, 'src': src}, tot, 1.0)
        per_wall.append(np.array([e[np.asarray(r._patch_to_wall_ids) == w].sum() for w in range(6)]))
    if np.abs(per_wall[0] - per_wall[1]).max() > 1e-9:
        ctx.violation('shares-subdivision', 'the share of a wall depends on how finely it is subdivided', {'sides': sides, 'patch': p, 'src': src}, per_wall[0], per_wall[1])
    # outside the room: every patch faces away or is hidden -> exactly zero
    out_pt = np.array(sides) * np.array([0.5, 0.5, 1.7])
    r = sp.DirectionalRadiosityFast.from_polygon(walls, p)
    vis = geometry._check_point2patch_visibility(eval_point=out_pt, patches_center=r.patches_center,
                                                 surf_points=r.walls_points, surf_normal=r.walls_normal)
    e, d = universal._source2patch_energy_universal(out_pt, r.patches_center, r.patches_points, vis, None, 1)
    if np.any(e[~vis] != 0) or np.any(d[~vis] != 0):
        ctx.violation('hidden-nonzero', 'a patch hidden from the source receives energy', {'sides': sides, 'src': out_pt}, None, 0.0)
    # gate vs model
    lines = []
    for j in range(r.n_patches):
        lines.append(' '.join(['srcenergy', '1' if vis[j] else '0', fhex(np.linalg.norm(out_pt - r.patches_center[j])), '0', fhex(0.0), fhex(0.123)]))
    for j, line in enumerate(common.run_driver(lines)):
        t = line.split(' ')
        ctx.cmp.tag('corr:_source2patch gate', bool(vis[j]), common.unhex(t[1]) != 0)


def measure_screen(ctx):
    """Hidden behind another surface: a room with a free-standing one-sided screen (either normal
    direction), sources on both sides; every patch whose centre is in the screen's shadow, or that
    faces away from the source, must receive exactly zero; the others a positive share."""
    sp = common.import_repo()
    from . import c07
    rng = ctx.rng
    sides = [float(x) for x in rng.uniform(2.5, 4.5, size=3)]
    walls = sp.testing.shoebox_room_stub(*sides)
    ax = int(rng.integers(0, 3))
    a1, a2 = [k for k in range(3) if k != ax]
    o = np.round(np.array(sides) * rng.uniform(0.3, 0.5, size=3) * 8) / 8      # dyadic: the 1 m screen is exactly 1 m
    # 1 m (one patch) or 2 m by 1 m (the screen itself is subdivided into patches)
    e1 = float(rng.choice([1.0, 2.0]))
    if o[a1] + e1 > sides[a1] - 0.25:
        e1 = 1.0
    q = np.array([o, o, o, o], dtype=float)
    q[1, a1] += e1
    q[2, a1] += e1
    q[2, a2] += 1.0
    q[3, a2] += 1.0
    ctx.count('screen_extent_%g' % e1)
    nn = np.zeros(3)
    nn[ax] = float(rng.choice([1, -1]))
    up = np.zeros(3)
    up[a1] = 1.0
    screen = sp.geometry.Polygon(q, up, nn)
    r = sp.DirectionalRadiosityFast.from_polygon(walls + [screen], 1.0)
    srcs = [scenes.gen_point_inside(rng, sides, margin=0.1) for _ in range(3)]
    # ... and the last source moved along ONE axis only, to the other side of the screen's plane
    moved = srcs[-1].copy()
    moved[ax] = float(np.clip(2 * o[ax] - moved[ax], 0.1, sides[ax] - 0.1))
    srcs.append(moved)
    for src in srcs:
        if abs(src[ax] - o[ax]) < 0.05:
            continue
        r.init_source_energy(scenes.coords(src))
        ctx.oracle_evals += 1
        e = np.asarray(r._energy_init_source)[:, 0, 0]
        ids = np.asarray(r._patch_to_wall_ids)
        for j in range(r.n_patches):
            if ids[j] == 6:
                continue
            cj = r.patches_center[j]
            ok_s, mg = c07.oracle_visible(src, cj, q, nn, False, False)
            wn = np.asarray(r.walls_normal[ids[j]], float)
            facing = np.dot(wn, src - cj) > 1e-3
            if mg < 1e-3:
                continue
            expect_zero = (not ok_s) or (not facing)
            if expect_zero and e[j] != 0:
                ctx.violation('hidden-nonzero', 'patch %d is hidden from the source behind a one-sided screen (or faces away) but receives energy %.4g' % (j, e[j]),
                              {'sides': sides, 'screen': q, 'screen_normal': nn, 'src': src}, float(e[j]), 0.0)
                return
            if (not expect_zero) and not e[j] > 0:
                ctx.violation('visible-zero', 'patch %d is in line of sight of the source but receives no energy' % j,
                              {'sides': sides, 'screen': q, 'screen_normal': nn, 'src': src}, float(e[j]), '> 0')
                return
    ctx.count('screen_rooms')


def run(ctx):
    corr_pt(ctx, 60 if ctx.tier == 'quick' else 1500)
    for _ in range(3 if ctx.tier == 'quick' else 30):
        measure_room(ctx)
    for _ in range(3 if ctx.tier == 'quick' else 30):
        measure_screen(ctx)


def oracle(ctx, budget_s=60):
    t = common.Timer()
    while t.s() < budget_s and not ctx.violations:
        measure_room(ctx)
        measure_screen(ctx)


def replay(ctx, rp):
    corr_pt(ctx, 60)
    measure_room(ctx)
    for _ in range(5):
        measure_screen(ctx)
    return not ctx.violations
