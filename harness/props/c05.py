"""C05 — form factors obey bounds, reciprocity, closure and similarity invariance."""
import numpy as np
from .. import common, scenes, geomgen, ffref, energy
from ..common import fhex, fhexs

LEVEL = 'other'
RULE = ('patch pairs: detached triangles/rectangles/parallelograms (sizes 0.3-3 m, tilts, offsets, rigid motions, vertex rotations) '
        'for the contour (Stokes) integrator vs the Lean model; Boole rule and boundary sampling bit for bit; rooms: random shoeboxes '
        '(patch aspect < 2) for bounds, zeros, reciprocity and closure; similarity: translation, rotation, uniform scaling (sides kept '
        'in 0.1 m..1 km) of pairs, away from the 1e-3 per-axis cut-off band; non-trivial = every pair')
ASSUMPTIONS = ['PARTIAL: the bound F <= 1 on the Nusselt branch and the closure within 2.5 % are numerical accuracy facts: MEASURED on the implementation (measured_not_proved), not proved',
               'the Nusselt-analogue integrator is modelled (Lagrange fit solved in closed form instead of a numerical matrix inverse) and tied at 1e-8; its accuracy is covered by the measured envelope of C06',
               'rotation / scaling invariance of the contour integrator is exact only when no edge has a coordinate extent in (0, 1e-3] (the per-axis cut-off of the code); the boundary stream measures the deviation inside that band']
EXPLANATION = ('PROVED: Boole rule exact to degree 5 and weights as generated; contour integrator non-negative, symmetric (A_i F_ij = A_j F_ji in exact arithmetic), translation invariant, invariant under axis permutations and mirrorings; '
               'baked matrix zero off the visible list; reciprocity of F\' by construction. MEASURED: 0 <= F <= 1, closure <= 2.5 %, rotation/scaling invariance to 1e-6.')


def corr_stokes(ctx, n):
    common.import_repo()
    from sparrowpy.form_factor import integration, universal
    from sparrowpy import geometry
    lines, meta = [], []
    for k in range(n):
        kind = ['rect', 'para', 'tri'][k % 3]
        Pi, ni, Pj, nj = geomgen.detached_pair(ctx.rng, kind)
        Ai = ffref.area(Pi)
        v = integration.stokes_integration(patch_i=Pi.copy(), patch_j=Pj.copy(), patch_i_area=Ai)
        coinc = bool(geometry._coincidence_check(Pj.copy(), Pi.copy()))
        lines.append(' '.join(['stokes', str(len(Pi)), str(len(Pj)), fhex(Ai), fhexs(Pi), fhexs(Pj)]))
        meta.append(('stokes', (float(v), 0 if coinc else 1)))
        bp, cn = integration._sample_boundary_regular(Pi.copy(), npoints=5)
        lines.append(' '.join(['bsample', str(len(Pi)), fhexs(Pi)]))
        meta.append(('bsample', (bp, cn)))
        x = Pi[0, 0] + np.arange(5) * float(ctx.rng.uniform(-1, 1))
        y = ctx.rng.normal(size=5)
        lines.append(' '.join(['boole', fhexs(x), fhexs(y)]))
        meta.append(('boole', float(integration._newton_cotes_4th(x, y))))
        ctx.cases += 1
        ctx.count('pair.' + kind)
        ctx.nontriv([np.round(Pi, 5).tolist(), np.round(Pj, 5).tolist()])
        ctx.sample({'kind': kind, 'Pi': np.round(Pi, 3).tolist(), 'Pj': np.round(Pj, 3).tolist()}, limit=2)
        # symmetry on the implementation: A_i F_ij = A_j F_ji
        Aj = ffref.area(Pj)
        v2 = integration.stokes_integration(patch_i=Pj.copy(), patch_j=Pi.copy(), patch_i_area=Aj)
        ctx.oracle_evals += 1
        if abs(Ai * v - Aj * v2) > 1e-9 * max(Ai * v, 1e-300):
            ctx.violation('stokes-reciprocity', 'contour integrator: A_i F_ij = %.12g differs from A_j F_ji = %.12g' % (Ai * v, Aj * v2), {'Pi': Pi, 'Pj': Pj}, Ai * v, Aj * v2)
    outs = common.run_driver(lines)
    for (kind, impl), line in zip(meta, outs):
        sec = [x.strip().split(' ') for x in line[3:].split('|')]
        if kind == 'stokes':
            mg = common.unhex(sec[2][0])
            ctx.cmp.tag('corr:universal integrator choice', impl[1], int(sec[1][0]))
            if mg < 1e-9:
                ctx.cmp.ambiguous()
                continue
            ctx.cmp.ulp('corr:stokes_integration', [impl[0]], [common.unhex(sec[0][0])], rtol=1e-9, atol=1e-15)
        elif kind == 'bsample':
            ctx.cmp.exact('corr:_sample_boundary_regular points', impl[0], common.parse_floats(sec[0]))
            ctx.cmp.ints('corr:_sample_boundary_regular conn', impl[1], [int(x) for x in sec[1]])
        else:
            ctx.cmp.exact('corr:_newton_cotes_4th', [impl], [common.unhex(sec[0][0])])


def corr_universal(ctx, n):
    """`universal_form_factor` (both integrators), `nusselt_analog`, `_surf_sample_regulargrid`
    vs the Lean model on touching and detached pairs."""
    common.import_repo()
    from sparrowpy.form_factor import integration, universal
    lines, meta = [], []
    for k in range(n):
        mode = k % 4
        if mode == 0:
            Pi, ni, Pj, nj = geomgen.shared_edge_pair(ctx.rng, float(ctx.rng.uniform(45, 170)))
        elif mode == 1:
            Pi, ni, Pj, nj = geomgen.shared_vertex_pair(ctx.rng)
        elif mode == 2:
            Pi, ni, Pj, nj = geomgen.shared_edge_pair(ctx.rng, 90.0)          # axis aligned, as in rooms
        else:
            Pi, ni, Pj, nj = geomgen.detached_pair(ctx.rng, ['rect', 'para', 'tri'][k % 3])
        if mode in (0, 1) and ctx.rng.random() < 0.7:
            Pi, ni, Pj, nj = geomgen.rigid(ctx.rng, Pi, ni, Pj, nj)
        Ai = ffref.area(Pi)
        v = universal.universal_form_factor(Pi.copy(), ni.copy(), Ai, Pj.copy(), nj.copy())
        lines.append(' '.join(['universal', str(len(Pi)), str(len(Pj)), fhex(Ai), fhexs(ni), fhexs(nj), fhexs(Pi), fhexs(Pj)]))
        meta.append(('universal', float(v)))
        p0 = Pi.mean(axis=0) + 0.1 * (Pi[0] - Pi.mean(axis=0))
        a = integration.nusselt_analog(p0.copy(), ni.copy(), Pj.copy(), nj.copy())
        lines.append(' '.join(['nanalog', str(len(Pj)), fhexs(p0), fhexs(ni), fhexs(nj), fhexs(Pj)]))
        meta.append(('analog', float(a)))
        sm = integration._surf_sample_regulargrid(Pi.copy(), 64)
        lines.append(' '.join(['surfsamples', str(len(Pi)), '64', fhexs(Pi)]))
        meta.append(('samples', sm))
        ctx.cases += 1
        ctx.count('universal.mode_%d' % mode)
        ctx.nontriv(['u', np.round(Pi, 5).tolist(), np.round(Pj, 5).tolist()])
    for (kind, impl), line in zip(meta, common.run_driver(lines)):
        sec = [x.strip().split(' ') for x in line[3:].split('|')]
        if kind == 'samples':
            cnt = int(sec[0][0])
            if ctx.cmp.tag('corr:_surf_sample_regulargrid count', len(impl), cnt) and cnt:
                ctx.cmp.ulp('corr:_surf_sample_regulargrid', impl, common.parse_floats(sec[1]), rtol=1e-12, atol=1e-13)
        else:
            ctx.cmp.ulp('corr:%s' % ('universal_form_factor' if kind == 'universal' else 'nusselt_analog'), [impl], [common.unhex(sec[0][0])], rtol=1e-8, atol=1e-14)


def similarity(ctx, n):
    """MEASURED: translation / rotation / uniform scaling of a pair leave the form factor unchanged (1e-6).
    Known finding D16: `stokes_integration` drops the contribution of a boundary segment along an axis
    on which its extent is <= 1e-3 (absolute, per axis): a pair with such an edge before or after the
    motion changes its form factor (observed up to 5e-4 relative).  Those cases are evaluated and
    reported under their own signature; everything else must agree to 1e-6."""
    common.import_repo()
    from sparrowpy.form_factor import universal
    worst = ctx.measured.get('similarity_max_rel_dev', 0.0)
    worst_band = ctx.measured.get('similarity_max_rel_dev_in_cutoff_band', 0.0)

    def in_band(*polys):
        ext = np.abs(np.concatenate([np.roll(P, -1, 0) - P for P in polys]))
        return bool(np.any((ext > 1e-9) & (ext < 1.2e-3)))
    for k in range(n):
        kind = ['rect', 'para', 'tri'][k % 3]
        if k % 4 == 3:
            # patches with a common edge (the Nusselt-analogue branch of universal_form_factor)
            Pi, ni, Pj, nj = geomgen.shared_edge_pair(ctx.rng, float(ctx.rng.uniform(40, 100)))[:4]
            ctx.count('similarity.shared_edge_pairs')
        else:
            Pi, ni, Pj, nj = geomgen.detached_pair(ctx.rng, kind)
        base = universal.universal_form_factor(Pi.copy(), ni.copy(), ffref.area(Pi), Pj.copy(), nj.copy())
        R = geomgen.rand_rotation(ctx.rng)
        t = ctx.rng.uniform(-50, 50, size=3)
        side = max(np.linalg.norm(Pi[1] - Pi[0]), np.linalg.norm(Pj[1] - Pj[0]))
        s = float(np.exp(ctx.rng.uniform(np.log(0.35 / side), np.log(300 / side))))
        for name, f in (('translation', lambda P: P + t), ('rotation', lambda P: P @ R.T), ('uniform scaling x%.3g' % s, lambda P: s * P)):
            Pi2, Pj2 = f(Pi), f(Pj)
            ni2 = R @ ni if name == 'rotation' else ni
            nj2 = R @ nj if name == 'rotation' else nj
            band = in_band(Pi, Pj, Pi2, Pj2)
            v = universal.universal_form_factor(Pi2.copy(), ni2.copy(), ffref.area(Pi2), Pj2.copy(), nj2.copy())
            ctx.oracle_evals += 1
            dev = abs(v - base) / max(base, 1e-300)
            if band:
                ctx.count('similarity.in_cutoff_band')
                worst_band = max(worst_band, dev)
                if dev > 1e-6 and not any(vv['signature'] == 'ff-similarity:per-axis-cutoff-band' for vv in ctx.violations):
                    ctx.violation('ff-similarity:per-axis-cutoff-band' if dev < 5e-2 else 'ff-similarity',
                                  'form factor changes under %s: %.10g vs %.10g (an edge has an extent <= 1e-3 along a coordinate axis before or after the motion)' % (name, v, base),
                                  {'Pi': Pi, 'Pj': Pj, 'transform': name}, float(v), float(base))
                continue
            worst = max(worst, dev)
            if dev > 1e-6:
                ctx.violation('ff-similarity', 'form factor changes under %s: %.10g vs %.10g' % (name, v, base), {'Pi': Pi, 'Pj': Pj, 'transform': name}, float(v), float(base))
                return
    ctx.measured['similarity_max_rel_dev'] = worst
    ctx.measured['similarity_max_rel_dev_in_cutoff_band'] = worst_band


def room_laws(ctx, three=None):
    """MEASURED on baked rooms: 0 <= F <= 1, zeros off the visible list, reciprocity, closure <= 2.5 %."""
    sp = common.import_repo()
    sides, p = scenes.gen_room_params(ctx.rng, small=True)
    if (ctx.rng.random() < 0.5) if three is None else three:
        # at least three patches along the longest side: the far wall's coordinate L and the
        # neighbours' last grid line n*(L/n) then often differ in the last place
        for _ in range(50):
            sides = [float(x) for x in ctx.rng.uniform(1.6, 3.6, size=3)]
            p = max(sides) / float(ctx.rng.uniform(3.05, 3.9))
            q = np.array(sides) / p
            if np.all(q >= 1.05) and np.all(np.abs(q - np.round(q)) >= 0.05):
                n = np.floor(q).astype(int)
                real = np.array(sides) / n
                if 2 * (n[0] * n[1] + n[0] * n[2] + n[1] * n[2]) <= 40 and real.max() / real.min() < 1.95:
                    break
        ctx.count('rooms.three_patches_along_a_side')
    r = scenes.build_fast(sides, p)
    r.bake_geometry()
    ctx.oracle_evals += 1
    F = np.asarray(r.form_factors)
    vis = np.asarray(r.visibility_matrix)
    A = r.patches_area
    inp = {'sides': sides, 'patch': p}
    if np.any(F < 0) or np.any(F > 1):
        ctx.violation('ff-range', 'a baked form factor lies outside [0, 1]', inp, [float(F.min()), float(F.max())], '[0,1]')
    if np.any(F[~vis] != 0):
        ctx.violation('ff-invisible-nonzero', 'a pair that cannot see each other has a non-zero form factor', inp, None, 0.0)
    Fp = np.asarray(r._form_factors_tilde)[:, :, 0, 0]      # no materials, no attenuation: F'
    lhs = A[:, None] * Fp
    if np.abs(lhs - lhs.T).max() > 1e-12 * max(lhs.max(), 1e-300):
        ctx.violation('ff-reciprocity', 'area_i F_ij != area_j F_ji in the baked factors', inp, float(np.abs(lhs - lhs.T).max()), 0.0)
    closure = float(np.abs(Fp.sum(axis=1) - 1).max())
    ctx.measured['closure_error_max'] = max(ctx.measured.get('closure_error_max', 0.0), closure)
    ctx.measured['rooms'] = ctx.measured.get('rooms', 0) + 1
    if closure > 0.025:
        ctx.violation('ff-closure', 'form factors leaving a patch sum to 1 with error %.4f > 2.5 %%' % closure, inp, closure, 0.025)


def touching_laws(ctx, n):
    """General TOUCHING pairs (parallelograms / triangles sharing one vertex or one edge, any vertex-list start, dihedral
    60..120 degrees): the dispatched form factor is finite and lies in [0, 1], and is unchanged by a rigid motion and a uniform
    scaling (1e-6) - the Nusselt branch of `universal_form_factor` on shapes other than the rectangles of a shoebox."""
    common.import_repo()
    from sparrowpy.form_factor import universal
    worst = ctx.measured.get('touching_similarity_max_rel_dev', 0.0)
    for k in range(n):
        Pi, ni, Pj, nj = geomgen.touching_general_pair(ctx.rng)
        ctx.count('touching.%d_vertices' % len(Pi))
        base = universal.universal_form_factor(Pi.copy(), ni.copy(), ffref.area(Pi), Pj.copy(), nj.copy())
        ctx.oracle_evals += 1
        inp = {'Pi': Pi, 'Pj': Pj, 'ni': ni, 'nj': nj}
        if not (np.isfinite(base) and 0.0 <= base <= 1.0):
            ctx.violation('ff-range', 'form factor of a touching pair is %r, outside [0, 1]' % float(base), inp, float(base), '[0,1]')
            return
        R = geomgen.rand_rotation(ctx.rng)
        t = ctx.rng.uniform(-20, 20, size=3)
        s = float(np.exp(ctx.rng.uniform(np.log(0.3), np.log(30))))
        for name, f, g in (('rigid motion', lambda P: P @ R.T + t, lambda v: R @ v), ('uniform scaling x%.3g' % s, lambda P: s * P, lambda v: v)):
            Pi2, Pj2 = f(Pi), f(Pj)
            v = universal.universal_form_factor(Pi2.copy(), g(ni).copy(), ffref.area(Pi2), Pj2.copy(), g(nj).copy())
            ctx.oracle_evals += 1
            if not (np.isfinite(v) and 0.0 <= v <= 1.0):
                ctx.violation('ff-range', 'form factor of a touching pair after %s is %r, outside [0, 1]' % (name, float(v)), dict(inp, transform=name), float(v), '[0,1]')
                return
            dev = abs(v - base) / max(base, 1e-300)
            worst = max(worst, dev)
            if dev > 1e-6:
                ctx.violation('ff-similarity', 'form factor of a touching pair changes under %s: %.10g vs %.10g' % (name, v, base), dict(inp, transform=name), float(v), float(base))
                return
    ctx.measured['touching_similarity_max_rel_dev'] = worst


def run(ctx):
    corr_stokes(ctx, 30 if ctx.tier == 'quick' else 600)
    corr_universal(ctx, 24 if ctx.tier == 'quick' else 600)
    similarity(ctx, 9 if ctx.tier == 'quick' else 150)
    touching_laws(ctx, 16 if ctx.tier == 'quick' else 300)
    for k in range(10 if ctx.tier == 'quick' else 50):
        room_laws(ctx, three=(k % 2 == 1))


def oracle(ctx, budget_s=60):
    t = common.Timer()
    while t.s() < budget_s and not ctx.violations:
        similarity(ctx, 6)
        touching_laws(ctx, 12)
        room_laws(ctx)


def replay(ctx, rp):
    run(ctx)
    return not ctx.violations
