"""C01 — energy exchange never creates energy; the receiving wall's reflectance governs."""
import numpy as np
from .. import common, kernels, pipeline, energy, scenes
from . import c03

LEVEL = 'proof'
RULE = c03.RULE + '; C01 scenes use single-direction Lambertian walls with uniform / non-uniform / fully absorbing walls'
RULE = RULE + "; materials installed one call per wall or as 'wall 0 on all walls, then overrides'; the reflectance in force is compared with the one GIVEN in the scene"
ASSUMPTIONS = c03.ASSUMPTIONS + ['the closure error eps of the form factors is measured on the same object (C05), not proved']
EXPLANATION = 'energy step formula (exact, any length), its long-histogram form, no creation beyond the closure error, uniform-wall ratio, dark absorbing walls, truncation only removes.'


def check_energy_step(ctx, sc):
    """On the implementation: per patch and order, En_{k+1}(j) = rho_{w(j)} * sum_i F'_ij e^{-m d_ij} En_k(i)
    (long histogram), total growth <= 1+eps, absorbing walls dark, uniform ratio."""
    sc = dict(sc, samp_par=None, samp_in=None, tables=None, S=sc['long_bins'] + 5)
    r = energy.build(sc)
    r.bake_geometry()
    r.init_source_energy(scenes.coords(sc['src']))
    K = 3
    orders = energy.per_order(sc, r, K)
    ctx.oracle_evals += K + 1
    sd = energy.scene_description(r)
    P, B = sd['P'], sd['tab'].shape[3]
    # the reflectance that governs is the one the CALLER set for the receiving wall (scene
    # description), whichever way the materials were installed
    rho = np.array([1.0 - np.asarray(sc['absorption'][sd['wall'][j]], float) for j in range(P)])     # (P,B)
    rho_obj = np.array([sd['tab'][sd['tidx'][sd['wall'][j]], 0, 0, :] for j in range(P)])
    if not np.allclose(rho, rho_obj, rtol=1e-12, atol=1e-15):
        j = int(np.argmax(np.abs(rho - rho_obj).max(axis=1)))
        ctx.violation('material-in-force', 'wall %d was given absorption %s but the object applies reflectance %s to its patches (installation: %s)'
                      % (sd['wall'][j], np.round(sc['absorption'][sd['wall'][j]], 4).tolist(), np.round(rho_obj[j], 4).tolist(), sc.get('install') or 'one call per wall'),
                      energy.scene_input(sc), rho_obj[j], rho[j])
        return
    Fp = np.zeros((P, P))
    dist = np.zeros((P, P))
    for i in range(P):
        for j in range(P):
            if i != j and (sd['vis'][i, j] if i < j else sd['vis'][j, i]):
                Fp[i, j] = sd['F'][i, j] if i < j else sd['F'][j, i] * sd['area'][j] / sd['area'][i]
                dist[i, j] = np.linalg.norm(sd['centers'][i] - sd['centers'][j])
    eps = float(np.abs(Fp.sum(axis=1) - 1).max())
    ctx.measured.setdefault('closure_error_max', 0.0)
    ctx.measured['closure_error_max'] = max(ctx.measured['closure_error_max'], eps)
    En = [o[:, 0].sum(axis=-1) for o in orders]          # (P,B) per order
    for k in range(K):
        for b in range(B):
            G = Fp * np.exp(-sd['att'][b] * dist)
            expect = rho[:, b] * (G.T @ En[k][:, b])
            scale = max(float(En[k][:, b].sum()), 1e-300)
            if np.abs(En[k + 1][:, b] - expect).max() > 1e-9 * scale:
                j = int(np.argmax(np.abs(En[k + 1][:, b] - expect)))
                ctx.violation('energy-step-receiving-wall',
                              'order-%d energy of patch %d (wall %d) is not (1-absorption of the RECEIVING wall) x sum_i F\'_ij exp(-m d_ij) En_%d(i)' % (k + 1, j, int(sd['wall'][j]), k),
                              energy.scene_input(sc), {'got': float(En[k + 1][j, b])}, {'expected': float(expect[j]), 'band': b})
                return
            tot1, tot0 = float(En[k + 1][:, b].sum()), float(En[k][:, b].sum())
            if tot1 > (1 + eps) * tot0 * (1 + 1e-9):
                ctx.violation('energy-created', 'order-%d energy %.6g exceeds (1+closure error %.4f) x order-%d energy %.6g' % (k + 1, tot1, eps, k, tot0),
                              energy.scene_input(sc), tot1, (1 + eps) * tot0)
                return
            a = sc['absorption'][:, b]
            if np.all(a == a[0]) and sd['att'][b] == 0:
                if abs(tot1 - (1 - a[0]) * tot0) > (1 - a[0]) * eps * tot0 * (1 + 1e-9) + 1e-300:
                    ctx.violation('uniform-ratio', 'uniform absorption %.3f: order-%d/order-%d energy ratio %.6f outside (1-a)(1 +- eps)' % (a[0], k + 1, k, tot1 / tot0),
                                  energy.scene_input(sc), tot1 / tot0, [(1 - a[0]) * (1 - eps), (1 - a[0]) * (1 + eps)])
                    return
    # absorbing walls
    full = np.asarray(r._energy_exchange_etc)
    for j in range(P):
        for b in range(B):
            if sc['absorption'][sd['wall'][j], b] == 1.0 and np.any(full[j, :, b, :] != 0):
                ctx.violation('absorbing-wall-radiates', 'patch %d on a wall with absorption 1 carries energy' % j,
                              energy.scene_input(sc), float(np.abs(full[j, :, b, :]).max()), 0.0)
                return
    # shortening never increases cumulative energy
    r.calculate_energy_exchange(sc['c'], sc['dt'], energy.duration_of(sc), K, recalculate=True)
    long_tot = np.asarray(r._energy_exchange_etc).sum(axis=(0, 1, 3))
    S2 = max(2, sc['S'] // 3)
    r.calculate_energy_exchange(sc['c'], sc['dt'], energy.duration_of(sc, S2), K, recalculate=True)
    short = np.asarray(r._energy_exchange_etc)
    ctx.oracle_evals += 2
    if np.any(short.sum(axis=(0, 1, 3)) > long_tot * (1 + 1e-12)):
        ctx.violation('shorter-has-more-energy', 'shortening the histogram increased the cumulative energy',
                      energy.scene_input(dict(sc, S=S2)), short.sum(axis=(0, 1, 3)), long_tot)


def run(ctx):
    n_k = 30 if ctx.tier == 'quick' else 1000
    kernels.corr_exchange(ctx, [kernels.gen_exchange_case(ctx.rng, big=ctx.tier != 'quick') for _ in range(n_k)])
    n_s = 4 if ctx.tier == 'quick' else 30
    kinds = ['uniform', 'nonuniform', 'extremes']
    for k in range(n_s):
        sc = energy.gen_scene(ctx.rng, small=True, kinds=[kinds[k % 3]], multi_dir=False,
                              att_zero=(k % 2 == 0))
        if k % 3 == 1:
            # non-uniform walls installed as "wall 0's material everywhere, then the others re-assigned"
            sc['install'] = 'default-first'
        c03.stagewise(ctx, sc)
        check_energy_step(ctx, sc)


def oracle(ctx, budget_s=60):
    t = common.Timer()
    k = 0
    while t.s() < budget_s and not ctx.violations:
        sc = energy.gen_scene(ctx.rng, small=True, kinds=[['nonuniform', 'extremes', 'uniform'][k % 3]], multi_dir=False)
        check_energy_step(ctx, sc)
        k += 1


def replay(ctx, rp):
    sc = c03._scene_from_json(rp['input'])
    check_energy_step(ctx, sc)
    return not ctx.violations
