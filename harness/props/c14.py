"""C14 — BRDF directions follow the wall frame; lookups use the nearest sample."""
import itertools
import numpy as np
from .. import common, scenes, energy, pipeline

LEVEL = 'proof'
RULE = ('wall frames: random orthonormal (normal, up) pairs, the 24 axis frames and positively rescaled normals/ups; '
        'hemisphere samplings of 1-12 directions; real _rotate_coords_to_normal vs the model\'s [u | n x u | n]; '
        'lookups: real get_scattering_data_source / get_scattering_data_receiver_index / bake index map / _add_directional '
        'on real rooms vs the model (near-ties between samples set aside and counted) and vs a brute-force nearest-angle '
        'search in the wall frame; non-trivial = multi-direction sampling')
RULE = RULE + '; direction sets with non-unit radii and a separate incoming sampling; object-level receiver-slot oracle on a long histogram'
ASSUMPTIONS = ['pyfar/scipy Orientations & Euler-angle rotation are library code: tied only by this correspondence',
               'nearest sample = first minimum of the squared chord distance (numpy argmin)']
EXPLANATION = 'wall frame is a rotation with R e_z = n, R e_x = u (orthonormal n,u), scale-free in n and u; for unit vectors the nearest sample (chord) is the sample of maximal cosine = minimal angle; the four lookups apply that argmin to the geometric direction in the wall of the looked-up patch.'


def rand_frame(rng):
    n = rng.normal(size=3)
    n /= np.linalg.norm(n)
    u = rng.normal(size=3)
    u -= n * np.dot(u, n)
    u /= np.linalg.norm(u)
    return n, u


def axis_frames():
    out = []
    for ax in range(3):
        for sg in (1, -1):
            n = np.zeros(3)
            n[ax] = sg
            for ax2 in range(3):
                if ax2 == ax:
                    continue
                for sg2 in (1, -1):
                    u = np.zeros(3)
                    u[ax2] = sg2
                    out.append((n, u))
    return out


def corr_frames(ctx, n_random):
    common.import_repo()
    from sparrowpy.classes.RadiosityFast import _rotate_coords_to_normal
    frames = axis_frames() + [rand_frame(ctx.rng) for _ in range(n_random)]
    lines, impl = [], []
    for k, (n, u) in enumerate(frames):
        scale_n, scale_u = (1.0, 1.0) if k % 3 else (float(ctx.rng.uniform(0.2, 5)), float(ctx.rng.uniform(0.2, 5)))
        samp = scenes.hemisphere_sampling(int(ctx.rng.integers(1, 4)), int(ctx.rng.integers(1, 5)))
        si, so = _rotate_coords_to_normal(n * scale_n, u * scale_u, samp.copy(), samp.copy())
        rot = np.asarray(so.cartesian)
        ctx.oracle_evals += 1
        # the property on the implementation: unit length, outer half space, R e_z = n, R e_x = u
        base = samp.cartesian
        if np.abs(np.linalg.norm(rot, axis=1) - 1).max() > 1e-12 or np.any(rot @ n < -1e-12):
            ctx.violation('frame-halfspace', 'rotated BRDF directions are not unit vectors in the wall\'s outer half space', {'normal': n * scale_n, 'up': u * scale_u}, None, None)
        expect = base[:, 0:1] * u[None, :] + base[:, 1:2] * np.cross(n, u)[None, :] + base[:, 2:3] * n[None, :]
        if np.abs(rot - expect).max() > 1e-10:
            ctx.violation('frame-rotation', 'direction set is not carried by the rotation mapping +z to the wall normal and +x to the up vector', {'normal': n * scale_n, 'up': u * scale_u}, float(np.abs(rot - expect).max()), 0.0)
        lines.append(' '.join(['frame', common.fhexs(n * scale_n), common.fhexs(u * scale_u), str(len(base)), common.fhexs(base)]))
        impl.append(rot)
        ctx.cases += 1
        ctx.count('frames.rescaled', scale_n != 1.0)
        if len(base) > 1:
            ctx.nontriv(['frame', np.round(n, 6).tolist(), np.round(u, 6).tolist(), len(base)])
    for line, rot in zip(common.run_driver(lines), impl):
        st, val = common.parse_ok_floats(line)
        if ctx.cmp.tag('corr:_rotate_coords_to_normal status', 'ok', st):
            ctx.cmp.ulp('corr:_rotate_coords_to_normal', rot, val, rtol=1e-10, atol=1e-12)
    ctx.sample({'frames': len(frames), 'example_normal': frames[-1][0].tolist(), 'example_up': frames[-1][1].tolist()}, limit=1)


def brute_nearest_angle(samples, u):
    c = samples @ u / (np.linalg.norm(samples, axis=1) * np.linalg.norm(u))
    order = np.argsort(-c, kind='stable')
    gap = c[order[0]] - c[order[1]] if len(c) > 1 else np.inf
    return int(order[0]), gap


def check_lookups(ctx, sc):
    """Implementation index choices vs brute-force nearest angle in the wall frame."""
    sc = dict(sc)
    if sc['samp_par'] is None:
        sc['samp_par'] = (2, 3, 1.0, 0.4)
    r = energy.build(sc)
    r.bake_geometry()
    r.init_source_energy(scenes.coords(sc['src']))
    ctx.oracle_evals += 1
    vi = np.array([s.cartesian for s in r._brdf_incoming_directions])
    vo = np.array([s.cartesian for s in r._brdf_outgoing_directions])
    c = r.patches_center
    wall = np.asarray(r._patch_to_wall_ids)
    p2o = np.asarray(r._patch_2_brdf_outgoing_index)
    vis = np.asarray(r.visibility_matrix)
    P = r.n_patches
    tab = np.real(np.array(r._brdf))
    tidx = np.asarray(r._brdf_index)
    fft = np.asarray(r._form_factors_tilde)
    F = np.asarray(r.form_factors)
    area = r.patches_area
    inp = energy.scene_input(sc)
    for i in range(P):
        for j in range(P):
            if i == j or not (vis[i, j] if i < j else vis[j, i]):
                continue
            k, gap = brute_nearest_angle(vo[wall[i]], c[j] - c[i])
            if gap > 1e-9 and p2o[i, j] != k:
                ctx.violation('lookup-outgoing', 'outgoing slot between patches %d->%d is %d, the sample nearest in angle (wall %d frame) is %d' % (i, j, p2o[i, j], wall[i], k), inp, int(p2o[i, j]), k)
                return
            kin, gap = brute_nearest_angle(vi[wall[j]], c[i] - c[j])
            if gap > 1e-9:
                Fp = F[i, j] if i < j else F[j, i] * area[j] / area[i]
                d = np.linalg.norm(c[i] - c[j])
                for b in range(r.n_bins):
                    ref = Fp * np.exp(-r._air_attenuation[b] * d) * tab[tidx[wall[j]], kin, :, b]
                    if np.abs(fft[i, j, :, b] - ref).max() > 1e-10 * max(np.abs(ref).max(), 1e-300):
                        ctx.violation('lookup-incoming', 'baked factor %d->%d does not use the incoming sample of the receiving wall nearest to the direction towards the sender' % (i, j), inp, None, None)
                        return
    # receiver slot
    from sparrowpy.classes.RadiosityFast import get_scattering_data_receiver_index
    for rec in sc['recs']:
        ridx = get_scattering_data_receiver_index(c, np.asarray(rec, float), vo, wall)
        for j in range(P):
            k, gap = brute_nearest_angle(vo[wall[j]], np.asarray(rec) - c[j])
            if gap > 1e-9 and ridx[j] != k:
                ctx.violation('lookup-receiver', 'slot towards the receiver for patch %d is %d, nearest in angle is %d' % (j, ridx[j], k), inp, int(ridx[j]), k)
                return
    # source deposit: e0dir[i, :] = energy_0[i] * table[w(i)][nearest incoming to (s - c_i)]
    from sparrowpy.form_factor import universal
    from sparrowpy import geometry
    vis_s = geometry._check_point2patch_visibility(eval_point=np.asarray(sc['src'], float), patches_center=c,
                                                   surf_points=r.walls_points, surf_normal=r.walls_normal)
    e0, _ = universal._source2patch_energy_universal(np.asarray(sc['src'], float), c, r.patches_points, vis_s, r._air_attenuation, r.n_bins)
    got = np.asarray(r._energy_init_source)
    for i in range(P):
        k, gap = brute_nearest_angle(vi[wall[i]], np.asarray(sc['src']) - c[i])
        if gap > 1e-9:
            ref = e0[i][None, :] * tab[tidx[wall[i]], k]
            if np.abs(got[i] - ref).max() > 1e-10 * max(np.abs(ref).max(), 1e-300):
                ctx.violation('lookup-source', 'energy deposited on patch %d does not use the incoming sample nearest to the source direction in its wall frame' % i, inp, None, None)
                return


def check_receiver_slot(ctx, sc):
    """Object level: what `collect_energy_receiver_patchwise` returns for a patch is the histogram
    of the outgoing slot nearest (in angle, wall frame) to the direction towards the receiver.
    A histogram long enough that nothing is delayed past its end (the wrap is C02/C11's D3)."""
    from . import c11
    sc2 = dict(sc, K=0, S=sc['long_bins'] + 5)
    before = len(ctx.violations)
    c11.check_receivers(ctx, sc2)
    # everything the receiver oracle reports here concerns the direction lookup, except the known wrap
    ctx.violations[before:] = [v for v in ctx.violations[before:] if not v['signature'].startswith('receiver-wrap')]
    for v in ctx.violations[before:]:
        v['signature'] = 'lookup-receiver:' + v['signature']


def check_stored_frames(ctx):
    """Object level: the direction sets `set_wall_brdf` STORES for a wall are the reference set
    carried by that wall's own frame (x -> up, y -> normal x up, z -> normal), unit length - also when
    several walls share a normal but not the up vector (a floor made of two polygons) and are given
    in ONE call, in any order, or one call per wall."""
    sp = common.import_repo()
    import pyfar as pf
    rng = ctx.rng
    lx, ly, lz = [float(x) for x in rng.integers(2, 4, size=3)]
    walls = sp.testing.shoebox_room_stub(lx, ly, lz)
    # replace the floor (wall with normal +z) by two coplanar halves with different up vectors
    fl = [k for k, w in enumerate(walls) if np.allclose(w.normal, [0, 0, 1])][0]
    h = lx / 2
    a = np.array([[0, 0, 0], [h, 0, 0], [h, ly, 0], [0, ly, 0]], dtype=float)
    b = a + np.array([h, 0, 0])
    halves = [sp.geometry.Polygon(a, [1, 0, 0], [0, 0, 1]), sp.geometry.Polygon(b, [0, 1, 0], [0, 0, 1])]
    room = [w for k, w in enumerate(walls) if k != fl] + halves
    n_in, n_out = int(rng.integers(2, 6)), int(rng.integers(2, 6))

    def dirs(n, seed):
        az = np.arange(n) * 2 * np.pi / n + 0.3 + seed
        col = 0.35 + 0.9 * np.abs(np.sin(1.3 * np.arange(n) + seed))
        return pf.Coordinates.from_spherical_colatitude(az, np.clip(col, 0.05, 1.5), 0.5 + np.arange(n) % 3, weights=np.ones(n))
    si, so = dirs(n_in, 0.0), dirs(n_out, 0.7)
    data = rng.uniform(0, 0.3, size=(n_in, n_out, 1))
    for style in ('one call', 'one call, shuffled', 'one call per wall'):
        r = sp.DirectionalRadiosityFast.from_polygon(room, 1.0)
        idx = np.arange(len(room))
        if style == 'one call, shuffled':
            idx = rng.permutation(len(room))
        if style == 'one call per wall':
            for w in idx:
                r.set_wall_brdf([int(w)], pf.FrequencyData(data, [500.0]), si.copy(), so.copy())
        else:
            r.set_wall_brdf(idx, pf.FrequencyData(data, [500.0]), si.copy(), so.copy())
        ctx.oracle_evals += 1
        for w, poly in enumerate(room):
            n = np.asarray(poly.normal, float)
            n = n / np.linalg.norm(n)
            u = np.asarray(poly.up_vector, float)
            u = u / np.linalg.norm(u)
            c = np.cross(n, u)
            for label, ref, got in (('incoming', si, r._brdf_incoming_directions[w]), ('outgoing', so, r._brdf_outgoing_directions[w])):
                v = np.asarray(ref.cartesian, float)
                v = v / np.linalg.norm(v, axis=1, keepdims=True)
                want = v[:, :1] * u[None, :] + v[:, 1:2] * c[None, :] + v[:, 2:3] * n[None, :]
                have = np.asarray(got.cartesian, float)
                if have.shape != want.shape or np.abs(have - want).max() > 1e-9:
                    ctx.violation('stored-directions-not-in-wall-frame',
                                  '%s: the %s directions stored for wall %d (normal %s, up %s) are not the reference set in that wall\'s frame' % (style, label, w, np.round(n, 3).tolist(), np.round(u, 3).tolist()),
                                  {'room': [lx, ly, lz], 'style': style, 'wall': w, 'n_in': n_in, 'n_out': n_out}, have, want)
                    return
    ctx.cases += 1
    ctx.count('stored_frames_rooms')


def run(ctx):
    corr_frames(ctx, 30 if ctx.tier == 'quick' else 600)
    for _ in range(1 if ctx.tier == 'quick' else 10):
        check_stored_frames(ctx)
    n_s = 3 if ctx.tier == 'quick' else 20
    for k in range(n_s):
        sc = energy.gen_scene(ctx.rng, small=True, multi_dir=True)
        r = energy.build(sc)
        r.bake_geometry()
        pipeline.corr_bake(ctx, r)
        r.init_source_energy(scenes.coords(sc['src']))
        pipeline.corr_init(ctx, r, sc['src'])
        r.calculate_energy_exchange(sc['c'], sc['dt'], energy.duration_of(sc), 0, recalculate=True)
        pipeline.corr_collect(ctx, r, sc['recs'][0])
        ctx.nontriv(energy.describe(sc))
        check_lookups(ctx, sc)
        check_receiver_slot(ctx, sc)


def oracle(ctx, budget_s=60):
    t = common.Timer()
    corr = False
    while t.s() < budget_s and not ctx.violations:
        sc = energy.gen_scene(ctx.rng, small=True, multi_dir=True)
        check_lookups(ctx, sc)
        check_receiver_slot(ctx, sc)
        check_stored_frames(ctx)


def replay(ctx, rp):
    from . import c03
    if 'sides' in rp['input']:
        check_lookups(ctx, c03._scene_from_json(rp['input']))
    else:
        corr_frames(ctx, 30)
    return not ctx.violations
