"""C07 — visibility is geometric line of sight."""
import numpy as np
from .. import common, geomgen
from ..common import fhex, fhexs

LEVEL = 'other'
RULE = ('single surfaces: planar convex 3..8-gons in random planes / windings with two points in general position '
        '(>= 1 mm from the plane or exactly on the surface, crossing points >= 1 mm from the edges): off-plane pairs on the same / on '
        'opposite sides, one point on the surface with the other in front / behind, both coplanar; scenes: 6 room walls (random '
        'rotation of the whole scene) plus 0-3 interior blocker quads, random centroid pairs; real _basic_visibility / scans / '
        '_rotation_matrix vs the Lean model (flags exact) and vs an independent segment/polygon test; non-trivial = every case')
RULE = RULE + '; sight lines aimed at chosen points of the surface (Dirichlet weights reaching corners and rim) and just outside it'
ASSUMPTIONS = ['PARTIAL: exactness of the winding-number membership test is proved for axis-parallel rectangles in coordinate planes (walls and patches of shoebox rooms: exact half-open box incl. tolerance; windingCount_rect_ccw/_cw, pointInPolygon_axis_rect_inside/_outside) but not for every convex polygon; there it is tied by correspondence and checked against the independent test on the sampled configurations',
               'general position: cases whose decisive quantities lie within 1e-4 of a tolerance are not generated (the property itself excludes segments closer than 1 mm to edges)']
EXPLANATION = ('PROVED: case analysis of _basic_visibility over an abstract membership test (blocked / seen from behind / coplanar), symmetry in the two points, the scans are the conjunction over all surfaces, '
               'the projection point is the same for both directions, translation invariance, exact membership test for axis-parallel rectangles. MEASURED/tied: membership test and whole kernel against an independent exact-geometry oracle.')


def inside_convex(P, n, x, margin=1e-3):
    """independent membership test: x (in the plane) inside convex polygon P; returns (inside, min edge distance)"""
    s = []
    for k in range(len(P)):
        e = P[(k + 1) % len(P)] - P[k]
        s.append(np.dot(np.cross(e, x - P[k]), n) / np.linalg.norm(e))
    s = np.array(s)
    if np.all(s > 0) or np.all(s < 0):
        return True, float(np.abs(s).min())
    return False, float(np.abs(s).min())


def oracle_visible(a, b, P, n, a_on, b_on):
    """independent line-of-sight predicate for one surface; returns (visible, margin)"""
    da, db = np.dot(a - P[0], n), np.dot(b - P[0], n)
    if not a_on and not b_on:
        if da * db >= 0:
            return True, min(abs(da), abs(db)) if da * db > 0 else 0.0
        t = da / (da - db)
        x = a + t * (b - a)
        ins, mg = inside_convex(P, n, x)
        return (not ins), mg
    if a_on and b_on:
        return False, 1.0
    if a_on:
        return bool(np.dot(n, b - a) >= 0) and abs(db) > 1e-9, abs(db)
    return bool(np.dot(n, a - b) >= 0) and abs(da) > 1e-9, abs(da)


def gen_single(rng):
    P, n = geomgen.convex_polygon(rng)
    c = P.mean(axis=0)
    R = np.abs(P - c).max()
    kind = rng.choice(['off-off', 'on-off', 'on-on', 'off-coplanar', 'through', 'miss'], p=[0.3, 0.2, 0.05, 0.1, 0.25, 0.1])

    def interior():
        w = rng.dirichlet(np.ones(len(P)))
        return (w[:, None] * P).sum(axis=0) * 0.8 + 0.2 * c

    def off():
        x = c + rng.uniform(-2 * R, 2 * R, size=3)
        d = np.dot(x - c, n)
        if abs(d) < 0.01:
            x = x + n * (0.01 + abs(d)) * np.sign(d if d != 0 else 1)
        return x
    if kind in ('through', 'miss'):
        # a sight line aimed at a chosen point of the surface's plane: anywhere inside the polygon
        # (Dirichlet weights with small parameters reach the corners and the rim), or just outside
        w = rng.dirichlet(np.full(len(P), float(rng.choice([0.3, 1.0, 3.0]))))
        target = (w[:, None] * P).sum(axis=0)
        if kind == 'miss':
            k = int(rng.integers(0, len(P)))
            mid = 0.5 * (P[k] + P[(k + 1) % len(P)])
            target = mid + (mid - c) / np.linalg.norm(mid - c) * float(rng.uniform(0.01, 0.5) * R)
        u = rng.normal(size=3)
        u = u - n * np.dot(u, n)
        d = n * float(rng.choice([-1.0, 1.0])) + 0.7 * u / max(np.linalg.norm(u), 1e-9) * rng.uniform(0, 1)
        d = d / np.linalg.norm(d)
        a = target + d * float(rng.uniform(0.05, 2.0) * R)
        b = target - d * float(rng.uniform(0.05, 2.0) * R)
        return P, n, a, b, False, False
    if kind == 'off-off':
        return P, n, off(), off(), False, False
    if kind == 'on-off':
        return P, n, interior(), off(), True, False
    if kind == 'on-on':
        return P, n, interior(), interior(), True, True
    x = off()
    x = x - n * np.dot(x - c, n)          # coplanar, anywhere in the plane
    ins, mg = inside_convex(P, n, x)
    return P, n, x, off(), bool(ins), False


def corr_single(ctx, n):
    common.import_repo()
    from sparrowpy import geometry
    lines, meta = [], []
    for _ in range(n):
        P, nrm, a, b, a_on, b_on = gen_single(ctx.rng)
        scale = float(ctx.rng.choice([1.0, 1.0, ctx.rng.uniform(0.2, 5)]))      # un-normalised normals
        if ctx.rng.random() < 0.5:
            a, b, a_on, b_on = b, a, b_on, a_on
        ref, mg = oracle_visible(a, b, P, nrm, a_on, b_on)
        if mg < 1e-3:
            ctx.count('single.skipped_small_margin')
            continue
        got = bool(geometry._basic_visibility(a.copy(), b.copy(), P.copy(), (nrm * scale).copy()))
        got_rev = bool(geometry._basic_visibility(b.copy(), a.copy(), P.copy(), (nrm * scale).copy()))
        ctx.oracle_evals += 1
        inp = {'a': a, 'b': b, 'surface': P, 'normal': nrm * scale}
        if got != ref:
            ctx.violation('visibility-wrong', 'surface hides=%s but _basic_visibility says visible=%s (a on surface: %s, b on surface: %s)' % (not ref, got, a_on, b_on), inp, got, ref)
        if got != got_rev:
            ctx.violation('visibility-asymmetric', '_basic_visibility(a,b) != _basic_visibility(b,a)', inp, got, got_rev)
        lines.append(' '.join(['basicvis', fhexs(a), fhexs(b), str(len(P)), fhexs(nrm * scale), fhexs(P)]))
        meta.append(got)
        ctx.cases += 1
        ctx.count('single.a_on_%s.b_on_%s' % (a_on, b_on))
        ctx.count('single.hidden', not ref)
        ctx.nontriv([np.round(a, 5).tolist(), np.round(b, 5).tolist(), np.round(P, 5).tolist()])
        ctx.sample({'vertices': len(P), 'a_on_surface': bool(a_on), 'b_on_surface': bool(b_on), 'visible': bool(ref)}, limit=3)
    for got, line in zip(meta, common.run_driver(lines)):
        ctx.cmp.tag('corr:_basic_visibility', got, line.split(' ')[1] == '1')


def corr_membership(ctx, n):
    """`_point_in_polygon` on axis-parallel rectangles in coordinate planes (the walls and patches of
    shoebox rooms): the theorems `pointInPolygon_axis_rect_inside/_outside` and (for normal +z,
    where the rotation is the identity) the exact half-open box of `windingCount_rect_ccw/_cw`,
    evaluated on the implementation, and the model's answer on the same points."""
    common.import_repo()
    from sparrowpy import geometry
    eta = 1e-6
    lines, meta = [], []
    for _ in range(n):
        k = int(ctx.rng.integers(0, 3))
        neg = bool(ctx.rng.integers(0, 2))
        if ctx.rng.random() < 0.4:
            k, neg = 2, False
        c = float(ctx.rng.integers(-8, 9)) / 4
        u0 = float(ctx.rng.integers(-8, 8)) / 4
        u1 = u0 + float(ctx.rng.integers(1, 12)) / 4
        v0 = float(ctx.rng.integers(-8, 8)) / 4
        v1 = v0 + float(ctx.rng.integers(1, 12)) / 4
        s0 = int(ctx.rng.integers(0, 4))
        rev = bool(ctx.rng.integers(0, 2))
        corners = [(u0, v0), (u1, v0), (u1, v1), (u0, v1)]

        def mk3(cc, a, b):
            return np.array({0: [cc, a, b], 1: [b, cc, a], 2: [a, b, cc]}[k], float)
        poly = np.array([mk3(c, *corners[(s0 + (3 * i if rev else i)) % 4]) for i in range(4)])
        nrm = mk3(-1.0 if neg else 1.0, 0.0, 0.0)
        tiny = 2.0 ** -30
        cand = {
            'interior': (ctx.rng.uniform(u0 + 1e-3, u1 - 1e-3), ctx.rng.uniform(v0 + 1e-3, v1 - 1e-3), ctx.rng.uniform(-0.9, 0.9) * eta),
            'off-plane': (ctx.rng.uniform(u0, u1), ctx.rng.uniform(v0, v1), float(ctx.rng.choice([-1, 1])) * ctx.rng.uniform(1.5, 100) * eta),
            'outside-u': (float(ctx.rng.choice([u0 - ctx.rng.uniform(1.5 * eta, 1.0), u1 + ctx.rng.uniform(1.5 * eta, 1.0)])), ctx.rng.uniform(v0, v1), 0.0),
            'outside-v': (ctx.rng.uniform(u0, u1), float(ctx.rng.choice([v0 - ctx.rng.uniform(1.5 * eta, 1.0), v1 + ctx.rng.uniform(1.5 * eta, 1.0)])), 0.0),
            'edge-u0': (u0, ctx.rng.uniform(v0 + 1e-3, v1 - 1e-3), 0.0),
            'edge-u0-': (u0 - tiny, ctx.rng.uniform(v0 + 1e-3, v1 - 1e-3), 0.0),
            'edge-u1': (u1, ctx.rng.uniform(v0 + 1e-3, v1 - 1e-3), 0.0),
            'edge-u1-': (u1 - tiny, ctx.rng.uniform(v0 + 1e-3, v1 - 1e-3), 0.0),
            'edge-v1+': (ctx.rng.uniform(u0 + 1e-3, u1 - 1e-3), v1 + 0.4 * eta, 0.0),
            'edge-v1++': (ctx.rng.uniform(u0 + 1e-3, u1 - 1e-3), v1 + 0.6 * eta, 0.0),
            'edge-v0-': (ctx.rng.uniform(u0 + 1e-3, u1 - 1e-3), v0 - 0.4 * eta, 0.0),
            'edge-v0--': (ctx.rng.uniform(u0 + 1e-3, u1 - 1e-3), v0 - 0.6 * eta, 0.0),
        }
        for name, (pu, pv, dz) in cand.items():
            p = mk3(c + dz, float(pu), float(pv))
            got = bool(geometry._point_in_polygon(p.copy(), poly.copy(), nrm.copy()))
            ctx.oracle_evals += 1
            inp = {'point': p, 'polygon': poly, 'normal': nrm, 'case': name}
            strict_in = abs(dz) <= eta and u0 < pu < u1 and v0 < pv < v1
            far_out = abs(dz) > eta or pu < u0 - eta or pu > u1 + eta or pv < v0 - eta or pv > v1 + eta
            if strict_in and not got:
                ctx.violation('membership-interior', 'a point strictly inside an axis-parallel rectangle (within the plane tolerance) is reported outside (%s)' % name, inp, got, True)
            if far_out and got:
                ctx.violation('membership-outside', 'a point off the plane or outside an axis-parallel rectangle by more than the tolerance is reported inside (%s)' % name, inp, got, False)
            if k == 2 and not neg:
                # identity rotation: exact half-open box (x0 <= x < x1, y0 - eta/2 <= y <= y1 + eta/2)
                ref = abs(dz) <= eta and u0 <= pu < u1 and v0 - eta / 2 <= pv <= v1 + eta / 2
                near = min(abs(pv - (v0 - eta / 2)), abs(pv - (v1 + eta / 2))) < 1e-9 or abs(abs(dz) - eta) < 1e-12
                if not near and got != ref:
                    ctx.violation('membership-exact-box', 'rectangle with normal +z: membership differs from the half-open box of windingCount_rect (%s)' % name, inp, got, ref)
            lines.append(' '.join(['basicvis', fhexs(p), fhexs(p + nrm), '4', fhexs(nrm), fhexs(poly)]))
            meta.append(got)
            ctx.count('membership.%s.%s' % (name, got))
        ctx.cases += 1
    for got, line in zip(meta, common.run_driver(lines)):
        ctx.cmp.tag('corr:_point_in_polygon', got, line.split(' ')[2] == '1')


def corr_rotmat(ctx, n):
    common.import_repo()
    from sparrowpy import geometry
    lines, impl = [], []
    for k in range(n):
        v = ctx.rng.normal(size=3)
        if k % 6 == 0:
            v = np.array([0, 0, float(ctx.rng.choice([1.0, 2.5, -1.0, -3.0, 0.3]))])
        if k % 6 == 1:
            v = np.eye(3)[int(ctx.rng.integers(0, 3))] * float(ctx.rng.choice([1, -1, 2.0]))
        m = geometry._rotation_matrix(n_in=v.copy())
        ctx.oracle_evals += 1
        if not np.all(np.isfinite(m)) or np.abs(m @ m.T - np.eye(3)).max() > 1e-9 or np.abs(m @ (v / np.linalg.norm(v)) - np.array([0, 0, 1.])).max() > 1e-9:
            ctx.violation('rotation-matrix', '_rotation_matrix(%s) is not a rotation taking the vector to +z' % np.round(v, 4).tolist(), {'n_in': v}, m, None)
        lines.append('rotmat ' + fhexs(v))
        impl.append(m)
    for m, line in zip(impl, common.run_driver(lines)):
        st, val = common.parse_ok_floats(line)
        ctx.cmp.ulp('corr:_rotation_matrix', m, val, rtol=1e-11, atol=1e-13)
    ctx.cases += 1


def gen_scene(rng):
    """room walls (inward normals) + interior blockers, all quads, under a random rigid motion"""
    common.import_repo()
    import sparrowpy as sp
    sides = rng.uniform(2, 5, size=3)
    walls = sp.testing.shoebox_room_stub(*sides)
    surfs = [w.pts for w in walls]
    normals = [np.asarray(w.normal, float) for w in walls]
    for _ in range(int(rng.integers(0, 4))):
        ax = int(rng.integers(0, 3))
        o = rng.uniform(0.2, 0.6, size=3) * sides
        e = rng.uniform(0.2, 0.35, size=3) * sides
        a1, a2 = [k for k in range(3) if k != ax]
        q = np.array([o, o, o, o], dtype=float)
        q[1, a1] += e[a1]
        q[2, a1] += e[a1]
        q[2, a2] += e[a2]
        q[3, a2] += e[a2]
        nn = np.zeros(3)
        nn[ax] = float(rng.choice([1, -1]))
        surfs.append(q)
        normals.append(nn)
    R = geomgen.rand_rotation(rng) if rng.random() < 0.7 else np.eye(3)
    t = rng.uniform(-3, 3, size=3)
    surfs = np.array([s @ R.T + t for s in surfs])
    normals = np.array([R @ n for n in normals])
    return surfs, normals, sides, R, t


def corr_scene(ctx):
    common.import_repo()
    from sparrowpy import geometry
    surfs, normals, sides, R, t = gen_scene(ctx.rng)
    centers = surfs.mean(axis=1)
    vis = geometry._check_patch2patch_visibility(centers, normals, surfs)
    pt = (ctx.rng.uniform(0.1, 0.9, size=3) * sides) @ R.T + t
    vp = geometry._check_point2patch_visibility(eval_point=pt, patches_center=centers, surf_normal=normals, surf_points=surfs)
    ctx.oracle_evals += 2
    n = len(surfs)
    lines, meta = [], []
    for i in range(n):
        for j in range(i + 1, n):
            lines.append(' '.join(['visscan', fhexs(centers[i]), fhexs(centers[j]), str(n), '4', fhexs(normals), fhexs(surfs)]))
            meta.append(bool(vis[i, j]))
            # independent oracle
            ref, mgmin = True, 1.0
            for s in range(n):
                ok, mg = oracle_visible(centers[i], centers[j], surfs[s], normals[s], s == i, s == j)
                if s not in (i, j):
                    mgmin = min(mgmin, mg)
                ref = ref and ok
            if mgmin > 1e-3 and bool(vis[i, j]) != ref:
                ctx.violation('visibility-scene', 'patch pair (%d,%d): reported visible=%s, line of sight says %s' % (i, j, bool(vis[i, j]), ref),
                              {'surfaces': surfs, 'normals': normals, 'pair': [i, j]}, bool(vis[i, j]), ref)
        lines.append(' '.join(['visscan', fhexs(pt), fhexs(centers[i]), str(n), '4', fhexs(normals), fhexs(surfs)]))
        meta.append(bool(vp[i]))
    if np.any(np.tril(vis)):
        ctx.violation('visibility-matrix-layout', 'visibility matrix has entries on or below the diagonal', {'surfaces': surfs}, None, None)
    for got, line in zip(meta, common.run_driver(lines)):
        ctx.cmp.tag('corr:visibility scan', got, line.split(' ')[1] == '1')
    ctx.cases += 1
    ctx.count('scene.surfaces_%d' % n)


def object_walls(ctx):
    """Object level (from_polygon): the blocking surfaces the engine uses for source and receiver
    visibility are the walls it was GIVEN — compared with the input polygons, and the visibility of
    the patches from points inside, outside and behind a partition with the independent line-of-
    sight test on the input walls."""
    sp = common.import_repo()
    from sparrowpy import geometry
    import pyfar as pf
    rng = ctx.rng
    sides = [float(x) for x in rng.integers(2, 4, size=3)]
    walls = sp.testing.shoebox_room_stub(*sides)
    # a two-faced partition in the middle of the room (two coincident one-sided surfaces)
    x0 = sides[0] / 2
    q = np.array([[x0, 0.0, 0.0], [x0, 1.0, 0.0], [x0, 1.0, 1.0], [x0, 0.0, 1.0]])
    part = [sp.geometry.Polygon(q, [0, 0, 1], [1, 0, 0]), sp.geometry.Polygon(q[::-1].copy(), [0, 0, 1], [-1, 0, 0])]
    given = walls + part
    pts_in = np.array([w.pts for w in given])
    nrm_in = np.array([w.normal for w in given], dtype=float)
    r = sp.DirectionalRadiosityFast.from_polygon(given, float(rng.choice([0.5, 1.0])))
    ctx.oracle_evals += 1
    inp = {'sides': sides, 'partition': q}
    if not np.array_equal(np.asarray(r.walls_points), pts_in):
        w = int(np.argmax(np.abs(np.asarray(r.walls_points) - pts_in).reshape(len(given), -1).max(axis=1)))
        ctx.violation('walls-not-as-given', 'after from_polygon the object holds other corner points for wall %d than the polygon it was given' % w,
                      inp, np.asarray(r.walls_points)[w], pts_in[w])
        return
    centers = r.patches_center
    wall_of = np.asarray(r._patch_to_wall_ids)
    for pt in (np.array([0.3, 0.4, 0.5]), np.array([sides[0] - 0.3, 0.5, 0.4]), np.array([-0.8, 0.5 * sides[1], 0.5 * sides[2]]),
               np.array([0.5 * sides[0], 0.5 * sides[1], sides[2] + 0.7])):
        r.init_source_energy(pf.Coordinates(*pt))
        e = np.asarray(r._energy_init_source)[:, 0, 0]
        ctx.oracle_evals += 1
        for j in range(r.n_patches):
            ref, mgmin = True, 1.0
            for s_ in range(len(given)):
                ok, mg = oracle_visible(pt, centers[j], pts_in[s_], nrm_in[s_], False, s_ == wall_of[j])
                mgmin = min(mgmin, mg)
                ref = ref and ok
            if mgmin > 1e-3 and bool(e[j] != 0) != ref:
                ctx.violation('object-visibility', 'patch %d (wall %d) from the point %s: the engine deposits %s energy, line of sight on the given walls says %s'
                              % (j, wall_of[j], np.round(pt, 3).tolist(), 'some' if e[j] != 0 else 'no', 'visible' if ref else 'hidden'),
                              dict(inp, point=pt), float(e[j]), 'non-zero' if ref else 0.0)
                return
    ctx.cases += 1
    ctx.count('object_rooms')


def run(ctx):
    corr_rotmat(ctx, 30 if ctx.tier == 'quick' else 300)
    corr_single(ctx, 150 if ctx.tier == 'quick' else 4000)
    corr_membership(ctx, 20 if ctx.tier == 'quick' else 400)
    for _ in range(4 if ctx.tier == 'quick' else 60):
        corr_scene(ctx)
    for _ in range(1 if ctx.tier == 'quick' else 10):
        object_walls(ctx)


def oracle(ctx, budget_s=60):
    t = common.Timer()
    while t.s() < budget_s and not ctx.violations:
        corr_single(ctx, 100)
        corr_membership(ctx, 20)
        corr_scene(ctx)
        object_walls(ctx)


def replay(ctx, rp):
    run(ctx)
    return not ctx.violations
