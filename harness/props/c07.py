"""C07 — visibility is geometric line of sight."""
import numpy as np
from .. import common, geomgen
from ..common import fhex, fhexs

LEVEL = 'other'
RULE = ('single surfaces: planar convex 3..8-gons in random planes / windings with two points in general position '
        '(>= 1 mm from the plane or exactly on the surface, crossing points >= 1 mm from the edges): off-plane pairs on the same / on '
        'opposite sides, one point on the surface with the other in front / behind, both coplanar; scenes: 6 room walls (random '
        'rotation of the whole scene) plus 0-3 interior blocker quads, random centroid pairs; real _basic_visibility / scans / '
        '_rotation_matrix vs the Lean model (flags exact) and vs an independent segment/polygon test; non-trivial = every case')
ASSUMPTIONS = ['PARTIAL: exactness of the winding-number membership test for every convex polygon (point_in_polygon) is not proved; it is tied by correspondence and checked against the independent test on the sampled configurations',
               'general position: cases whose decisive quantities lie within 1e-4 of a tolerance are not generated (the property itself excludes segments closer than 1 mm to edges)']
EXPLANATION = ('PROVED: case analysis of _basic_visibility over an abstract membership test (blocked / seen from behind / coplanar), symmetry in the two points, the scans are the conjunction over all surfaces, '
               'the projection point is the same for both directions, translation invariance. MEASURED/tied: membership test and whole kernel against an independent exact-geometry oracle.')


def inside_convex(P, n, x, margin=1e-3):
    """independent membership test: x (in the plane) inside convex polygon P; returns (inside, min edge distance)"""
    s = []
    for k in range(len(P)):
        e = P[(k + 1) % len(P)] - P[k]
        s.append(np.dot(np.cross(e, x - P[k]), n) / np.linalg.norm(e))
    s = np.array(s)
    if np.all(s > 0) or np.all(s < 0):
        return True, float(np.abs(s).min())
    return False, float(np.abs(s).min())


def oracle_visible(a, b, P, n, a_on, b_on):
    """independent line-of-sight predicate for one surface; returns (visible, margin)"""
    da, db = np.dot(a - P[0], n), np.dot(b - P[0], n)
    if not a_on and not b_on:
        if da * db >= 0:
            return True, min(abs(da), abs(db)) if da * db > 0 else 0.0
        t = da / (da - db)
        x = a + t * (b - a)
        ins, mg = inside_convex(P, n, x)
        return (not ins), mg
    if a_on and b_on:
        return False, 1.0
    if a_on:
        return bool(np.dot(n, b - a) >= 0) and abs(db) > 1e-9, abs(db)
    return bool(np.dot(n, a - b) >= 0) and abs(da) > 1e-9, abs(da)


def gen_single(rng):
    P, n = geomgen.convex_polygon(rng)
    c = P.mean(axis=0)
    R = np.abs(P - c).max()
    kind = rng.choice(['off-off', 'on-off', 'on-on', 'off-coplanar'], p=[0.6, 0.25, 0.05, 0.1])

    def interior():
        w = rng.dirichlet(np.ones(len(P)))
        return (w[:, None] * P).sum(axis=0) * 0.8 + 0.2 * c

    def off():
        x = c + rng.uniform(-2 * R, 2 * R, size=3)
        d = np.dot(x - c, n)
        if abs(d) < 0.01:
            x = x + n * (0.01 + abs(d)) * np.sign(d if d != 0 else 1)
        return x
    if kind == 'off-off':
        return P, n, off(), off(), False, False
    if kind == 'on-off':
        return P, n, interior(), off(), True, False
    if kind == 'on-on':
        return P, n, interior(), interior(), True, True
    x = off()
    x = x - n * np.dot(x - c, n)          # coplanar, anywhere in the plane
    ins, mg = inside_convex(P, n, x)
    return P, n, x, off(), bool(ins), False


def corr_single(ctx, n):
    common.import_repo()
    from sparrowpy import geometry
    lines, meta = [], []
    for _ in range(n):
        P, nrm, a, b, a_on, b_on = gen_single(ctx.rng)
        scale = float(ctx.rng.choice([1.0, 1.0, ctx.rng.uniform(0.2, 5)]))      # un-normalised normals
        if ctx.rng.random() < 0.5:
            a, b, a_on, b_on = b, a, b_on, a_on
        ref, mg = oracle_visible(a, b, P, nrm, a_on, b_on)
        if mg < 1e-3:
            ctx.count('single.skipped_small_margin')
            continue
        got = bool(geometry._basic_visibility(a.copy(), b.copy(), P.copy(), (nrm * scale).copy()))
        got_rev = bool(geometry._basic_visibility(b.copy(), a.copy(), P.copy(), (nrm * scale).copy()))
        ctx.oracle_evals += 1
        inp = {'a': a, 'b': b, 'surface': P, 'normal': nrm * scale}
        if got != ref:
            ctx.violation('visibility-wrong', 'surface hides=%s but _basic_visibility says visible=%s (a on surface: %s, b on surface: %s)' % (not ref, got, a_on, b_on), inp, got, ref)
        if got != got_rev:
            ctx.violation('visibility-asymmetric', '_basic_visibility(a,b) != _basic_visibility(b,a)', inp, got, got_rev)
        lines.append(' '.join(['basicvis', fhexs(a), fhexs(b), str(len(P)), fhexs(nrm * scale), fhexs(P)]))
        meta.append(got)
        ctx.cases += 1
        ctx.count('single.a_on_%s.b_on_%s' % (a_on, b_on))
        ctx.count('single.hidden', not ref)
        ctx.nontriv([np.round(a, 5).tolist(), np.round(b, 5).tolist(), np.round(P, 5).tolist()])
        ctx.sample({'vertices': len(P), 'a_on_surface': bool(a_on), 'b_on_surface': bool(b_on), 'visible': bool(ref)}, limit=3)
    for got, line in zip(meta, common.run_driver(lines)):
        ctx.cmp.tag('corr:_basic_visibility', got, line.split(' ')[1] == '1')


def corr_rotmat(ctx, n):
    common.import_repo()
    from sparrowpy import geometry
    lines, impl = [], []
    for k in range(n):
        v = ctx.rng.normal(size=3)
        if k % 6 == 0:
            v = np.array([0, 0, float(ctx.rng.choice([1.0, 2.5, -1.0, -3.0, 0.3]))])
        if k % 6 == 1:
            v = np.eye(3)[int(ctx.rng.integers(0, 3))] * float(ctx.rng.choice([1, -1, 2.0]))
        m = geometry._rotation_matrix(n_in=v.copy())
        ctx.oracle_evals += 1
        if not np.all(np.isfinite(m)) or np.abs(m @ m.T - np.eye(3)).max() > 1e-9 or np.abs(m @ (v / np.linalg.norm(v)) - np.array([0, 0, 1.])).max() > 1e-9:
            ctx.violation('rotation-matrix', '_rotation_matrix(%s) is not a rotation taking the vector to +z' % np.round(v, 4).tolist(), {'n_in': v}, m, None)
        lines.append('rotmat ' + fhexs(v))
        impl.append(m)
    for m, line in zip(impl, common.run_driver(lines)):
        st, val = common.parse_ok_floats(line)
        ctx.cmp.ulp('corr:_rotation_matrix', m, val, rtol=1e-11, atol=1e-13)
    ctx.cases += 1


def gen_scene(rng):
    """room walls (inward normals) + interior blockers, all quads, under a random rigid motion"""
    common.import_repo()
    import sparrowpy as sp
    sides = rng.uniform(2, 5, size=3)
    walls = sp.testing.shoebox_room_stub(*sides)
    surfs = [w.pts for w in walls]
    normals = [np.asarray(w.normal, float) for w in walls]
    for _ in range(int(rng.integers(0, 4))):
        ax = int(rng.integers(0, 3))
        o = rng.uniform(0.2, 0.6, size=3) * sides
        e = rng.uniform(0.2, 0.35, size=3) * sides
        a1, a2 = [k for k in range(3) if k != ax]
        q = np.array([o, o, o, o], dtype=float)
        q[1, a1] += e[a1]
        q[2, a1] += e[a1]
        q[2, a2] += e[a2]
        q[3, a2] += e[a2]
        nn = np.zeros(3)
        nn[ax] = float(rng.choice([1, -1]))
        surfs.append(q)
        normals.append(nn)
    R = geomgen.rand_rotation(rng) if rng.random() < 0.7 else np.eye(3)
    t = rng.uniform(-3, 3, size=3)
    surfs = np.array([s @ R.T + t for s in surfs])
    normals = np.array([R @ n for n in normals])
    return surfs, normals, sides, R, t


def corr_scene(ctx):
    common.import_repo()
    from sparrowpy import geometry
    surfs, normals, sides, R, t = gen_scene(ctx.rng)
    centers = surfs.mean(axis=1)
    vis = geometry._check_patch2patch_visibility(centers, normals, surfs)
    pt = (ctx.rng.uniform(0.1, 0.9, size=3) * sides) @ R.T + t
    vp = geometry._check_point2patch_visibility(eval_point=pt, patches_center=centers, surf_normal=normals, surf_points=surfs)
    ctx.oracle_evals += 2
    n = len(surfs)
    lines, meta = [], []
    for i in range(n):
        for j in range(i + 1, n):
            lines.append(' '.join(['visscan', fhexs(centers[i]), fhexs(centers[j]), str(n), '4', fhexs(normals), fhexs(surfs)]))
            meta.append(bool(vis[i, j]))
            # independent oracle
            ref, mgmin = True, 1.0
            for s in range(n):
                ok, mg = oracle_visible(centers[i], centers[j], surfs[s], normals[s], s == i, s == j)
                if s not in (i, j):
                    mgmin = min(mgmin, mg)
                ref = ref and ok
            if mgmin > 1e-3 and bool(vis[i, j]) != ref:
                ctx.violation('visibility-scene', 'patch pair (%d,%d): reported visible=%s, line of sight says %s' % (i, j, bool(vis[i, j]), ref),
                              {'surfaces': surfs, 'normals': normals, 'pair': [i, j]}, bool(vis[i, j]), ref)
        lines.append(' '.join(['visscan', fhexs(pt), fhexs(centers[i]), str(n), '4', fhexs(normals), fhexs(surfs)]))
        meta.append(bool(vp[i]))
    if np.any(np.tril(vis)):
        ctx.violation('visibility-matrix-layout', 'visibility matrix has entries on or below the diagonal', {'surfaces': surfs}, None, None)
    for got, line in zip(meta, common.run_driver(lines)):
        ctx.cmp.tag('corr:visibility scan', got, line.split(' ')[1] == '1')
    ctx.cases += 1
    ctx.count('scene.surfaces_%d' % n)


def run(ctx):
    corr_rotmat(ctx, 30 if ctx.tier == 'quick' else 300)
    corr_single(ctx, 150 if ctx.tier == 'quick' else 4000)
    for _ in range(4 if ctx.tier == 'quick' else 60):
        corr_scene(ctx)


def oracle(ctx, budget_s=60):
    t = common.Timer()
    while t.s() < budget_s and not ctx.violations:
        corr_single(ctx, 100)
        corr_scene(ctx)


def replay(ctx, rp):
    run(ctx)
    return not ctx.violations
