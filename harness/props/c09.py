"""C09 — exchanging source and receiver leaves the energy-time curve unchanged."""
import numpy as np
from .. import common, kernels, pipeline, energy, scenes, endtoend
from . import c03

LEVEL = 'proof'
RULE = ('pipeline scenes: random non-cubic shoeboxes, per-wall absorption, attenuation != 0, orders 0-3, single-direction '
        'Lambertian walls, histogram long enough for every arrival; position pairs with a source/receiver-patch delay within '
        '1e-9 of an integer number of bins are skipped; non-trivial = order >= 1 and non-uniform walls; both directions are computed on ONE object, then once more on that object at another speed of sound')
ASSUMPTIONS = c03.ASSUMPTIONS + ['reciprocity of the form factors is by construction (upper triangle + area ratio, C05)',
                                 'the code\'s receiver kernel wraps (D3): theorem reciprocity_code needs the no-wrap hypothesis, the scenes satisfy it']
EXPLANATION = 'path-sum/transposition proof over R[X]: A->B and B->A response polynomials are equal; floor/ceil bins match for non-integer delays.'


def check_swap(ctx, sc):
    sc = dict(sc, samp_par=None, samp_in=None, tables=None, S=sc['long_bins'] + 10)
    A = np.asarray(sc['src'], float)
    Bp = np.asarray(sc['recs'][0], float)
    c, dt = sc['c'], sc['dt']
    r = energy.build(sc)
    r.bake_geometry()
    # the same object is used for both directions, and then again at another speed of sound (a used object, as in a
    # temperature sweep): every run must be reciprocal
    for run_no, cc in enumerate((c, c * 1.0371)):
        # skip pairs with an integer delay
        skip = False
        for p in (A, Bp):
            x = np.linalg.norm(r.patches_center - p, axis=1) / cc / dt
            if np.any(np.abs(x - np.round(x)) < 1e-9):
                skip = True
        if skip:
            ctx.count('oracle.skipped_integer_delay')
            if run_no == 0:
                return
            continue
        r.init_source_energy(scenes.coords(A))
        r.calculate_energy_exchange(cc, dt, energy.duration_of(sc), sc['K'], recalculate=True)
        ab = r.collect_energy_receiver_mono(scenes.coords(Bp)).time[0]
        r.init_source_energy(scenes.coords(Bp))
        r.calculate_energy_exchange(cc, dt, energy.duration_of(sc), sc['K'], recalculate=True)
        ba = r.collect_energy_receiver_mono(scenes.coords(A)).time[0]
        ctx.oracle_evals += 2
        ctx.count('swap.run_%d' % run_no)
        peak = max(float(ab.max()), float(ba.max()), 1e-300)
        if np.abs(ab - ba).max() > 1e-9 * peak:
            k = np.unravel_index(int(np.argmax(np.abs(ab - ba))), ab.shape)
            ctx.violation('reciprocity', 'curve at B for a source at A differs from the curve at A for a source at B (band %d, bin %d): %.6g vs %.6g%s'
                          % (k[0], k[1], ab[k], ba[k], '' if run_no == 0 else '; second pair of runs on the same object, speed of sound changed from %r to %r' % (c, cc)),
                          energy.scene_input(sc), float(ab[k]), float(ba[k]))
            break
    if sc['K'] >= 1 and sc['kind'] != 'uniform':
        ctx.nontriv(['swap', energy.describe(sc)])


def run(ctx):
    n_k = 20 if ctx.tier == 'quick' else 500
    kernels.corr_exchange(ctx, [kernels.gen_exchange_case(ctx.rng) for _ in range(n_k)])
    kernels.corr_collect(ctx, [kernels.gen_collect_case(ctx.rng) for _ in range(n_k)])
    n_s = 3 if ctx.tier == 'quick' else 24
    for k in range(n_s):
        sc = energy.gen_scene(ctx.rng, small=True, multi_dir=False, att_zero=False,
                              kinds=['nonuniform', 'extremes'] if k % 3 else ['uniform'])
        sc['K'] = max(sc['K'], 1) if k % 2 == 0 else sc['K']
        sc2 = dict(sc, S=sc['long_bins'] + 10)
        r = c03.stagewise(ctx, sc2)
        pipeline.corr_collect(ctx, r, sc['recs'][0])
        check_swap(ctx, sc)


def oracle(ctx, budget_s=60):
    t = common.Timer()
    while t.s() < budget_s and not ctx.violations:
        sc = energy.gen_scene(ctx.rng, small=True, multi_dir=False, att_zero=False, kinds=['nonuniform', 'extremes'])
        check_swap(ctx, sc)


def replay(ctx, rp):
    check_swap(ctx, c03._scene_from_json(rp['input']))
    return not ctx.violations
