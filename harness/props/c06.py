"""C06 — numerical form factors match the exact view-factor integral within the envelope."""
import numpy as np
from .. import common, geomgen, ffref
from . import c05

LEVEL = 'other'
RULE = ('pairs drawn from the stated envelope: detached (>= half the larger side) triangles / rectangles / parallelograms, sizes 0.3-3 m, '
        'offsets, tilts up to 60 deg, random rigid motions and vertex rotations; rectangles sharing an edge at dihedral angles 45-170 deg and '
        'sharing a vertex at a right angle, side ratios <= 2; each compared with an independent graded Gauss-Legendre contour reference '
        '(validated against the closed forms of sparrowpy.testing.exact_ff_solutions); tolerances exactly those of the statement')
RULE = RULE + '; plus small perpendicular rectangles canted by 1-3 degrees, 15-30 m from the origin'
ASSUMPTIONS = ['PARTIAL (the main clause): "within 1 % / 3 % / 8 % / 5 % of the exact four-fold integral over a continuous envelope" is an analytic error bound that this proof technique cannot deliver here; the envelope is MEASURED by sampling and reported as measured',
               'the reference integrator is harness code (trusted, validated on closed forms each run)',
               'known finding D12 (obtuse shared-edge angles) is listed in known_findings.json']
EXPLANATION = ('PROVED (structure only): Boole rule exactness to degree 5 with the generated weights; boundary sampling is the closed equispaced contour; integrator branch = Nusselt iff some vertex pair is closer than 1e-6; '
               'contour integrator symmetric and translation invariant. MEASURED: the accuracy envelope of the statement.')


def validate_reference(ctx):
    common.import_repo()
    from sparrowpy.testing import exact_ff_solutions as ex
    rng = ctx.rng
    a, b, c = [float(x) for x in rng.uniform(0.5, 2, size=3)]
    Pi = np.array([[0, 0, 0], [a, 0, 0], [a, b, 0], [0, b, 0]], dtype=float)
    Pj = Pi[::-1] + np.array([0, 0, c])
    ref = ffref.contour_ref(Pi, Pj, a * b)
    exact = ex.parallel_patches(a, b, c)
    ctx.measured['reference_vs_closed_form_rel'] = max(ctx.measured.get('reference_vs_closed_form_rel', 0.0), abs(ref / exact - 1))
    if abs(ref / exact - 1) > 1e-6:
        ctx.notes.append('reference integrator disagrees with the closed form: %g vs %g' % (ref, exact))
        raise common.DriverError('reference integrator invalid')


def measure(ctx, n_detached, angles, n_vertex):
    common.import_repo()
    from sparrowpy.form_factor import universal
    rng = ctx.rng
    for k in range(n_detached):
        kind = ['rect', 'para', 'tri'][k % 3]
        Pi, ni, Pj, nj = geomgen.detached_pair(rng, kind)
        if k % 3 != 2 and k % 2 == 1:
            # the same kind of pair in a large hall: axis-parallel but for a slight cant, tens of
            # metres from the origin (the envelope covers any placement)
            Pi, ni, Pj, nj = geomgen.far_canted_pair(rng)
            kind = 'rect'
            ctx.count('detached.far_canted')
        Ai = ffref.area(Pi)
        ref = ffref.contour_ref(Pi, Pj, Ai, n=16, levels=3)
        if ref < 1e-4:
            continue
        v = universal.universal_form_factor(Pi.copy(), ni.copy(), Ai, Pj.copy(), nj.copy())
        ctx.oracle_evals += 1
        err = abs(v / ref - 1)
        key = 'detached_%s_max_rel_err' % kind
        ctx.measured[key] = max(ctx.measured.get(key, 0.0), err)
        tol = 0.03 if kind == 'tri' else 0.01
        if err > tol:
            ctx.violation('ff-accuracy-detached', 'detached %s pair: form factor %.6g vs exact %.6g (%.2f %% > %.0f %%)' % (kind, v, ref, 100 * err, 100 * tol),
                          {'Pi': Pi, 'ni': ni, 'Pj': Pj, 'nj': nj}, float(v), float(ref))
    # vertex arrays of INTEGER dtype (whole-metre coordinates): same numbers, same result
    for k in range(max(2, n_detached // 10)):
        a, b, h = int(rng.integers(1, 4)), int(rng.integers(1, 4)), int(rng.integers(1, 4))
        ox = int(rng.integers(-3, 4))
        if k % 2 == 0:      # facing rectangles
            Pi = np.array([[ox, 0, 0], [ox + a, 0, 0], [ox + a, b, 0], [ox, b, 0]], dtype=np.int64)
            Pj = np.array([[ox, 0, h], [ox, b, h], [ox + a, b, h], [ox + a, 0, h]], dtype=np.int64)
            ni, nj = np.array([0., 0., 1.]), np.array([0., 0., -1.])
        else:               # perpendicular, sharing an edge
            Pi = np.array([[ox, 0, 0], [ox + a, 0, 0], [ox + a, b, 0], [ox, b, 0]], dtype=np.int64)
            Pj = np.array([[ox, 0, 0], [ox, 0, h], [ox + a, 0, h], [ox + a, 0, 0]], dtype=np.int64)
            ni, nj = np.array([0., 0., 1.]), np.array([0., 1., 0.])
        Ai = float(a * b)
        v_int = universal.universal_form_factor(Pi.copy(), ni.copy(), Ai, Pj.copy(), nj.copy())
        v_flt = universal.universal_form_factor(Pi.astype(float), ni.copy(), Ai, Pj.astype(float), nj.copy())
        ctx.oracle_evals += 2
        ctx.count('integer_dtype_pairs')
        if not (abs(v_int - v_flt) <= 1e-12 * max(abs(v_flt), 1e-300)):
            ctx.violation('ff-integer-vertex-array', 'the same patch pair gives %.6g with an int64 vertex array and %.6g with float64' % (v_int, v_flt),
                          {'Pi': Pi, 'ni': ni, 'Pj': Pj, 'nj': nj}, float(v_int), float(v_flt))
    for ang in angles:
        Pi, ni, Pj, nj = geomgen.shared_edge_pair(rng, ang)
        Pi, ni, Pj, nj = geomgen.rigid(rng, Pi, ni, Pj, nj)
        Ai = ffref.area(Pi)
        ref = ffref.contour_ref(Pi, Pj, Ai)
        v = universal.universal_form_factor(Pi.copy(), ni.copy(), Ai, Pj.copy(), nj.copy())
        ctx.oracle_evals += 1
        err = abs(v / ref - 1)
        key = 'shared_edge_max_rel_err_le100deg' if ang <= 100 else 'shared_edge_max_rel_err_gt100deg'
        ctx.measured[key] = max(ctx.measured.get(key, 0.0), err)
        if err > 0.08:
            sig = 'nusselt-obtuse-shared-edge' if ang > 100 else 'ff-accuracy-shared-edge'
            ctx.violation(sig, 'rectangles sharing an edge at %.0f deg: form factor %.6g vs exact %.6g (%.1f %% > 8 %%)' % (ang, v, ref, 100 * err),
                          {'Pi': Pi, 'ni': ni, 'Pj': Pj, 'nj': nj, 'angle': ang}, float(v), float(ref))
    for k in range(n_vertex):
        Pi, ni, Pj, nj = geomgen.shared_vertex_pair(rng)
        Pi, ni, Pj, nj = geomgen.rigid(rng, Pi, ni, Pj, nj)
        Ai = ffref.area(Pi)
        ref = ffref.contour_ref(Pi, Pj, Ai)
        v = universal.universal_form_factor(Pi.copy(), ni.copy(), Ai, Pj.copy(), nj.copy())
        ctx.oracle_evals += 1
        err = abs(v / ref - 1)
        ctx.measured['shared_vertex_max_rel_err'] = max(ctx.measured.get('shared_vertex_max_rel_err', 0.0), err)
        if err > 0.05:
            ctx.violation('ff-accuracy-shared-vertex', 'rectangles sharing a vertex at a right angle: %.6g vs exact %.6g (%.1f %% > 5 %%)' % (v, ref, 100 * err),
                          {'Pi': Pi, 'ni': ni, 'Pj': Pj, 'nj': nj}, float(v), float(ref))


def run(ctx):
    validate_reference(ctx)
    c05.corr_stokes(ctx, 20 if ctx.tier == 'quick' else 400)
    c05.corr_universal(ctx, 20 if ctx.tier == 'quick' else 400)
    if ctx.tier == 'quick':
        measure(ctx, 15, [45, 60, 75, 90, 100, 120, 150], 3)
    else:
        measure(ctx, 300, list(np.linspace(45, 100, 23)) + [110, 130, 150, 170] + list(ctx.rng.uniform(45, 100, size=40)), 40)


def oracle(ctx, budget_s=60):
    t = common.Timer()
    while t.s() < budget_s and not [v for v in ctx.violations if v['signature'] != 'nusselt-obtuse-shared-edge']:
        measure(ctx, 9, list(ctx.rng.uniform(45, 100, size=4)), 2)


def replay(ctx, rp):
    common.import_repo()
    from sparrowpy.form_factor import universal
    inp = rp['input']
    Pi, ni, Pj, nj = (np.array(inp[k], dtype=float) for k in ('Pi', 'ni', 'Pj', 'nj'))
    Ai = ffref.area(Pi)
    ref = ffref.contour_ref(Pi, Pj, Ai)
    v = universal.universal_form_factor(Pi.copy(), ni.copy(), Ai, Pj.copy(), nj.copy())
    print('implementation %.8g reference %.8g relative error %.3f %%' % (v, ref, 100 * abs(v / ref - 1)))
    tol = 0.08 if 'angle' in inp else (0.03 if len(Pi) == 3 else 0.01)
    return abs(v / ref - 1) <= tol
