"""C20 — source directivity is applied per direction in the source's own frame."""
import os
import tempfile
import numpy as np
from .. import common, scenes, energy
from ..common import fhex, fhexs

LEVEL = 'proof'
RULE = ('synthetic FreeFieldDirectivityTF SOFA files written by the harness (12-60 measured directions on a sphere, 2-4 '
        'frequencies, positive random gains, and the all-ones table); random orthonormal source frames (view, up), positions and '
        'targets; real _get_metrics / SoundSource.get_directivity vs the Lean model (nearest-direction near-ties set aside); '
        'pipeline on small rooms: with directivity vs without, unit directivity, oriented source without directivity, '
        'rotated source+scene; non-trivial = non-constant table')
ASSUMPTIONS = ['sofar/pyfar reading of the SOFA file and Coordinates.find_nearest are library code (nearest = smallest chord distance)',
               'theorems at real numbers']
EXPLANATION = 'looked-up unit vector = (d.view, d.(up x view), d.up)/|d| (from the atan2/asin route); covariant under rotating source frame and scene together; factor = table[nearest direction][nearest frequency]; multiplies every slot of the patch and the direct sound; no directivity or unit table = omnidirectional result.'


def write_sofa(path, rng, unit=False):
    import sofar as sf
    n_az = int(rng.choice([6, 8, 12]))
    els = np.array([[-45, 0, 45], [-60, -30, 0, 30, 60], [-30, 30]][int(rng.integers(0, 3))], dtype=float)
    az = np.repeat(np.arange(0, 360, 360 / n_az) + float(rng.uniform(0, 5)), len(els))
    el = np.tile(els + float(rng.uniform(-3, 3)), n_az)
    R = len(az)
    N = int(rng.integers(2, 5))
    freqs = np.sort(rng.choice([125., 250., 500., 1000., 2000., 4000.], size=N, replace=False))
    g = np.ones((1, R, N)) if unit else rng.uniform(0.2, 2.0, size=(1, R, N))
    sofa = sf.Sofa('FreeFieldDirectivityTF')
    sofa.ReceiverPosition = np.stack([az, el, np.ones(R)], 1).astype(float)
    sofa.ReceiverPosition_Type = 'spherical'
    sofa.ReceiverPosition_Units = 'degree, degree, metre'
    sofa.Data_Real = g
    sofa.Data_Imag = np.zeros_like(g)
    sofa.N = freqs
    sf.write_sofa(path, sofa)
    return dict(az=az, el=el, g=g[0], freqs=freqs)


def rand_frame(rng):
    v = rng.normal(size=3)
    v /= np.linalg.norm(v)
    u = rng.normal(size=3)
    u -= v * np.dot(u, v)
    u /= np.linalg.norm(u)
    return v, u


def rot_matrix(rng):
    q, _ = np.linalg.qr(rng.normal(size=(3, 3)))
    if np.linalg.det(q) < 0:
        q[:, 0] *= -1
    return q


def corr_metrics(ctx, n, td):
    sp = common.import_repo()
    from sparrowpy.sound_object import _get_metrics
    path = os.path.join(td, 'dir.sofa')
    info = write_sofa(path, ctx.rng)
    d = sp.sound_object.DirectivityMS(path)
    dirs = np.asarray(d.receivers.cartesian)
    table = np.real(d.data.freq)
    lines, meta = [], []
    for k in range(n):
        view, up = rand_frame(ctx.rng)
        pos = ctx.rng.uniform(-3, 3, size=3)
        tg = pos + ctx.rng.normal(size=3) * float(ctx.rng.uniform(0.2, 5))
        if k % 5 == 0:          # measured directions themselves
            j = int(ctx.rng.integers(0, len(dirs)))
            left = np.cross(up, view)
            tg = pos + 2.0 * (dirs[j, 0] * view + dirs[j, 1] * left + dirs[j, 2] * up)
        az, el = _get_metrics(pos, view, up, tg)
        src = sp.sound_object.SoundSource(pos, view, up, d)
        f = float(ctx.rng.choice(info['freqs']) * ctx.rng.uniform(0.8, 1.25))
        val = np.real(src.get_directivity(np.asarray(tg, dtype=float), f))
        ctx.oracle_evals += 1
        # the property on the implementation: frame (view, up x view, up), nearest direction, nearest frequency
        dvec = tg - pos
        u = np.array([np.dot(dvec, view), np.dot(dvec, np.cross(up, view)), np.dot(dvec, up)]) / np.linalg.norm(dvec)
        cosang = dirs @ u
        order = np.argsort(-cosang, kind='stable')
        gap = cosang[order[0]] - cosang[order[1]]
        fi = int(np.argmin(np.abs(info['freqs'] - f)))
        if gap > 1e-9 and abs(float(np.squeeze(val)) - table[order[0], fi]) > 1e-12:
            ctx.violation('directivity-lookup', 'get_directivity does not return the entry of the measured direction nearest to the source->target direction in the frame (view, up x view, up) at the nearest frequency',
                          {'pos': pos, 'view': view, 'up': up, 'target': tg, 'f': f}, float(np.squeeze(val)), float(table[order[0], fi]))
        args = fhexs(np.concatenate([pos, view, up, tg]))
        lines.append('metrics ' + args)
        meta.append(('metrics', (az, el)))
        lines.append(' '.join(['dirfactor', str(len(dirs)), str(len(info['freqs'])), fhexs(dirs), fhexs(info['freqs']), fhexs(table), args, fhex(f)]))
        meta.append(('factor', float(np.squeeze(val))))
        ctx.cases += 1
    outs = common.run_driver(lines)
    for (kind, impl), line in zip(meta, outs):
        sec = [x.strip().split(' ') for x in line[3:].split('|')]
        if kind == 'metrics':
            az, el = impl
            c_impl = np.array([np.cos(np.deg2rad(el)) * np.cos(np.deg2rad(az)), np.cos(np.deg2rad(el)) * np.sin(np.deg2rad(az)), np.sin(np.deg2rad(el))])
            ctx.cmp.ulp('corr:_get_metrics direction (from its angles)', c_impl, common.parse_floats(sec[2]), rtol=1e-9, atol=1e-12)
            ctx.cmp.ulp('corr:_get_metrics vs frame vector', c_impl, common.parse_floats(sec[1]), rtol=1e-9, atol=1e-12)
        else:
            mg = common.unhex(sec[2][0])
            if mg < 1e-9:
                ctx.cmp.ambiguous()
                continue
            ctx.cmp.ulp('corr:get_directivity', [impl], [common.unhex(sec[0][0])], rtol=1e-12)
    ctx.nontriv(['sofa', len(dirs), info['freqs'].tolist()])
    ctx.sample({'measured_directions': len(dirs), 'frequencies': info['freqs'].tolist(), 'cases': n}, limit=2)


def pipeline_oracle(ctx, td):
    """with / without directivity on a small room: e0 and direct sound factors; unit table; no directivity; rotation."""
    sp = common.import_repo()
    rng = ctx.rng
    sc = energy.gen_scene(rng, small=True, multi_dir=bool(rng.random() < 0.4), att_zero=False)
    path = os.path.join(td, 'd.sofa')
    info = write_sofa(path, rng)
    d = sp.sound_object.DirectivityMS(path)
    upath = os.path.join(td, 'u.sofa')
    write_sofa(upath, rng, unit=True)
    du = sp.sound_object.DirectivityMS(upath)
    view, up = rand_frame(rng)
    pos = np.asarray(sc['src'], float)
    rec = scenes.coords(sc['recs'][:1])
    inp = dict(energy.scene_input(sc), view=view, up=up)

    def run(source):
        r = energy.build(sc)
        r.bake_geometry()
        r.init_source_energy(source)
        r.calculate_energy_exchange(sc['c'], sc['dt'], energy.duration_of(sc, sc['long_bins'] + 5), 1, recalculate=True)
        return r
    r_omni = run(scenes.coords(pos))
    r_none = run(sp.sound_object.SoundSource(pos, view, up))
    r_unit = run(sp.sound_object.SoundSource(pos, view, up, du))
    src_d = sp.sound_object.SoundSource(pos, view, up, d)
    r_dir = run(src_d)
    ctx.oracle_evals += 4
    e_omni = np.asarray(r_omni._energy_init_source)
    for name, rr in (('an oriented source without directivity', r_none), ('a directivity that is 1 everywhere', r_unit)):
        if not np.array_equal(np.asarray(rr._energy_init_source), e_omni) or not np.array_equal(rr._energy_exchange_etc, r_omni._energy_exchange_etc):
            ctx.violation('directivity-identity', '%s does not reproduce the omnidirectional patch energies exactly' % name, inp, None, 'bit-identical')
            return
        try:
            a = rr.collect_energy_receiver_mono(rec, direct_sound=True).time
            b = r_omni.collect_energy_receiver_mono(rec, direct_sound=True).time
        except Exception as e:
            ctx.violation('directivity-identity-direct', 'direct sound with %s raises %s' % (name, type(e).__name__), inp, repr(e)[:200], 'the omnidirectional direct sound')
            return
        if not np.array_equal(a, b):
            ctx.violation('directivity-identity-direct', 'direct sound with %s differs from the omnidirectional one' % name, inp, None, 'bit-identical')
            return
    # per-patch factor
    e_dir = np.asarray(r_dir._energy_init_source)
    centers = r_dir.patches_center
    freqs = np.asarray(r_dir._frequencies)
    for j in range(r_dir.n_patches):
        for b in range(r_dir.n_bins):
            g = float(np.real(np.squeeze(src_d.get_directivity(centers[j], freqs[b]))))
            if not np.allclose(e_dir[j, :, b], e_omni[j, :, b] * g, rtol=1e-12, atol=0):
                ctx.violation('directivity-multiplies', 'patch %d band %d: deposited energy is not the omnidirectional value times the directivity factor, in every slot' % (j, b), inp, None, None)
                return
    ds_d, _ = r_dir.calculate_direct_sound(rec)
    ds_o, _ = r_omni.calculate_direct_sound(rec)
    for b in range(r_dir.n_bins):
        g = float(np.real(np.squeeze(src_d.get_directivity(np.squeeze(rec.cartesian), freqs[b]))))
        if not np.allclose(ds_d[0, b], ds_o[0, b] * g, rtol=1e-12):
            ctx.violation('directivity-direct', 'direct sound is not the omnidirectional value times the factor towards the receiver', inp, float(ds_d[0, b]), float(ds_o[0, b] * g))
            return
    # rotating source orientation and targets together changes no factor
    Q = rot_matrix(rng)
    src_r = sp.sound_object.SoundSource(Q @ pos, Q @ view, Q @ up, d)
    for j in range(min(8, r_dir.n_patches)):
        g0 = np.real(np.squeeze(src_d.get_directivity(centers[j], freqs[0])))
        g1 = np.real(np.squeeze(src_r.get_directivity(Q @ centers[j], freqs[0])))
        dvec = centers[j] - pos
        u = np.array([np.dot(dvec, view), np.dot(dvec, np.cross(up, view)), np.dot(dvec, up)]) / np.linalg.norm(dvec)
        cosang = np.sort(np.asarray(d.receivers.cartesian) @ u)[::-1]
        if cosang[0] - cosang[1] > 1e-7 and g0 != g1:
            ctx.violation('directivity-rotation', 'rotating source orientation and scene together changes the directivity factor', inp, float(g1), float(g0))
            return
    # the SAME directivity object serving a second source that differs only by a roll about its view
    # axis, queried at the same targets: each source's factor is the table value of the measured
    # direction nearest in ITS OWN frame (computed here from the table, not through the library)
    ang = float(rng.uniform(0.6, 2.4))
    up2 = up * np.cos(ang) + np.cross(view, up) * np.sin(ang)
    src_b = sp.sound_object.SoundSource(pos, view, up2, d)
    dirs = np.asarray(d.receivers.cartesian)
    dirs = dirs / np.linalg.norm(dirs, axis=1, keepdims=True)
    table = np.real(d.data.freq)
    tf = np.asarray(d.data.frequencies)
    kf = int(np.argmin(np.abs(tf - freqs[0])))
    for j in range(min(12, r_dir.n_patches)):
        for which, (src_x, up_x) in (('first', (src_d, up)), ('rolled', (src_b, up2))):
            dvec = centers[j] - pos
            u = np.array([np.dot(dvec, view), np.dot(dvec, np.cross(up_x, view)), np.dot(dvec, up_x)]) / np.linalg.norm(dvec)
            cosang = dirs @ u
            order_ = np.argsort(-cosang)
            if cosang[order_[0]] - cosang[order_[1]] < 1e-7:
                continue
            want = float(table[order_[0], kf]) if table.ndim == 2 else float(np.squeeze(table)[order_[0]])
            got = float(np.real(np.squeeze(src_x.get_directivity(centers[j], freqs[0]))))
            ctx.oracle_evals += 1
            if abs(got - want) > 1e-12 * max(abs(want), 1e-300):
                ctx.violation('directivity-shared-object', 'the %s of two sources sharing one directivity object (same position and view, up vectors %.2f rad apart) gets factor %.6g towards patch %d; the measured direction nearest in its own frame has %.6g' % (which, ang, got, j, want),
                              dict(inp, up_second=up2), got, want)
                return
    ctx.nontriv(energy.describe(sc))


def run(ctx):
    with tempfile.TemporaryDirectory(dir='/var/tmp') as td:
        for _ in range(2 if ctx.tier == 'quick' else 12):
            corr_metrics(ctx, 40 if ctx.tier == 'quick' else 200, td)
        for _ in range(2 if ctx.tier == 'quick' else 12):
            pipeline_oracle(ctx, td)


def oracle(ctx, budget_s=60):
    t = common.Timer()
    with tempfile.TemporaryDirectory(dir='/var/tmp') as td:
        while t.s() < budget_s and not ctx.violations:
            pipeline_oracle(ctx, td)


def replay(ctx, rp):
    with tempfile.TemporaryDirectory(dir='/var/tmp') as td:
        corr_metrics(ctx, 40, td)
        pipeline_oracle(ctx, td)
    return not ctx.violations
