"""Shared plumbing of the verification harness.

* hex transport of doubles (bit patterns, nothing re-rounded in transit)
* the model driver (compiled Lean, line protocol)
* comparison classes EXACT / ULP / GUARDED (DESIGN.md section 3.3)
* evidence and replay files
"""
import json
import os
import struct
import subprocess
import sys
import time
import hashlib

VERIF = os.path.dirname(os.path.dirname(os.path.abspath(__file__)))
REPO = os.environ.get('SPARROW_REPO', '/repo')
LEAN_DIR = os.path.join(VERIF, 'lean')
DRIVER = os.path.join(LEAN_DIR, '.lake', 'build', 'bin', 'sparrow-driver')


def import_repo():
    """Import sparrowpy from /repo's *working tree* (never an installed copy)."""
    if REPO not in sys.path:
        sys.path.insert(0, REPO)
    import warnings
    warnings.filterwarnings('ignore')
    import sparrowpy  # noqa: F401
    assert os.path.abspath(sparrowpy.__file__).startswith(os.path.abspath(REPO)), \
        sparrowpy.__file__
    return sparrowpy


# ----------------------------------------------------------------- hex floats
def fhex(x):
    return struct.pack('>d', float(x)).hex()


def unhex(s):
    return struct.unpack('>d', bytes.fromhex(s))[0]


def fhexs(a):
    import numpy as np
    a = np.ascontiguousarray(np.asarray(a, dtype=np.float64)).ravel()
    return ' '.join(struct.pack('>d', v).hex() for v in a.tolist())


def parse_floats(tokens):
    import numpy as np
    return np.array([unhex(t) for t in tokens], dtype=np.float64)


# ----------------------------------------------------------------- driver
class DriverError(Exception):
    pass


def run_driver(lines, timeout=600):
    """Pipe `lines` through the model driver; return the list of output lines."""
    if not os.path.exists(DRIVER):
        raise DriverError('driver not built: ' + DRIVER)
    if not lines:
        return []
    data = ('\n'.join(lines) + '\n').encode()
    p = subprocess.run([DRIVER], input=data, stdout=subprocess.PIPE,
                       stderr=subprocess.PIPE, timeout=timeout)
    if p.returncode != 0:
        raise DriverError('driver exit %d: %s' % (p.returncode,
                                                   p.stderr.decode()[:500]))
    out = p.stdout.decode().split('\n')
    if out and out[-1] == '':
        out.pop()
    if len(out) != len(lines):
        raise DriverError('driver returned %d lines for %d' % (len(out),
                                                               len(lines)))
    return out


def parse_ok_floats(line):
    """'ok h h h' -> ('ok', ndarray) ; 'err kind' -> ('err', kind)."""
    t = line.split(' ')
    if t[0] == 'ok':
        return 'ok', parse_floats(t[1:])
    return 'err', ' '.join(t[1:])


# ----------------------------------------------------------------- comparison
def ulp_diff(a, b):
    """Elementwise distance in units in the last place (as int64), inf for nan/inf mismatch."""
    import numpy as np
    a = np.asarray(a, dtype=np.float64).ravel()
    b = np.asarray(b, dtype=np.float64).ravel()
    ia = a.view(np.int64).copy()
    ib = b.view(np.int64).copy()
    ia = np.where(ia < 0, np.int64(-2**63) - ia, ia)
    ib = np.where(ib < 0, np.int64(-2**63) - ib, ib)
    return np.abs(ia.astype(object) - ib.astype(object))


class Cmp:
    """Accumulates the outcome of comparisons of one correspondence run."""

    def __init__(self):
        self.n_values = 0
        self.n_bit_equal = 0
        self.n_ulp_pass = 0       # not bit-equal but within the class tolerance
        self.n_ambiguous = 0      # guarded decisions too close to their boundary
        self.mismatches = []      # (what, detail)
        self.max_rel = 0.0

    def exact(self, what, impl, model, max_ulp=4):
        """EXACT class: same shape, same zero pattern; values bit-equal, or within
        `max_ulp` ulp (counted separately as exact_miss)."""
        import numpy as np
        impl = np.asarray(impl, dtype=np.float64).ravel()
        model = np.asarray(model, dtype=np.float64).ravel()
        if impl.shape != model.shape:
            self.mismatches.append((what, 'shape %s vs %s' % (impl.shape, model.shape)))
            return False
        self.n_values += impl.size
        eq = (impl == model) | (np.isnan(impl) & np.isnan(model))
        self.n_bit_equal += int(eq.sum())
        if eq.all():
            return True
        bad = np.nonzero(~eq)[0]
        zp = (impl[bad] == 0) != (model[bad] == 0)
        if zp.any():
            k = int(bad[np.nonzero(zp)[0][0]])
            self.mismatches.append((what, 'zero pattern differs at flat index %d: impl=%r model=%r'
                                    % (k, float(impl[k]), float(model[k]))))
            return False
        d = ulp_diff(impl[bad], model[bad])
        worst = int(max(d))
        if worst <= max_ulp:
            self.n_ulp_pass += len(bad)
            return True
        k = int(bad[int(np.argmax([int(x) for x in d]))])
        self.mismatches.append((what, 'value differs by %d ulp at flat index %d: impl=%r model=%r'
                                % (worst, k, float(impl[k]), float(model[k]))))
        return False

    def ulp(self, what, impl, model, rtol=1e-12, atol=1e-300):
        """ULP class: |a-b| <= rtol*max(|a|,|b|) + atol, same shape; nan/inf must agree."""
        import numpy as np
        impl = np.asarray(impl, dtype=np.float64).ravel()
        model = np.asarray(model, dtype=np.float64).ravel()
        if impl.shape != model.shape:
            self.mismatches.append((what, 'shape %s vs %s' % (impl.shape, model.shape)))
            return False
        self.n_values += impl.size
        fin = np.isfinite(impl) & np.isfinite(model)
        same_nonfinite = (~fin) & ((impl == model) | (np.isnan(impl) & np.isnan(model)))
        tol = rtol * np.maximum(np.abs(impl), np.abs(model)) + atol
        with np.errstate(invalid='ignore'):
            ok = (fin & (np.abs(impl - model) <= tol)) | same_nonfinite
        self.n_bit_equal += int(((impl == model) & fin).sum())
        self.n_ulp_pass += int((ok & ~((impl == model) & fin)).sum())
        if fin.any():
            with np.errstate(invalid='ignore', divide='ignore'):
                rel = np.abs(impl - model)[fin] / np.maximum(
                    np.maximum(np.abs(impl), np.abs(model))[fin], 1e-300)
            self.max_rel = max(self.max_rel, float(rel.max()))
        if ok.all():
            return True
        k = int(np.nonzero(~ok)[0][0])
        self.mismatches.append((what, 'value differs at flat index %d: impl=%r model=%r (rtol %g)'
                                % (k, float(impl[k]), float(model[k]), rtol)))
        return False

    def ints(self, what, impl, model):
        import numpy as np
        impl = np.asarray(impl).ravel()
        model = np.asarray(model).ravel()
        self.n_values += impl.size
        if impl.shape != model.shape:
            self.mismatches.append((what, 'shape %s vs %s' % (impl.shape, model.shape)))
            return False
        eq = impl == model
        self.n_bit_equal += int(eq.sum())
        if eq.all():
            return True
        k = int(np.nonzero(~eq)[0][0])
        self.mismatches.append((what, 'integer differs at flat index %d: impl=%r model=%r'
                                % (k, impl[k].item(), model[k].item())))
        return False

    def tag(self, what, impl, model):
        self.n_values += 1
        if impl == model:
            self.n_bit_equal += 1
            return True
        self.mismatches.append((what, 'impl=%r model=%r' % (impl, model)))
        return False

    def ambiguous(self, n=1):
        self.n_ambiguous += n

    def summary(self):
        return {'values_compared': self.n_values, 'bit_equal': self.n_bit_equal,
                'within_tolerance_not_bit_equal': self.n_ulp_pass,
                'ambiguous_excluded': self.n_ambiguous,
                'max_relative_difference': self.max_rel,
                'mismatches': len(self.mismatches)}


# ----------------------------------------------------------------- files
def sha(obj):
    return hashlib.sha256(json.dumps(obj, sort_keys=True, default=str).encode()).hexdigest()[:12]


def write_replay(prop, payload):
    d = os.path.join(VERIF, 'replays', prop)
    os.makedirs(d, exist_ok=True)
    path = os.path.join(d, sha(payload) + '.json')
    with open(path, 'w') as f:
        json.dump(payload, f, indent=1, default=_json_default)
    return os.path.relpath(path, VERIF)


def _json_default(o):
    import numpy as np
    if isinstance(o, np.ndarray):
        return o.tolist()
    if isinstance(o, (np.integer,)):
        return int(o)
    if isinstance(o, (np.floating,)):
        return float(o)
    if isinstance(o, (np.bool_,)):
        return bool(o)
    return str(o)


def write_evidence(prop, tier, seed, level, coverage, assumptions, wall_s, violations):
    d = os.path.join(VERIF, 'evidence')
    os.makedirs(d, exist_ok=True)
    ev = {'property_id': prop, 'tier': tier, 'seed': int(seed), 'level': level,
          'coverage': coverage, 'assumptions': assumptions,
          'wall_s': round(float(wall_s), 3), 'violations': int(violations)}
    with open(os.path.join(d, prop + '.json'), 'w') as f:
        json.dump(ev, f, indent=1, default=_json_default)
    return ev


def load_known_findings():
    p = os.path.join(VERIF, 'known_findings.json')
    if not os.path.exists(p):
        return []
    with open(p) as f:
        return json.load(f)['findings']


class Timer:
    def __init__(self):
        self.t0 = time.time()

    def s(self):
        return time.time() - self.t0
