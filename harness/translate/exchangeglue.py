"""Generated/ExchangeGlue.lean: `DirectionalRadiosityFast.calculate_energy_exchange` (see gluekernels.K5)."""
from .gluekernels import generate_exchange as generate  # noqa: F401
