"""Generated/Check.lean: the configuration record `Cfg` (from the `__init__` parameter list and
its per-parameter conversion) and `rejectConds : Cfg -> List (Bool x Err)` obtained by
symbolic execution of `DirectionalRadiosityFast.check()` (statement by statement; local
variables are substituted, nested `if`s become path conditions).

Whitelisted Python forms only; anything else raises TranslationError (= broken tie).
Index expressions are translated with total `getD` semantics (trusted: check() only indexes
shapes whose rank the preceding tests / the __init__ conversions guarantee; the error-kind
correspondence on the real code covers this)."""
import ast
from .pyast import func, src, dotted, TranslationError

FAST = 'sparrowpy/classes/RadiosityFast.py'
CLS = 'DirectionalRadiosityFast'

# fields that __init__ stores without conversion need a type by name (documented in DESIGN.md)
PARSER_TEXT = ''

RAW_TYPES = {
    'n_patches': 'int',
    'brdf_incoming_directions': 'coordlist',
    'brdf_outgoing_directions': 'coordlist',
}


def init_fields():
    """[(param, kind, conversion text)] in parameter order."""
    f = func(FAST, '__init__', CLS)
    params = [a.arg for a in f.args.args[1:]]
    conv = {}
    for st in f.body:
        # unconditional:  x = np.atleast_Nd(...)
        if isinstance(st, ast.Assign) and isinstance(st.targets[0], ast.Name) and st.targets[0].id in params:
            name = st.targets[0].id
            t = src(st.value)
            if t.startswith('np.atleast_3d('):
                conv[name] = ('arr3', t)
            elif t.startswith('np.atleast_2d('):
                conv[name] = ('arr2', t)
            elif t.startswith('np.atleast_1d(np.array(') and 'dtype=int' in t:
                conv[name] = ('ids', t)
            else:
                raise TranslationError('__init__: unknown unconditional conversion ' + t)
        # conditional: if x is not None: x = ...
        if isinstance(st, ast.If) and isinstance(st.test, ast.Compare) and \
                isinstance(st.test.ops[0], ast.IsNot) and isinstance(st.test.left, ast.Name):
            name = st.test.left.id
            if len(st.body) != 1 or not isinstance(st.body[0], ast.Assign) or st.orelse:
                raise TranslationError('__init__: unexpected conversion block for ' + name)
            t = src(st.body[0].value)
            if t.startswith('np.array('):
                conv[name] = ('optarr', t)
            elif t.startswith('float('):
                conv[name] = ('optscalar', t)
            elif t.startswith('[np.array('):
                conv[name] = ('optlist', t)
            else:
                raise TranslationError('__init__: unknown conversion ' + t)
    out = []
    for p in params:
        if p in conv:
            out.append((p, conv[p][0], conv[p][1]))
        elif p in RAW_TYPES:
            out.append((p, RAW_TYPES[p], 'none'))
        else:
            raise TranslationError('__init__: parameter %s is stored unconverted and has no declared type' % p)
    # every parameter must be stored as self._<p>
    stores = {}
    for st in f.body:
        if isinstance(st, ast.Assign) and isinstance(st.targets[0], ast.Attribute) and \
                dotted(st.targets[0]) and dotted(st.targets[0]).startswith('self._'):
            stores[st.targets[0].attr[1:]] = src(st.value)
    for p in params:
        if stores.get(p) != p:
            raise TranslationError('__init__: self._%s is not assigned from parameter %s' % (p, p))
    last = f.body[-1]
    if src(last) != 'self.check()':
        raise TranslationError('__init__ does not end with self.check()')
    return out


LEAN_TYPE = {
    'arr3': 'List Int', 'arr2': 'List Int', 'ids': 'List Int', 'optarr': 'Option (List Int)',
    'optscalar': 'Option Rat', 'optlist': 'Option Nat', 'int': 'Int', 'coordlist': 'Option (List (Bool × Int))',
}


class SymEx:
    def __init__(self, kinds):
        self.kinds = kinds          # field -> kind
        self.env = {}               # python local -> (lean expr, type)
        self.conds = []             # (lean bool expr, err)

    # ---- expressions: return (lean, type) with type in {'int','bool','shape','rat','optx'}
    def field(self, name):
        if name not in self.kinds:
            raise TranslationError('check(): unknown field ' + name)
        return name, self.kinds[name]

    def attr_field(self, node):
        """self._x / self.n_patches -> field name or None"""
        d = dotted(node)
        if d is None or not d.startswith('self.'):
            return None
        n = d[5:]
        if n.startswith('_'):
            n = n[1:]
        if n in self.kinds:
            return n
        return None

    def shape(self, node):
        """lean expr of type List Int for `<field>.shape`"""
        if isinstance(node, ast.Attribute) and node.attr == 'shape':
            f = self.attr_field(node.value)
            if f is None:
                raise TranslationError('shape of non-field ' + src(node))
            k = self.kinds[f]
            if k in ('arr3', 'arr2'):
                return 'c.%s' % f
            if k == 'ids':
                return 'c.%s_shape' % f
            if k == 'optarr':
                return '(c.%s.getD [])' % f
            raise TranslationError('shape of field of kind %s' % k)
        raise TranslationError('not a shape: ' + src(node))

    def ex(self, node):
        if isinstance(node, ast.Constant):
            if isinstance(node.value, bool):
                return ('true' if node.value else 'false'), 'bool'
            if isinstance(node.value, int):
                return '(%d : Int)' % node.value, 'int'
            raise TranslationError('constant ' + repr(node.value))
        if isinstance(node, ast.Name):
            if node.id in self.env:
                return self.env[node.id]
            raise TranslationError('unknown local ' + node.id)
        if isinstance(node, ast.Tuple):
            parts = [self.ex(e) for e in node.elts]
            if any(t != 'int' for _, t in parts):
                raise TranslationError('tuple of non-ints ' + src(node))
            return '[' + ', '.join(p for p, _ in parts) + ']', 'shape'
        if isinstance(node, ast.Subscript):
            # X.shape[k]  |  self._brdf_outgoing_directions[0]
            if isinstance(node.value, ast.Attribute) and node.value.attr == 'shape':
                k = node.slice
                if not (isinstance(k, ast.Constant) and isinstance(k.value, int)):
                    raise TranslationError('shape index ' + src(node))
                return '((%s).getD %d 0)' % (self.shape(node.value), k.value), 'int'
            raise TranslationError('subscript ' + src(node))
        if isinstance(node, ast.Attribute):
            if node.attr == 'shape':
                return self.shape(node), 'shape'
            if node.attr == 'ndim':
                return '(Int.ofNat (%s).length)' % self.shape(ast.Attribute(value=node.value, attr='shape')), 'int'
            if node.attr == 'size':
                return '(shapeSize %s)' % self.shape(ast.Attribute(value=node.value, attr='shape')), 'int'
            if node.attr == 'csize':
                # self._brdf_outgoing_directions[0].csize
                v = node.value
                if isinstance(v, ast.Subscript) and self.attr_field(v.value) and \
                        self.kinds[self.attr_field(v.value)] == 'coordlist' and src(v.slice) == '0':
                    return '(((c.%s.getD []).headD (true, 0)).2)' % self.attr_field(v.value), 'int'
                raise TranslationError('csize of ' + src(v))
            f = self.attr_field(node)
            if f is not None:
                k = self.kinds[f]
                if k == 'int':
                    return 'c.%s' % f, 'int'
                if k == 'optscalar':
                    return '(c.%s.getD 1)' % f, 'rat'
                return 'c.%s' % f, 'field:' + k
            raise TranslationError('attribute ' + src(node))
        if isinstance(node, ast.Call):
            fn = dotted(node.func)
            if fn == 'len' and len(node.args) == 1:
                a = node.args[0]
                if isinstance(a, ast.Attribute) and a.attr == 'shape':
                    return '(Int.ofNat (%s).length)' % self.shape(a), 'int'
                f = self.attr_field(a)
                if f is not None and self.kinds[f] == 'optarr':
                    return '((c.%s.getD []).getD 0 0)' % f, 'int'       # len(array) = shape[0]
                raise TranslationError('len of ' + src(a))
            if fn == 'int' and len(node.args) == 1 and isinstance(node.args[0], ast.BinOp) and \
                    isinstance(node.args[0].op, ast.Div):
                l, lt = self.ex(node.args[0].left)
                r, rt = self.ex(node.args[0].right)
                if lt != 'rat' or rt != 'rat':
                    raise TranslationError('int(a/b) of non-scalars')
                return '(truncDiv %s %s)' % (l, r), 'int'
            if fn == 'any' and len(node.args) == 1 and isinstance(node.args[0], ast.GeneratorExp):
                return self.any_gen(node.args[0]), 'bool'
            raise TranslationError('call ' + src(node))
        if isinstance(node, ast.BoolOp):
            parts = [self.bool(e) for e in node.values]
            op = ' || ' if isinstance(node.op, ast.Or) else ' && '
            return '(' + op.join(parts) + ')', 'bool'
        if isinstance(node, ast.UnaryOp) and isinstance(node.op, ast.Not):
            return '(!%s)' % self.bool(node.operand), 'bool'
        if isinstance(node, ast.Compare) and len(node.ops) == 1:
            op = node.ops[0]
            if isinstance(op, (ast.Is, ast.IsNot)):
                if not (isinstance(node.comparators[0], ast.Constant) and node.comparators[0].value is None):
                    raise TranslationError('is-comparison with non-None')
                f = self.attr_field(node.left)
                if f is None or self.kinds[f] not in ('optarr', 'optscalar', 'optlist', 'coordlist'):
                    raise TranslationError('None test of ' + src(node.left))
                return ('c.%s.isSome' if isinstance(op, ast.IsNot) else 'c.%s.isNone') % f, 'bool'
            l, lt = self.ex(node.left)
            r, rt = self.ex(node.comparators[0])
            if isinstance(op, ast.NotEq):
                if lt == rt and lt in ('int', 'shape'):
                    return '(%s != %s)' % (l, r), 'bool'
                raise TranslationError('!= between %s and %s in %s' % (lt, rt, src(node)))
            if isinstance(op, ast.LtE) and lt == 'rat' and src(node.comparators[0]) == '0':
                return '(decide (%s ≤ 0))' % l, 'bool'
            raise TranslationError('comparison ' + src(node))
        raise TranslationError('expression ' + src(node))

    def bool(self, node):
        e, t = self.ex(node)
        if t != 'bool':
            raise TranslationError('not boolean: ' + src(node))
        return e

    def any_gen(self, g):
        if len(g.generators) != 1 or g.generators[0].ifs:
            raise TranslationError('generator ' + src(g))
        gen = g.generators[0]
        var = gen.target.id
        it = src(gen.iter)
        el = g.elt
        # any(not isinstance(i, pf.Coordinates) for i in self._brdf_xxx_directions)
        if isinstance(el, ast.UnaryOp) and isinstance(el.op, ast.Not) and isinstance(el.operand, ast.Call) \
                and dotted(el.operand.func) == 'isinstance' and src(el.operand.args[1]) == 'pf.Coordinates' \
                and src(el.operand.args[0]) == var:
            f = self.attr_field(gen.iter)
            if f is None or self.kinds[f] != 'coordlist':
                raise TranslationError('isinstance scan over ' + it)
            return '((c.%s.getD []).any fun e => !e.1)' % f
        # any(i not in np.arange(n) for i in set(self._ids))
        if isinstance(el, ast.Compare) and isinstance(el.ops[0], ast.NotIn) and src(el.left) == var:
            cont = el.comparators[0]
            if dotted(getattr(cont, 'func', None)) == 'np.arange' and it.startswith('set(self._'):
                n, nt = self.ex(cont.args[0])
                f = self.attr_field(gen.iter.args[0])
                if f is None or self.kinds[f] != 'ids' or nt != 'int':
                    raise TranslationError('id scan ' + src(g))
                return '(c.%s.any fun i => !(decide (0 ≤ i) && decide (i < %s)))' % (f, n)
            if dotted(getattr(cont, 'func', None)) == 'set' and dotted(getattr(gen.iter, 'func', None)) == 'np.arange':
                n, nt = self.ex(gen.iter.args[0])
                f = self.attr_field(cont.args[0])
                if f is None or self.kinds[f] != 'ids' or nt != 'int':
                    raise TranslationError('id scan ' + src(g))
                return '((List.range (%s).toNat).any fun i => !(c.%s.contains (Int.ofNat i)))' % (n, f)
        raise TranslationError('generator ' + src(g))

    # ---- statements
    def run(self, body, pc):
        for st in body:
            if isinstance(st, ast.Expr) and isinstance(st.value, ast.Constant):
                continue   # docstring
            if isinstance(st, ast.Assign) and len(st.targets) == 1 and isinstance(st.targets[0], ast.Name):
                e, t = self.ex(st.value)
                name = st.targets[0].id
                if pc and name in self.env:
                    old, ot = self.env[name]
                    if ot != t:
                        raise TranslationError('local %s changes type' % name)
                    e = '(if %s then %s else %s)' % (' && '.join(pc), e, old)
                # a local first assigned under a condition is only used on that path (Python would
                # raise NameError otherwise); its value is substituted as is
                self.env[name] = (e, t)
            elif isinstance(st, ast.If):
                if st.orelse:
                    raise TranslationError('check(): else branch')
                c = self.bool(st.test)
                self.run(st.body, pc + [c])
            elif isinstance(st, ast.Raise):
                exc = st.exc
                kind = dotted(exc.func) if isinstance(exc, ast.Call) else dotted(exc)
                err = {'ValueError': '.valueError', 'TypeError': '.typeError'}.get(kind)
                if err is None:
                    raise TranslationError('raise of ' + str(kind))
                self.conds.append((' && '.join(pc) if pc else 'true', err, st.lineno))
            else:
                raise TranslationError('check(): statement ' + src(st)[:80])


def generate():
    fields = init_fields()
    kinds = {p: k for p, k, _ in fields}
    chk = func(FAST, 'check', CLS)
    # the n_patches property must return self._n_patches
    npf = func(FAST, 'n_patches', CLS)
    if src(npf.body[-1]) != 'return self._n_patches':
        raise TranslationError('n_patches property changed')
    sx = SymEx(kinds)
    sx.run(chk.body, [])
    t = []
    t.append('/- GENERATED by harness/translate/checkgen.py from DirectionalRadiosityFast.__init__/check -- do not edit. -/')
    t.append('import Sparrow.Model.CfgBase')
    t.append('namespace Sparrow.Generated')
    t.append('open Sparrow')
    t.append('/-- One entry per `__init__` parameter (after its conversion): arrays are represented by their')
    t.append('    shape, id arrays by shape and values, scalars by their value, direction lists by')
    t.append('    (is-a-Coordinates, csize) per entry. -/')
    t.append('structure Cfg where')
    for p, k, _ in fields:
        if k == 'ids':
            t.append('  %s_shape : List Int' % p)
            t.append('  %s : List Int' % p)
        else:
            t.append('  %s : %s' % (p, LEAN_TYPE[k]))
    t.append('')
    t.append('/-- `__init__` conversion applied to each parameter, in parameter order. -/')
    t.append('def fieldKinds : List (String × String) := [')
    t.append(',\n'.join('  ("%s", "%s")' % (p, k) for p, k, _ in fields))
    t.append(']')
    t.append('')
    t.append('/-- Path condition and error kind of every `raise` in `check()`, in source order. -/')
    t.append('def rejectConds (c : Cfg) : List (Bool × Err) := [')
    t.append(',\n'.join('  (%s, %s)  -- line %d' % (c, e, ln) if False else '  (%s, %s)' % (c, e) for c, e, ln in sx.conds))
    t.append(']')
    t.append('')
    t.append('/-- The shape effect of the `__init__` conversions (`np.atleast_3d/2d/1d`; everything else keeps its shape). -/')
    t.append('def convert (c : Cfg) : Cfg := { c with')
    conv_lines = []
    for p_, k, _ in fields:
        if k == 'arr3':
            conv_lines.append('  %s := atleast3d c.%s' % (p_, p_))
        elif k == 'arr2':
            conv_lines.append('  %s := atleast2d c.%s' % (p_, p_))
        elif k == 'ids':
            conv_lines.append('  %s_shape := atleast1d c.%s_shape' % (p_, p_))
    t.append(',\n'.join(conv_lines) + ' }')
    t.append('')
    t.append('def checkGen (c : Cfg) : Except Err Unit :=')
    t.append('  match (rejectConds c).find? (·.1) with')
    t.append('  | some (_, e) => .error e')
    t.append('  | none => .ok ()')
    t.append('end Sparrow.Generated')
    # ---- parser of the line protocol for Cfg (driver side), same field order
    q = []
    q.append('/- GENERATED by harness/translate/checkgen.py -- do not edit. -/')
    q.append('import Sparrow.Generated.Check')
    q.append('import Driver.Parse')
    q.append('namespace Sparrow.Generated')
    q.append('open Driver')
    q.append('def pShape : P (List Int) := do')
    q.append('  let n ← nat')
    q.append('  let a ← many n int')
    q.append('  pure a.toList')
    q.append('def pOpt {β : Type} (p : P β) : P (Option β) := do')
    q.append('  let f ← nat')
    q.append('  if f = 0 then pure none else do let v ← p; pure (some v)')
    q.append('def pRat : P Rat := do')
    q.append('  let n ← int')
    q.append('  let d ← nat')
    q.append('  pure ((n : Rat) / (d : Rat))')
    q.append('def pCoord : P (Bool × Int) := do')
    q.append('  let f ← nat')
    q.append('  let k ← int')
    q.append('  pure (f != 0, k)')
    q.append('def pCoordList : P (List (Bool × Int)) := do')
    q.append('  let n ← nat')
    q.append('  let a ← many n pCoord')
    q.append('  pure a.toList')
    q.append('def parseCfg : P Cfg := do')
    names = []
    for p_, k, _ in fields:
        if k in ('arr3', 'arr2'):
            q.append('  let %s ← pShape' % p_)
        elif k == 'ids':
            q.append('  let %s_shape ← pShape' % p_)
            q.append('  let %s ← pShape' % p_)
        elif k == 'optarr':
            q.append('  let %s ← pOpt pShape' % p_)
        elif k == 'optscalar':
            q.append('  let %s ← pOpt pRat' % p_)
        elif k == 'optlist':
            q.append('  let %s ← pOpt nat' % p_)
        elif k == 'int':
            q.append('  let %s ← int' % p_)
        elif k == 'coordlist':
            q.append('  let %s ← pOpt pCoordList' % p_)
        names.append(p_ + '_shape' if k == 'ids' else None)
        names.append(p_)
    q.append('  pure { ' + ', '.join(n for n in names if n) + ' }')
    # ---- printer (same token format), used by the `shapelife` command
    q.append('def sShape (l : List Int) : String := " ".intercalate (toString l.length :: l.map toString)')
    q.append('def sOpt {β : Type} (f : β → String) : Option β → String')
    q.append('  | none => "0"')
    q.append('  | some v => "1 " ++ f v')
    q.append('def sRat (x : Rat) : String := toString x.num ++ " " ++ toString x.den')
    q.append('def sCoordList (l : List (Bool × Int)) : String :=')
    q.append('  " ".intercalate (toString l.length :: l.map fun e => (if e.1 then "1 " else "0 ") ++ toString e.2)')
    q.append('def printCfg (c : Cfg) : String := " ".intercalate [')
    items = []
    for p_, k, _ in fields:
        if k in ('arr3', 'arr2'):
            items.append('  sShape c.%s' % p_)
        elif k == 'ids':
            items.append('  sShape c.%s_shape' % p_)
            items.append('  sShape c.%s' % p_)
        elif k == 'optarr':
            items.append('  sOpt sShape c.%s' % p_)
        elif k == 'optscalar':
            items.append('  sOpt sRat c.%s' % p_)
        elif k == 'optlist':
            items.append('  sOpt (fun (n : Nat) => toString n) c.%s' % p_)
        elif k == 'int':
            items.append('  toString c.%s' % p_)
        elif k == 'coordlist':
            items.append('  sOpt sCoordList c.%s' % p_)
    q.append(',\n'.join(items) + ']')
    q.append('end Sparrow.Generated')
    global PARSER_TEXT
    PARSER_TEXT = '\n'.join(q) + '\n'
    facts = {'fields': [(p, k) for p, k, _ in fields], 'n_reject_conditions': len(sx.conds),
             'raise_lines': [ln for _, _, ln in sx.conds]}
    return '\n'.join(t) + '\n', facts
