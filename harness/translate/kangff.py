"""Generated/KangFF.lean: the analytic form factors of the Kang engine, `PatchesKang.calculate_form_factor` and
`PatchesKang.get_form_factor` (sparrowpy/classes/RadiosityKang.py).

This generator is a *recogniser*: the two methods (docstrings dropped, `ast.unparse`) are compared line by line with the normal
form recorded in `kangff_expected.txt`; the Lean text emitted is fixed and follows the Python statement by statement.  A change
of the text - harmless or not - raises TranslationError (= broken tie for the properties importing the file).  How it is read:

  * `dot_product == 0` on floats is `not dp < 0 and not 0 < dp` (no NaN);
  * the `if/elif` chains on `np.abs(normal[k]) > 1e-5` without `else` leave `idx_source` / `idx_receiver` unbound when no
    component exceeds the threshold: `none` (the UnboundLocalError); the scalar assignments inside those chains are dead (every
    one of them is overwritten before use) and are dropped;
  * Python sets of axes are duplicate-free lists; `tuple(s)` of a ONE-element set indexes a vector at that axis and gives a
    one-element array, which is read as its element; a set of any other size would make `ff` an array of another size and the
    store `self.form_factors[i_source, index_rec] = ff` fail: `none`;
  * `x ** 2` is `x * x`, `d ** 4` is `d * d * d * d`; the unused `d` of the orthogonal branch is dropped;
  * `raise AssertionError()` is `none`;
  * the writer's column `index_rec = i_receiver + i_receiver_offset` (offset = patches of the other walls visited before) and the
    reader's loop with `break` in `get_form_factor` are rendered over the list of the other walls' patch counts."""
import ast
import os
from .pyast import func, TranslationError

KANG = 'sparrowpy/classes/RadiosityKang.py'
CLS = '[Add α] [Sub α] [Mul α] [Div α] [Neg α] [Zero α] [Cmp α] [Transc α] [NatCast α]'

LEAN = '''/-- the axes other than the first one whose component of `normal` exceeds `thr5` in absolute value, in the order the three
    branches list them (`{2, 1}`, `{2, 0}` / `{0, 2}`, `{0, 1}`); `none`: no branch is taken -/
def idxOther [Cmp α] (thr5 : α) (normal : Nat → α) (second : List Nat) : Option (List Nat) :=
  if Cmp.lt thr5 (Cmp.abs (normal 0)) = true then some [2, 1]
  else if Cmp.lt thr5 (Cmp.abs (normal 1)) = true then some second
  else if Cmp.lt thr5 (Cmp.abs (normal 2)) = true then some [0, 1]
  else none

/-- recognised from the innermost body of `PatchesKang.calculate_form_factor` (%(k)s): the form factor from `source_patch` (a patch of
    `self`) to `receiver_patch` (a patch of another wall); `thr5` is the literal `1e-5`, `thr12` the literal `1e-12`;
    `none` = one of the errors described in the generator's notes -/
def kangFormFactorPair %(c)s
    (thr5 thr12 : α) (receiver_wall_center self_center : Nat → α) (receiver_normal receiver_center_ source_normal source_center_ : Nat → α)
    (self_max_size : α) : Option α :=
  let difference : Nat → α := fun q_ => Cmp.abs (receiver_wall_center q_ - self_center q_)
  let dot_product : α := receiver_normal 0 * source_normal 0 + receiver_normal 1 * source_normal 1 + receiver_normal 2 * source_normal 2
  let dd_l : α := self_max_size
  let dd_m : α := self_max_size
  let dd_n : α := self_max_size
  if (!Cmp.lt dot_product 0 && !Cmp.lt 0 dot_product) = true then
    let source_center : Nat → α := source_center_
    let receiver_center : Nat → α := receiver_center_
    match idxOther thr5 source_normal [2, 0], idxOther thr5 receiver_normal [0, 2] with
    | some idx_source, some idx_receiver =>
      let idx_l : List Nat := idx_receiver.filter (fun a_ => idx_source.contains a_)
      let idx_s : List Nat := idx_source.filter (fun a_ => !idx_l.contains a_)
      let idx_r : List Nat := idx_receiver.filter (fun a_ => !idx_l.contains a_)
      match idx_l, idx_s, idx_r with
      | [il_], [is_], [ir_] =>
        let dm : α := Cmp.abs (source_center is_ - receiver_center is_)
        let dl : α := source_center il_
        let dl_prime : α := receiver_center il_
        let dn_prime : α := Cmp.abs (source_center ir_ - receiver_center ir_)
        let half : α := ((1 : Nat) : α) / ((2 : Nat) : α)
        let A : α := (dm - half * dd_m) / Transc.sqrt ((dl - dl_prime) * (dl - dl_prime) + (dm - half * dd_m) * (dm - half * dd_m) + dn_prime * dn_prime)
        let B_num : α := dm + half * dd_m
        let B_denum : α := Transc.sqrt ((dl - dl_prime) * (dl - dl_prime) + (dm + half * dd_m) * (dm + half * dd_m) + dn_prime * dn_prime)
        let B : α := B_num / B_denum
        let one : α := Transc.atan (Cmp.abs ((dl - half * dd_l - dl_prime) / dn_prime))
        let two : α := Transc.atan (Cmp.abs ((dl + half * dd_l - dl_prime) / dn_prime))
        let k : α := if Cmp.lt (Cmp.abs (dl - dl_prime)) thr12 = true then -(((1 : Nat) : α)) else ((1 : Nat) : α)
        let theta : α := Cmp.abs (one - k * two)
        some (((1 : Nat) : α) / (((2 : Nat) : α) * Transc.pi) * Cmp.abs (A * A - B * B) * theta)
      | _, _, _ => none
    | _, _ => none
  else
    let pick_ : Option (Nat × Nat × Nat) :=
      if Cmp.lt thr5 (difference 0) = true then some (1, 0, 2)
      else if Cmp.lt thr5 (difference 1) = true then some (0, 1, 2)
      else if Cmp.lt thr5 (difference 2) = true then some (1, 2, 0)
      else none
    pick_.map fun (l_, m_, n_) =>
      let dl : α := receiver_center_ l_
      let dm : α := receiver_center_ m_
      let dn : α := receiver_center_ n_
      let dl_prime : α := source_center_ l_
      let dm_prime : α := source_center_ m_
      let dn_prime : α := source_center_ n_
      let d : α := Transc.sqrt ((dl - dl_prime) * (dl - dl_prime) + (dn - dn_prime) * (dn - dn_prime) + (dm - dm_prime) * (dm - dm_prime))
      dd_l * dd_n * ((dm - dm_prime) * (dm - dm_prime)) / (Transc.pi * (d * d * d * d))

/-- the column `index_rec` under which `calculate_form_factor` stores the factor towards patch `i_receiver` of the `j`-th other wall;
    `lens` lists `len(patches_list[w].patches)` for the walls of `self.other_wall_ids`, in that order -/
def writerColumn (lens : List Nat) (j i_receiver : Nat) : Nat :=
  let i_receiver_offset : Nat := (List.range j).foldl (fun off_ j_ => off_ + lens.getD j_ 0) 0
  i_receiver + i_receiver_offset

/-- recognised from `PatchesKang.get_form_factor` (%(k)s): the column it reads for patch `receiver_patch_id` of wall `receiver_wall_id`
    (`none`: the wall is not among `self.other_wall_ids`, `i_receiver_ff` stays unbound) -/
def readerColumn (other_wall_ids lens : List Nat) (receiver_wall_id receiver_patch_id : Nat) : Option Nat :=
  let st_ := (List.range other_wall_ids.length).foldl (fun (st_ : Nat × Option Nat × Bool) j_ =>
    if st_.2.2 = true then st_
    else if other_wall_ids.getD j_ 0 = receiver_wall_id then (st_.1, some receiver_patch_id, true)
    else (st_.1 + lens.getD j_ 0, st_.2.1, false)) (0, none, false)
  st_.2.1.map fun i_receiver_ff => i_receiver_ff + st_.1
'''


def generate():
    want = open(os.path.join(os.path.dirname(__file__), 'kangff_expected.txt')).read().rstrip('\n').split('\n')
    got = []
    n = 0
    for name in ('calculate_form_factor', 'get_form_factor'):
        fn = func(KANG, name, cls='PatchesKang')
        n += sum(1 for _ in ast.walk(fn) if isinstance(_, ast.stmt))
        fn = ast.parse(ast.unparse(fn)).body[0]
        fn.body = [s for s in fn.body if not (isinstance(s, ast.Expr) and isinstance(s.value, ast.Constant))]
        got += ast.unparse(fn).split('\n') + ['']
    got = got[:-1]
    for k in range(max(len(got), len(want))):
        a = got[k] if k < len(got) else '<end>'
        b = want[k] if k < len(want) else '<end>'
        if a != b:
            raise TranslationError('Kang form factor methods: line %d of the normal form is not the recorded one: %s' % (k + 1, a.strip()[:160]))
    out = ['/- GENERATED by harness/translate/kangff.py from %s -- do not edit. -/' % KANG, 'import Sparrow.Model.Basic',
           'set_option linter.unusedVariables false', 'namespace Sparrow.Generated.KangFF', 'open Sparrow', 'variable {α : Type}', '',
           LEAN % {'k': KANG, 'c': CLS}, 'end Sparrow.Generated.KangFF']
    return '\n'.join(out) + '\n', {'calculate_form_factor+get_form_factor': {'statements': n, 'mode': 'recogniser'}}
