"""Generated/StokesFn.lean: the contour-integral form factor of `sparrowpy/form_factor/integration.py` —
`_newton_cotes_4th`, `load_stokes_entries`, `_sample_boundary_regular` (as called: `npoints=5`), `stokes_integration`.

A *recogniser*: every statement must equal its normal form in EXPECTED; the Lean text renders the statements one by one
(loops as folds over the loop-carried variables, in-place element stores as pointwise updates, the scratch buffers
`subsecj` / `subseci` carried from iteration to iteration exactly as the code reuses them).  Readings: `np.empty` buffers
are arbitrary arrays (parameters `…_init`); `conn[i][-1]` is column 4 of the 5-column row; `for seg in conn` runs over
the rows `0 … n-1`; `bpoints[seg][:, dim]` is `k ↦ bpoints[seg[k], dim]`, `x[-1]` its entry 4; `len(j_bpoints[0])` is 3
(points in space); `.astype(np.int8)` is the identity (at most 31 vertices per polygon); the literal `1e-3` is the
parameter `cut` (its value is tied by Generated/Constants.lean: `stokesCutoff`)."""
import ast
from .pyast import func, src, TranslationError

INTEG = 'sparrowpy/form_factor/integration.py'
EXPECTED = {
    '_newton_cotes_4th': (['x', 'y'], [
        'h = x[1] - x[0]',
        'return 2 * h / 45 * (7 * y[0] + 32 * y[1] + 12 * y[2] + 32 * y[3] + 7 * y[4])']),
    'load_stokes_entries': (['i_bpoints', 'j_bpoints'], [
        'form_mat = np.zeros((len(i_bpoints), len(j_bpoints)))',
        'for i in prange(i_bpoints.shape[0]):\n    for j in prange(j_bpoints.shape[0]):\n        form_mat[i][j] = np.log(np.linalg.norm(i_bpoints[i] - j_bpoints[j]))',
        'return form_mat']),
    '_sample_boundary_regular': (['el', 'npoints'], [
        'n_div = npoints - 1',
        'pts = np.empty((len(el) * (npoints - 1), len(el[0])))',
        'conn = np.empty((len(el), npoints), dtype=np.int8)',
        'for i in range(len(el)):\n    conn[i][0] = i * n_div % (n_div * len(el))\n    conn[i][-1] = (i * n_div + n_div) % (n_div * len(el))\n    for ii in range(0, n_div):\n        pts[i * n_div + ii, :] = el[i] + ii * (el[(i + 1) % len(el)] - el[i]) / n_div\n        conn[i][ii] = (i * n_div + ii) % (n_div * len(el))',
        'return (pts, conn.astype(np.int8))']),
    'stokes_integration': (['patch_i', 'patch_j', 'patch_i_area'], [
        'i_bpoints, i_conn = _sample_boundary_regular(patch_i, npoints=5)',
        'j_bpoints, j_conn = _sample_boundary_regular(patch_j, npoints=5)',
        'subsecj = np.zeros(j_conn.shape[1])',
        'subseci = np.zeros(i_conn.shape[1])',
        'form_mat = np.zeros((i_bpoints.shape[0], j_bpoints.shape[0]))',
        'form_mat = load_stokes_entries(i_bpoints, j_bpoints)',
        'outer_integral = 0',
        'inner_integral = np.zeros((len(i_bpoints), len(j_bpoints[0])))',
        'for dim in range(len(j_bpoints[0])):\n    for i in range(len(i_bpoints)):\n        for segj in j_conn:\n            xj = j_bpoints[segj][:, dim]\n            if np.abs(xj[-1] - xj[0]) > 0.001:\n                for k in range(len(segj)):\n                    subsecj[k] = form_mat[i][segj[k]]\n                inner_integral[i][dim] += _newton_cotes_4th(xj, subsecj)\n    for segi in i_conn:\n        xi = i_bpoints[segi][:, dim]\n        if np.abs(xi[-1] - xi[0]) > 0.001:\n            for k in range(len(segi)):\n                subseci[k] = inner_integral[segi[k]][dim]\n            outer_integral += _newton_cotes_4th(xi, subseci)',
        'return np.abs(outer_integral / (2 * np.pi * patch_i_area))']),
}

LEAN = '''/-- recognised from `_newton_cotes_4th` (%(f)s) -/
def newtonCotes4th [Add α] [Sub α] [Mul α] [Div α] [NatCast α] (x y : Nat → α) : α :=
  let h : α := x 1 - x 0
  ((2 : Nat) : α) * h / ((45 : Nat) : α) *
    (((7 : Nat) : α) * y 0 + ((32 : Nat) : α) * y 1 + ((12 : Nat) : α) * y 2 + ((32 : Nat) : α) * y 3 + ((7 : Nat) : α) * y 4)

/-- recognised from `load_stokes_entries` (%(f)s) -/
def loadStokesEntries [Add α] [Sub α] [Mul α] [Zero α] [Transc α]
    (i_bpoints j_bpoints : Nat → Nat → α) (n_i_bpoints n_j_bpoints : Nat) : Nat → Nat → α :=
  let form_mat : Nat → Nat → α := fun _ _ => 0
  (List.range n_i_bpoints).foldl (fun (st_ : Nat → Nat → α) i =>
    (List.range n_j_bpoints).foldl (fun (st_ : Nat → Nat → α) j =>
      fun p0 p1 => if p0 = i ∧ p1 = j then
        Transc.log (Transc.sqrt ((i_bpoints i 0 - j_bpoints j 0) * (i_bpoints i 0 - j_bpoints j 0) +
          (i_bpoints i 1 - j_bpoints j 1) * (i_bpoints i 1 - j_bpoints j 1) +
          (i_bpoints i 2 - j_bpoints j 2) * (i_bpoints i 2 - j_bpoints j 2)))
      else st_ p0 p1) st_) form_mat

/-- recognised from `_sample_boundary_regular` (%(f)s) for `npoints = 5` (`n_div = 4`): boundary points and connectivity rows -/
def sampleBoundaryRegular [Add α] [Sub α] [Mul α] [Div α] [NatCast α]
    (el : Nat → Nat → α) (n_el : Nat) (pts_init : Nat → Nat → α) (conn_init : Nat → Nat → Nat) :
    (Nat → Nat → α) × (Nat → Nat → Nat) :=
  let n_div : Nat := 5 - 1
  (List.range n_el).foldl (fun (st_ : (Nat → Nat → α) × (Nat → Nat → Nat)) i =>
    let (pts, conn) := st_
    let conn : Nat → Nat → Nat := fun a_ k_ => if a_ = i ∧ k_ = 0 then i * n_div %% (n_div * n_el) else conn a_ k_
    let conn : Nat → Nat → Nat := fun a_ k_ => if a_ = i ∧ k_ = 4 then (i * n_div + n_div) %% (n_div * n_el) else conn a_ k_
    (List.range n_div).foldl (fun (st_ : (Nat → Nat → α) × (Nat → Nat → Nat)) ii =>
      let (pts, conn) := st_
      let pts : Nat → Nat → α := fun r_ q_ => if r_ = i * n_div + ii then
        el i q_ + ((ii : Nat) : α) * (el ((i + 1) %% n_el) q_ - el i q_) / ((n_div : Nat) : α) else pts r_ q_
      let conn : Nat → Nat → Nat := fun a_ k_ => if a_ = i ∧ k_ = ii then (i * n_div + ii) %% (n_div * n_el) else conn a_ k_
      (pts, conn)) (pts, conn)) (pts_init, conn_init)

/-- recognised from `stokes_integration` (%(f)s); `cut` is the literal `1e-3` -/
def stokesIntegration [Add α] [Sub α] [Mul α] [Div α] [Zero α] [NatCast α] [Cmp α] [Transc α]
    (cut : α) (patch_i patch_j : Nat → Nat → α) (n_patch_i n_patch_j : Nat) (patch_i_area : α)
    (pts_init_i pts_init_j : Nat → Nat → α) (conn_init_i conn_init_j : Nat → Nat → Nat) : α :=
  let sbi_ := sampleBoundaryRegular patch_i n_patch_i pts_init_i conn_init_i
  let i_bpoints : Nat → Nat → α := sbi_.1
  let i_conn : Nat → Nat → Nat := sbi_.2
  let sbj_ := sampleBoundaryRegular patch_j n_patch_j pts_init_j conn_init_j
  let j_bpoints : Nat → Nat → α := sbj_.1
  let j_conn : Nat → Nat → Nat := sbj_.2
  let n_i_bpoints : Nat := n_patch_i * (5 - 1)
  let n_j_bpoints : Nat := n_patch_j * (5 - 1)
  let subsecj : Nat → α := fun _ => 0
  let subseci : Nat → α := fun _ => 0
  let form_mat : Nat → Nat → α := loadStokesEntries i_bpoints j_bpoints n_i_bpoints n_j_bpoints
  let outer_integral : α := 0
  let inner_integral : Nat → Nat → α := fun _ _ => 0
  let r_ := (List.range 3).foldl (fun (st_ : α × (Nat → Nat → α) × (Nat → α) × (Nat → α)) dim =>
    let (outer_integral, inner_integral, subsecj, subseci) := st_
    let ij_ := (List.range n_i_bpoints).foldl (fun (st_ : (Nat → Nat → α) × (Nat → α)) i =>
      (List.range n_patch_j).foldl (fun (st_ : (Nat → Nat → α) × (Nat → α)) segj_ =>
        let (inner_integral, subsecj) := st_
        let xj : Nat → α := fun k_ => j_bpoints (j_conn segj_ k_) dim
        if Cmp.lt cut (Cmp.abs (xj 4 - xj 0)) = true then
          let subsecj : Nat → α := (List.range 5).foldl (fun (s_ : Nat → α) k =>
            fun m_ => if m_ = k then form_mat i (j_conn segj_ k) else s_ m_) subsecj
          ((fun r_ d_ => if r_ = i ∧ d_ = dim then inner_integral r_ d_ + newtonCotes4th xj subsecj else inner_integral r_ d_), subsecj)
        else (inner_integral, subsecj)) st_) (inner_integral, subsecj)
    let inner_integral : Nat → Nat → α := ij_.1
    let subsecj : Nat → α := ij_.2
    let oi_ := (List.range n_patch_i).foldl (fun (st_ : α × (Nat → α)) segi_ =>
      let (outer_integral, subseci) := st_
      let xi : Nat → α := fun k_ => i_bpoints (i_conn segi_ k_) dim
      if Cmp.lt cut (Cmp.abs (xi 4 - xi 0)) = true then
        let subseci : Nat → α := (List.range 5).foldl (fun (s_ : Nat → α) k =>
          fun m_ => if m_ = k then inner_integral (i_conn segi_ k) dim else s_ m_) subseci
        (outer_integral + newtonCotes4th xi subseci, subseci)
      else (outer_integral, subseci)) (outer_integral, subseci)
    (oi_.1, inner_integral, subsecj, oi_.2)) (outer_integral, inner_integral, subsecj, subseci)
  Cmp.abs (r_.1 / (((2 : Nat) : α) * Transc.pi * patch_i_area))
'''


def generate():
    n = 0
    for name, (args, want) in EXPECTED.items():
        fn = func(INTEG, name)
        if [a.arg for a in fn.args.args] != args:
            raise TranslationError('%s: parameters' % name)
        body = [s for s in fn.body if not (isinstance(s, ast.Expr) and isinstance(s.value, ast.Constant))]
        if len(body) != len(want):
            raise TranslationError('%s: %d statements, the recogniser knows %d' % (name, len(body), len(want)))
        for k, (s, w) in enumerate(zip(body, want)):
            if src(s) != w:
                raise TranslationError('%s: statement %d is not in the recognised form: %s' % (name, k, src(s)[:160]))
        n += sum(1 for _ in ast.walk(fn) if isinstance(_, ast.stmt))
    out = ['/- GENERATED by harness/translate/stokesfn.py from %s -- do not edit. -/' % INTEG, 'import Sparrow.Model.Basic',
           'set_option linter.unusedVariables false', 'namespace Sparrow.Generated.StokesFn', 'open Sparrow', 'variable {α : Type}', '',
           LEAN % {'f': INTEG}, 'end Sparrow.Generated.StokesFn']
    return '\n'.join(out) + '\n', {'stokes': {'statements': n, 'mode': 'recogniser'}}
