"""Generated/Constants.lean: syntactic facts of the numerical kernels that theorems
in Props/ depend on (delay rounding per site, roll-vs-slice per site, quadrature weights,
cut-offs, which wall's table the bake looks up, ...)."""
import ast
from .pyast import func, calls, assigns_to, dotted, src, TranslationError

FAST = 'sparrowpy/classes/RadiosityFast.py'
KANG = 'sparrowpy/classes/RadiosityKang.py'
INTEG = 'sparrowpy/form_factor/integration.py'
UNIV = 'sparrowpy/form_factor/universal.py'
GEOM = 'sparrowpy/geometry.py'


def _rounding_of(fn, var):
    """How `var = int(...)` rounds: 'floor' for int(x), 'ceil' for int(np.ceil(x))."""
    a = assigns_to(fn, var)
    if len(a) != 1:
        raise TranslationError('%s: expected one assignment to %s, found %d' % (fn.name, var, len(a)))
    v = a[0].value
    if not (isinstance(v, ast.Call) and dotted(v.func) == 'int' and len(v.args) == 1):
        raise TranslationError('%s: %s is not int(...)' % (fn.name, var))
    inner = v.args[0]
    expr = inner
    mode = 'floor'
    if isinstance(inner, ast.Call) and dotted(inner.func) == 'np.ceil':
        mode = 'ceil'
        expr = inner.args[0]
    elif isinstance(inner, ast.Call) and dotted(inner.func) in ('np.round', 'round', 'np.floor'):
        mode = {'np.round': 'round', 'round': 'round', 'np.floor': 'floor'}[dotted(inner.func)]
        expr = inner.args[0]
    # the quotient must be  d / c / dt  (two divisions, left-assoc)
    if not (isinstance(expr, ast.BinOp) and isinstance(expr.op, ast.Div)
            and isinstance(expr.left, ast.BinOp) and isinstance(expr.left.op, ast.Div)):
        raise TranslationError('%s: delay expression %s is not d/c/dt' % (fn.name, src(expr)))
    return mode


def _num_list(node):
    out = []
    for n in ast.walk(node):
        if isinstance(n, ast.Constant) and isinstance(n.value, (int, float)) and not isinstance(n.value, bool):
            out.append(n.value)
    return out


def generate():
    facts = {}
    f_init = func(FAST, '_energy_exchange_init_energy')
    f_ex = func(FAST, '_energy_exchange')
    f_col = func(FAST, '_collect_receiver_energy')
    f_bake = func(FAST, '_form_factors_with_directivity_dim')
    f_delay = func(KANG, '_add_delay')
    f_boole = func(INTEG, '_newton_cotes_4th')
    f_stokes = func(INTEG, 'stokes_integration')
    f_univ = func(UNIV, 'universal_form_factor')
    f_coin = func(GEOM, '_coincidence_check')

    facts['initRounding'] = _rounding_of(f_init, 'n_delay_samples')
    facts['exchangeRounding'] = _rounding_of(f_ex, 'n_delay_samples')
    facts['collectRounding'] = _rounding_of(f_col, 'n_delay_samples')
    facts['initUsesRoll'] = len(calls(f_init, 'np.roll')) > 0
    facts['exchangeUsesRoll'] = len(calls(f_ex, 'np.roll')) > 0
    facts['collectUsesRoll'] = len(calls(f_col, 'np.roll')) > 0
    # the init store must be guarded by `n_delay_samples < n_samples`
    guarded = False
    for n in ast.walk(f_init):
        if isinstance(n, ast.If) and 'n_delay_samples < n_samples' in src(n.test):
            guarded = True
    facts['initGuarded'] = guarded

    # Kang _add_delay: np.roll followed by zeroing of the wrapped head
    rolls = calls(f_delay, 'np.roll')
    zeroed = any(isinstance(n, ast.Assign) and isinstance(n.targets[0], ast.Subscript)
                 and isinstance(n.value, ast.Constant) and n.value.value == 0
                 for n in ast.walk(f_delay))
    facts['kangDelayRolls'] = len(rolls) > 0
    facts['kangDelayZeroesHead'] = zeroed

    # bake: which patch's wall is used for the BRDF lookup, and distance before normalising
    wall_vars = [n for n in ast.walk(f_bake) if isinstance(n, ast.Assign)
                 and isinstance(n.targets[0], ast.Name) and n.targets[0].id.startswith('wall_id')]
    if len(wall_vars) != 1:
        raise TranslationError('bake: expected exactly one wall_id assignment')
    wsrc = src(wall_vars[0].value)
    if 'patch_to_wall_ids[j]' in wsrc:
        facts['bakeWallOf'] = 'receiver'
    elif 'patch_to_wall_ids[i]' in wsrc:
        facts['bakeWallOf'] = 'sender'
    else:
        raise TranslationError('bake: cannot tell whose wall id is used: ' + wsrc)
    wall_name = wall_vars[0].targets[0].id
    look = calls(f_bake, 'get_scattering_data_source')
    if len(look) != 1 or src(look[0].args[3]) != wall_name:
        raise TranslationError('bake: BRDF lookup does not use ' + wall_name)
    # statement order: `distance = norm(difference)` must precede `difference /= ...`
    order = []
    for n in ast.walk(f_bake):
        if isinstance(n, ast.Assign) and isinstance(n.targets[0], ast.Name) and n.targets[0].id == 'distance':
            order.append(('distance', n.lineno))
        if isinstance(n, ast.AugAssign) and isinstance(n.op, ast.Div) and \
                isinstance(n.target, ast.Name) and n.target.id == 'difference_receiver':
            order.append(('normalise', n.lineno))
    order.sort(key=lambda x: x[1])
    facts['bakeDistanceBeforeNormalise'] = [o[0] for o in order] == ['distance', 'normalise']

    # Boole's rule
    ret = [n for n in ast.walk(f_boole) if isinstance(n, ast.Return)][0]
    e = ret.value
    try:
        assert isinstance(e, ast.BinOp) and isinstance(e.op, ast.Mult)
        pre, summ = e.left, e.right
        assert isinstance(pre, ast.BinOp) and isinstance(pre.op, ast.Div)
        assert isinstance(pre.left, ast.BinOp) and isinstance(pre.left.op, ast.Mult)
        assert src(pre.left.right) == 'h'
        nums = [pre.left.left.value, pre.right.value]
        terms = []
        while isinstance(summ, ast.BinOp) and isinstance(summ.op, ast.Add):
            terms.append(summ.right)
            summ = summ.left
        terms.append(summ)
        terms.reverse()
        weights, idx = [], []
        for tm in terms:
            assert isinstance(tm, ast.BinOp) and isinstance(tm.op, ast.Mult)
            weights.append(tm.left.value)
            assert isinstance(tm.right, ast.Subscript) and src(tm.right.value) == 'y'
            idx.append(tm.right.slice.value)
    except (AssertionError, AttributeError):
        raise TranslationError('boole: unexpected return expression ' + src(ret.value))
    if idx != [0, 1, 2, 3, 4]:
        raise TranslationError('boole: sample indices are ' + repr(idx))
    hs = assigns_to(f_boole, 'h')
    if len(hs) != 1 or src(hs[0].value) != 'x[1] - x[0]':
        raise TranslationError('boole: step is not x[1]-x[0]')
    facts['booleNum'] = nums[0]
    facts['booleDen'] = nums[1]
    facts['booleWeights'] = weights

    # stokes: npoints per edge, per-axis extent cut-off
    np_args = set()
    for c in calls(f_stokes, '_sample_boundary_regular'):
        for k in c.keywords:
            if k.arg == 'npoints':
                np_args.add(k.value.value)
    if len(np_args) != 1:
        raise TranslationError('stokes: npoints not unique')
    facts['stokesNPoints'] = np_args.pop()
    cut = set()
    for n in ast.walk(f_stokes):
        if isinstance(n, ast.Compare) and isinstance(n.ops[0], ast.Gt) and 'np.abs' in src(n.left):
            cut.add(n.comparators[0].value)
    if len(cut) != 1:
        raise TranslationError('stokes: extent cut-off not unique')
    facts['stokesCutoff'] = cut.pop()

    # universal: nusselt samples, coincidence threshold
    ns = [k.value.value for c in calls(f_univ, 'integration.nusselt_integration') for k in c.keywords if k.arg == 'nsamples']
    if len(ns) != 1:
        raise TranslationError('universal: nsamples')
    facts['nusseltSamples'] = ns[0]
    thr = [d.value for a, d in zip(f_coin.args.args[-len(f_coin.args.defaults):], f_coin.args.defaults) if a.arg == 'thres']
    facts['coincidenceThreshold'] = thr[0]

    def b(x):
        return 'true' if x else 'false'

    def q(x):
        # a python float literal as a Lean rational pair (num, den) string
        from fractions import Fraction
        fr = Fraction(str(x))
        return '(%d, %d)' % (fr.numerator, fr.denominator)

    t = []
    t.append('/- GENERATED by harness/translate/constants.py from /repo -- do not edit. -/')
    t.append('namespace Sparrow.Generated')
    t.append('inductive Rounding where | floor | ceil | round deriving DecidableEq, Repr')
    t.append('inductive Side where | sender | receiver deriving DecidableEq, Repr')
    for k in ('initRounding', 'exchangeRounding', 'collectRounding'):
        t.append('def %s : Rounding := .%s' % (k, facts[k]))
    for k in ('initUsesRoll', 'exchangeUsesRoll', 'collectUsesRoll', 'initGuarded',
              'kangDelayRolls', 'kangDelayZeroesHead', 'bakeDistanceBeforeNormalise'):
        t.append('def %s : Bool := %s' % (k, b(facts[k])))
    t.append('def bakeWallOf : Side := .%s' % facts['bakeWallOf'])
    t.append('def booleNum : Nat := %d' % facts['booleNum'])
    t.append('def booleDen : Nat := %d' % facts['booleDen'])
    t.append('def booleWeights : List Nat := %s' % repr(list(facts['booleWeights'])))
    t.append('def stokesNPoints : Nat := %d' % facts['stokesNPoints'])
    t.append('/-- (numerator, denominator) of the decimal literal in the source -/')
    t.append('def stokesCutoff : Nat × Nat := %s' % q(facts['stokesCutoff']))
    t.append('def nusseltSamples : Nat := %d' % facts['nusseltSamples'])
    t.append('def coincidenceThreshold : Nat × Nat := %s' % q(facts['coincidenceThreshold']))
    t.append('end Sparrow.Generated')
    return '\n'.join(t) + '\n', facts
