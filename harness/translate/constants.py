"""Generated/Constants.lean: syntactic facts of the numerical kernels that theorems
in Props/ depend on (delay rounding per site, roll-vs-slice per site, quadrature weights,
cut-offs, which wall's table the bake looks up, ...)."""
import ast
from .pyast import func, calls, assigns_to, dotted, src, TranslationError

FAST = 'sparrowpy/classes/RadiosityFast.py'
KANG = 'sparrowpy/classes/RadiosityKang.py'
INTEG = 'sparrowpy/form_factor/integration.py'
UNIV = 'sparrowpy/form_factor/universal.py'
GEOM = 'sparrowpy/geometry.py'


def _rounding_of(fn, var):
    """How `var = int(...)` rounds: 'floor' for int(x), 'ceil' for int(np.ceil(x))."""
    a = assigns_to(fn, var)
    if len(a) != 1:
        raise TranslationError('%s: expected one assignment to %s, found %d' % (fn.name, var, len(a)))
    v = a[0].value
    if not (isinstance(v, ast.Call) and dotted(v.func) == 'int' and len(v.args) == 1):
        raise TranslationError('%s: %s is not int(...)' % (fn.name, var))
    inner = v.args[0]
    expr = inner
    mode = 'floor'
    if isinstance(inner, ast.Call) and dotted(inner.func) == 'np.ceil':
        mode = 'ceil'
        expr = inner.args[0]
    elif isinstance(inner, ast.Call) and dotted(inner.func) in ('np.round', 'round', 'np.floor'):
        mode = {'np.round': 'round', 'round': 'round', 'np.floor': 'floor'}[dotted(inner.func)]
        expr = inner.args[0]
    # the quotient must be  d / c / dt  (two divisions, left-assoc)
    if not (isinstance(expr, ast.BinOp) and isinstance(expr.op, ast.Div)
            and isinstance(expr.left, ast.BinOp) and isinstance(expr.left.op, ast.Div)):
        raise TranslationError('%s: delay expression %s is not d/c/dt' % (fn.name, src(expr)))
    return mode


def _num_list(node):
    out = []
    for n in ast.walk(node):
        if isinstance(n, ast.Constant) and isinstance(n.value, (int, float)) and not isinstance(n.value, bool):
            out.append(n.value)
    return out


def _facts():
    """Every fact group is extracted on its own: a construct outside the whitelist loses only the
    facts of its group (they are then *omitted* from the generated file, so exactly the theorems
    that mention them stop checking), never the whole file."""
    facts, errors = {}, {}

    def group(names, fn):
        try:
            got = fn()
            for n in names:
                facts[n] = got[n]
        except Exception as e:  # TranslationError or an unexpected AST shape
            for n in names:
                errors[n] = repr(e)

    def g_round(fname, key, mod=FAST):
        def go():
            return {key: _rounding_of(func(mod, fname), 'n_delay_samples')}
        return go

    def g_roll(fname, key, mod=FAST):
        def go():
            return {key: len(calls(func(mod, fname), 'np.roll')) > 0}
        return go

    group(['initRounding'], g_round('_energy_exchange_init_energy', 'initRounding'))
    group(['exchangeRounding'], g_round('_energy_exchange', 'exchangeRounding'))
    group(['collectRounding'], g_round('_collect_receiver_energy', 'collectRounding'))
    group(['initUsesRoll'], g_roll('_energy_exchange_init_energy', 'initUsesRoll'))
    group(['exchangeUsesRoll'], g_roll('_energy_exchange', 'exchangeUsesRoll'))
    group(['collectUsesRoll'], g_roll('_collect_receiver_energy', 'collectUsesRoll'))

    def g_guard():
        f_init = func(FAST, '_energy_exchange_init_energy')
        guarded = False
        for n in ast.walk(f_init):
            if isinstance(n, ast.If) and 'n_delay_samples < n_samples' in src(n.test):
                guarded = True
        return {'initGuarded': guarded}
    group(['initGuarded'], g_guard)

    def g_kang():
        f_delay = func(KANG, '_add_delay')
        rolls = calls(f_delay, 'np.roll')
        zeroed = any(isinstance(n, ast.Assign) and isinstance(n.targets[0], ast.Subscript)
                     and isinstance(n.value, ast.Constant) and n.value.value == 0
                     for n in ast.walk(f_delay))
        return {'kangDelayRolls': len(rolls) > 0, 'kangDelayZeroesHead': zeroed}
    group(['kangDelayRolls', 'kangDelayZeroesHead'], g_kang)

    def g_bake_wall():
        f_bake = func(FAST, '_form_factors_with_directivity_dim')
        wall_vars = [n for n in ast.walk(f_bake) if isinstance(n, ast.Assign)
                     and isinstance(n.targets[0], ast.Name) and n.targets[0].id.startswith('wall_id')]
        if len(wall_vars) != 1:
            raise TranslationError('bake: expected exactly one wall_id assignment')
        wsrc = src(wall_vars[0].value)
        if 'patch_to_wall_ids[j]' in wsrc:
            side = 'receiver'
        elif 'patch_to_wall_ids[i]' in wsrc:
            side = 'sender'
        else:
            raise TranslationError('bake: cannot tell whose wall id is used: ' + wsrc)
        wall_name = wall_vars[0].targets[0].id
        look = calls(f_bake, 'get_scattering_data_source')
        if len(look) != 1 or src(look[0].args[3]) != wall_name:
            raise TranslationError('bake: BRDF lookup does not use ' + wall_name)
        return {'bakeWallOf': side}
    group(['bakeWallOf'], g_bake_wall)

    def g_bake_dist():
        f_bake = func(FAST, '_form_factors_with_directivity_dim')
        order = []
        for n in ast.walk(f_bake):
            if isinstance(n, ast.Assign) and isinstance(n.targets[0], ast.Name) and n.targets[0].id == 'distance':
                order.append(('distance', n.lineno))
            if isinstance(n, ast.AugAssign) and isinstance(n.op, ast.Div) and \
                    isinstance(n.target, ast.Name) and n.target.id == 'difference_receiver':
                order.append(('normalise', n.lineno))
        order.sort(key=lambda x: x[1])
        return {'bakeDistanceBeforeNormalise': [o[0] for o in order] == ['distance', 'normalise']}
    group(['bakeDistanceBeforeNormalise'], g_bake_dist)

    def g_boole():
        f_boole = func(INTEG, '_newton_cotes_4th')
        ret = [n for n in ast.walk(f_boole) if isinstance(n, ast.Return)][0]
        e = ret.value
        try:
            assert isinstance(e, ast.BinOp) and isinstance(e.op, ast.Mult)
            pre, summ = e.left, e.right
            assert isinstance(pre, ast.BinOp) and isinstance(pre.op, ast.Div)
            assert isinstance(pre.left, ast.BinOp) and isinstance(pre.left.op, ast.Mult)
            assert src(pre.left.right) == 'h'
            nums = [pre.left.left.value, pre.right.value]
            terms = []
            while isinstance(summ, ast.BinOp) and isinstance(summ.op, ast.Add):
                terms.append(summ.right)
                summ = summ.left
            terms.append(summ)
            terms.reverse()
            weights, idx = [], []
            for tm in terms:
                assert isinstance(tm, ast.BinOp) and isinstance(tm.op, ast.Mult)
                weights.append(tm.left.value)
                assert isinstance(tm.right, ast.Subscript) and src(tm.right.value) == 'y'
                idx.append(tm.right.slice.value)
        except (AssertionError, AttributeError):
            raise TranslationError('boole: unexpected return expression ' + src(ret.value))
        if idx != [0, 1, 2, 3, 4]:
            raise TranslationError('boole: sample indices are ' + repr(idx))
        hs = assigns_to(f_boole, 'h')
        if len(hs) != 1 or src(hs[0].value) != 'x[1] - x[0]':
            raise TranslationError('boole: step is not x[1]-x[0]')
        for v in nums + weights:
            if not isinstance(v, int) or isinstance(v, bool) or v < 0:
                raise TranslationError('boole: weight is not a natural number: ' + repr(v))
        return {'booleNum': nums[0], 'booleDen': nums[1], 'booleWeights': weights}
    group(['booleNum', 'booleDen', 'booleWeights'], g_boole)

    def g_stokes_np():
        f_stokes = func(INTEG, 'stokes_integration')
        np_args = set()
        for c in calls(f_stokes, '_sample_boundary_regular'):
            for k in c.keywords:
                if k.arg == 'npoints':
                    np_args.add(k.value.value)
        if len(np_args) != 1:
            raise TranslationError('stokes: npoints not unique')
        return {'stokesNPoints': int(np_args.pop())}
    group(['stokesNPoints'], g_stokes_np)

    def g_stokes_cut():
        f_stokes = func(INTEG, 'stokes_integration')
        cut = set()
        for n in ast.walk(f_stokes):
            if isinstance(n, ast.Compare) and isinstance(n.ops[0], ast.Gt) and 'np.abs' in src(n.left):
                if not isinstance(n.comparators[0], ast.Constant) or not isinstance(n.comparators[0].value, (int, float)):
                    raise TranslationError('stokes: extent cut-off is not a numeric literal: ' + src(n))
                cut.add(n.comparators[0].value)
        if len(cut) != 1:
            raise TranslationError('stokes: extent cut-off not unique')
        return {'stokesCutoff': cut.pop()}
    group(['stokesCutoff'], g_stokes_cut)

    def g_nusselt():
        f_univ = func(UNIV, 'universal_form_factor')
        ns = [k.value.value for c in calls(f_univ, 'integration.nusselt_integration')
              for k in c.keywords if k.arg == 'nsamples']
        if len(ns) != 1:
            raise TranslationError('universal: nsamples')
        return {'nusseltSamples': int(ns[0])}
    group(['nusseltSamples'], g_nusselt)

    def g_coin():
        f_coin = func(GEOM, '_coincidence_check')
        thr = [d for a, d in zip(f_coin.args.args[-len(f_coin.args.defaults):], f_coin.args.defaults)
               if a.arg == 'thres']
        if len(thr) != 1 or not isinstance(thr[0], ast.Constant) or isinstance(thr[0].value, bool) \
                or not isinstance(thr[0].value, (int, float)):
            raise TranslationError('coincidence threshold is not a numeric literal: ' + (src(thr[0]) if thr else '?'))
        return {'coincidenceThreshold': thr[0].value}
    group(['coincidenceThreshold'], g_coin)
    def g_exchange_params():
        """calculate_energy_exchange: are the three stored parameters written only where the
        histogram is (re)computed, i.e. inside `if self._energy_exchange_etc is None or recalculate`?"""
        f = func(FAST, 'calculate_energy_exchange', cls='DirectionalRadiosityFast')
        names = {'_etc_time_resolution', '_speed_of_sound', '_etc_duration'}

        def stores(node):
            out = set()
            for n in ast.walk(node):
                if isinstance(n, (ast.Assign, ast.AugAssign)):
                    tg = n.targets if isinstance(n, ast.Assign) else [n.target]
                    for t in tg:
                        if isinstance(t, ast.Attribute) and dotted(t.value) == 'self' and t.attr in names:
                            out.add(t.attr)
            return out
        guards = [n for n in ast.walk(f) if isinstance(n, ast.If)
                  and 'self._energy_exchange_etc is None' in src(n.test) and 'recalculate' in src(n.test)]
        if len(guards) != 1:
            raise TranslationError('exchange: expected one `etc is None or recalculate` guard, found %d' % len(guards))
        g = guards[0]
        etc_in = any(isinstance(t, ast.Attribute) and t.attr == '_energy_exchange_etc'
                     for n in ast.walk(ast.Module(body=g.body, type_ignores=[])) if isinstance(n, ast.Assign)
                     for t in n.targets)
        if not etc_in:
            raise TranslationError('exchange: the guarded block does not store the histogram')
        inside = set()
        for st in g.body:
            inside |= stores(st)
        everywhere = stores(f)
        if everywhere != names:
            raise TranslationError('exchange: stored parameters are %s' % sorted(everywhere))
        outside = set()
        for st in f.body:
            if st is not g:
                outside |= stores(st)
        for st in g.orelse:
            outside |= stores(st)
        return {'exchangeParamsStoredWithEtc': inside == names and not outside}
    group(['exchangeParamsStoredWithEtc'], g_exchange_params)
    return facts, errors


def generate():
    facts, errors = _facts()

    def b(x):
        return 'true' if x else 'false'

    def q(x):
        # a python float literal as a Lean rational pair (num, den) string
        from fractions import Fraction
        fr = Fraction(str(x))
        return '(%d, %d)' % (fr.numerator, fr.denominator)

    t = []
    t.append('/- GENERATED by harness/translate/constants.py from /repo -- do not edit. -/')
    t.append('namespace Sparrow.Generated')
    t.append('inductive Rounding where | floor | ceil | round deriving DecidableEq, Repr')
    t.append('inductive Side where | sender | receiver deriving DecidableEq, Repr')

    def emit(k, line):
        if k in facts:
            try:
                t.append(line(facts[k]))
                return
            except Exception as e:      # a value the emitter cannot write down: omit the fact
                errors[k] = 'cannot emit %r: %r' % (facts[k], e)
                del facts[k]
        if True:
            t.append('-- NOT TRANSLATED (omitted on purpose): %s: %s' % (k, errors.get(k, '?').replace('\n', ' ')))

    for k in ('initRounding', 'exchangeRounding', 'collectRounding'):
        emit(k, lambda v, k=k: 'def %s : Rounding := .%s' % (k, v))
    for k in ('initUsesRoll', 'exchangeUsesRoll', 'collectUsesRoll', 'initGuarded',
              'kangDelayRolls', 'kangDelayZeroesHead', 'bakeDistanceBeforeNormalise',
              'exchangeParamsStoredWithEtc'):
        emit(k, lambda v, k=k: 'def %s : Bool := %s' % (k, b(v)))
    emit('bakeWallOf', lambda v: 'def bakeWallOf : Side := .%s' % v)
    emit('booleNum', lambda v: 'def booleNum : Nat := %d' % v)
    emit('booleDen', lambda v: 'def booleDen : Nat := %d' % v)
    emit('booleWeights', lambda v: 'def booleWeights : List Nat := %s' % repr(list(v)))
    emit('stokesNPoints', lambda v: 'def stokesNPoints : Nat := %d' % v)
    t.append('/-- (numerator, denominator) of the decimal literal in the source -/')
    emit('stokesCutoff', lambda v: 'def stokesCutoff : Nat × Nat := %s' % q(v))
    emit('nusseltSamples', lambda v: 'def nusseltSamples : Nat := %d' % v)
    emit('coincidenceThreshold', lambda v: 'def coincidenceThreshold : Nat × Nat := %s' % q(v))
    t.append('end Sparrow.Generated')
    facts = dict(facts)
    if errors:
        facts['_not_translated'] = errors
    return '\n'.join(t) + '\n', facts
