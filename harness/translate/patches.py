"""Generated/Patches.lean: a *translation* of the wall subdivision — `geometry._total_number_of_patches`
and `geometry._create_patches` — from their Python source (ast, never imported) into Lean.

Scope (anything else raises TranslationError = broken tie for the properties that import the file):
  * the array parameter `polygon_points` is a total function of (vertex, axis); `polygon_points.shape[k]`
    is the explicit parameter `polygon_points_shape_k`; the other parameter is a float scalar;
  * `np.empty(shape)` is an ARBITRARY array: the generated function takes it as an extra parameter
    `<name>_init`, and the equivalence theorem holds for every value of it (so nothing depends on what
    numpy happens to leave in the buffer);
  * `for v in range(n)` is a `List.foldl` over `List.range n`; its state is the tuple of variables that
    exist before the loop and are assigned in the body (loop counter `i += 1` included);
  * `A[i...] = rhs` with scalar indices is a pointwise update (all axes indexed: one element; leading
    axes indexed: the sub-array, rhs an array of the remaining rank);
  * rank-1 expressions: `A[:, i]`, `A.T[i]`, elementwise `/` of rank-1 arrays and scalars,
    `np.array([int(n) for n in <rank-1>])`; reductions `.max()`, `.min()`, `np.min`, `np.max` over a
    rank-1 view are `maxOver` / `minOver` (the same left folds the model uses) over the view's length;
  * scalars: integer literals, `+ - * /`, `int(x)` = floor (sizes are non-negative), integer * float
    with the integer cast as numpy does; `==` on integers;
  * `if c: x = a; y = b` chains on variables that are NOT bound before: the variables become `Option`
    (Python: unbound local), every later use binds them, an unbound use is the result `none`.

`PatchesKang.__init__` (sparrowpy/classes/RadiosityKang.py) carries a copy of the same loop; it is translated by
the same rules plus: `polygon.pts` is the array parameter; `np.min(A, axis=0)` / `np.max(A, axis=0)` are rank-1;
a Python list filled by `.append` is a length and an array (content beyond the length arbitrary: parameter
`patches_init`); `Polygon(points, …)` stands for its points (`Polygon.__init__` stores `np.array(points)`); the
result is what is assigned to `self.patches`; statements that only assign other `self.` attributes, call
`Polygon.__init__`, or assert are skipped (they cannot change a local).

The equality of the generated functions with the hand-written model (`Model/Patches.lean`: `grid`,
`patchOf`, `totalPatches`) is PROVED in `Proofs/PatchKernelEquiv.lean` and re-checked on every run."""
import ast
from .pyast import func, src, dotted, TranslationError

GEOM = 'sparrowpy/geometry.py'
SPEC = {
    '_total_number_of_patches': {'lean': 'totalNumberOfPatches', 'array': 'polygon_points', 'scalar': 'max_size'},
    '_create_patches': {'lean': 'createPatches', 'array': 'polygon_points', 'scalar': 'max_size'},
}
KANG = 'sparrowpy/classes/RadiosityKang.py'
SPEC['PatchesKang.__init__'] = {'lean': 'patchesKangInit', 'array': 'polygon_pts', 'scalar': 'max_size', 'file': KANG,
                                'cls': 'PatchesKang', 'name': '__init__', 'alias': {'polygon.pts': 'polygon_pts'},
                                'result': 'self.patches', 'skip_self': True}
ORDER = ['_total_number_of_patches', '_create_patches', 'PatchesKang.__init__']


class _Alias(ast.NodeTransformer):
    def __init__(self, table):
        self.table = table

    def visit_Attribute(self, node):
        d = dotted(node)
        if d in self.table:
            return ast.copy_location(ast.Name(id=self.table[d], ctx=node.ctx), node)
        return self.generic_visit(node)


def ty(kind):
    if kind == 'nat':
        return 'Nat'
    if kind == 'float':
        return 'α'
    if kind == 'optnat':
        return 'Option Nat'
    if kind[0] == 'arr':
        return '(' + ' → '.join(['Nat'] * kind[1] + ['Nat' if kind[2] == 'nat' else 'α']) + ')'
    raise TranslationError('type of %r' % (kind,))


class T:
    def __init__(self, pyname, junk_known=()):
        self.py = pyname
        self.junk_known = list(junk_known)
        self.tail = None
        self.spec = SPEC[pyname]
        self.file = self.spec.get('file', GEOM)
        import copy
        self.fn = copy.deepcopy(func(self.file, self.spec.get('name', pyname), self.spec.get('cls')))
        args = [a.arg for a in self.fn.args.args]
        if self.spec.get('alias'):
            if self.spec['scalar'] not in args or 'polygon' not in args:
                raise TranslationError('%s: parameters are %s' % (pyname, args))
            self.fn = _Alias(self.spec['alias']).visit(self.fn)
        elif args != [self.spec['array'], self.spec['scalar']]:
            raise TranslationError('%s: parameters are %s' % (pyname, args))
        self.lists = {}
        A = self.spec['array']
        self.env = {A: ('arr', 2, 'float'), self.spec['scalar']: 'float'}
        self.shape = {A: ['%s_shape_0' % A, '%s_shape_1' % A]}
        self.junk = []          # (name, kind) of np.empty buffers
        self.out = []
        self.depth = 1
        self.fresh = 0

    def err(self, what, node=None):
        raise TranslationError('%s: %s%s' % (self.py, what, '' if node is None else ': ' + src(node)))

    def emit(self, text):
        self.out.append('  ' * self.depth + text)

    # ------------------------------------------------------------------ expressions
    def scalar(self, e):
        """(text, kind) of a scalar expression, kind in nat / float."""
        if isinstance(e, ast.Constant) and isinstance(e.value, int) and not isinstance(e.value, bool):
            return str(e.value), 'nat'
        if isinstance(e, ast.Name):
            k = self.env.get(e.id)
            if k in ('nat', 'float'):
                return e.id, k
            if k == 'optnat':
                self.err('use of a conditionally bound variable before it is bound', e)
            self.err('unknown scalar', e)
        if isinstance(e, ast.Subscript) and isinstance(e.value, ast.Attribute) and e.value.attr == 'shape':
            a = dotted(e.value.value)
            if a in self.shape and isinstance(e.slice, ast.Constant) and e.slice.value < len(self.shape[a]):
                return self.shape[a][e.slice.value], 'nat'
            self.err('shape', e)
        if isinstance(e, ast.Subscript) and isinstance(e.value, ast.Name):
            a = e.value.id
            k = self.env.get(a)
            if isinstance(k, tuple):
                idx = e.slice.elts if isinstance(e.slice, ast.Tuple) else [e.slice]
                if len(idx) == k[1] and not any(isinstance(i, ast.Slice) for i in idx):
                    return '%s %s' % (a, ' '.join('(%s)' % self.nat(i) for i in idx)), k[2]
        if isinstance(e, ast.Call):
            f = dotted(e.func)
            if f == 'int' and len(e.args) == 1:
                t, kd = self.scalar(e.args[0])
                if kd != 'float':
                    self.err('int() of an integer', e)
                return 'ToBin.floorNat (%s)' % t, 'nat'
            if f in ('np.min', 'np.max') and len(e.args) == 1 and not e.keywords:
                v, n, kd = self.view1(e.args[0])
                return '%s %s (%s)' % ('minOver' if f == 'np.min' else 'maxOver', v, n), kd
            if isinstance(e.func, ast.Attribute) and e.func.attr in ('min', 'max') and not e.args and not e.keywords:
                v, n, kd = self.view1(e.func.value)
                return '%s %s (%s)' % ('minOver' if e.func.attr == 'min' else 'maxOver', v, n), kd
            self.err('call', e)
        if isinstance(e, ast.BinOp):
            op = {ast.Add: '+', ast.Mult: '*', ast.Div: '/', ast.Sub: '-'}.get(type(e.op))
            if op is None:
                self.err('operator', e)
            a, ka = self.scalar(e.left)
            b, kb = self.scalar(e.right)
            if ka == 'nat' and kb == 'nat':
                if op in ('/', '-'):
                    self.err('integer division / subtraction', e)
                return '(%s %s %s)' % (a, op, b), 'nat'
            if ka == 'nat':
                a = '((%s : Nat) : α)' % a
            if kb == 'nat':
                b = '((%s : Nat) : α)' % b
            return '(%s %s %s)' % (a, op, b), 'float'
        self.err('scalar expression', e)

    def nat(self, e):
        t, k = self.scalar(e)
        if k != 'nat':
            self.err('index is not an integer', e)
        return t

    def view1(self, e):
        """A rank-1 expression as (lean function text, length text, element kind)."""
        if isinstance(e, ast.Name):
            k = self.env.get(e.id)
            if isinstance(k, tuple) and k[1] == 1:
                return e.id, self.shape[e.id][0], k[2]
            self.err('not a rank-1 array', e)
        if isinstance(e, ast.Subscript):
            # A[:, i]
            if isinstance(e.value, ast.Name) and isinstance(self.env.get(e.value.id), tuple) \
                    and self.env[e.value.id][1] == 2 and isinstance(e.slice, ast.Tuple) and len(e.slice.elts) == 2:
                s, i = e.slice.elts
                if isinstance(s, ast.Slice) and s.lower is None and s.upper is None and s.step is None:
                    a = e.value.id
                    return '(fun v_ => %s v_ (%s))' % (a, self.nat(i)), self.shape[a][0], self.env[a][2]
            # A.T[i]
            if isinstance(e.value, ast.Attribute) and e.value.attr == 'T' and isinstance(e.value.value, ast.Name):
                a = e.value.value.id
                if isinstance(self.env.get(a), tuple) and self.env[a][1] == 2 and not isinstance(e.slice, (ast.Slice, ast.Tuple)):
                    return '(fun v_ => %s v_ (%s))' % (a, self.nat(e.slice)), self.shape[a][0], self.env[a][2]
            self.err('rank-1 view', e)
        if isinstance(e, ast.Call) and dotted(e.func) in ('np.min', 'np.max') and len(e.args) == 1 and len(e.keywords) == 1 \
                and e.keywords[0].arg == 'axis' and isinstance(e.keywords[0].value, ast.Constant) and e.keywords[0].value.value == 0 \
                and isinstance(e.args[0], ast.Name) and isinstance(self.env.get(e.args[0].id), tuple) and self.env[e.args[0].id][1] == 2:
            a = e.args[0].id
            red = 'minOver' if dotted(e.func) == 'np.min' else 'maxOver'
            return '(fun a_ => %s (fun v_ => %s v_ a_) (%s))' % (red, a, self.shape[a][0]), self.shape[a][1], self.env[a][2]
        if isinstance(e, ast.BinOp) and isinstance(e.op, (ast.Div, ast.Sub)):
            opc = '/' if isinstance(e.op, ast.Div) else '-'
            la, lb = self.is_rank1(e.left), self.is_rank1(e.right)
            if la:
                f, n, kf = self.view1(e.left)
                fa = '%s j_' % f
            else:
                fa, kf = self.scalar(e.left)
                n = None
            if lb:
                g, m, kg = self.view1(e.right)
                gb = '%s j_' % g
                n = n or m
            else:
                gb, kg = self.scalar(e.right)
            if n is None:
                self.err('not a rank-1 expression', e)
            if kf == 'nat':
                fa = '((%s : Nat) : α)' % fa
            if kg == 'nat':
                gb = '((%s : Nat) : α)' % gb
            return '(fun j_ => %s %s %s)' % (fa, opc, gb), n, 'float'
        if isinstance(e, ast.Call) and dotted(e.func) == 'np.array' and len(e.args) == 1 and not e.keywords \
                and isinstance(e.args[0], ast.ListComp):
            lc = e.args[0]
            if len(lc.generators) != 1 or lc.generators[0].ifs or not isinstance(lc.generators[0].target, ast.Name):
                self.err('list comprehension', e)
            var = lc.generators[0].target.id
            f, n, kf = self.view1(lc.generators[0].iter)
            saved = self.env.get(var)
            self.env[var] = kf
            body, kb = self.scalar(lc.elt)
            if saved is None:
                del self.env[var]
            else:
                self.env[var] = saved
            return '(fun j_ => let %s := %s j_; %s)' % (var, f, body), n, kb
        self.err('rank-1 expression', e)

    def is_rank1(self, e):
        if isinstance(e, ast.Name):
            k = self.env.get(e.id)
            return isinstance(k, tuple) and k[1] == 1
        if isinstance(e, ast.Call) and dotted(e.func) in ('np.min', 'np.max') and e.keywords:
            return True
        return isinstance(e, (ast.Subscript, ast.BinOp)) and not self._is_scalar(e)

    def _is_scalar(self, e):
        try:
            saved = list(self.out)
            self.scalar(e)
            self.out = saved
            return True
        except TranslationError:
            return False

    def cond(self, e):
        if isinstance(e, ast.Compare) and len(e.ops) == 1 and isinstance(e.ops[0], ast.Eq):
            return '%s = %s' % (self.nat(e.left), self.nat(e.comparators[0]))
        self.err('condition', e)

    # ------------------------------------------------------------------ statements
    def assigned(self, stmts):
        out = []
        for s in stmts:
            if isinstance(s, ast.Assign) and len(s.targets) == 1:
                t = s.targets[0]
                out.append(t.id if isinstance(t, ast.Name) else dotted(t.value) if isinstance(t, ast.Subscript) else None)
            elif isinstance(s, ast.AugAssign) and isinstance(s.target, ast.Name):
                out.append(s.target.id)
            elif isinstance(s, ast.For):
                out += self.assigned(s.body)
            elif self.is_append(s):
                out += [s.value.func.value.id, s.value.func.value.id + '_len']
            else:
                out.append(None)
        if None in out:
            self.err('statement in a loop body')
        seen = []
        for v in out:
            if v not in seen:
                seen.append(v)
        return seen

    def is_append(self, s):
        return isinstance(s, ast.Expr) and isinstance(s.value, ast.Call) and isinstance(s.value.func, ast.Attribute) \
            and s.value.func.attr == 'append' and isinstance(s.value.func.value, ast.Name) \
            and s.value.func.value.id in self.lists and len(s.value.args) == 1 and not s.value.keywords

    def skippable(self, s):
        """Statements that cannot change a local variable: `self.x = …` (no call that could mutate a tracked array:
        only np.atleast_1d / np.array / plain names), `Polygon.__init__(…)`, `assert`, `if … : <skippable>*`."""
        if not self.spec.get('skip_self'):
            return False
        if isinstance(s, ast.Assert):
            return True
        if isinstance(s, ast.Expr) and isinstance(s.value, ast.Call) and dotted(s.value.func) == 'Polygon.__init__':
            return True
        if isinstance(s, ast.Assign) and len(s.targets) == 1 and isinstance(s.targets[0], ast.Attribute) \
                and isinstance(s.targets[0].value, ast.Name) and s.targets[0].value.id == 'self' \
                and dotted(s.targets[0]) != self.spec.get('result'):
            for c in ast.walk(s.value):
                if isinstance(c, ast.Call) and dotted(c.func) not in ('np.atleast_1d', 'np.array'):
                    return False
            return True
        if isinstance(s, ast.If) and isinstance(s.test, ast.Compare) and isinstance(s.test.left, ast.Name) \
                and s.test.left.id not in self.env and not s.orelse:
            return all(self.skippable(b) for b in s.body)
        return False

    def bind_optionals(self):
        """Before anything other than another conditional definition: bind every Option variable; what
        follows becomes the auxiliary definition `<name>_tail` of all variables live at this point."""
        opts = [v for v, k in self.env.items() if k == 'optnat']
        if not opts:
            return
        if self.depth != 1 or self.tail is not None:
            self.err('conditionally bound variables are bound once, at the top level')
        for v in opts:
            self.emit('match %s with' % v)
            self.emit('| none => none')
            self.emit('| some %s =>' % v)
            self.env[v] = 'nat'
        A = self.spec['array']
        fixed = [A, self.spec['scalar']]
        self.tail_vars = [(v, k) for v, k in self.env.items() if v not in fixed]
        args = [A, '%s_shape_0' % A, '%s_shape_1' % A, self.spec['scalar']] + [n for n, _ in self.junk_known] + [v for v, _ in self.tail_vars]
        self.emit('%s_tail %s' % (self.spec['lean'], ' '.join(args)))
        self.head_out = self.out
        self.out = []
        self.tail = True

    def stmt(self, s):
        if isinstance(s, ast.Expr) and isinstance(s.value, ast.Constant) and isinstance(s.value.value, str):
            return
        if self.skippable(s):
            return
        if self.returned:
            self.err('statement after the result', s)
        if isinstance(s, ast.If):
            # conditional definition of fresh integer variables
            if s.orelse or not all(isinstance(b, ast.Assign) and len(b.targets) == 1 and isinstance(b.targets[0], ast.Name)
                                   and isinstance(b.value, ast.Constant) and isinstance(b.value.value, int) for b in s.body):
                self.err('if statement', s)
            c = self.cond(s.test)
            for b in s.body:
                v = b.targets[0].id
                if v not in self.env:
                    self.emit('let %s : Option Nat := none' % v)
                    self.env[v] = 'optnat'
                if self.env[v] != 'optnat':
                    self.err('conditional assignment to a bound variable', b)
                self.emit('let %s : Option Nat := if %s then some %d else %s' % (v, c, b.value.value, v))
            return
        self.bind_optionals()
        if self.is_append(s):
            v = s.value.func.value.id
            x = s.value.args[0]
            k = self.lists[v]
            if not (isinstance(x, ast.Name) and self.env.get(x.id) == ('arr', k[1] - 1, k[2])):
                self.err('append of something else than an array of rank %d' % (k[1] - 1), s)
            ps = ['p%d' % d for d in range(k[1])]
            self.emit('let %s : %s := fun %s => if p0 = %s_len then %s %s else %s %s'
                      % (v, ty(k), ' '.join(ps), v, x.id, ' '.join(ps[1:]), v, ' '.join(ps)))
            self.emit('let %s_len := %s_len + 1' % (v, v))
            return
        if isinstance(s, ast.Assign) and len(s.targets) == 1 and dotted(s.targets[0]) == self.spec.get('result', '\0'):
            v = s.value
            if not (isinstance(v, ast.Name) and v.id in self.lists):
                self.err('result', s)
            self.ret_ty = 'Option (Nat × %s)' % ty(self.lists[v.id])
            self.emit('some (%s_len, %s)' % (v.id, v.id))
            self.returned = True
            return
        if isinstance(s, ast.Assign) and len(s.targets) == 1:
            t = s.targets[0]
            if isinstance(t, ast.Name) and isinstance(s.value, ast.List) and not s.value.elts:
                # a list of rank-2 arrays: a length and an array whose content beyond the length is arbitrary
                kind = ('arr', 3, 'float')
                self.junk.append((t.id + '_init', kind))
                self.emit('let %s : %s := %s_init' % (t.id, ty(kind), t.id))
                self.emit('let %s_len : Nat := 0' % t.id)
                self.env[t.id], self.env[t.id + '_len'] = kind, 'nat'
                self.shape[t.id] = [t.id + '_len', None, None]
                self.lists[t.id] = kind
                return
            if isinstance(t, ast.Name) and isinstance(s.value, ast.Call) and dotted(s.value.func) == 'Polygon' \
                    and s.value.args and isinstance(s.value.args[0], ast.Name) and isinstance(self.env.get(s.value.args[0].id), tuple):
                a = s.value.args[0].id
                self.emit('let %s : %s := %s' % (t.id, ty(self.env[a]), a))
                self.env[t.id], self.shape[t.id] = self.env[a], list(self.shape[a])
                return
            if isinstance(t, ast.Name):
                return self.assign_name(t.id, s.value)
            if isinstance(t, ast.Subscript) and isinstance(t.value, ast.Name):
                return self.assign_elem(t, s.value)
            self.err('assignment', s)
        if isinstance(s, ast.AugAssign) and isinstance(s.target, ast.Name) and isinstance(s.op, ast.Add):
            if self.env.get(s.target.id) != 'nat':
                self.err('+= on a non-integer', s)
            self.emit('let %s := %s + %s' % (s.target.id, s.target.id, self.nat(s.value)))
            return
        if isinstance(s, ast.For):
            return self.loop(s)
        if isinstance(s, ast.Return) and not self.spec.get('result'):
            return self.ret(s)
        self.err('statement', s)

    def assign_name(self, v, e):
        # np.empty(shape)
        if isinstance(e, ast.Call) and dotted(e.func) == 'np.empty' and len(e.args) == 1 and not e.keywords:
            sh = e.args[0].elts if isinstance(e.args[0], ast.Tuple) else [e.args[0]]
            shape = [self.nat(x) for x in sh]
            kind = ('arr', len(shape), 'float')
            self.junk.append((v + '_init', kind))
            self.emit('let %s : %s := %s_init' % (v, ty(kind), v))
            self.env[v], self.shape[v] = kind, shape
            return
        # X.copy()
        if isinstance(e, ast.Call) and isinstance(e.func, ast.Attribute) and e.func.attr == 'copy' and not e.args \
                and isinstance(e.func.value, ast.Name) and isinstance(self.env.get(e.func.value.id), tuple):
            a = e.func.value.id
            self.emit('let %s : %s := %s' % (v, ty(self.env[a]), a))
            self.env[v], self.shape[v] = self.env[a], list(self.shape[a])
            return
        if self.is_rank1(e) or (isinstance(e, ast.Call) and dotted(e.func) == 'np.array'):
            f, n, k = self.view1(e)
            kind = ('arr', 1, k)
            self.emit('let %s : %s := %s' % (v, ty(kind), f))
            self.env[v], self.shape[v] = kind, [n]
            return
        t, k = self.scalar(e)
        if self.env.get(v, k) != k:
            self.err('variable changes its type', e)
        self.emit('let %s : %s := %s' % (v, ty(k), t))
        self.env[v] = k

    def assign_elem(self, t, e):
        a = t.value.id
        k = self.env.get(a)
        if not isinstance(k, tuple):
            self.err('element assignment to a non-array', t)
        idx = t.slice.elts if isinstance(t.slice, ast.Tuple) else [t.slice]
        if any(isinstance(i, ast.Slice) for i in idx) or len(idx) > k[1]:
            self.err('sliced assignment', t)
        idx = [self.nat(i) for i in idx]
        rest = k[1] - len(idx)
        ps = ['p%d' % d for d in range(k[1])]
        if rest == 0:
            rhs, kr = self.scalar(e)
            if kr != k[2]:
                if kr == 'nat' and k[2] == 'float':
                    rhs = '((%s : Nat) : α)' % rhs
                else:
                    self.err('element type', e)
        else:
            if not (isinstance(e, ast.Name) and isinstance(self.env.get(e.id), tuple) and self.env[e.id][1] == rest
                    and self.env[e.id][2] == k[2]):
                self.err('sub-array assignment needs an array of rank %d' % rest, e)
            rhs = '%s %s' % (e.id, ' '.join(ps[len(idx):]))
        c = ' ∧ '.join('%s = (%s)' % (p, i) for p, i in zip(ps, idx))
        self.emit('let %s : %s := fun %s => if %s then %s else %s %s' % (a, ty(k), ' '.join(ps), c, rhs, a, ' '.join(ps)))

    def loop(self, s):
        if s.orelse or not isinstance(s.target, ast.Name) or not (isinstance(s.iter, ast.Call) and dotted(s.iter.func) in ('range', 'prange')
                                                                  and len(s.iter.args) == 1):
            self.err('loop header', s)
        n = self.nat(s.iter.args[0])
        var = s.target.id
        state = [v for v in self.assigned(s.body) if v in self.env and v != var]
        if not state:
            self.err('loop without effect', s)
        for v in state:
            if self.env[v] == 'optnat':
                self.err('loop assigns a conditionally bound variable', s)
        sty = ' × '.join(ty(self.env[v]) for v in state)
        pat = state[0] if len(state) == 1 else '(' + ', '.join(state) + ')'
        self.emit('let %s := (List.range (%s)).foldl (fun (st_ : %s) %s =>' % (pat, n, sty, var))
        saved_env, saved_shape = dict(self.env), {k: list(v) for k, v in self.shape.items()}
        self.env[var] = 'nat'
        self.depth += 2
        self.emit('let %s := st_' % pat)
        for b in s.body:
            self.stmt(b)
        self.emit(pat)
        self.depth -= 1
        self.emit(') %s' % pat)
        self.depth -= 1
        # variables first bound inside the body are local to it
        for v in list(self.env):
            if v not in saved_env:
                del self.env[v]
                self.shape.pop(v, None)
        self.env.update({k: v for k, v in saved_env.items()})
        self.shape.update(saved_shape)

    def ret(self, s):
        e = s.value
        if isinstance(e, ast.Name) and isinstance(self.env.get(e.id), tuple):
            self.ret_ty = 'Option (Nat × %s)' % ty(self.env[e.id])
            self.emit('some (%s, %s)' % (self.shape[e.id][0], e.id))
        else:
            t, k = self.scalar(e)
            self.ret_ty = 'Option %s' % ty(k)
            self.emit('some (%s)' % t)
        self.returned = True

    def translate(self):
        self.returned = False
        body = list(self.fn.body)
        for i, s in enumerate(body):
            self.stmt(s)
        if not self.returned:
            self.err('no return')
        A = self.spec['array']
        junk = self.junk_known if self.tail else self.junk
        params = ['(%s : Nat → Nat → α)' % A, '(%s_shape_0 %s_shape_1 : Nat)' % (A, A), '(%s : α)' % self.spec['scalar']]
        params += ['(%s : %s)' % (n, ty(k)) for n, k in junk]
        cls = '[Cmp α] [Add α] [Sub α] [Mul α] [Div α] [ToBin α] [NatCast α]'
        note = '; the `_init` parameters are the contents of the `np.empty` buffers' if junk else ''
        text = []
        if self.tail:
            text += ['/-- translated from `%s` (%s): the statements after the conditionally bound variables are bound%s -/' % (self.py, self.file, note),
                     'def %s_tail %s' % (self.spec['lean'], cls),
                     '    ' + ' '.join(params + ['(%s : %s)' % (v, ty(k)) for v, k in self.tail_vars]) + ' :',
                     '    %s :=' % self.ret_ty] + self.out + ['']
            body = self.head_out
        else:
            body = self.out
        text += ['/-- translated from `%s` (%s)%s -/' % (self.py, self.file, note),
                 'def %s %s' % (self.spec['lean'], cls),
                 '    ' + ' '.join(params) + ' :',
                 '    %s :=' % self.ret_ty] + body
        return '\n'.join(text)


def generate():
    parts = ['/- GENERATED by harness/translate/patches.py from %s and %s -- do not edit. -/' % (GEOM, KANG),
             'import Sparrow.Model.Patches', 'set_option linter.unusedVariables false',
             'namespace Sparrow.Generated.Patches', 'open Sparrow', 'variable {α : Type}', '']
    facts = {}
    for py in ORDER:
        t = T(py)
        t.translate()
        t = T(py, junk_known=t.junk)       # second pass: the buffers are parameters of the tail as well
        parts.append(t.translate())
        parts.append('')
        facts[py] = {'lean': SPEC[py]['lean'], 'statements': sum(1 for _ in ast.walk(t.fn) if isinstance(_, ast.stmt)),
                     'np_empty_buffers': [n for n, _ in t.junk]}
    parts.append('end Sparrow.Generated.Patches')
    return '\n'.join(parts) + '\n', facts
