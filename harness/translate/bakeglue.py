"""Generated/BakeGlue.lean: the METHOD `DirectionalRadiosityFast.bake_geometry` (sparrowpy/classes/RadiosityFast.py).

This generator is a *recogniser*: the method is matched, statement by statement, against the normal form
(`ast.unparse`, `self._x` / `self.x` written `self_x`) listed in EXPECTED below; the Lean text emitted for each statement is
fixed.  Any statement that does not match raises TranslationError (= broken tie for the properties that import the file),
so a change of the method's text — harmless or not — is always noticed.  How each statement is read:

  * `geometry._check_patch2patch_visibility(...)` and `form_factor.patch2patch_ff_universal(...)` are OPAQUE functions of
    their array arguments (visibility and the form-factor integrator are modelled and tied separately, C05–C07);
  * `np.sum` of the Boolean matrix counts its true entries over all `P × P` cells; `np.empty((n, 2), dtype=np.int32)` is an
    arbitrary integer array (parameter `visible_patches_init`);
  * the double loop with `if not M[i, j]: continue` writes `(i, j)` at row `i_counter` and advances the counter exactly for
    the cells where `M[i, j]` holds;
  * `D * np.ones((P, P), dtype=np.int64)` is the constant `D`; `np.zeros(...)` the constant 0;
  * `vis = np.where((M + M.T)[:, j])` is the ascending list of the `i < P` with `M[i, j] or M[j, i]`; `X[vis]` is the
    sub-array of those rows; `A[vis, j] = r` writes `r[k]` into `A[vis[k], j]`;
  * `n_bins = 1 if self._frequencies is None else self.n_bins`;
  * in the branch without materials the kernel receives `None` for the table and the outgoing directions (and never reads
    the incoming directions and the index, which are then represented by the unused parameters)."""
import ast
import copy
from .pyast import func, src, TranslationError
from .kernels import FAST
from .gluekernels import _Self

EXPECTED = [
    "self_visibility_matrix = geometry._check_patch2patch_visibility(self_patches_center, self_patches_normal, self_patches_points)",
    "n_combinations = np.sum(self_visibility_matrix)",
    "visible_patches = np.empty((n_combinations, 2), dtype=np.int32)",
    "i_counter = 0",
    "for i_source in range(self_n_patches):\n    for i_receiver in range(self_n_patches):\n        if not self_visibility_matrix[i_source, i_receiver]:\n            continue\n"
    "        visible_patches[i_counter, 0] = i_source\n        visible_patches[i_counter, 1] = i_receiver\n        i_counter += 1",
    "self_visible_patches = visible_patches",
    "self_form_factors = form_factor.patch2patch_ff_universal(self_patches_points, self_patches_normal, self_patches_area, self_visible_patches)",
    "if self_brdf_incoming_directions is not None:\n"
    "    sources_array = np.array([s.cartesian for s in self_brdf_incoming_directions])\n"
    "    receivers_array = np.array([s.cartesian for s in self_brdf_outgoing_directions])\n"
    "    scattering_index = np.array(self_brdf_index)\n"
    "    scattering = np.array(self_brdf)\n"
    "    self_patch_2_brdf_outgoing_index = receivers_array.shape[1] * np.ones((self_n_patches, self_n_patches), dtype=np.int64)\n"
    "    for j in range(self_n_patches):\n"
    "        vis = np.where((self_visibility_matrix + self_visibility_matrix.T)[:, j])\n"
    "        self_patch_2_brdf_outgoing_index[vis, j] = get_scattering_data_receiver_index(pos_i=self_patches_center[vis], pos_j=self_patches_center[j], receivers=receivers_array, wall_id_i=self_patch_to_wall_ids[vis])\n"
    "else:\n"
    "    sources_array = None\n    receivers_array = None\n    scattering_index = None\n    scattering = None\n"
    "    self_patch_2_brdf_outgoing_index = np.zeros((self_n_patches, self_n_patches), dtype=np.int64)",
    "n_bins = 1 if self_frequencies is None else self_n_bins",
    "self_form_factors_tilde = _form_factors_with_directivity_dim(self_visibility_matrix, self_form_factors, n_bins, self_patches_center, self_patches_area, "
    "self_air_attenuation, self_patch_to_wall_ids, scattering, scattering_index, sources_array, receivers_array)",
]

LEAN = '''/-- translated from `DirectionalRadiosityFast.bake_geometry` (%s).  `has_materials` is `self._brdf_incoming_directions is not None`,
    `frequencies_is_none` is `self._frequencies is None`; the two opaque functions stand for `_check_patch2patch_visibility` and
    `patch2patch_ff_universal`; result: visibility matrix, (number of rows written, visible pairs), form factors, patch → outgoing slot,
    baked factors. -/
def bakeGeometry [Add α] [Sub α] [Mul α] [Div α] [Neg α] [Zero α] [Cmp α] [ToBin α] [Transc α]
    (check_patch2patch_visibility : (Nat → Nat → α) → (Nat → Nat → α) → (Nat → Nat → Nat → α) → Nat → Nat → Bool)
    (patch2patch_ff_universal : (Nat → Nat → Nat → α) → (Nat → Nat → α) → (Nat → α) → Nat → (Nat → Nat → Nat) → Nat → Nat → α)
    (self_n_patches : Nat) (self_patches_center : Nat → Nat → α) (self_patches_normal : Nat → Nat → α)
    (self_patches_points : Nat → Nat → Nat → α) (self_patches_area : Nat → α) (self_patch_to_wall_ids : Nat → Nat)
    (has_materials : Bool) (n_walls n_in n_out n_tables : Nat)
    (self_brdf_incoming_directions self_brdf_outgoing_directions : Nat → Nat → Nat → α) (self_brdf_index : Nat → Nat)
    (self_brdf : Nat → Nat → Nat → Nat → α) (frequencies_is_none : Bool) (self_n_bins : Nat)
    (self_air_attenuation : Option (Nat → α)) (visible_patches_init : Nat → Nat → Nat) :
    (Nat → Nat → Bool) × (Nat × (Nat → Nat → Nat)) × (Nat → Nat → α) × (Nat → Nat → Nat) × (Nat → Nat → Nat → Nat → α) :=
  let self_visibility_matrix : Nat → Nat → Bool :=
    check_patch2patch_visibility self_patches_center self_patches_normal self_patches_points
  let n_combinations : Nat := (List.range self_n_patches).foldl (fun acc_ i_ =>
    (List.range self_n_patches).foldl (fun acc_ j_ => if self_visibility_matrix i_ j_ = true then acc_ + 1 else acc_) acc_) 0
  let visible_patches : Nat → Nat → Nat := visible_patches_init
  let i_counter : Nat := 0
  let (visible_patches, i_counter) := (List.range self_n_patches).foldl (fun (st_ : (Nat → Nat → Nat) × Nat) i_source =>
      (List.range self_n_patches).foldl (fun (st_ : (Nat → Nat → Nat) × Nat) i_receiver =>
        let (visible_patches, i_counter) := st_
        if self_visibility_matrix i_source i_receiver = true then
          let visible_patches : Nat → Nat → Nat := fun p0 p1 => if p0 = i_counter ∧ p1 = 0 then i_source else visible_patches p0 p1
          let visible_patches : Nat → Nat → Nat := fun p0 p1 => if p0 = i_counter ∧ p1 = 1 then i_receiver else visible_patches p0 p1
          (visible_patches, i_counter + 1)
        else (visible_patches, i_counter)) st_) (visible_patches, i_counter)
  let self_visible_patches : Nat → Nat → Nat := visible_patches
  let self_form_factors : Nat → Nat → α :=
    patch2patch_ff_universal self_patches_points self_patches_normal self_patches_area n_combinations self_visible_patches
  let self_patch_2_brdf_outgoing_index : Nat → Nat → Nat :=
    if has_materials = true then
      let receivers_array := self_brdf_outgoing_directions
      let self_patch_2_brdf_outgoing_index : Nat → Nat → Nat := fun _ _ => n_out * 1
      (List.range self_n_patches).foldl (fun (st_ : Nat → Nat → Nat) j =>
        let self_patch_2_brdf_outgoing_index := st_
        let vis : List Nat := (List.range self_n_patches).filter (fun i_ => self_visibility_matrix i_ j || self_visibility_matrix j i_)
        let r_ : Nat → Nat := getScatteringDataReceiverIndex vis.length 3 (fun k_ q_ => self_patches_center (vis.getD k_ 0) q_) 3
          (fun q_ => self_patches_center j q_) n_walls n_out 3 receivers_array vis.length (fun k_ => self_patch_to_wall_ids (vis.getD k_ 0))
        fun p0 p1 => if p1 = j ∧ p0 ∈ vis then r_ (vis.idxOf p0) else self_patch_2_brdf_outgoing_index p0 p1
      ) self_patch_2_brdf_outgoing_index
    else fun _ _ => 0
  let n_bins : Nat := if frequencies_is_none = true then 1 else self_n_bins
  let self_form_factors_tilde : Nat → Nat → Nat → Nat → α :=
    formFactorsWithDirectivityDim self_n_patches self_n_patches self_visibility_matrix self_n_patches self_n_patches self_form_factors n_bins
      self_n_patches 3 self_patches_center self_n_patches self_patches_area n_bins self_air_attenuation self_n_patches self_patch_to_wall_ids
      n_tables n_in n_out n_bins (if has_materials = true then some self_brdf else none) n_walls self_brdf_index
      n_walls n_in 3 self_brdf_incoming_directions n_walls n_out 3 (if has_materials = true then some self_brdf_outgoing_directions else none)
  (self_visibility_matrix, (i_counter, self_visible_patches), self_form_factors, self_patch_2_brdf_outgoing_index, self_form_factors_tilde)
'''


def generate():
    fn = _Self().visit(copy.deepcopy(func(FAST, 'bake_geometry', cls='DirectionalRadiosityFast')))
    if [a.arg for a in fn.args.args] != ['self']:
        raise TranslationError('bake_geometry: parameters')
    body = [s for s in fn.body if not (isinstance(s, ast.Expr) and isinstance(s.value, ast.Constant))]
    if len(body) != len(EXPECTED):
        raise TranslationError('bake_geometry: %d statements, the recogniser knows %d' % (len(body), len(EXPECTED)))
    for k, (s, want) in enumerate(zip(body, EXPECTED)):
        got = src(s)
        if got != want:
            raise TranslationError('bake_geometry: statement %d is not in the recognised form: %s' % (k, got[:160]))
    out = ['/- GENERATED by harness/translate/bakeglue.py from %s -- do not edit. -/' % FAST,
           'import Sparrow.Generated.BakeKernels', 'set_option linter.unusedVariables false', 'namespace Sparrow.Generated.BakeGlue',
           'open Sparrow Sparrow.Generated.BakeKernels', 'variable {α : Type}', '', LEAN % FAST, 'end Sparrow.Generated.BakeGlue']
    return '\n'.join(out) + '\n', {'bake_geometry': {'statements': sum(1 for _ in ast.walk(fn) if isinstance(_, ast.stmt)), 'mode': 'recogniser'}}
