"""Generated/Kernels.lean: a *translation* of the three array kernels at the heart of the fast
engine — `_energy_exchange_init_energy`, `_energy_exchange`, `_collect_receiver_energy` — from
their Python source (ast, never imported) into Lean functions over arrays-as-functions.

Scope (anything else raises TranslationError = broken tie for the properties that import the file):
  * arrays of declared rank are total functions of their indices; `X.shape[k]` becomes the explicit
    parameter `X_shape_k`; `np.zeros(...)` / `np.zeros_like(...)` is the zero function;
  * `for v in range(n)` / `prange(n)` is a `List.foldl` over `List.range n` whose state is the tuple
    of arrays assigned in the body;
  * `A[idx…] = rhs` and `A[idx…] += rhs` (also `A += rhs`) are pointwise updates: a point `p` of `A`
    is changed iff it lies in the indexed region (scalar index: equality; `a:` lower bound; `:-a`
    upper bound relative to the axis size; `:` everything); the right-hand side is evaluated at the
    point with numpy's trailing-axis alignment of the sliced axes (a `np.newaxis` appended by
    `X = X[..., np.newaxis]` is an axis every index of which reads the same value);
    `np.roll(v, n)` along the only remaining axis reads `v` at `(s + size - n % size) % size`;
  * scalars: `int(x)` = floor (arguments are non-negative delays), `int(np.ceil(x))` = ceil,
    `np.exp`, `+ - * / %`, comparisons; an index `e - c` on an axis of literal size `n` (the
    ping-pong buffer) is `(e + n - c) % n` (Python's negative index);
  * `if` on scalars (both branches assigning the same scalars, or updating arrays), an early
    `return` under `if`, calls to another translated kernel.

The equivalence of the generated functions with the hand-written model (`Model/Exchange.lean`,
`Model/Collect.lean`) is PROVED in `Proofs/KernelEquiv.lean` and re-checked on every run against
what the source says now."""
import ast
from .pyast import func, src, dotted, TranslationError

FAST = 'sparrowpy/classes/RadiosityFast.py'

# rank (and element kind) of every array the kernels see; everything else is a scalar
SPEC = {
    '_energy_exchange_init_energy': {
        'lean': 'energyExchangeInitEnergy',
        'arrays': {'energy_0_directivity': 3, 'distance_0': 1},
        'nat_scalars': ['n_samples'], 'float_scalars': ['speed_of_sound', 'histogram_time_resolution'],
        'ret_rank': 4},
    '_energy_exchange': {
        'lean': 'energyExchange',
        'arrays': {'energy_0_directivity': 3, 'distance_0': 1, 'distance_ij': 2, 'form_factors_tilde': 4,
                   'patch_2_out_directions': 2, 'visible_patches': 2},
        'int_arrays': ['patch_2_out_directions', 'visible_patches'],
        'nat_scalars': ['n_samples', 'max_order'], 'float_scalars': ['speed_of_sound', 'histogram_time_resolution'],
        'ret_rank': 4},
    '_collect_receiver_energy': {
        'lean': 'collectReceiverEnergy',
        'arrays': {'E_matrix_total': 3, 'patch_receiver_distance': 1, 'air_attenuation': 1},
        'nat_scalars': [], 'float_scalars': ['speed_of_sound', 'histogram_time_resolution'],
        'ret_rank': 3},
}
ORDER = ['_energy_exchange_init_energy', '_energy_exchange', '_collect_receiver_energy']


def P(k):
    return 'p%d' % k


class Arr:
    def __init__(self, name, rank, shape, is_int=False, virtual=0):
        self.name, self.rank, self.shape, self.is_int, self.virtual = name, rank, shape, is_int, virtual
        # shape: list of Lean Nat expressions (strings), one per real axis


class K:
    def __init__(self, pyname):
        self.py = pyname
        self.spec = SPEC[pyname]
        self.fn = func(FAST, pyname)
        self.arr = {}
        self.scal_nat = set(self.spec['nat_scalars'])
        self.scal_float = set(self.spec['float_scalars'])
        for a, r in self.spec['arrays'].items():
            self.arr[a] = Arr(a, r, ['%s_shape_%d' % (a, k) for k in range(r)], a in self.spec.get('int_arrays', []))
        args = [a.arg for a in self.fn.args.args]
        want = list(self.spec['arrays']) + self.spec['nat_scalars'] + self.spec['float_scalars']
        if sorted(args) != sorted(want):
            raise TranslationError('%s: parameters are %s' % (pyname, args))
        self.params = args

    # ------------------------------------------------------------------ scalars
    def scalar(self, e, env):
        """Lean text of a scalar expression; returns (text, kind) with kind in {'nat','float'}."""
        if isinstance(e, ast.Constant) and isinstance(e.value, int) and not isinstance(e.value, bool):
            return str(e.value), 'nat'
        if isinstance(e, ast.Name):
            if e.id in env:
                return e.id, env[e.id]
            if e.id in self.scal_nat:
                return e.id, 'nat'
            if e.id in self.scal_float:
                return e.id, 'float'
            raise TranslationError('%s: unknown scalar %s' % (self.py, e.id))
        if isinstance(e, ast.Subscript) and isinstance(e.value, ast.Attribute) and e.value.attr == 'shape':
            a = dotted(e.value.value)
            if a in self.arr and isinstance(e.slice, ast.Constant):
                k = e.slice.value
                if k >= self.arr[a].rank:
                    raise TranslationError('%s: %s has no axis %d' % (self.py, a, k))
                return self.arr[a].shape[k], 'nat'
            raise TranslationError('%s: shape of %s' % (self.py, src(e)))
        if isinstance(e, ast.Subscript):
            a = dotted(e.value)
            if a in self.arr:
                idx = e.slice.elts if isinstance(e.slice, ast.Tuple) else [e.slice]
                if len(idx) != self.arr[a].rank or any(isinstance(i, ast.Slice) for i in idx):
                    raise TranslationError('%s: not a scalar element: %s' % (self.py, src(e)))
                parts = []
                for i in idx:
                    t, kd = self.scalar(i, env)
                    if kd != 'nat':
                        raise TranslationError('%s: index %s is not an integer' % (self.py, src(i)))
                    parts.append('(%s)' % t)
                return '%s %s' % (a, ' '.join(parts)), ('nat' if self.arr[a].is_int else 'float')
        if isinstance(e, ast.Call):
            f = dotted(e.func)
            if f == 'int' and len(e.args) == 1:
                inner = e.args[0]
                if isinstance(inner, ast.Call) and dotted(inner.func) == 'np.ceil':
                    t, kd = self.scalar(inner.args[0], env)
                    return 'ToBin.ceilNat (%s)' % t, 'nat'
                t, kd = self.scalar(inner, env)
                if kd != 'float':
                    raise TranslationError('%s: int() of %s' % (self.py, src(inner)))
                return 'ToBin.floorNat (%s)' % t, 'nat'
            if f == 'np.exp' and len(e.args) == 1:
                t, kd = self.scalar(e.args[0], env)
                return 'Transc.exp (%s)' % t, 'float'
            raise TranslationError('%s: call %s' % (self.py, src(e)))
        if isinstance(e, ast.UnaryOp) and isinstance(e.op, ast.USub):
            t, kd = self.scalar(e.operand, env)
            if kd != 'float':
                raise TranslationError('%s: negation of an integer %s' % (self.py, src(e)))
            return '-(%s)' % t, 'float'
        if isinstance(e, ast.BinOp):
            a, ka = self.scalar(e.left, env)
            b, kb = self.scalar(e.right, env)
            op = {ast.Add: '+', ast.Mult: '*', ast.Div: '/', ast.Mod: '%', ast.Sub: '-'}.get(type(e.op))
            if op is None:
                raise TranslationError('%s: operator in %s' % (self.py, src(e)))
            if ka != kb:
                raise TranslationError('%s: mixed integer/float arithmetic %s' % (self.py, src(e)))
            if ka == 'nat' and op in ('-', '/'):
                raise TranslationError('%s: integer %s outside an index: %s' % (self.py, op, src(e)))
            return '(%s %s %s)' % (a, op, b), ka
        raise TranslationError('%s: scalar expression %s' % (self.py, src(e)))

    def cond(self, e, env):
        if isinstance(e, ast.Compare) and len(e.ops) == 1:
            a, ka = self.scalar(e.left, env)
            b, kb = self.scalar(e.comparators[0], env)
            if ka != 'nat' or kb != 'nat':
                raise TranslationError('%s: comparison of non-integers %s' % (self.py, src(e)))
            op = type(e.ops[0])
            if op is ast.Lt:
                return '%s < %s' % (a, b)
            if op is ast.Gt:
                return '%s < %s' % (b, a)
            if op is ast.Eq:
                return '%s = %s' % (a, b)
        raise TranslationError('%s: condition %s' % (self.py, src(e)))

    # ------------------------------------------------------------------ indexing
    def index_on_axis(self, e, env, size):
        """index expression on an axis whose size is the Lean text `size` (Python negative index for `e - c`)."""
        if isinstance(e, ast.BinOp) and isinstance(e.op, ast.Sub) and isinstance(e.right, ast.Constant) \
                and isinstance(e.right.value, int):
            a, ka = self.scalar(e.left, env)
            if ka != 'nat' or not size.isdigit():
                raise TranslationError('%s: index %s on an axis of unknown size' % (self.py, src(e)))
            return '((%s + %s - %d) %% %s)' % (a, size, e.right.value, size)
        t, kd = self.scalar(e, env)
        if kd != 'nat':
            raise TranslationError('%s: index %s' % (self.py, src(e)))
        return '(%s)' % t

    def region(self, target, env):
        """(array, [conditions on p_k], [slice coordinates in order])"""
        if isinstance(target, ast.Name):
            a, idx = target.id, []
        else:
            a = dotted(target.value)
            idx = target.slice.elts if isinstance(target.slice, ast.Tuple) else [target.slice]
        if a not in self.arr:
            raise TranslationError('%s: assignment to %s' % (self.py, src(target)))
        A = self.arr[a]
        if len(idx) > A.rank:
            raise TranslationError('%s: too many indices %s' % (self.py, src(target)))
        conds, coords = [], []
        for k in range(A.rank):
            i = idx[k] if k < len(idx) else ast.Slice(None, None, None)
            if isinstance(i, ast.Slice):
                if i.step is not None:
                    raise TranslationError('%s: slice step' % self.py)
                lo = None
                if i.lower is not None:
                    lo, kd = self.scalar(i.lower, env)
                    conds.append('%s ≤ %s' % (lo, P(k)))
                if i.upper is not None:
                    conds.append(self.upper(i.upper, env, P(k), A.shape[k]))
                coords.append((k, P(k) if lo is None else '(%s - %s)' % (P(k), lo), A.shape[k]))
            else:
                conds.append('%s = %s' % (P(k), self.index_on_axis(i, env, A.shape[k])))
        return A, conds, coords

    def upper(self, e, env, p, size):
        if isinstance(e, ast.UnaryOp) and isinstance(e.op, ast.USub):
            t, kd = self.scalar(e.operand, env)
            return '%s + %s < %s' % (p, t, size)
        t, kd = self.scalar(e, env)
        return '%s < %s' % (p, t)

    def rhs_at(self, e, env, coords):
        """Lean text of array expression `e` at the point whose sliced coordinates are `coords`
        (list of (axis, coordinate text, size text), left to right)."""
        if isinstance(e, ast.BinOp) and isinstance(e.op, (ast.Mult, ast.Add)):
            op = '*' if isinstance(e.op, ast.Mult) else '+'
            return '(%s %s %s)' % (self.rhs_at(e.left, env, coords), op, self.rhs_at(e.right, env, coords))
        if isinstance(e, ast.Call) and dotted(e.func) == 'np.roll' and len(e.args) == 2:
            if len(coords) != 1:
                raise TranslationError('%s: np.roll on more than one axis' % self.py)
            n, kd = self.scalar(e.args[1], env)
            ax, s, size = coords[0]
            rolled = [(ax, '((%s + %s - %s %% %s) %% %s)' % (s, size, n, size, size), size)]
            return self.rhs_at(e.args[0], env, rolled)
        if isinstance(e, (ast.Name, ast.Subscript)):
            a = e.id if isinstance(e, ast.Name) else dotted(e.value)
            if a in self.arr:
                A = self.arr[a]
                idx = [] if isinstance(e, ast.Name) else (e.slice.elts if isinstance(e.slice, ast.Tuple) else [e.slice])
                total = A.rank + A.virtual
                if len(idx) > total:
                    raise TranslationError('%s: too many indices %s' % (self.py, src(e)))
                # which axes stay (slices) and their start offsets
                stay, fixed = [], {}
                for k in range(total):
                    i = idx[k] if k < len(idx) else ast.Slice(None, None, None)
                    if isinstance(i, ast.Slice):
                        if i.step is not None:
                            raise TranslationError('%s: slice step' % self.py)
                        lo = '0'
                        if i.lower is not None:
                            lo, _ = self.scalar(i.lower, env)
                        stay.append((k, lo))
                    else:
                        if k >= A.rank:
                            raise TranslationError('%s: index on the new axis %s' % (self.py, src(e)))
                        fixed[k] = self.index_on_axis(i, env, A.shape[k])
                if len(stay) > len(coords):
                    raise TranslationError('%s: cannot broadcast %s into the assigned region' % (self.py, src(e)))
                off = len(coords) - len(stay)
                at = dict(fixed)
                for m, (k, lo) in enumerate(stay):
                    if k >= A.rank:
                        continue               # the np.newaxis axis: every coordinate reads the same value
                    s = coords[off + m][1]
                    at[k] = '(%s)' % s if lo == '0' else '(%s + %s)' % (lo, s)
                return '%s %s' % (a, ' '.join(at[k] for k in range(A.rank)))
        t, kd = self.scalar(e, env)
        return t

    # ------------------------------------------------------------------ statements
    def assigned_arrays(self, body):
        out = []
        for n in ast.walk(ast.Module(body=body, type_ignores=[])):
            t = None
            if isinstance(n, ast.Assign):
                t = n.targets[0]
            elif isinstance(n, ast.AugAssign):
                t = n.target
            if t is None:
                continue
            a = t.id if isinstance(t, ast.Name) else (dotted(t.value) if isinstance(t, ast.Subscript) else None)
            if a in self.arr and a not in out:
                out.append(a)
        return out

    def fn_type(self, rank, is_int=False):
        return ' → '.join(['Nat'] * rank + ['Nat' if is_int else 'α'])

    def block(self, body, env, ind, tail):
        """Lean text for the statements `body` followed by `tail` (text of the continuation)."""
        if not body:
            return tail
        st, rest = body[0], body[1:]
        sp = '  ' * ind
        cont = lambda: self.block(rest, env, ind, tail)
        if isinstance(st, ast.Expr) and isinstance(st.value, ast.Constant):
            return cont()                                   # docstring
        if isinstance(st, ast.Return):
            if not isinstance(st.value, ast.Name) or st.value.id not in self.arr:
                raise TranslationError('%s: return %s' % (self.py, src(st)))
            return sp + st.value.id
        if isinstance(st, ast.Assign) and len(st.targets) == 1 and isinstance(st.targets[0], ast.Name):
            name, v = st.targets[0].id, st.value
            # X = X[..., np.newaxis]
            if isinstance(v, ast.Subscript) and dotted(v.value) == name and name in self.arr and \
                    isinstance(v.slice, ast.Tuple) and len(v.slice.elts) == 2 and \
                    isinstance(v.slice.elts[0], ast.Constant) and v.slice.elts[0].value is Ellipsis and \
                    dotted(v.slice.elts[1]) == 'np.newaxis':
                self.arr[name].virtual += 1
                return cont()
            # X = np.zeros(shape) / np.zeros_like(Y)
            if isinstance(v, ast.Call) and dotted(v.func) == 'np.zeros' and len(v.args) == 1 and isinstance(v.args[0], ast.Tuple):
                shape = []
                for d in v.args[0].elts:
                    t, kd = self.scalar(d, env)
                    if kd != 'nat':
                        raise TranslationError('%s: shape entry %s' % (self.py, src(d)))
                    shape.append(t)
                self.arr[name] = Arr(name, len(shape), shape)
                return sp + 'let %s : %s := fun %s => 0\n' % (name, self.fn_type(len(shape)), ' '.join('_' for _ in shape)) + cont()
            if isinstance(v, ast.Call) and dotted(v.func) == 'np.zeros_like' and len(v.args) == 1 and dotted(v.args[0]) in self.arr:
                B = self.arr[dotted(v.args[0])]
                self.arr[name] = Arr(name, B.rank, list(B.shape))
                return sp + 'let %s : %s := fun %s => 0\n' % (name, self.fn_type(B.rank), ' '.join('_' for _ in range(B.rank))) + cont()
            # X = other_kernel(args)
            if isinstance(v, ast.Call) and dotted(v.func) in SPEC:
                callee = SPEC[dotted(v.func)]
                cal = K(dotted(v.func))
                if len(v.args) != len(cal.params) or v.keywords:
                    raise TranslationError('%s: call %s' % (self.py, src(v)))
                parts = []
                for prm, a in zip(cal.params, v.args):
                    if prm in cal.arr:
                        an = dotted(a)
                        if an not in self.arr or self.arr[an].rank != cal.arr[prm].rank or self.arr[an].virtual:
                            raise TranslationError('%s: argument %s of %s' % (self.py, src(a), dotted(v.func)))
                        parts += ['(%s)' % s for s in self.arr[an].shape] + [an]
                    else:
                        t, kd = self.scalar(a, env)
                        parts.append('(%s)' % t)
                shape = ['(%s)' % self.arr[dotted(v.args[cal.params.index('energy_0_directivity')])].shape[k] for k in range(3)] \
                    if dotted(v.func) == '_energy_exchange_init_energy' else None
                if shape is None:
                    raise TranslationError('%s: result shape of %s' % (self.py, dotted(v.func)))
                ns, _ = self.scalar(v.args[cal.params.index('n_samples')], env)
                self.arr[name] = Arr(name, callee['ret_rank'], shape + [ns])
                return sp + 'let %s : %s := %s %s\n' % (name, self.fn_type(callee['ret_rank']), callee['lean'], ' '.join(parts)) + cont()
            # scalar
            t, kd = self.scalar(v, env)
            env2 = dict(env)
            env2[name] = kd
            return sp + 'let %s := %s\n' % (name, t) + self.block(rest, env2, ind, tail)
        if isinstance(st, (ast.Assign, ast.AugAssign)):
            target = st.targets[0] if isinstance(st, ast.Assign) else st.target
            if isinstance(st, ast.AugAssign) and not isinstance(st.op, ast.Add):
                raise TranslationError('%s: augmented assignment %s' % (self.py, src(st)))
            A, conds, coords = self.region(target, env)
            val = self.rhs_at(st.value, env, coords)
            ps = ' '.join(P(k) for k in range(A.rank))
            old = '%s %s' % (A.name, ps)
            new = '%s + %s' % (old, val) if isinstance(st, ast.AugAssign) else val
            c = ' ∧ '.join(conds)
            body_ = 'if %s then %s else %s' % (c, new, old) if conds else new
            return sp + 'let %s : %s := fun %s => %s\n' % (A.name, self.fn_type(A.rank, A.is_int), ps, body_) + cont()
        if isinstance(st, ast.For):
            it = st.iter
            if not (isinstance(it, ast.Call) and dotted(it.func) in ('range', 'prange') and len(it.args) == 1
                    and isinstance(st.target, ast.Name) and not st.orelse):
                raise TranslationError('%s: loop %s' % (self.py, src(st.target)))
            n, kd = self.scalar(it.args[0], env)
            arrays = self.assigned_arrays(st.body)
            if not arrays:
                raise TranslationError('%s: loop without array updates' % self.py)
            for a in arrays:
                if a not in self.arr:
                    raise TranslationError('%s: array %s first assigned inside a loop' % (self.py, a))
            tup = arrays[0] if len(arrays) == 1 else '(%s)' % ', '.join(arrays)
            typ = ' × '.join('(%s)' % self.fn_type(self.arr[a].rank, self.arr[a].is_int) for a in arrays)
            env2 = dict(env)
            env2[st.target.id] = 'nat'
            saved = {a: (self.arr[a].virtual) for a in self.arr}
            inner = self.block(st.body, env2, ind + 2, '  ' * (ind + 2) + tup)
            head = sp + 'let %s := (List.range (%s)).foldl (fun (st_ : %s) %s =>\n' % (tup, n, typ, st.target.id)
            unpack = '  ' * (ind + 2) + ('let %s := st_\n' % tup)
            return head + unpack + inner + '\n' + sp + '  ) %s\n' % tup + cont()
        if isinstance(st, ast.If):
            c = self.cond(st.test, env)
            # early return
            if len(st.body) == 1 and isinstance(st.body[0], ast.Return) and not st.orelse:
                r = st.body[0].value
                if not isinstance(r, ast.Name) or r.id not in self.arr:
                    raise TranslationError('%s: return %s' % (self.py, src(st.body[0])))
                return sp + 'if %s then %s else\n' % (c, r.id) + cont()
            arrays = self.assigned_arrays(st.body + st.orelse)
            if not arrays:
                # scalar definitions in both branches
                def scal(b):
                    d = {}
                    for s in b:
                        if not (isinstance(s, ast.Assign) and isinstance(s.targets[0], ast.Name)):
                            raise TranslationError('%s: branch statement %s' % (self.py, src(s)))
                        d[s.targets[0].id] = s.value
                    return d
                a, b = scal(st.body), scal(st.orelse)
                if set(a) != set(b) or not a:
                    raise TranslationError('%s: branches define different scalars' % self.py)
                env2 = dict(env)
                out = ''
                for nme in a:
                    ta, ka = self.scalar(a[nme], env)
                    tb, kb = self.scalar(b[nme], env)
                    if ka != kb:
                        raise TranslationError('%s: branch kinds differ for %s' % (self.py, nme))
                    out += sp + 'let %s := if %s then %s else %s\n' % (nme, c, ta, tb)
                    env2[nme] = ka
                return out + self.block(rest, env2, ind, tail)
            tup = arrays[0] if len(arrays) == 1 else '(%s)' % ', '.join(arrays)
            t1 = self.block(st.body, env, ind + 2, '  ' * (ind + 2) + tup)
            t2 = self.block(st.orelse, env, ind + 2, '  ' * (ind + 2) + tup) if st.orelse else '  ' * (ind + 2) + tup
            return sp + 'let %s :=\n' % tup + sp + '  if %s then\n' % c + t1 + '\n' + sp + '  else\n' + t2 + '\n' + cont()
        raise TranslationError('%s: statement %s' % (self.py, src(st)[:80]))

    def emit(self):
        sig = []
        for p in self.params:
            if p in self.arr:
                A = self.arr[p]
                sig += ['(%s : Nat)' % s for s in A.shape]
                sig.append('(%s : %s)' % (p, self.fn_type(A.rank, A.is_int)))
            elif p in self.scal_nat:
                sig.append('(%s : Nat)' % p)
            else:
                sig.append('(%s : α)' % p)
        body = self.block(self.fn.body, {}, 1, '')
        doc = '/-- translated from `%s` (%s) -/' % (self.py, FAST)
        head = 'def %s [Add α] [Sub α] [Mul α] [Div α] [Neg α] [Zero α] [ToBin α] [Transc α]\n    %s :\n    %s :=\n' % (
            self.spec['lean'], ' '.join(sig), self.fn_type(self.spec['ret_rank']))
        return doc + '\n' + head + body + '\n'


def generate():
    out = ['/- GENERATED by harness/translate/kernels.py from %s -- do not edit. -/' % FAST,
           'import Sparrow.Model.Basic', 'set_option linter.unusedVariables false', 'namespace Sparrow.Generated.Kernels', 'open Sparrow', 'variable {α : Type}', '']
    facts = {}
    for k in ORDER:
        t = K(k)
        out.append(t.emit())
        facts[k] = {'statements': sum(1 for _ in ast.walk(t.fn) if isinstance(_, ast.stmt))}
    out.append('end Sparrow.Generated.Kernels')
    return '\n'.join(out) + '\n', facts
