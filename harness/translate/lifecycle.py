"""Generated/Lifecycle.lean: syntactic facts of the life-cycle of DirectionalRadiosityFast
(from the AST only): to_dict key -> attribute list and its encoding loop, from_dict /
from_read decoding, __eq__ body, and for every method the sets of `self._x` attributes it
loads and stores (properties and self-method calls inlined transitively), the module-level
kernels it calls, and the in-place mutation sites whose target is a parameter."""
import ast
from .pyast import module, func, src, dotted, TranslationError, lean_str

FAST = 'sparrowpy/classes/RadiosityFast.py'
CLS = 'DirectionalRadiosityFast'
MUTATING_CALLS = {'append', 'fill', 'extend', 'sort', 'rotate', 'insert', 'pop', 'clear', 'update'}


def class_node():
    for n in module(FAST).body:
        if isinstance(n, ast.ClassDef) and n.name == CLS:
            return n
    raise TranslationError('class not found')


def methods():
    out = {}
    props = set()
    for n in class_node().body:
        if isinstance(n, ast.FunctionDef):
            out[n.name] = n
            for d in n.decorator_list:
                if dotted(d) == 'property':
                    props.add(n.name)
    return out, props


def direct_rw(fn, meths, props):
    """(reads, writes, self-calls, property uses, kernel calls, param mutation sites) of one method body."""
    reads, writes, calls, puses, kernels, mut = set(), set(), set(), set(), set(), []
    params = {a.arg for a in fn.args.args if a.arg not in ('self', 'cls')}

    def base_self_attr(node):
        """self._x  (possibly under subscripts) -> '_x'"""
        while isinstance(node, ast.Subscript):
            node = node.value
        if isinstance(node, ast.Attribute) and isinstance(node.value, ast.Name) and node.value.id == 'self':
            return node.attr
        return None

    def base_name(node):
        while isinstance(node, (ast.Subscript, ast.Attribute)):
            node = node.value
        return node.id if isinstance(node, ast.Name) else None

    # local names bound directly to an attribute (`x = self._y`): in-place stores through the
    # alias are stores into the attribute
    alias = {}
    for n in ast.walk(fn):
        if isinstance(n, ast.Assign) and len(n.targets) == 1 and isinstance(n.targets[0], ast.Name):
            v = n.value
            if isinstance(v, ast.Attribute) and isinstance(v.value, ast.Name) and v.value.id == 'self' and v.attr.startswith('_'):
                alias[n.targets[0].id] = v.attr

    for n in ast.walk(fn):
        if isinstance(n, ast.Attribute) and isinstance(n.value, ast.Name) and n.value.id == 'self':
            a = n.attr
            if isinstance(n.ctx, ast.Store):
                if a.startswith('_'):
                    writes.add(a)
            else:
                if a in props:
                    puses.add(a)
                elif a in meths:
                    pass
                elif a.startswith('_'):
                    reads.add(a)
        if isinstance(n, (ast.Assign, ast.AugAssign)):
            targets = n.targets if isinstance(n, ast.Assign) else [n.target]
            for t in targets:
                if isinstance(t, ast.Subscript):
                    a = base_self_attr(t)
                    if a is not None and a.startswith('_'):
                        writes.add(a)
                    b = base_name(t)
                    if b in alias:
                        writes.add(alias[b])
                    if b in params:
                        mut.append('%s:%d:%s' % (fn.name, n.lineno, src(t)[:60]))
                if isinstance(n, ast.AugAssign) and isinstance(t, ast.Name) and t.id in params:
                    mut.append('%s:%d:%s' % (fn.name, n.lineno, src(n)[:60]))
                if isinstance(n, ast.AugAssign) and isinstance(t, ast.Name) and t.id in alias:
                    writes.add(alias[t.id])
                if isinstance(t, ast.Attribute) and base_name(t) in params:
                    mut.append('%s:%d:%s' % (fn.name, n.lineno, src(t)[:60]))
        if isinstance(n, ast.Call):
            f = n.func
            if isinstance(f, ast.Attribute):
                if isinstance(f.value, ast.Name) and f.value.id == 'self' and f.attr in meths and f.attr not in props:
                    calls.add(f.attr)
                elif f.attr in MUTATING_CALLS:
                    a = base_self_attr(f.value)
                    if a is not None and a.startswith('_'):
                        writes.add(a)
                    b = base_name(f.value)
                    if b in params:
                        mut.append('%s:%d:%s' % (fn.name, n.lineno, src(n)[:60]))
                d = dotted(f)
                if d and (d.startswith('geometry.') or d.startswith('form_factor.') or d.startswith('pf.io.')):
                    kernels.add(d)
            elif isinstance(f, ast.Name) and (f.id.startswith('_') or f.id.startswith('get_scattering')):
                kernels.add(f.id)
    return reads, writes, calls, puses, kernels, mut


def closure(meths, props):
    direct = {m: direct_rw(fn, meths, props) for m, fn in meths.items()}
    full = {}

    def go(m, seen):
        if m in full:
            return full[m]
        if m in seen:
            return (set(), set(), set(), [])
        seen = seen | {m}
        r, w, calls, puses, k, mut = direct[m]
        R, W, K, M = set(r), set(w), set(k), list(mut)
        for c in list(calls) + list(puses):
            r2, w2, k2, m2 = go(c, seen)
            R |= r2
            W |= w2
            K |= k2
            M += m2
        full[m] = (R, W, K, M)
        return full[m]
    for m in meths:
        go(m, set())
    return full


def generate():
    meths, props = methods()
    full = closure(meths, props)
    # ---- to_dict
    td = meths['to_dict']
    dct = None
    for n in ast.walk(td):
        if isinstance(n, ast.Assign) and isinstance(n.value, ast.Dict):
            dct = n.value
    if dct is None:
        raise TranslationError('to_dict: no dict literal')
    keys = []
    for k, v in zip(dct.keys, dct.values):
        a = dotted(v)
        if not (isinstance(k, ast.Constant) and a and a.startswith('self._')):
            raise TranslationError('to_dict: entry ' + src(k))
        keys.append((k.value, a[5:]))
    loop = [n for n in td.body if isinstance(n, ast.For)]
    enc_none = enc_arr = False
    if len(loop) == 1:
        t = src(loop[0])
        enc_none = "value is None" in t and "'None'" in t
        enc_arr = 'isinstance(value, np.ndarray)' in t and 'tolist()' in t
    # ---- from_dict / from_read decode the marker?
    fd = src(meths['from_dict'])
    fr = src(meths['from_read'])
    dec_dict = "== 'None'" in fd and 'cls(**input_dict)' in fd
    dec_read = "== 'None'" in fr
    if 'cls(**input_dict)' not in fd:
        raise TranslationError('from_dict does not construct cls(**input_dict)')
    if 'cls.from_dict(' not in fr:
        raise TranslationError('from_read does not go through from_dict')
    eq = src(meths['__eq__'])
    eq_todict = 'deepdiff.DeepDiff(self.to_dict(), other.to_dict())' in eq
    # constructor parameters (must equal to_dict keys for cls(**d) to work)
    init_params = [a.arg for a in meths['__init__'].args.args[1:]]
    # conversions of __init__ (kind per param)
    from . import checkgen
    kinds = {p: k for p, k, _ in checkgen.init_fields()}

    API = ['set_wall_brdf', 'set_air_attenuation', 'bake_geometry', 'init_source_energy',
           'calculate_energy_exchange', 'collect_energy_receiver_patchwise', 'collect_energy_receiver_mono',
           'calculate_direct_sound', 'to_dict', 'check', '__eq__']
    for m in API:
        if m not in full:
            raise TranslationError('method %s missing' % m)

    def lst(xs):
        return '[' + ', '.join(lean_str(x) for x in xs) + ']'
    t = []
    t.append('/- GENERATED by harness/translate/lifecycle.py from class DirectionalRadiosityFast -- do not edit. -/')
    t.append('namespace Sparrow.Generated')
    t.append('/-- `to_dict` entries: (key, attribute). -/')
    t.append('def toDictKeys : List (String × String) := [' + ', '.join('(%s, %s)' % (lean_str(k), lean_str(a)) for k, a in keys) + ']')
    t.append('def initParams : List String := ' + lst(init_params))
    t.append('/-- encoding loop of `to_dict`: None ↦ the string marker, ndarray ↦ nested lists -/')
    t.append('def toDictEncodesNone : Bool := %s' % ('true' if enc_none else 'false'))
    t.append('def toDictEncodesArrays : Bool := %s' % ('true' if enc_arr else 'false'))
    t.append('def fromDictDecodesNone : Bool := %s' % ('true' if dec_dict else 'false'))
    t.append('def fromReadDecodesNone : Bool := %s' % ('true' if dec_read else 'false'))
    t.append('def eqComparesToDict : Bool := %s' % ('true' if eq_todict else 'false'))
    t.append('/-- `__init__` conversion per parameter -/')
    t.append('def initKinds : List (String × String) := [' + ', '.join('(%s, %s)' % (lean_str(p), lean_str(kinds[p])) for p in init_params) + ']')
    t.append('/-- attributes (transitively, through properties and self-calls) loaded by each method -/')
    t.append('def reads : String → List String')
    for m in API:
        t.append('  | %s => %s' % (lean_str(m), lst(sorted(full[m][0]))))
    t.append('  | _ => []')
    t.append('/-- attributes stored (assigned, element-assigned, or mutated through append/fill) by each method -/')
    t.append('def writes : String → List String')
    for m in API:
        t.append('  | %s => %s' % (lean_str(m), lst(sorted(full[m][1]))))
    t.append('  | _ => []')
    t.append('/-- in-place mutation sites whose target is a parameter of a method of the class -/')
    allmut = sorted({s for m in meths for s in full[m][3]})
    t.append('def paramMutationSites : List String := ' + lst(allmut))
    t.append('end Sparrow.Generated')
    facts = {'to_dict_keys': [k for k, _ in keys], 'reads': {m: sorted(full[m][0]) for m in API},
             'writes': {m: sorted(full[m][1]) for m in API}, 'param_mutation_sites': allmut,
             'fromDictDecodesNone': dec_dict, 'eqComparesToDict': eq_todict}
    return '\n'.join(t) + '\n', facts
