"""Generated/Lifecycle.lean (filled in with the life-cycle model; see lifecycle translator)."""


def generate():
    return '/- GENERATED placeholder -/\nnamespace Sparrow.Generated\nend Sparrow.Generated\n', {}
