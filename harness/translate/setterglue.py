"""Generated/SetterGlue.lean: the METHODS `set_wall_brdf`, `set_air_attenuation` and `_check_set_frequency` of
`DirectionalRadiosityFast` (sparrowpy/classes/RadiosityFast.py) — how materials and attenuation get into the object.

A *recogniser* (as bakeglue.py): every statement must equal its normal form in EXPECTED (`ast.unparse`, `self._x` written
`self_x`); the Lean text per statement is fixed.  Readings:

  * the attributes the setters touch are one record (`MatState`): frequencies, the two per-wall direction arrays
    (`np.empty(n, dtype=pf.Coordinates)` is an array of `None`), the per-wall table index (`fill(-1)`), the list of tables
    (a length and an array; `[]` has length 0 and arbitrary content: parameter `empty_tables`), the attenuation;
  * an `assert` that fails, and a use of an attribute that is `None`, is the result `none`;
  * `(self._frequencies == frequencies).all()` is elementwise equality on the common length;
  * `_rotate_coords_to_normal` is an OPAQUE function; a `pf.Coordinates` object is an opaque value (type parameter `C`);
    the half-space assertions are the Boolean parameters `incoming_ok`, `outgoing_ok`;
  * `self._brdf.append(brdf.freq * np.pi)` appends the table times π; `self._brdf_index[wall_indexes] = len(self._brdf) - 1`
    sets the index of every listed wall to the position of that new table;
  * NOT modelled: an index in `wall_indexes` beyond the number of walls (numpy raises), `np.atleast_1d(x.freq.squeeze())`
    (library; the attenuation is its vector)."""
import ast
import copy
from .pyast import func, src, TranslationError
from .kernels import FAST
from .gluekernels import _Self

CLS = 'DirectionalRadiosityFast'
EXPECTED = {
    'set_wall_brdf': (['self', 'wall_indexes', 'brdf', 'incoming_directions', 'outgoing_directions'], [
        "assert (incoming_directions.z >= 0).all(), 'Sources must be in the positive half space'",
        "assert (outgoing_directions.z >= 0).all(), 'Receivers must be in the positive half space'",
        "self_check_set_frequency(brdf.frequencies)",
        "if self_brdf_incoming_directions is None:\n    self_brdf_incoming_directions = np.empty(self_n_walls, dtype=pf.Coordinates)\n"
        "    self_brdf_outgoing_directions = np.empty(self_n_walls, dtype=pf.Coordinates)\n"
        "    self_brdf_index = np.empty(self_n_walls, dtype=np.int64)\n    self_brdf_index.fill(-1)\n    self_brdf = []",
        "for i in wall_indexes:\n    incoming_rot, outgoing_rot = _rotate_coords_to_normal(self_walls_normal[i], self_walls_up_vector[i], "
        "incoming_directions, outgoing_directions)\n    self_brdf_incoming_directions[i] = incoming_rot\n    self_brdf_outgoing_directions[i] = outgoing_rot",
        "self_brdf.append(brdf.freq * np.pi)",
        "self_brdf_index[wall_indexes] = len(self_brdf) - 1"]),
    'set_air_attenuation': (['self', 'air_attenuation'], [
        "self_check_set_frequency(air_attenuation.frequencies)",
        "self_air_attenuation = np.atleast_1d(air_attenuation.freq.squeeze())"]),
    '_check_set_frequency': (['self', 'frequencies'], [
        "if self_frequencies is None:\n    self_frequencies = frequencies\nelse:\n"
        "    assert self_frequencies.size == frequencies.size, 'Number of frequency bins do not match'\n"
        "    assert (self_frequencies == frequencies).all(), 'Frequencies do not match'"]),
}

LEAN = '''/-- the attributes the setters read and write -/
structure MatState (α : Type) (C : Type) where
  frequencies : Option (Nat × (Nat → α))
  dirsIn : Option (Nat → Option C)
  dirsOut : Option (Nat → Option C)
  index : Option (Nat → Int)
  brdf : Option (Nat × (Nat → Nat → Nat → Nat → α))
  att : Option (Nat → α)

/-- translated from `DirectionalRadiosityFast._check_set_frequency`: the new value of `_frequencies`, `none` = AssertionError -/
def checkSetFrequency [DecidableEq α] (self_frequencies : Option (Nat × (Nat → α))) (frequencies : Nat × (Nat → α)) :
    Option (Option (Nat × (Nat → α))) :=
  match self_frequencies with
  | none => some (some frequencies)
  | some f =>
    if f.1 = frequencies.1 then
      (if ∀ k, k < f.1 → f.2 k = frequencies.2 k then some (some f) else none)
    else none

/-- translated from `DirectionalRadiosityFast.set_air_attenuation` -/
def setAirAttenuation {C : Type} [DecidableEq α] (st : MatState α C) (air_attenuation_frequencies : Nat × (Nat → α))
    (air_attenuation_freq : Nat → α) : Option (MatState α C) :=
  match checkSetFrequency st.frequencies air_attenuation_frequencies with
  | none => none
  | some f => some { st with frequencies := f, att := some air_attenuation_freq }

/-- translated from `DirectionalRadiosityFast.set_wall_brdf`; `rotate` stands for `_rotate_coords_to_normal`, `incoming_ok` /
    `outgoing_ok` for the two half-space assertions, `empty_tables` for the (unobservable) content of the empty list -/
def setWallBrdf {C : Type} [DecidableEq α] [Mul α] [Transc α]
    (rotate : (Nat → α) → (Nat → α) → C → C → C × C) (self_n_walls : Nat)
    (self_walls_normal self_walls_up_vector : Nat → Nat → α) (st : MatState α C) (wall_indexes : List Nat)
    (brdf_frequencies : Nat × (Nat → α)) (brdf_freq : Nat → Nat → Nat → α) (incoming_directions outgoing_directions : C)
    (incoming_ok outgoing_ok : Bool) (empty_tables : Nat → Nat → Nat → Nat → α) : Option (MatState α C) :=
  if incoming_ok = false then none else
  if outgoing_ok = false then none else
  match checkSetFrequency st.frequencies brdf_frequencies with
  | none => none
  | some f =>
  let st : MatState α C := { st with frequencies := f }
  let st : MatState α C :=
    if st.dirsIn.isNone = true then
      { st with dirsIn := some (fun _ => none), dirsOut := some (fun _ => none), index := some (fun _ => -1),
                brdf := some (0, empty_tables) }
    else st
  match st.dirsIn, st.dirsOut with
  | some dI, some dO =>
    let dd := wall_indexes.foldl (fun (s_ : (Nat → Option C) × (Nat → Option C)) i =>
      let r_ := rotate (fun q_ => self_walls_normal i q_) (fun q_ => self_walls_up_vector i q_) incoming_directions outgoing_directions
      ((fun w_ => if w_ = i then some r_.1 else s_.1 w_), (fun w_ => if w_ = i then some r_.2 else s_.2 w_))) (dI, dO)
    match st.brdf, st.index with
    | some (len_, tabs_), some idx_ =>
      let tabs' : Nat → Nat → Nat → Nat → α := fun k_ a_ b_ c_ => if k_ = len_ then brdf_freq a_ b_ c_ * Transc.pi else tabs_ k_ a_ b_ c_
      let len' : Nat := len_ + 1
      let idx' : Nat → Int := fun w_ => if w_ ∈ wall_indexes then ((len' : Int) - 1) else idx_ w_
      some { st with dirsIn := some dd.1, dirsOut := some dd.2, brdf := some (len', tabs'), index := some idx' }
    | _, _ => none
  | _, _ => none
'''


def generate():
    n = 0
    for name, (args, want) in EXPECTED.items():
        fn = _Self().visit(copy.deepcopy(func(FAST, name, cls=CLS)))
        if [a.arg for a in fn.args.args] != args:
            raise TranslationError('%s: parameters' % name)
        body = [s for s in fn.body if not (isinstance(s, ast.Expr) and isinstance(s.value, ast.Constant))]
        if len(body) != len(want):
            raise TranslationError('%s: %d statements, the recogniser knows %d' % (name, len(body), len(want)))
        for k, (s, w) in enumerate(zip(body, want)):
            if src(s) != w:
                raise TranslationError('%s: statement %d is not in the recognised form: %s' % (name, k, src(s)[:160]))
        n += sum(1 for _ in ast.walk(fn) if isinstance(_, ast.stmt))
    out = ['/- GENERATED by harness/translate/setterglue.py from %s -- do not edit. -/' % FAST,
           'import Sparrow.Model.Basic', 'set_option linter.unusedVariables false', 'namespace Sparrow.Generated.SetterGlue',
           'open Sparrow', 'variable {α : Type}', '', LEAN, 'end Sparrow.Generated.SetterGlue']
    return '\n'.join(out) + '\n', {'setters': {'statements': n, 'mode': 'recogniser'}}
