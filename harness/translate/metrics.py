"""Generated/Metrics.lean: translation of `sound_object._get_metrics` (the source frame of the directivity lookup):
straight-line code over 3-vectors.

Rules (anything else raises TranslationError): the four parameters are 3-vectors (functions of the axis 0..2);
`x = np.array(x, dtype=float)` is a no-op; `a - b`, `-a` on vectors are pointwise; `np.cross(a, b)` is the usual
three components; `np.dot(a, b)` of 3-vectors is `a0 b0 + a1 b1 + a2 b2`; `np.array([s0, s1, s2])` is the vector
of three scalars; scalars: `+ - * /`, unary minus, integer literals cast exactly, `np.pi`, `np.sqrt`, `np.arctan2`,
`np.arcsin`; the result is the returned tuple of scalars."""
import ast
from .pyast import func, src, dotted, TranslationError

SO = 'sparrowpy/sound_object.py'
PARAMS = ['pos_G', 'view_G', 'up_G', 'target_pos_G']


class M:
    def __init__(self):
        self.fn = func(SO, '_get_metrics')
        if [a.arg for a in self.fn.args.args] != PARAMS:
            raise TranslationError('_get_metrics: parameters')
        self.kind = {p: 'vec' for p in PARAMS}
        self.out = []

    def err(self, what, node):
        raise TranslationError('_get_metrics: %s: %s' % (what, src(node)[:100]))

    def is_vec(self, e):
        if isinstance(e, ast.Name):
            return self.kind.get(e.id) == 'vec'
        if isinstance(e, ast.BinOp) and isinstance(e.op, (ast.Sub, ast.Add)):
            return self.is_vec(e.left) and self.is_vec(e.right)
        if isinstance(e, ast.UnaryOp) and isinstance(e.op, ast.USub):
            return self.is_vec(e.operand)
        if isinstance(e, ast.Call) and dotted(e.func) == 'np.cross':
            return True
        if isinstance(e, ast.Call) and dotted(e.func) == 'np.array' and len(e.args) == 1 and isinstance(e.args[0], ast.List):
            return True
        return False

    def vec(self, e, q):
        """component `q` (Lean text) of a vector expression"""
        if isinstance(e, ast.Name) and self.kind.get(e.id) == 'vec':
            return '%s (%s)' % (e.id, q)
        if isinstance(e, ast.BinOp) and isinstance(e.op, (ast.Sub, ast.Add)) and self.is_vec(e):
            return '(%s %s %s)' % (self.vec(e.left, q), '-' if isinstance(e.op, ast.Sub) else '+', self.vec(e.right, q))
        if isinstance(e, ast.UnaryOp) and isinstance(e.op, ast.USub) and self.is_vec(e.operand):
            return '-(%s)' % self.vec(e.operand, q)
        if isinstance(e, ast.Call) and dotted(e.func) == 'np.cross' and len(e.args) == 2:
            a, b = e.args
            c = lambda x, k: self.vec(x, str(k))
            return ('(if %s = 0 then %s * %s - %s * %s else if %s = 1 then %s * %s - %s * %s else %s * %s - %s * %s)'
                    % (q, c(a, 1), c(b, 2), c(a, 2), c(b, 1), q, c(a, 2), c(b, 0), c(a, 0), c(b, 2), c(a, 0), c(b, 1), c(a, 1), c(b, 0)))
        if isinstance(e, ast.Call) and dotted(e.func) == 'np.array' and len(e.args) == 1 and isinstance(e.args[0], ast.List) \
                and len(e.args[0].elts) == 3:
            s = [self.scal(x) for x in e.args[0].elts]
            return '(if %s = 0 then %s else if %s = 1 then %s else %s)' % (q, s[0], q, s[1], s[2])
        self.err('vector expression', e)

    def scal(self, e):
        if isinstance(e, ast.Constant) and isinstance(e.value, int) and not isinstance(e.value, bool):
            return '((%d : Nat) : α)' % e.value
        if isinstance(e, ast.Name) and self.kind.get(e.id) == 'scal':
            return e.id
        if dotted(e) == 'np.pi':
            return 'Transc.pi'
        if isinstance(e, ast.UnaryOp) and isinstance(e.op, ast.USub):
            return '-(%s)' % self.scal(e.operand)
        if isinstance(e, ast.BinOp) and not self.is_vec(e):
            op = {ast.Add: '+', ast.Sub: '-', ast.Mult: '*', ast.Div: '/'}.get(type(e.op))
            if op:
                return '(%s %s %s)' % (self.scal(e.left), op, self.scal(e.right))
        if isinstance(e, ast.Call):
            f = dotted(e.func)
            if f == 'np.dot' and len(e.args) == 2 and self.is_vec(e.args[0]) and self.is_vec(e.args[1]):
                a, b = e.args
                return '(%s * %s + %s * %s + %s * %s)' % (self.vec(a, '0'), self.vec(b, '0'), self.vec(a, '1'), self.vec(b, '1'),
                                                          self.vec(a, '2'), self.vec(b, '2'))
            if f == 'np.sqrt' and len(e.args) == 1:
                return 'Transc.sqrt (%s)' % self.scal(e.args[0])
            if f == 'np.arcsin' and len(e.args) == 1:
                return 'Transc.asin (%s)' % self.scal(e.args[0])
            if f == 'np.arctan2' and len(e.args) == 2:
                return 'Transc.atan2 (%s) (%s)' % (self.scal(e.args[0]), self.scal(e.args[1]))
        self.err('scalar expression', e)

    def translate(self):
        ret = None
        for st in self.fn.body:
            if isinstance(st, ast.Expr) and isinstance(st.value, ast.Constant):
                continue
            if ret is not None:
                self.err('statement after return', st)
            if isinstance(st, ast.Return):
                if not (isinstance(st.value, ast.Tuple) and len(st.value.elts) == 2):
                    self.err('return', st)
                ret = '  (%s, %s)' % tuple(self.scal(x) for x in st.value.elts)
                continue
            if not (isinstance(st, ast.Assign) and len(st.targets) == 1 and isinstance(st.targets[0], ast.Name)):
                self.err('statement', st)
            name, v = st.targets[0].id, st.value
            if isinstance(v, ast.Call) and dotted(v.func) == 'np.array' and len(v.args) == 1 and dotted(v.args[0]) == name \
                    and self.kind.get(name) == 'vec' and [k.arg for k in v.keywords] == ['dtype']:
                continue
            if self.is_vec(v):
                self.out.append('  let %s : Nat → α := fun q_ => %s' % (name, self.vec(v, 'q_')))
                self.kind[name] = 'vec'
            else:
                self.out.append('  let %s : α := %s' % (name, self.scal(v)))
                self.kind[name] = 'scal'
        if ret is None:
            raise TranslationError('_get_metrics: no return')
        head = ('/-- translated from `_get_metrics` (%s): azimuth and elevation in degrees of `target - pos` in the frame of `view`, `up` -/\n'
                'def getMetrics [Add α] [Sub α] [Mul α] [Div α] [Neg α] [Transc α] [NatCast α]\n'
                '    (pos_G view_G up_G target_pos_G : Nat → α) : α × α :=\n' % SO)
        return head + '\n'.join(self.out) + '\n' + ret + '\n'


def generate():
    m = M()
    out = ['/- GENERATED by harness/translate/metrics.py from %s -- do not edit. -/' % SO, 'import Sparrow.Model.Basic',
           'set_option linter.unusedVariables false', 'namespace Sparrow.Generated.Metrics', 'open Sparrow', 'variable {α : Type}', '',
           m.translate(), 'end Sparrow.Generated.Metrics']
    return '\n'.join(out) + '\n', {'_get_metrics': {'statements': sum(1 for _ in ast.walk(m.fn) if isinstance(_, ast.stmt))}}


# ---------------------------------------------------------------------------------------------------------------
# the two `get_directivity` methods around `_get_metrics`: recognised (normal forms below), rendered by fixed text
LOOKUP_EXPECTED = {
    ('DirectivityMS', 'get_directivity'): (['self', 'source_pos', 'source_view', 'source_up', 'target_position', 'i_freq'], [
        "azimuth_deg, elevation_deg = _get_metrics(source_pos, source_view, source_up, target_position)",
        "find = pf.Coordinates.from_spherical_elevation(azimuth_deg / 180 * np.pi, elevation_deg / 180 * np.pi, 1)",
        "index, _ = self_receivers.find_nearest(find)",
        "return self_data.freq[index, i_freq]"]),
    ('SoundSource', 'get_directivity'): (['self', 'target_position', 'frequency'], [
        "i_freq = np.argmin(np.abs(self_directivity.data.frequencies - frequency))",
        "if target_position.size == 3:\n    return self_directivity.get_directivity(self_position, self_view, self_up, target_position, i_freq)\n"
        "else:\n    return np.array([self_directivity.get_directivity(self_position, self_view, self_up, pos, i_freq) for pos in target_position])[:, 0]"]),
}

LOOKUP_LEAN = '''/-- recognised from `DirectivityMS.get_directivity` (%s): `find_nearest` stands for pyfar's nearest-point query on the measured
    directions, `from_spherical_elevation(az, el, 1)` is `(cos el cos az, cos el sin az, sin el)` -/
def directivityMSGet [Add α] [Sub α] [Mul α] [Div α] [Neg α] [Transc α] [NatCast α]
    (cosf sinf : α → α) (find_nearest : α × α × α → Nat) (self_data_freq : Nat → Nat → α)
    (source_pos source_view source_up target_position : Nat → α) (i_freq : Nat) : α :=
  let m_ := getMetrics source_pos source_view source_up target_position
  let azimuth_deg : α := m_.1
  let elevation_deg : α := m_.2
  let az_ : α := azimuth_deg / ((180 : Nat) : α) * Transc.pi
  let el_ : α := elevation_deg / ((180 : Nat) : α) * Transc.pi
  let find : α × α × α := (cosf el_ * cosf az_, cosf el_ * sinf az_, sinf el_)
  let index : Nat := find_nearest find
  self_data_freq index i_freq

/-- recognised from `SoundSource.get_directivity` (%s), one factor per target (the single-target branch is the case of one row);
    `np.argmin(np.abs(f - frequency))` is the first index of the smallest distance -/
def soundObjectGetDirectivity [Add α] [Sub α] [Mul α] [Div α] [Neg α] [Cmp α] [Transc α] [NatCast α]
    (cosf sinf : α → α) (find_nearest : α × α × α → Nat) (self_data_freq : Nat → Nat → α)
    (n_frequencies : Nat) (self_directivity_data_frequencies : Nat → α)
    (self_position self_view self_up : Nat → α) (target_position : Nat → Nat → α) (frequency : α) : Nat → α :=
  let i_freq : Nat := argminFirst n_frequencies (fun k_ => Cmp.abs (self_directivity_data_frequencies k_ - frequency))
  fun p_ => directivityMSGet cosf sinf find_nearest self_data_freq self_position self_view self_up (fun q_ => target_position p_ q_) i_freq
'''


def _lookup_text():
    import copy
    from .gluekernels import _Self
    for (cls, name), (args, want) in LOOKUP_EXPECTED.items():
        fn = _Self().visit(copy.deepcopy(func(SO, name, cls=cls)))
        if [a.arg for a in fn.args.args] != args:
            raise TranslationError('%s.%s: parameters' % (cls, name))
        body = [s for s in fn.body if not (isinstance(s, ast.Expr) and isinstance(s.value, ast.Constant))]
        if len(body) != len(want):
            raise TranslationError('%s.%s: %d statements, the recogniser knows %d' % (cls, name, len(body), len(want)))
        for k, (s, w) in enumerate(zip(body, want)):
            if src(s) != w:
                raise TranslationError('%s.%s: statement %d is not in the recognised form: %s' % (cls, name, k, src(s)[:160]))
    return LOOKUP_LEAN % (SO, SO)


_generate_metrics = generate


def generate():
    text, facts = _generate_metrics()
    end = 'end Sparrow.Generated.Metrics\n'
    text = text[:-len(end)].replace('import Sparrow.Model.Basic', 'import Sparrow.Model.Vec') + _lookup_text() + '\n' + end
    facts['get_directivity'] = {'mode': 'recogniser', 'methods': ['DirectivityMS.get_directivity', 'SoundSource.get_directivity']}
    return text, facts
