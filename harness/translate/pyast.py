"""Small helpers over Python's ast for the translator (source is parsed, never imported)."""
import ast
import os
from .. import common


class TranslationError(Exception):
    pass


_cache = {}


def module(relpath):
    path = os.path.join(common.REPO, relpath)
    st = os.stat(path)
    key = (path, st.st_mtime_ns, st.st_size)
    if key not in _cache:
        with open(path) as f:
            _cache[key] = ast.parse(f.read(), filename=path)
    return _cache[key]


def func(relpath, name, cls=None):
    mod = module(relpath)
    body = mod.body
    if cls is not None:
        for n in body:
            if isinstance(n, ast.ClassDef) and n.name == cls:
                body = n.body
                break
        else:
            raise TranslationError('class %s not found in %s' % (cls, relpath))
    for n in body:
        if isinstance(n, ast.FunctionDef) and n.name == name:
            return n
    raise TranslationError('function %s not found in %s' % (name, relpath))


def dotted(node):
    """'np.roll' for Attribute chains / Names, else None."""
    if isinstance(node, ast.Name):
        return node.id
    if isinstance(node, ast.Attribute):
        b = dotted(node.value)
        return None if b is None else b + '.' + node.attr
    return None


def calls(node, name):
    return [n for n in ast.walk(node) if isinstance(n, ast.Call) and dotted(n.func) == name]


def assigns_to(fn, target):
    """All Assign/AugAssign nodes whose (first) target is the Name `target`."""
    out = []
    for n in ast.walk(fn):
        if isinstance(n, ast.Assign) and len(n.targets) == 1 and \
                isinstance(n.targets[0], ast.Name) and n.targets[0].id == target:
            out.append(n)
    return out


def src(node):
    return ast.unparse(node)


def lean_str(s):
    return '"' + s.replace('\\', '\\\\').replace('"', '\\"') + '"'
