"""Translator: /repo source (ast, never imported) -> lean/Sparrow/Generated/*.lean."""
import os
from .. import common


def _write_if_changed(path, text):
    old = None
    if os.path.exists(path):
        with open(path) as f:
            old = f.read()
    if old != text:
        os.makedirs(os.path.dirname(path), exist_ok=True)
        with open(path, 'w') as f:
            f.write(text)
        return True
    return False


def _read(path):
    if os.path.exists(path):
        with open(path) as f:
            return f.read()
    return None


def run_all(validate=None):
    """Regenerate every Generated/*.lean.  Never raises: a generator that meets a construct outside
    its whitelist (or whose output does not compile, `validate(module) -> (rc, log)`) leaves its
    file(s) as they were and reports `error`; only the properties whose theorems import that file
    lose their tie.  Constants.lean isolates per fact (see constants.py)."""
    from . import constants, lifecycle, checkgen, kernels, bakekernels, patches, legkernels, gluekernels, exchangeglue, sourceglue, monoglue, bakeglue, setterglue, metrics, brdfglue, smallfn, visfn, stokesfn, kangfn, polyfn, universalfn, kangff, attrfn
    out = {}
    gen = os.path.join(common.LEAN_DIR, 'Sparrow', 'Generated')
    for name, mod in (('Constants', constants), ('Lifecycle', lifecycle), ('Check', checkgen), ('Kernels', kernels), ('BakeKernels', bakekernels), ('Patches', patches), ('LegKernels', legkernels), ('Glue', gluekernels), ('ExchangeGlue', exchangeglue), ('SourceGlue', sourceglue), ('MonoGlue', monoglue), ('BakeGlue', bakeglue), ('SetterGlue', setterglue), ('Metrics', metrics), ('BrdfGlue', brdfglue), ('PointFactor', smallfn), ('VisibilityFn', visfn), ('StokesFn', stokesfn), ('KangFn', kangfn), ('PolygonFn', polyfn), ('UniversalFn', universalfn), ('KangFF', kangff), ('PatchAttrs', attrfn)):
        try:
            text, facts = mod.generate()
        except Exception as e:
            out[name] = {'changed': False, 'facts': None, 'error': repr(e)}
            continue
        files = {name: text}
        if name == 'Check':
            # the parser of the `checkcfg` line protocol is generated together with Cfg
            files['CheckParse'] = checkgen.PARSER_TEXT
        old = {k: _read(os.path.join(gen, k + '.lean')) for k in files}
        changed = False
        for k, v in files.items():
            changed = _write_if_changed(os.path.join(gen, k + '.lean'), v) or changed
        out[name] = {'changed': changed, 'facts': facts}
        if changed and validate is not None:
            rc, log = validate('Sparrow.Generated.' + ('CheckParse' if name == 'Check' else name))
            if rc != 0:
                for k, v in old.items():
                    if v is not None:
                        with open(os.path.join(gen, k + '.lean'), 'w') as f:
                            f.write(v)
                out[name] = {'changed': False, 'facts': None,
                             'error': 'generated %s.lean does not compile: %s' % (name, log[-600:])}
    return out
