"""Translator: /repo source (ast, never imported) -> lean/Sparrow/Generated/*.lean."""
import os
from .. import common


def _write_if_changed(path, text):
    old = None
    if os.path.exists(path):
        with open(path) as f:
            old = f.read()
    if old != text:
        os.makedirs(os.path.dirname(path), exist_ok=True)
        with open(path, 'w') as f:
            f.write(text)
        return True
    return False


def run_all():
    from . import constants, lifecycle, checkgen
    out = {}
    gen = os.path.join(common.LEAN_DIR, 'Sparrow', 'Generated')
    for name, mod in (('Constants', constants), ('Lifecycle', lifecycle), ('Check', checkgen)):
        text, facts = mod.generate()
        changed = _write_if_changed(os.path.join(gen, name + '.lean'), text)
        out[name] = {'changed': changed, 'facts': facts}
    _write_if_changed(os.path.join(gen, 'CheckParse.lean'), checkgen.PARSER_TEXT)
    return out
