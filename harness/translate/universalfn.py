"""Generated/UniversalFn.lean: the form-factor dispatch (sparrowpy/form_factor/universal.py `patch2patch_ff_universal`,
`universal_form_factor`; sparrowpy/geometry.py `_coincidence_check`).

This generator is a *recogniser*: every statement is compared (ast.unparse, docstrings dropped) with the normal form in EXPECTED;
the Lean text emitted is fixed and follows the Python statement by statement.  A change of the text - harmless or not - raises
TranslationError (= broken tie for the properties importing the file).  How the statements are read:

  * the inner loop of `_coincidence_check` with `break` is a fold whose state carries "already left the loop"; the outer loop
    has no `break` and keeps going (the flag, once set, stays set);
  * `integration.stokes_integration(...)` is the RECOGNISED text of Generated/StokesFn.lean (its four `np.empty` scratch
    arrays are parameters); `integration.nusselt_integration(..., nsamples=64)` is an OPAQUE function of its four array
    arguments and the sample count (modelled in Model/Nusselt.lean and tied by correspondence, C06);
  * `np.zeros((n, n))` is the constant 0; `form_factors[i, j] = v` replaces one cell; `int(x)` of an integer array entry is
    the entry; `prange` is `range` (each iteration writes its own cell)."""
import ast
from .pyast import func, src, TranslationError

GEOM = 'sparrowpy/geometry.py'
UNIV = 'sparrowpy/form_factor/universal.py'

EXPECTED = {
    (GEOM, '_coincidence_check'): ('p0: np.ndarray, p1: np.ndarray, thres=1e-06', [
        'flag = False',
        'for i in prange(p0.shape[0]):\n    for j in prange(p1.shape[0]):\n        if np.linalg.norm(p0[i] - p1[j]) < thres:\n'
        '            flag = True\n            break',
        'return flag']),
    (UNIV, 'universal_form_factor'): ('source_pts: np.ndarray, source_normal: np.ndarray, source_area: np.ndarray, '
                                      'receiver_pts: np.ndarray, receiver_normal: np.ndarray', [
        'if geom._coincidence_check(receiver_pts, source_pts):\n'
        '    form_factor = integration.nusselt_integration(patch_i=source_pts, patch_i_normal=source_normal, patch_j=receiver_pts, '
        'patch_j_normal=receiver_normal, nsamples=64)\nelse:\n'
        '    form_factor = integration.stokes_integration(patch_i=source_pts, patch_j=receiver_pts, patch_i_area=source_area)',
        'return form_factor']),
    (UNIV, 'patch2patch_ff_universal'): ('patches_points: np.ndarray, patches_normals: np.ndarray, patches_areas: np.ndarray, '
                                         'visible_patches: np.ndarray', [
        'n_patches = patches_areas.shape[0]',
        'form_factors = np.zeros((n_patches, n_patches))',
        'for visID in prange(visible_patches.shape[0]):\n    i = int(visible_patches[visID, 0])\n    j = int(visible_patches[visID, 1])\n'
        '    form_factors[i, j] = universal_form_factor(patches_points[i], patches_normals[i], patches_areas[i], patches_points[j], '
        'patches_normals[j])',
        'return form_factors']),
}

LEAN = '''/-- recognised from `_coincidence_check` (%(g)s); `thres` is its default `1e-6` -/
def coincidenceCheck [Add α] [Sub α] [Mul α] [Cmp α] [Transc α]
    (thres : α) (p0 p1 : Nat → Nat → α) (n_p0 n_p1 : Nat) : Bool :=
  (List.range n_p0).foldl (fun (flag : Bool) i =>
    ((List.range n_p1).foldl (fun (st_ : Bool × Bool) j =>
      if st_.2 = true then st_
      else if Cmp.lt (Transc.sqrt ((p0 i 0 - p1 j 0) * (p0 i 0 - p1 j 0) + (p0 i 1 - p1 j 1) * (p0 i 1 - p1 j 1) +
          (p0 i 2 - p1 j 2) * (p0 i 2 - p1 j 2))) thres = true then (true, true)
      else st_) (flag, false)).1) false

/-- recognised from `universal_form_factor` (%(u)s); `cut` is the literal `1e-3` of `stokes_integration`; the `*_init_*` are
    the contents of its `np.empty` scratch arrays; `nusselt_integration` is opaque -/
def universalFormFactor [Add α] [Sub α] [Mul α] [Div α] [Zero α] [NatCast α] [Cmp α] [Transc α]
    (thres cut : α) (nusselt_integration : (Nat → Nat → α) → (Nat → α) → (Nat → Nat → α) → (Nat → α) → Nat → α)
    (source_pts : Nat → Nat → α) (n_source : Nat) (source_normal : Nat → α) (source_area : α)
    (receiver_pts : Nat → Nat → α) (n_receiver : Nat) (receiver_normal : Nat → α)
    (pts_init_i pts_init_j : Nat → Nat → α) (conn_init_i conn_init_j : Nat → Nat → Nat) : α :=
  if coincidenceCheck thres receiver_pts source_pts n_receiver n_source = true then
    nusselt_integration source_pts source_normal receiver_pts receiver_normal 64
  else
    stokesIntegration cut source_pts receiver_pts n_source n_receiver source_area pts_init_i pts_init_j conn_init_i conn_init_j

/-- recognised from `patch2patch_ff_universal` (%(u)s): all patches have `n_vertices` vertices -/
def patch2patchFFUniversal [Add α] [Sub α] [Mul α] [Div α] [Zero α] [NatCast α] [Cmp α] [Transc α]
    (thres cut : α) (nusselt_integration : (Nat → Nat → α) → (Nat → α) → (Nat → Nat → α) → (Nat → α) → Nat → α)
    (patches_points : Nat → Nat → Nat → α) (n_vertices : Nat) (patches_normals : Nat → Nat → α) (patches_areas : Nat → α)
    (n_visible : Nat) (visible_patches : Nat → Nat → Nat)
    (pts_init_i pts_init_j : Nat → Nat → α) (conn_init_i conn_init_j : Nat → Nat → Nat) : Nat → Nat → α :=
  let form_factors : Nat → Nat → α := fun _ _ => 0
  (List.range n_visible).foldl (fun (form_factors : Nat → Nat → α) visID =>
    let i : Nat := visible_patches visID 0
    let j : Nat := visible_patches visID 1
    fun p0_ p1_ => if p0_ = i ∧ p1_ = j then
        universalFormFactor thres cut nusselt_integration (fun k_ q_ => patches_points i k_ q_) n_vertices (fun q_ => patches_normals i q_)
          (patches_areas i) (fun k_ q_ => patches_points j k_ q_) n_vertices (fun q_ => patches_normals j q_)
          pts_init_i pts_init_j conn_init_i conn_init_j
      else form_factors p0_ p1_) form_factors
'''


def generate():
    facts = {}
    for (path, name), (sig, want) in EXPECTED.items():
        fn = func(path, name)
        if ast.unparse(fn.args) != sig:
            raise TranslationError('%s: parameters are (%s)' % (name, ast.unparse(fn.args)))
        body = [s for s in fn.body if not (isinstance(s, ast.Expr) and isinstance(s.value, ast.Constant))]
        if len(body) != len(want):
            raise TranslationError('%s: %d statements, the recogniser knows %d' % (name, len(body), len(want)))
        for k, (s, w) in enumerate(zip(body, want)):
            if src(s) != w:
                raise TranslationError('%s: statement %d is not in the recognised form: %s' % (name, k, src(s)[:200]))
        facts[name] = {'statements': sum(1 for _ in ast.walk(fn) if isinstance(_, ast.stmt)), 'mode': 'recogniser'}
    out = ['/- GENERATED by harness/translate/universalfn.py from %s and %s -- do not edit. -/' % (UNIV, GEOM),
           'import Sparrow.Generated.StokesFn', 'set_option linter.unusedVariables false', 'namespace Sparrow.Generated.UniversalFn',
           'open Sparrow Sparrow.Generated.StokesFn', 'variable {α : Type}', '', LEAN % {'g': GEOM, 'u': UNIV},
           'end Sparrow.Generated.UniversalFn']
    return '\n'.join(out) + '\n', facts
