"""Generated/MonoGlue.lean: translation of the METHODS `DirectionalRadiosityFast.calculate_direct_sound` and
`DirectionalRadiosityFast.collect_energy_receiver_mono` (sparrowpy/classes/RadiosityFast.py): the direct sound and
its insertion into the curve summed over the patches.

What is read (anything else raises TranslationError = broken tie for the properties that import the file):
  * type guards `if not isinstance(x, T): raise …` are skipped; the pyfar arithmetic
    `r = (receivers - source_position).radius` IS the parameter `r` (distance source → receiver, one per receiver;
    the `if isinstance(self._source, pf.Coordinates) … else …` that only builds `source_position` is skipped);
  * `np.ones((n, m), dtype=float)`; `A *= v[:, np.newaxis]` (row-wise factor); `A[:, i] *= w` (column `i` times a
    per-receiver factor); `np.exp`, `np.pi`, `x**2`, integer literals cast exactly;
  * `if self._air_attenuation is not None:` — the attribute is an `Option`;
    `isinstance(self._source, SoundSource) and self._source.directivity is not None` — ONE optional opaque function
    `source_get_directivity` (present exactly when both hold) applied to `np.squeeze(receivers.cartesian)` (parameter
    `receivers_cartesian`) and the band's frequency, giving one factor per receiver;
  * `np.array(x, dtype=int)` of non-negative quotients: floor;
  * in `collect_energy_receiver_mono`: the result of `self.collect_energy_receiver_patchwise(receivers)` is the parameter
    `patchwise` (its `.time`, rank 4); `np.sum(X, axis=1)` is the left-to-right sum over the patch axis;
    `self.calculate_direct_sound(receivers)` is the translation above;
    `in_range = d < S; idx = np.arange(len(d))[in_range]; T[idx, :, d[in_range]] += ds[in_range]` is: for every receiver
    `k` with `d_k < S`, `T[k, :, d_k] += ds[k, :]` (the selected receivers are distinct, so the fancy `+=` adds once)."""
import ast
import copy
from .pyast import func, src, dotted, TranslationError
from .kernels import FAST
from .gluekernels import _Self

CLS = 'DirectionalRadiosityFast'


def _guard(st):
    return isinstance(st, ast.If) and not st.orelse and len(st.body) == 1 and isinstance(st.body[0], ast.Raise) \
        and isinstance(st.test, ast.UnaryOp) and isinstance(st.test.op, ast.Not) \
        and isinstance(st.test.operand, ast.Call) and dotted(st.test.operand.func) == 'isinstance'


class Direct:
    py = CLS + '.calculate_direct_sound'

    def __init__(self):
        fn = copy.deepcopy(func(FAST, 'calculate_direct_sound', cls=CLS))
        if [a.arg for a in fn.args.args] != ['self', 'receivers']:
            raise TranslationError('%s: parameters' % self.py)
        self.fn = _Self().visit(fn)
        self.out = []

    def err(self, what, node=None):
        raise TranslationError('%s: %s%s' % (self.py, what, '' if node is None else ': ' + src(node)[:100]))

    def fex(self, e, loopvar=None):
        """float expression evaluated for receiver `p0`"""
        if isinstance(e, ast.Constant) and isinstance(e.value, int) and not isinstance(e.value, bool):
            return '((%d : Nat) : α)' % e.value
        if isinstance(e, ast.Name) and e.id == 'r':
            return 'r p0'
        if isinstance(e, ast.Name) and e.id in ('self_speed_of_sound', 'self_etc_time_resolution'):
            return e.id
        if dotted(e) == 'np.pi':
            return 'Transc.pi'
        if isinstance(e, ast.Subscript) and dotted(e.value) in ('self_air_attenuation', 'self_frequencies') \
                and isinstance(e.slice, ast.Name) and e.slice.id == loopvar:
            return '%s (%s)' % (dotted(e.value), loopvar)
        if isinstance(e, ast.UnaryOp) and isinstance(e.op, ast.USub):
            return '-(%s)' % self.fex(e.operand, loopvar)
        if isinstance(e, ast.BinOp):
            if isinstance(e.op, ast.Pow) and isinstance(e.right, ast.Constant) and e.right.value == 2:
                a = self.fex(e.left, loopvar)
                return '(%s * %s)' % (a, a)
            op = {ast.Add: '+', ast.Sub: '-', ast.Mult: '*', ast.Div: '/'}.get(type(e.op))
            if op:
                return '(%s %s %s)' % (self.fex(e.left, loopvar), op, self.fex(e.right, loopvar))
        if isinstance(e, ast.Call) and dotted(e.func) == 'np.exp' and len(e.args) == 1:
            return 'Transc.exp (%s)' % self.fex(e.args[0], loopvar)
        if isinstance(e, ast.Call) and dotted(e.func) == 'np.real' and len(e.args) == 1:
            return self.fex(e.args[0], loopvar)
        if isinstance(e, ast.Call) and dotted(e.func) == 'self_source.get_directivity' and len(e.args) == 2:
            a = e.args[0]
            if not (isinstance(a, ast.Call) and dotted(a.func) == 'np.squeeze' and dotted(a.args[0]) == 'receivers.cartesian'):
                self.err('argument of get_directivity', e)
            return 'source_get_directivity receivers_cartesian (%s) p0' % self.fex(e.args[1], loopvar)
        self.err('expression', e)

    def column_loop(self, st, ind):
        """for i in range(self_n_bins): direct_sound[:, i] *= <per-receiver factor>"""
        if not (isinstance(st, ast.For) and isinstance(st.target, ast.Name) and isinstance(st.iter, ast.Call)
                and dotted(st.iter.func) == 'range' and len(st.iter.args) == 1 and dotted(st.iter.args[0]) == 'self_n_bins'
                and len(st.body) == 1 and not st.orelse):
            self.err('loop', st)
        i = st.target.id
        b = st.body[0]
        ok = isinstance(b, ast.AugAssign) and isinstance(b.op, ast.Mult) and isinstance(b.target, ast.Subscript) \
            and dotted(b.target.value) == 'direct_sound' and isinstance(b.target.slice, ast.Tuple) and len(b.target.slice.elts) == 2 \
            and isinstance(b.target.slice.elts[0], ast.Slice) and b.target.slice.elts[0].lower is None and b.target.slice.elts[0].upper is None \
            and isinstance(b.target.slice.elts[1], ast.Name) and b.target.slice.elts[1].id == i
        if not ok:
            self.err('loop body', b)
        sp = '  ' * ind
        return (sp + 'let direct_sound := (List.range (self_n_bins)).foldl (fun (st_ : Nat → Nat → α) %s =>\n' % i +
                sp + '    let direct_sound := st_\n' +
                sp + '    let direct_sound : Nat → Nat → α := fun p0 p1 => if p1 = (%s) then direct_sound p0 p1 * %s else direct_sound p0 p1\n' % (i, self.fex(b.value, i)) +
                sp + '    direct_sound\n' + sp + '  ) direct_sound\n')

    def translate(self):
        body = [s for s in self.fn.body if not (isinstance(s, ast.Expr) and isinstance(s.value, ast.Constant))]
        k = 0
        t = ''

        def nxt():
            nonlocal k
            if k >= len(body):
                self.err('statements missing')
            k += 1
            return body[k - 1]
        st = nxt()
        if _guard(st):
            st = nxt()
        # source_position (object) built from self_source
        if isinstance(st, ast.If) and isinstance(st.test, ast.Call) and dotted(st.test.func) == 'isinstance' and dotted(st.test.args[0]) == 'self_source':
            names = {x.id for n in ast.walk(st) if isinstance(n, ast.Assign) for x in n.targets if isinstance(x, ast.Name)}
            if names != {'source_position'}:
                self.err('source branch', st)
            st = nxt()
        # r = (receivers - source_position).radius
        ok = isinstance(st, ast.Assign) and dotted(st.targets[0]) == 'r' and isinstance(st.value, ast.Attribute) and st.value.attr == 'radius' \
            and isinstance(st.value.value, ast.BinOp) and isinstance(st.value.value.op, ast.Sub) \
            and dotted(st.value.value.left) == 'receivers' and dotted(st.value.value.right) == 'source_position'
        if not ok:
            self.err('distance', st)
        st = nxt()
        # direct_sound = np.ones((receivers.cshape[0], self.n_bins), dtype=float)
        ok = isinstance(st, ast.Assign) and dotted(st.targets[0]) == 'direct_sound' and isinstance(st.value, ast.Call) \
            and dotted(st.value.func) == 'np.ones' and isinstance(st.value.args[0], ast.Tuple) and len(st.value.args[0].elts) == 2 \
            and src(st.value.args[0].elts[0]) == 'receivers.cshape[0]' and dotted(st.value.args[0].elts[1]) == 'self_n_bins'
        if not ok:
            self.err('np.ones', st)
        t += '  let direct_sound : Nat → Nat → α := fun _ _ => ((1 : Nat) : α)\n'
        st = nxt()
        # direct_sound *= (<expr in r>)[:, np.newaxis]
        ok = isinstance(st, ast.AugAssign) and isinstance(st.op, ast.Mult) and dotted(st.target) == 'direct_sound' \
            and isinstance(st.value, ast.Subscript) and isinstance(st.value.slice, ast.Tuple) and len(st.value.slice.elts) == 2 \
            and isinstance(st.value.slice.elts[0], ast.Slice) and dotted(st.value.slice.elts[1]) == 'np.newaxis'
        if not ok:
            self.err('spreading loss', st)
        t += '  let direct_sound : Nat → Nat → α := fun p0 p1 => direct_sound p0 p1 * %s\n' % self.fex(st.value.value)
        st = nxt()
        # air attenuation
        ok = isinstance(st, ast.If) and not st.orelse and isinstance(st.test, ast.Compare) and isinstance(st.test.ops[0], ast.IsNot) \
            and dotted(st.test.left) == 'self_air_attenuation' and len(st.body) == 1
        if not ok:
            self.err('attenuation branch', st)
        t += ('  let direct_sound :=\n    match self_air_attenuation with\n    | none => direct_sound\n    | some self_air_attenuation =>\n' +
              self.column_loop(st.body[0], 3) + '      direct_sound\n')
        st = nxt()
        # directivity
        tst = st.test if isinstance(st, ast.If) else None
        ok = tst is not None and not st.orelse and isinstance(tst, ast.BoolOp) and isinstance(tst.op, ast.And) and len(tst.values) == 2 \
            and isinstance(tst.values[0], ast.Call) and dotted(tst.values[0].func) == 'isinstance' and dotted(tst.values[0].args[0]) == 'self_source' \
            and isinstance(tst.values[1], ast.Compare) and isinstance(tst.values[1].ops[0], ast.IsNot) \
            and dotted(tst.values[1].left) == 'self_source.directivity' and len(st.body) == 1
        if not ok:
            self.err('directivity branch', st)
        t += ('  let direct_sound :=\n    match source_get_directivity with\n    | none => direct_sound\n    | some source_get_directivity =>\n' +
              self.column_loop(st.body[0], 3) + '      direct_sound\n')
        st = nxt()
        # n_sample_delay = np.array(r/c/dt, dtype=int)
        ok = isinstance(st, ast.Assign) and dotted(st.targets[0]) == 'n_sample_delay' and isinstance(st.value, ast.Call) \
            and dotted(st.value.func) == 'np.array' and len(st.value.args) == 1 \
            and any(kw.arg == 'dtype' and dotted(kw.value) == 'int' for kw in st.value.keywords)
        if not ok:
            self.err('delay', st)
        t += '  let n_sample_delay : Nat → Nat := fun p0 => ToBin.floorNat (%s)\n' % self.fex(st.value.args[0])
        st = nxt()
        if not (isinstance(st, ast.Return) and isinstance(st.value, ast.Tuple) and [dotted(x) for x in st.value.elts] == ['direct_sound', 'n_sample_delay']):
            self.err('return', st)
        if k != len(body):
            self.err('statements after return')
        t += '  (direct_sound, n_sample_delay)\n'
        head = ('/-- translated from `%s` (%s); `r` is `(receivers - source_position).radius`, `source_get_directivity` is present exactly when '
                'the source is a `SoundSource` with a directivity -/\n'
                'def calculateDirectSound [Add α] [Sub α] [Mul α] [Div α] [Neg α] [ToBin α] [Transc α] [NatCast α]\n'
                '    (r : Nat → α) (receivers_cartesian : Nat → Nat → α) (self_n_bins : Nat) (self_air_attenuation : Option (Nat → α))\n'
                '    (source_get_directivity : Option ((Nat → Nat → α) → α → Nat → α)) (self_frequencies : Nat → α)\n'
                '    (self_speed_of_sound self_etc_time_resolution : α) :\n    (Nat → Nat → α) × (Nat → Nat) :=\n' % (self.py, FAST))
        return head + t


class Mono:
    py = CLS + '.collect_energy_receiver_mono'

    def __init__(self):
        fn = copy.deepcopy(func(FAST, 'collect_energy_receiver_mono', cls=CLS))
        if [a.arg for a in fn.args.args] != ['self', 'receivers', 'direct_sound']:
            raise TranslationError('%s: parameters' % self.py)
        self.fn = _Self().visit(fn)

    def err(self, what, node=None):
        raise TranslationError('%s: %s%s' % (self.py, what, '' if node is None else ': ' + src(node)[:100]))

    def translate(self):
        body = [s for s in self.fn.body if not (isinstance(s, ast.Expr) and isinstance(s.value, ast.Constant))]
        pats = [
            lambda s: _guard(s),
            lambda s: src(s) == 'etc = self_collect_energy_receiver_patchwise(receivers)',
            lambda s: src(s) == 'etc.time = np.sum(etc.time, axis=1)',
        ]
        if len(body) != 5:
            self.err('statement count %d' % len(body))
        for p_, s in zip(pats, body[:3]):
            if not p_(s):
                self.err('statement', s)
        st = body[3]
        if not (isinstance(st, ast.If) and dotted(st.test) == 'direct_sound' and not st.orelse and len(st.body) == 4):
            self.err('direct-sound branch', st)
        want = ['direct_sound, n_sample_delay = self_calculate_direct_sound(receivers)',
                'in_range = n_sample_delay < etc.time.shape[-1]',
                'i_receivers = np.arange(len(n_sample_delay))[in_range]',
                'etc.time[i_receivers, :, n_sample_delay[in_range]] += direct_sound[in_range]']
        for w, s in zip(want, st.body):
            if src(s) != w:
                self.err('direct-sound statement (expected `%s`)' % w, s)
        if src(body[4]) != 'return etc':
            self.err('return', body[4])
        return ('/-- translated from `%s` (%s); `patchwise` is the `.time` of `collect_energy_receiver_patchwise(receivers)` with its shape '
                '(receivers, patches, bands, bins); the other parameters are those of `calculateDirectSound` -/\n'
                'def collectEnergyReceiverMono [Add α] [Sub α] [Mul α] [Div α] [Neg α] [Zero α] [ToBin α] [Transc α] [NatCast α]\n'
                '    (patchwise : Nat → Nat → Nat → Nat → α) (n_receivers n_patches n_bands n_samples : Nat) (direct_sound : Bool)\n'
                '    (r : Nat → α) (receivers_cartesian : Nat → Nat → α) (self_n_bins : Nat) (self_air_attenuation : Option (Nat → α))\n'
                '    (source_get_directivity : Option ((Nat → Nat → α) → α → Nat → α)) (self_frequencies : Nat → α)\n'
                '    (self_speed_of_sound self_etc_time_resolution : α) :\n    Nat → Nat → Nat → α :=\n'
                '  let etc_time : Nat → Nat → Nat → α := fun p0 p1 p2 => (List.range (n_patches)).foldl (fun acc_ k_ => acc_ + patchwise p0 k_ p1 p2) 0\n'
                '  let etc_time :=\n    if direct_sound = true then\n'
                '      let ds_ := calculateDirectSound r receivers_cartesian self_n_bins self_air_attenuation source_get_directivity self_frequencies self_speed_of_sound self_etc_time_resolution\n'
                '      let direct_sound : Nat → Nat → α := ds_.1\n      let n_sample_delay : Nat → Nat := ds_.2\n'
                '      let in_range : Nat → Bool := fun p0 => decide (n_sample_delay p0 < n_samples)\n'
                '      let etc_time : Nat → Nat → Nat → α := fun p0 p1 p2 => if in_range p0 = true ∧ p2 = n_sample_delay p0 then etc_time p0 p1 p2 + direct_sound p0 p1 else etc_time p0 p1 p2\n'
                '      etc_time\n    else\n      etc_time\n  etc_time\n' % (self.py, FAST))


def generate():
    out = ['/- GENERATED by harness/translate/monoglue.py from %s -- do not edit. -/' % FAST,
           'import Sparrow.Model.Basic', 'set_option linter.unusedVariables false', 'namespace Sparrow.Generated.MonoGlue',
           'open Sparrow', 'variable {α : Type}', '']
    d, m = Direct(), Mono()
    out += [d.translate(), m.translate(), 'end Sparrow.Generated.MonoGlue']
    facts = {'calculate_direct_sound': {'statements': sum(1 for _ in ast.walk(d.fn) if isinstance(_, ast.stmt))},
             'collect_energy_receiver_mono': {'statements': sum(1 for _ in ast.walk(m.fn) if isinstance(_, ast.stmt))}}
    return '\n'.join(out) + '\n', facts
