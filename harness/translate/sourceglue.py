"""Generated/SourceGlue.lean: `DirectionalRadiosityFast.init_source_energy` (see gluekernels.K6)."""
from .gluekernels import generate_source as generate  # noqa: F401
