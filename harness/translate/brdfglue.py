"""Generated/BrdfGlue.lean: `sparrowpy.brdf.create_from_scattering` and `create_from_directional_scattering`.

A *recogniser* (as bakeglue.py): every statement must equal its normal form in EXPECTED; the Lean text is fixed and renders the
array statements one by one.  Readings: the type guards (`if not isinstance(…): raise TypeError(…)`, matched by shape, their message text is not pinned) and the optional file output do not touch `brdf`; a missing absorption is
the zero vector; `receiver_weights *= 2 * np.pi / np.sum(receiver_weights)` rescales by `(2π)/Σw` (sum left to right);
`receiver_directions.find_nearest(image_source)[0][0]` is an OPAQUE index map `i_receiver` (the outgoing sample nearest to the
mirror image of each incoming direction); `cos_factor` has shape (receivers, sources): `cos(colat_src[s]) * w[r]`, and is read at
`[i, i_receiver[i]]`; the fancy-index `+=` over the pairs `(i, i_receiver[i])` adds once per incoming direction (the pairs are
distinct); broadcasting of `(n_r, 1)` and `(1, n_r, 1)` against `(n_s, n_r, B)` is along the receiver axis."""
import ast
from .pyast import func, src, TranslationError

BRDF = 'sparrowpy/brdf.py'
EXPECTED = {'create_from_scattering': (['source_directions', 'receiver_directions', 'scattering_coefficient', 'absorption_coefficient', 'file_path'], ["if not isinstance(scattering_coefficient, pf.FrequencyData) or not scattering_coefficient.cshape == (1,):\n    raise TypeError('scattering_coefficient must be a pf.FrequencyData objectwith shape (1,)')", "if not isinstance(source_directions, pf.Coordinates):\n    raise TypeError('source_directions must be a pf.Coordinates object')", "if not isinstance(receiver_directions, pf.Coordinates):\n    raise TypeError('receiver_directions must be a pf.Coordinates object')", 'if absorption_coefficient is None:\n    absorption_coefficient = pf.FrequencyData(np.zeros_like(scattering_coefficient.frequencies), scattering_coefficient.frequencies)', 'brdf = np.zeros((source_directions.csize, receiver_directions.csize, scattering_coefficient.n_bins))', 'receiver_weights = receiver_directions.weights', 'receiver_weights *= 2 * np.pi / np.sum(receiver_weights)', 'scattering_flattened = np.real(scattering_coefficient.freq.flatten())', 'image_source = source_directions.copy()', 'image_source.azimuth += np.pi', 'i_receiver = receiver_directions.find_nearest(image_source)[0][0]', 'cos_factor = np.cos(source_directions.colatitude[np.newaxis, ...]) * receiver_weights[..., np.newaxis]', 'scattering_factor = 1 - scattering_flattened[np.newaxis, ...]', 'brdf[:, :, :] += scattering_flattened / np.pi', 'i_sources = np.arange(source_directions.csize)', 'brdf[i_sources, i_receiver, :] += scattering_factor / cos_factor[i_sources, i_receiver, np.newaxis]', 'brdf *= 1 - absorption_coefficient.freq.flatten()', "if file_path is not None:\n    sofa = _create_sofa(pf.FrequencyData(brdf, scattering_coefficient.frequencies), source_directions, receiver_directions, history='constructed brdf based on scattering coefficients')\n    sf.write_sofa(file_path, sofa)", 'return pf.FrequencyData(brdf, scattering_coefficient.frequencies)']), 'create_from_directional_scattering': (['source_directions', 'receiver_directions', 'directional_scattering', 'absorption_coefficient', 'file_path'], ["if not isinstance(source_directions, pf.Coordinates):\n    raise TypeError('source_directions must be a pf.Coordinates object')", "if not isinstance(receiver_directions, pf.Coordinates):\n    raise TypeError('receiver_directions must be a pf.Coordinates object')", "if not isinstance(directional_scattering, pf.FrequencyData) or not directional_scattering.cshape == (source_directions.csize, receiver_directions.csize):\n    raise TypeError(f'directional_scattering must be a pf.FrequencyData object with cshape ({(source_directions.csize, receiver_directions.csize)})')", 'if absorption_coefficient is None:\n    absorption_coefficient = pf.FrequencyData(np.zeros_like(directional_scattering.frequencies), directional_scattering.frequencies)', 'cos_receiver = np.cos(receiver_directions.colatitude)[np.newaxis, :, np.newaxis]', 'receiver_weights = receiver_directions.weights', 'receiver_weights *= 2 * np.pi / np.sum(receiver_weights)', 'receiver_factor = receiver_weights[..., np.newaxis]', 'brdf = directional_scattering.freq / receiver_factor / cos_receiver', 'brdf *= 1 - absorption_coefficient.freq.flatten()', "if file_path is not None:\n    sofa = _create_sofa(pf.FrequencyData(brdf, directional_scattering.frequencies), source_directions, receiver_directions, history='constructed brdf based on directional scattering')\n    sf.write_sofa(file_path, sofa)", 'return pf.FrequencyData(brdf, absorption_coefficient.frequencies)'])}

LEAN = '''/-- recognised from `create_from_scattering` (%s): entry (incoming `i`, outgoing `o`, band `b`) -/
def createFromScattering [Add α] [Sub α] [Mul α] [Div α] [Zero α] [One α] [Transc α] [NatCast α]
    (n_s n_r : Nat) (cos_colatitude_src : Nat → α) (receiver_weights : Nat → α) (scattering absorption : Nat → α)
    (i_receiver : Nat → Nat) : Nat → Nat → Nat → α :=
  let brdf : Nat → Nat → Nat → α := fun _ _ _ => 0
  let wsum_ : α := (List.range n_r).foldl (fun acc_ k_ => acc_ + receiver_weights k_) 0
  let receiver_weights : Nat → α := fun k_ => receiver_weights k_ * (((2 : Nat) : α) * Transc.pi / wsum_)
  let scattering_flattened : Nat → α := scattering
  let cos_factor : Nat → Nat → α := fun r_ s_ => cos_colatitude_src s_ * receiver_weights r_
  let scattering_factor : Nat → α := fun b_ => ((1 : Nat) : α) - scattering_flattened b_
  let brdf : Nat → Nat → Nat → α := fun p0 p1 p2 => brdf p0 p1 p2 + scattering_flattened p2 / Transc.pi
  let brdf : Nat → Nat → Nat → α := fun p0 p1 p2 =>
    if p1 = i_receiver p0 then brdf p0 p1 p2 + scattering_factor p2 / cos_factor p0 (i_receiver p0) else brdf p0 p1 p2
  let brdf : Nat → Nat → Nat → α := fun p0 p1 p2 => brdf p0 p1 p2 * (((1 : Nat) : α) - absorption p2)
  brdf

/-- recognised from `create_from_directional_scattering` (%s) -/
def createFromDirectionalScattering [Add α] [Sub α] [Mul α] [Div α] [Zero α] [Transc α] [NatCast α]
    (n_s n_r : Nat) (cos_colatitude_rec : Nat → α) (receiver_weights : Nat → α) (directional_scattering : Nat → Nat → Nat → α)
    (absorption : Nat → α) : Nat → Nat → Nat → α :=
  let cos_receiver : Nat → α := cos_colatitude_rec
  let wsum_ : α := (List.range n_r).foldl (fun acc_ k_ => acc_ + receiver_weights k_) 0
  let receiver_weights : Nat → α := fun k_ => receiver_weights k_ * (((2 : Nat) : α) * Transc.pi / wsum_)
  let receiver_factor : Nat → α := receiver_weights
  let brdf : Nat → Nat → Nat → α := fun p0 p1 p2 => directional_scattering p0 p1 p2 / receiver_factor p1 / cos_receiver p1
  let brdf : Nat → Nat → Nat → α := fun p0 p1 p2 => brdf p0 p1 p2 * (((1 : Nat) : α) - absorption p2)
  brdf
'''


def generate():
    n = 0
    for name, (args, want) in EXPECTED.items():
        fn = func(BRDF, name)
        if [a.arg for a in fn.args.args] != args:
            raise TranslationError('%s: parameters' % name)
        body = [s for s in fn.body if not (isinstance(s, ast.Expr) and isinstance(s.value, ast.Constant))]
        if len(body) != len(want):
            raise TranslationError('%s: %d statements, the recogniser knows %d' % (name, len(body), len(want)))
        for k, (s, w) in enumerate(zip(body, want)):
            if w.startswith('if not isinstance(') and '\n    raise TypeError(' in w and isinstance(s, ast.If) and not s.orelse \
                    and len(s.body) == 1 and isinstance(s.body[0], ast.Raise):
                continue        # a type guard: it raises or does nothing; its message text is not pinned
            if src(s) != w:
                raise TranslationError('%s: statement %d is not in the recognised form: %s' % (name, k, src(s)[:160]))
        n += sum(1 for _ in ast.walk(fn) if isinstance(_, ast.stmt))
    out = ['/- GENERATED by harness/translate/brdfglue.py from %s -- do not edit. -/' % BRDF, 'import Sparrow.Model.Basic',
           'set_option linter.unusedVariables false', 'namespace Sparrow.Generated.BrdfGlue', 'open Sparrow', 'variable {α : Type}', '',
           LEAN % (BRDF, BRDF), 'end Sparrow.Generated.BrdfGlue']
    return '\n'.join(out) + '\n', {'brdf': {'statements': n, 'mode': 'recogniser'}}
