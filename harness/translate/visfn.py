"""Generated/VisibilityFn.lean: the line-of-sight test of `sparrowpy/geometry.py`.

`_project_to_plane` (for `check_normal=False`, the only way it is called in 3-D) and `_basic_visibility` are translated BY RULE
(smallfn.py's rules plus: Boolean variables and `and` / `or` / `not`; float comparisons `<` `>`; `x = None` and `if x is not
None` — the variable is an `Option`; a parameter fixed at translation time (`check_normal`); `np.divide`; keyword calls;
`_point_in_polygon(point3d=, polygon3d=, plane_normal=)` is an OPAQUE Boolean function of the point (the membership test is
modelled and tied separately, C07); an `if`/`elif` chain that only sets one Boolean variable is a nested conditional
expression).  The two scans `_check_point2patch_visibility` and `_check_patch2patch_visibility` are RECOGNISED (normal forms
below): `while flag and k != n: flag = test(k); k += 1` starting from `flag = True`, `k = 0` is the conjunction of `test(k)`
over `k = 0 … n-1`, evaluated left to right with early exit (the tests have no side effects)."""
import ast
from .pyast import func, src, dotted, TranslationError
from . import smallfn
from .smallfn import F, GEOM, ty

CLSV = '[Add α] [Sub α] [Mul α] [Div α] [Neg α] [Zero α] [Cmp α] [Transc α] [NatCast α]'


class FV(F):
    def __init__(self, pyname, lean, params, consts=None, defaults=None):
        self.file, self.py, self.lean, self.mode = GEOM, pyname, lean, None
        self.fn = func(GEOM, pyname)
        self.consts = consts or {}
        self.defaults = defaults or {}
        args = [a.arg for a in self.fn.args.args]
        want = [p for p, _ in params] + list(self.defaults) + list(self.consts)
        if sorted(args) != sorted(want):
            raise TranslationError('%s: parameters are %s' % (pyname, args))
        self.params = params
        self.env = dict(params)
        for d in self.defaults:
            self.env[d] = 'f'
        self.out, self.depth, self.ret = [], 1, None

    def kind(self, e):
        if isinstance(e, ast.Name) and e.id in self.consts:
            return 'b'
        if isinstance(e, (ast.Compare, ast.BoolOp)) or (isinstance(e, ast.UnaryOp) and isinstance(e.op, ast.Not)):
            return 'b'
        if isinstance(e, ast.Constant) and isinstance(e.value, bool):
            return 'b'
        if isinstance(e, ast.Constant) and e.value is None:
            return 'none'
        if isinstance(e, ast.Call) and dotted(e.func) == '_point_in_polygon':
            return 'b'
        if isinstance(e, ast.Call) and dotted(e.func) == '_project_to_plane':
            return 'ov'
        if isinstance(e, ast.Call) and dotted(e.func) == 'np.divide':
            return 'f'
        return F.kind(self, e)

    def scal(self, e):
        if isinstance(e, ast.Call) and dotted(e.func) == 'np.divide' and len(e.args) == 2:
            return '(%s / %s)' % (self.scal(e.args[0]), self.scal(e.args[1]))
        return F.scal(self, e)

    def vec(self, e, q):
        if isinstance(e, ast.Name) and self.env.get(e.id) == 'v':
            return '%s (%s)' % (e.id, q)
        return F.vec(self, e, q)

    def boolx(self, e):
        """Lean Bool text"""
        if isinstance(e, ast.Constant) and isinstance(e.value, bool):
            return 'true' if e.value else 'false'
        if isinstance(e, ast.Name) and e.id in self.consts:
            return 'true' if self.consts[e.id] else 'false'
        if isinstance(e, ast.Name) and self.env.get(e.id) == 'b':
            return e.id
        if isinstance(e, ast.UnaryOp) and isinstance(e.op, ast.Not):
            return '(!%s)' % self.boolx(e.operand)
        if isinstance(e, ast.BoolOp):
            op = ' && ' if isinstance(e.op, ast.And) else ' || '
            return '(' + op.join(self.boolx(v) for v in e.values) + ')'
        if isinstance(e, ast.Compare) and len(e.ops) == 1 and isinstance(e.ops[0], (ast.Lt, ast.Gt)):
            a, b = self.scal(e.left), self.scal(e.comparators[0])
            if isinstance(e.ops[0], ast.Gt):
                a, b = b, a
            return 'Cmp.lt (%s) (%s)' % (a, b)
        if isinstance(e, ast.Call) and dotted(e.func) == '_point_in_polygon' and not e.args:
            kw = {k.arg: k.value for k in e.keywords}
            if sorted(kw) != ['plane_normal', 'point3d', 'polygon3d'] or dotted(kw['polygon3d']) != 'surf_points' \
                    or dotted(kw['plane_normal']) != 'surf_normal':
                self.err('call', e)
            return 'point_in_polygon (fun q_ => %s)' % self.vec(kw['point3d'], 'q_')
        self.err('Boolean expression', e)

    def stmt(self, s):
        if isinstance(s, ast.Expr) and isinstance(s.value, ast.Constant):
            return
        if self.ret is not None:
            self.err('statement after return', s)
        if isinstance(s, ast.Return) and isinstance(s.value, ast.Name) and self.env.get(s.value.id) in ('b', 'ov'):
            self.ret_kind = self.env[s.value.id]
            self.ret = s.value.id
            return
        if isinstance(s, ast.Assign) and len(s.targets) == 1 and isinstance(s.targets[0], ast.Name):
            name, v = s.targets[0].id, s.value
            k = self.kind(v)
            if k == 'b':
                self.emit('let %s : Bool := %s' % (name, self.boolx(v)))
                self.env[name] = 'b'
                return
            if k == 'ov' and isinstance(v, ast.Call):
                kw = {x.arg: x.value for x in v.keywords}
                if v.args or sorted(kw) != ['check_normal', 'origin', 'plane_normal', 'plane_pt', 'point'] \
                        or not (isinstance(kw['check_normal'], ast.Constant) and kw['check_normal'].value is False):
                    self.err('call', v)
                args = ' '.join('(fun q_ => %s)' % self.vec(kw[a], 'q_') for a in ('origin', 'point', 'plane_pt', 'plane_normal'))
                self.emit('let %s : Option (Nat → α) := projectToPlaneT thr %s eps' % (name, args))
                self.env[name] = 'ov'
                return
        # if not <const>: x = … (decided at translation time)
        if isinstance(s, ast.If) and not s.orelse and isinstance(s.test, ast.UnaryOp) and isinstance(s.test.op, ast.Not) \
                and isinstance(s.test.operand, ast.Name) and s.test.operand.id in self.consts:
            if not self.consts[s.test.operand.id]:
                for b in s.body:
                    self.stmt(b)
            return
        # if cond: v = vec … else: v = None     (cond a Boolean variable)
        if isinstance(s, ast.If) and isinstance(s.test, ast.Name) and self.env.get(s.test.id) == 'b' and len(s.orelse) == 1 \
                and isinstance(s.orelse[0], ast.Assign) and isinstance(s.orelse[0].value, ast.Constant) and s.orelse[0].value.value is None:
            name = s.orelse[0].targets[0].id
            saved = dict(self.env)
            self.emit('let %s : Option (Nat → α) :=' % name)
            self.depth += 1
            self.emit('if %s = true then' % s.test.id)
            self.depth += 1
            for b in s.body:
                self.stmt(b)
            if self.env.get(name) != 'v':
                self.err('the branch does not define %s as a vector' % name, s)
            self.emit('some %s' % name)
            self.depth -= 1
            self.emit('else none')
            self.depth -= 1
            self.env = saved
            self.env[name] = 'ov'
            return
        # an if/elif chain that only sets one Boolean variable to False
        if isinstance(s, ast.If) and self._sets_only(s, 'is_visible'):
            self.emit('let is_visible : Bool := %s' % self.chain(s))
            return
        return F.stmt(self, s)

    def _sets_only(self, s, name):
        for n in ast.walk(s):
            if isinstance(n, ast.Assign):
                t = n.targets[0]
                if not (isinstance(t, ast.Name) and (t.id == name or t.id == 'pt')):
                    return False
        return self.env.get(name) == 'b'

    def chain(self, s):
        """Bool expression: value of `is_visible` after the statement `s` (an If), given its value before"""
        c = self.boolx(s.test)
        then = self.seq(s.body)
        if s.orelse:
            els = self.chain(s.orelse[0]) if len(s.orelse) == 1 and isinstance(s.orelse[0], ast.If) else self.seq(s.orelse)
        else:
            els = 'is_visible'
        return '(if %s = true then %s else %s)' % (c, then, els)

    def seq(self, body):
        """value of is_visible after a block consisting of (pt = project…; if pt is not None: …) | (is_visible = False) | nested ifs"""
        if len(body) == 1 and isinstance(body[0], ast.Assign) and dotted(body[0].targets[0]) == 'is_visible' \
                and isinstance(body[0].value, ast.Constant) and body[0].value.value is False:
            return 'false'
        if len(body) == 1 and isinstance(body[0], ast.If):
            st = body[0]
            if isinstance(st.test, ast.Compare) and isinstance(st.test.ops[0], ast.IsNot) and dotted(st.test.left) == 'pt' and not st.orelse:
                saved = dict(self.env)
                self.env['pt'] = 'v'
                inner = self.seq(st.body)
                self.env = saved
                return '(match pt with | none => is_visible | some pt => %s)' % inner
            return self.chain(st)
        if len(body) == 2 and isinstance(body[0], ast.Assign) and dotted(body[0].targets[0]) == 'pt':
            v = body[0].value
            kw = {x.arg: x.value for x in v.keywords} if isinstance(v, ast.Call) and dotted(v.func) == '_project_to_plane' else None
            if kw is None or v.args or sorted(kw) != ['check_normal', 'origin', 'plane_normal', 'plane_pt', 'point'] \
                    or not (isinstance(kw['check_normal'], ast.Constant) and kw['check_normal'].value is False):
                self.err('call', body[0])
            args = ' '.join('(fun q_ => %s)' % self.vec(kw[a], 'q_') for a in ('origin', 'point', 'plane_pt', 'plane_normal'))
            rest = self.seq(body[1:])
            return '(let pt : Option (Nat → α) := projectToPlaneT thr %s eps; %s)' % (args, rest)
        self.err('block', body[0])

    def translate(self):
        for s in self.fn.body:
            self.stmt(s)
        if self.ret is None:
            self.err('no return')
        sig = ['(thr : α)']
        if self.py == '_basic_visibility':
            sig.append('(point_in_polygon : (Nat → α) → Bool)')
        for p, k in self.params:
            sig.append('(%s : %s)' % (p, ty(k)))
            if k == 'p':
                sig.append('(n_%s : Nat)' % p)
        for d in self.defaults:
            sig.append('(%s : α)' % d)
        if self.py == '_basic_visibility':
            sig.append('(eps : α)')
        rt = {'b': 'Bool', 'ov': 'Option (Nat → α)'}[self.ret_kind]
        extra = '; `check_normal` is False' if self.consts else ''
        doc = '/-- translated from `%s` (%s)%s; `%s` is its default `1e-6`%s -/' % (
            self.py, GEOM, extra, list(self.defaults)[0], '; `eps` the default `epsilon` of `_project_to_plane`; `point_in_polygon p` stands for '
            '`_point_in_polygon(p, surf_points, surf_normal)`' if self.py == '_basic_visibility' else '')
        return '\n'.join([doc, 'def %s %s' % (self.lean, CLSV), '    ' + ' '.join(sig) + ' :', '    %s :=' % rt] + self.out + ['  ' + self.ret]) + '\n'


SCAN_EXPECTED = {
    '_check_point2patch_visibility': (['eval_point', 'patches_center', 'surf_normal', 'surf_points'], [
        "n_patches = patches_center.shape[0]",
        "visibility_vector = np.ones(n_patches, dtype=np.bool_)",
        "for i in prange(n_patches):\n    surfid = 0\n    while visibility_vector[i] and surfid != len(surf_normal):\n"
        "        visibility_vector[i] = _basic_visibility(eval_point, patches_center[i], surf_points[surfid], surf_normal[surfid])\n"
        "        surfid += 1",
        "return visibility_vector"]),
    '_check_patch2patch_visibility': (['patches_center', 'surf_normal', 'surf_points'], [
        "n_patches = patches_center.shape[0]",
        "visibility_matrix = np.empty((n_patches, n_patches), dtype=np.bool_)",
        "visibility_matrix.fill(False)",
        "indexes = []",
        "for i_source in range(n_patches):\n    for i_receiver in range(n_patches):\n        if i_source < i_receiver:\n"
        "            indexes.append((i_source, i_receiver))\n            visibility_matrix[i_source, i_receiver] = True",
        "indexes = np.array(indexes)",
        "for i in prange(indexes.shape[0]):\n    i_source = indexes[i, 0]\n    i_receiver = indexes[i, 1]\n    surfid = 0\n"
        "    while visibility_matrix[i_source, i_receiver] and surfid != len(surf_normal):\n"
        "        visibility_matrix[i_source, i_receiver] = _basic_visibility(patches_center[i_source], patches_center[i_receiver], "
        "surf_points[surfid], surf_normal[surfid])\n        surfid += 1",
        "return visibility_matrix"]),
}

SCAN_LEAN = '''/-- recognised from `_check_point2patch_visibility` (%s): entry `i` of the result; `basic_visibility a b s` stands for
    `_basic_visibility(a, b, surf_points[s], surf_normal[s])` -/
def checkPoint2PatchVisibility (basic_visibility : (Nat → α) → (Nat → α) → Nat → Bool)
    (eval_point : Nat → α) (patches_center : Nat → Nat → α) (n_surf : Nat) (i : Nat) : Bool :=
  (List.range n_surf).all fun surfid => basic_visibility eval_point (fun q_ => patches_center i q_) surfid

/-- recognised from `_check_patch2patch_visibility` (%s): entry `(i, j)` of the result (only the upper triangle is examined) -/
def checkPatch2PatchVisibility (basic_visibility : (Nat → α) → (Nat → α) → Nat → Bool)
    (patches_center : Nat → Nat → α) (n_surf : Nat) (i j : Nat) : Bool :=
  if i < j then
    (List.range n_surf).all fun surfid => basic_visibility (fun q_ => patches_center i q_) (fun q_ => patches_center j q_) surfid
  else false
'''


def generate():
    import copy
    fs = [FV('_project_to_plane', 'projectToPlaneT', [('origin', 'v'), ('point', 'v'), ('plane_pt', 'v'), ('plane_normal', 'v')],
             consts={'check_normal': False}, defaults={'epsilon': 1e-6}),
          FV('_basic_visibility', 'basicVisibilityT', [('vis_point', 'v'), ('eval_point', 'v'), ('surf_points', 'p'), ('surf_normal', 'v')],
             defaults={'eta': 1e-6})]
    out = ['/- GENERATED by harness/translate/visfn.py from %s -- do not edit. -/' % GEOM, 'import Sparrow.Model.Basic',
           'set_option linter.unusedVariables false', 'namespace Sparrow.Generated.VisibilityFn', 'open Sparrow', 'variable {α : Type}', '']
    facts = {}
    for f in fs:
        out.append(f.translate())
        facts[f.lean] = {'statements': sum(1 for _ in ast.walk(f.fn) if isinstance(_, ast.stmt))}
    for name, (args, want) in SCAN_EXPECTED.items():
        fn = func(GEOM, name)
        if [a.arg for a in fn.args.args] != args:
            raise TranslationError('%s: parameters' % name)
        body = [s for s in fn.body if not (isinstance(s, ast.Expr) and isinstance(s.value, ast.Constant))]
        if len(body) != len(want):
            raise TranslationError('%s: %d statements, the recogniser knows %d' % (name, len(body), len(want)))
        for k, (s, w) in enumerate(zip(body, want)):
            if src(s) != w:
                raise TranslationError('%s: statement %d is not in the recognised form: %s' % (name, k, src(s)[:160]))
    out += [SCAN_LEAN % (GEOM, GEOM), 'end Sparrow.Generated.VisibilityFn']
    facts['scans'] = {'mode': 'recogniser', 'functions': list(SCAN_EXPECTED)}
    return '\n'.join(out) + '\n', facts
