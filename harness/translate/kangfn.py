"""Generated/KangFn.lean: the Kang engine's numeric core (sparrowpy/classes/RadiosityKang.py).

  * `_init_energy_exchange` (first-order energy of a patch, Kang eq. 6) is TRANSLATED BY RULE:
      - values: float scalars, Booleans (`a <= b`), arrays over the band (`absorption[i]`, `energies[i] = e`), naturals;
      - scalars: `+ - * /`, unary minus, integer literals cast exactly, `np.sqrt`, `np.square(x)` as `x * x`, `np.arctan`,
        `np.exp`, `np.abs`, `np.pi`; the literal `1e-11` is the parameter `thr11` (its value is tied by Generated/Constants.lean);
      - `x = e`; `t = a <= b`; `k = A if t1 and t2 else B`; `if a < 1e-11: x *= e` (no else: `x` keeps its value otherwise);
        `E = np.zeros(n)`; `for i in range(n)` over assignments and `E[i] = e` (a fold over the array); `return E`.
    Anything else raises TranslationError.
  * `_add_delay`, the per-patch body of `PatchesKang.init_energy_exchange` and the loop nest of
    `PatchesKang.calculate_energy_exchange` are RECOGNISED: each statement is compared (ast.unparse, docstrings dropped) with the
    normal form in EXPECTED_*; the Lean text emitted for it is fixed.  A change of their text - harmless or not - is noticed.
    How they are read: `np.roll(ir, d)[t] = ir[(t - d) mod n]`, then the first `d` cells are zeroed; `raise` = `none`;
    `.copy()` is the value; `v[i] = s` replaces one component; `int(x)` is the floor of a non-negative number;
    `self.E_matrix[:, 0, i_receiver, delay_samples] += energy` adds `energy[b]` to band `b` at that bin (dropped by the caller of the
    generated function when the bin is outside the histogram - numpy raises IndexError there, recorded as D5-like behaviour of
    the Kang engine in the correspondence, not modelled here); `wall.get_form_factor(patches_list, i_source, self.wall_id,
    i_receiver)` is an opaque number `form_factor`; `wall.E_matrix[f, k-1, i_source, :]` is the histogram `A_k_minus_1`.
  * also recognised: the body of `PatchesKang.energy_at_receiver` (Kang eq. 20 per patch, order and band), the direct-sound branch of
    `RadiosityKang.energy_at_receiver` and the call schedule of `RadiosityKang.run` (rendered as the list of calls it makes)."""
import ast
import copy
from .pyast import func, src, dotted, TranslationError

KANG = 'sparrowpy/classes/RadiosityKang.py'
CLS = '[Add α] [Sub α] [Mul α] [Div α] [Neg α] [Zero α] [Cmp α] [Transc α] [NatCast α]'
CLSB = '[Add α] [Sub α] [Mul α] [Div α] [Neg α] [Zero α] [Cmp α] [Transc α] [NatCast α] [ToBin α]'


class K:
    def __init__(self, fn, params):
        self.fn = fn
        self.py = fn.name
        args = [a.arg for a in fn.args.args]
        if args != [p for p, _ in params]:
            raise TranslationError('%s: parameters are %s' % (self.py, args))
        self.params = params
        self.env = dict(params)
        self.out = []
        self.depth = 1
        self.ret = None

    def err(self, what, node=None):
        raise TranslationError('%s: %s%s' % (self.py, what, '' if node is None else ': ' + src(node)[:100]))

    def emit(self, t):
        self.out.append('  ' * self.depth + t)

    def nat(self, e):
        if isinstance(e, ast.Constant) and isinstance(e.value, int) and not isinstance(e.value, bool) and e.value >= 0:
            return str(e.value)
        if isinstance(e, ast.Name) and self.env.get(e.id) == 'n':
            return e.id
        self.err('integer expression', e)

    def isint(self, e):
        return (isinstance(e, ast.Constant) and isinstance(e.value, int) and not isinstance(e.value, bool)) or \
            (isinstance(e, ast.Name) and self.env.get(e.id) == 'n')

    def scal(self, e):
        if self.isint(e):
            return '((%s : Nat) : α)' % self.nat(e)
        if isinstance(e, ast.Name) and self.env.get(e.id) == 'f':
            return e.id
        if dotted(e) == 'np.pi':
            return 'Transc.pi'
        if isinstance(e, ast.UnaryOp) and isinstance(e.op, ast.USub):
            return '-(%s)' % self.scal(e.operand)
        if isinstance(e, ast.BinOp):
            op = {ast.Add: '+', ast.Sub: '-', ast.Mult: '*', ast.Div: '/'}.get(type(e.op))
            if op:
                return '(%s %s %s)' % (self.scal(e.left), op, self.scal(e.right))
        if isinstance(e, ast.Subscript) and isinstance(e.value, ast.Name) and self.env.get(e.value.id) == 'a':
            return '%s (%s)' % (e.value.id, self.nat(e.slice))
        if isinstance(e, ast.Call) and len(e.args) == 1 and not e.keywords:
            f = dotted(e.func)
            a = e.args[0]
            if f == 'np.sqrt':
                return 'Transc.sqrt (%s)' % self.scal(a)
            if f == 'np.arctan':
                return 'Transc.atan (%s)' % self.scal(a)
            if f == 'np.exp':
                return 'Transc.exp (%s)' % self.scal(a)
            if f == 'np.abs':
                return 'Cmp.abs (%s)' % self.scal(a)
            if f == 'np.square':
                x = self.scal(a)
                return '(%s * %s)' % (x, x)
        self.err('scalar expression', e)

    def stmt(self, s):
        if isinstance(s, ast.Expr) and isinstance(s.value, ast.Constant):
            return
        if self.ret is not None:
            self.err('statement after return', s)
        if isinstance(s, ast.Return):
            if isinstance(s.value, ast.Name) and self.env.get(s.value.id) == 'a':
                self.ret = s.value.id
                return
            self.err('return value', s)
        if isinstance(s, ast.Assign) and len(s.targets) == 1 and isinstance(s.targets[0], ast.Name):
            name, v = s.targets[0].id, s.value
            if isinstance(v, ast.Compare) and len(v.ops) == 1 and isinstance(v.ops[0], ast.LtE):
                self.emit('let %s : Bool := Cmp.le (%s) (%s)' % (name, self.scal(v.left), self.scal(v.comparators[0])))
                self.env[name] = 'b'
                return
            if isinstance(v, ast.IfExp):
                t = v.test
                if not (isinstance(t, ast.BoolOp) and isinstance(t.op, ast.And) and
                        all(isinstance(x, ast.Name) and self.env.get(x.id) == 'b' for x in t.values)):
                    self.err('condition of a conditional expression', v)
                self.emit('let %s : α := if (%s) = true then %s else %s' % (name, ' && '.join(x.id for x in t.values),
                                                                             self.scal(v.body), self.scal(v.orelse)))
                self.env[name] = 'f'
                return
            if isinstance(v, ast.Call) and dotted(v.func) == 'np.zeros' and len(v.args) == 1 and not v.keywords and self.isint(v.args[0]):
                self.emit('let %s : Nat → α := fun _ => 0' % name)
                self.env[name] = 'a'
                return
            self.emit('let %s : α := %s' % (name, self.scal(v)))
            self.env[name] = 'f'
            return
        if isinstance(s, ast.Assign) and len(s.targets) == 1 and isinstance(s.targets[0], ast.Subscript) \
                and isinstance(s.targets[0].value, ast.Name) and self.env.get(s.targets[0].value.id) == 'a':
            a = s.targets[0].value.id
            self.emit('let %s : Nat → α := fun k_ => if k_ = %s then %s else %s k_' % (a, self.nat(s.targets[0].slice), self.scal(s.value), a))
            return
        if isinstance(s, ast.If) and not s.orelse and len(s.body) == 1 and isinstance(s.body[0], ast.AugAssign) \
                and isinstance(s.body[0].target, ast.Name) and self.env.get(s.body[0].target.id) == 'f' \
                and isinstance(s.body[0].op, ast.Mult) and isinstance(s.test, ast.Compare) and len(s.test.ops) == 1 \
                and isinstance(s.test.ops[0], ast.Lt):
            r = s.test.comparators[0]
            if not (isinstance(r, ast.Constant) and r.value == 1e-11):
                self.err('threshold', s.test)
            x = s.body[0].target.id
            self.emit('let %s : α := if Cmp.lt (%s) thr11 = true then %s * %s else %s' % (x, self.scal(s.test.left), x, self.scal(s.body[0].value), x))
            return
        if isinstance(s, ast.For):
            if not (isinstance(s.target, ast.Name) and isinstance(s.iter, ast.Call) and dotted(s.iter.func) == 'range'
                    and len(s.iter.args) == 1 and not s.orelse):
                self.err('loop header', s)
            n = self.nat(s.iter.args[0])
            var = s.target.id
            state = []
            for b in s.body:
                if isinstance(b, ast.Assign) and isinstance(b.targets[0], ast.Subscript) and isinstance(b.targets[0].value, ast.Name):
                    if b.targets[0].value.id not in state:
                        state.append(b.targets[0].value.id)
                elif isinstance(b, ast.Assign) and isinstance(b.targets[0], ast.Name):
                    if b.targets[0].id in self.env:
                        self.err('loop re-binds an outer name', b)
                else:
                    self.err('statement in loop', b)
            if len(state) != 1:
                self.err('loop state', s)
            st = state[0]
            self.emit('let %s : Nat → α := (List.range (%s)).foldl (fun (st_ : Nat → α) %s =>' % (st, n, var))
            saved = dict(self.env)
            self.env[var] = 'n'
            self.depth += 2
            self.emit('let %s := st_' % st)
            for b in s.body:
                self.stmt(b)
            self.emit(st)
            self.depth -= 1
            self.emit(') %s' % st)
            self.depth -= 1
            self.env = saved
            return
        self.err('statement', s)

    def translate(self, lean):
        for s in self.fn.body:
            self.stmt(s)
        if self.ret is None:
            self.err('no return')
        sig = ['(thr11 : α)'] + ['(%s : %s)' % (p, {'f': 'α', 'n': 'Nat', 'a': 'Nat → α'}[k]) for p, k in self.params]
        doc = '/-- translated by rule from `%s` (%s); `thr11` is the literal `1e-11`; result: energy per band -/' % (self.py, KANG)
        return '\n'.join([doc, 'def %s %s' % (lean, CLS), '    ' + ' '.join(sig) + ' :', '    Nat → α :='] + self.out + ['  ' + self.ret]) + '\n'


# ---------------------------------------------------------------------------------------------------------------- recognisers

EXPECTED_ADD_DELAY = [
    "if delay_samples > ir.shape[axis]:\n    raise ValueError(f'length of ir is longer then ir delay is {delay_samples} > {ir.shape[-1]}')",
    "ir_delayed = np.roll(ir, delay_samples, axis=axis)",
    "wrapped = [slice(None)] * ir_delayed.ndim",
    "wrapped[axis] = slice(0, delay_samples)",
    "ir_delayed[tuple(wrapped)] = 0",
    "return ir_delayed",
]

LEAN_ADD_DELAY = '''/-- recognised from `_add_delay` (%s) for a one-dimensional `ir` of length `n_ir` (`axis = -1`): `none` is the ValueError -/
def addDelay [Zero α] (ir : Nat → α) (n_ir delay_samples : Nat) : Option (Nat → α) :=
  if delay_samples > n_ir then none
  else
    let ir_delayed : Nat → α := fun t_ => ir ((t_ + n_ir - delay_samples %% n_ir) %% n_ir)
    let ir_delayed : Nat → α := fun t_ => if t_ < delay_samples then 0 else ir_delayed t_
    some ir_delayed
'''

EXPECTED_INIT_HEAD = [
    "self.E_sampling_rate = sampling_rate",
    "self.E_n_samples = int(ir_length_s * sampling_rate)",
    "self.E_matrix = np.zeros((self.n_bins, max_order_k + 1, len(self.patches), self.E_n_samples))",
]
EXPECTED_INIT_LOOP = "for i_receiver, receiver_patch in enumerate(self.patches):"
EXPECTED_INIT_BODY = [
    "source_pos = source.position.copy()",
    "receiver_pos = receiver_patch.center.copy()",
    "distance = np.linalg.norm(receiver_pos - source_pos)",
    "delay_seconds = distance / speed_of_sound",
    "delay_samples = int(delay_seconds * self.E_sampling_rate)",
    "if np.abs(receiver_patch.normal[2]) > 0.99:\n    i = 2\n    indexes = [0, 1, 2]\n"
    "elif np.abs(receiver_patch.normal[1]) > 0.99:\n    indexes = [2, 0, 1]\n    i = 1\n"
    "elif np.abs(receiver_patch.normal[0]) > 0.99:\n    i = 0\n    indexes = [1, 2, 0]\n"
    "else:\n    raise AssertionError()",
    "offset = receiver_pos[i]",
    "source_pos[i] = np.abs(source_pos[i] - offset)",
    "receiver_pos[i] = np.abs(receiver_pos[i] - offset)",
    "dl = receiver_pos[indexes[0]]",
    "dm = receiver_pos[indexes[1]]",
    "dn = receiver_pos[indexes[2]]",
    "dd_l = receiver_patch.size[indexes[0]]",
    "dd_m = receiver_patch.size[indexes[1]]",
    "S_x = source_pos[indexes[0]]",
    "S_y = source_pos[indexes[1]]",
    "S_z = source_pos[indexes[2]]",
    "energy = _init_energy_exchange(dl, dm, dn, dd_l, dd_m, S_x, S_y, S_z, source.sound_power, self.absorption, distance, self.sound_attenuation_factor, self.n_bins)",
    "self.E_matrix[:, 0, i_receiver, delay_samples] += energy",
]

LEAN_INIT = '''/-- recognised from the per-patch body of `PatchesKang.init_energy_exchange` (%s): the bin and the per-band energy that
    `self.E_matrix[:, 0, i_receiver, delay_samples] += energy` adds for one patch (`none` = AssertionError: no axis of the normal
    exceeds 0.99).  `thr99` is the literal `0.99`; `E_sampling_rate` is the `sampling_rate` argument (first statement of the method). -/
def initEnergyExchangePatch %s
    (thr99 thr11 : α) (source_position center normal size : Nat → α) (sound_power : α) (absorption attenuation : Nat → α)
    (n_bins : Nat) (speed_of_sound sampling_rate : α) : Option (Nat × (Nat → α)) :=
  let source_pos : Nat → α := source_position
  let receiver_pos : Nat → α := center
  let distance : α := Transc.sqrt ((receiver_pos 0 - source_pos 0) * (receiver_pos 0 - source_pos 0) +
    (receiver_pos 1 - source_pos 1) * (receiver_pos 1 - source_pos 1) + (receiver_pos 2 - source_pos 2) * (receiver_pos 2 - source_pos 2))
  let delay_seconds : α := distance / speed_of_sound
  let delay_samples : Nat := ToBin.floorNat (delay_seconds * sampling_rate)
  let sel_ : Option (Nat × (Nat → Nat)) :=
    if Cmp.lt thr99 (Cmp.abs (normal 2)) = true then some (2, fun k_ => if k_ = 0 then 0 else if k_ = 1 then 1 else 2)
    else if Cmp.lt thr99 (Cmp.abs (normal 1)) = true then some (1, fun k_ => if k_ = 0 then 2 else if k_ = 1 then 0 else 1)
    else if Cmp.lt thr99 (Cmp.abs (normal 0)) = true then some (0, fun k_ => if k_ = 0 then 1 else if k_ = 1 then 2 else 0)
    else none
  sel_.map fun (i, indexes) =>
    let offset : α := receiver_pos i
    let source_pos : Nat → α := fun q_ => if q_ = i then Cmp.abs (source_pos i - offset) else source_pos q_
    let receiver_pos : Nat → α := fun q_ => if q_ = i then Cmp.abs (receiver_pos i - offset) else receiver_pos q_
    let dl : α := receiver_pos (indexes 0)
    let dm : α := receiver_pos (indexes 1)
    let dn : α := receiver_pos (indexes 2)
    let dd_l : α := size (indexes 0)
    let dd_m : α := size (indexes 1)
    let S_x : α := source_pos (indexes 0)
    let S_y : α := source_pos (indexes 1)
    let S_z : α := source_pos (indexes 2)
    let energy : Nat → α := initEnergyExchange thr11 dl dm dn dd_l dd_m S_x S_y S_z sound_power absorption distance attenuation n_bins
    (delay_samples, energy)
'''

EXPECTED_EXCHANGE = (
    "k = current_order_k",
    "for i_receiver, receiver_patch in enumerate(self.patches):\n"
    "    receiver = receiver_patch.center\n"
    "    for wall_id in self.other_wall_ids:\n"
    "        wall = patches_list[wall_id]\n"
    "        for i_source, source_patch in enumerate(wall.patches):\n"
    "            source = source_patch.center\n"
    "            distance = np.linalg.norm(receiver - source)\n"
    "            delay_seconds = distance / speed_of_sound\n"
    "            delay_samples = int(delay_seconds * E_sampling_rate)\n"
    "            for i_frequency in range(self.n_bins):\n"
    "                A_k_minus_1 = wall.E_matrix[i_frequency, k - 1, i_source, :]\n"
    "                A_k_minus1_delay = _add_delay(A_k_minus_1, delay_samples)\n"
    "                form_factor = wall.get_form_factor(patches_list, i_source, self.wall_id, i_receiver)\n"
    "                alpha = self.absorption[i_frequency]\n"
    "                energy = A_k_minus1_delay * form_factor * self.scattering[i_frequency] * (1 - alpha) * np.exp(-self.sound_attenuation_factor[i_frequency] * distance)\n"
    "                self.E_matrix[i_frequency, k, i_receiver, :] += energy",
)

LEAN_EXCHANGE = '''/-- recognised from the innermost body of `PatchesKang.calculate_energy_exchange` (%s): what one source patch of another wall
    adds to `self.E_matrix[i_frequency, k, i_receiver, :]` (`none` = the ValueError of `_add_delay`).  `receiver` / `source` are the two
    patch centres, `A_k_minus_1` is `wall.E_matrix[i_frequency, k-1, i_source, :]` (length `n_samples`), `form_factor` the value of
    `wall.get_form_factor(patches_list, i_source, self.wall_id, i_receiver)`; `self_absorption`, `self_scattering`,
    `self_sound_attenuation_factor` belong to the RECEIVING wall (`self`). -/
def exchangeContribution %s
    (receiver source : Nat → α) (speed_of_sound E_sampling_rate : α) (A_k_minus_1 : Nat → α) (n_samples : Nat) (form_factor : α)
    (self_absorption self_scattering self_sound_attenuation_factor : Nat → α) (i_frequency : Nat) : Option (Nat → α) :=
  let distance : α := Transc.sqrt ((receiver 0 - source 0) * (receiver 0 - source 0) +
    (receiver 1 - source 1) * (receiver 1 - source 1) + (receiver 2 - source 2) * (receiver 2 - source 2))
  let delay_seconds : α := distance / speed_of_sound
  let delay_samples : Nat := ToBin.floorNat (delay_seconds * E_sampling_rate)
  (addDelay A_k_minus_1 n_samples delay_samples).map fun A_k_minus1_delay =>
    let alpha : α := self_absorption i_frequency
    let energy : Nat → α := fun t_ => A_k_minus1_delay t_ * form_factor * self_scattering i_frequency * (((1 : Nat) : α) - alpha) *
      Transc.exp (-(self_sound_attenuation_factor i_frequency) * distance)
    energy

/-- the loop nest of `calculate_energy_exchange` seen from one cell: `self.E_matrix[f, k, i_receiver, t]` after the call is its value
    before plus, wall by wall in the order of `self.other_wall_ids` and patch by patch, the contributions above.
    `walls` lists for every other wall its patches as (centre, order-(k-1) histogram, form factor towards `i_receiver`). -/
def exchangeCell %s
    (before : α) (receiver : Nat → α) (speed_of_sound E_sampling_rate : α) (n_samples : Nat)
    (walls : List (List ((Nat → α) × (Nat → α) × α)))
    (self_absorption self_scattering self_sound_attenuation_factor : Nat → α) (i_frequency t : Nat) : Option α :=
  walls.foldl (fun acc_ wall => wall.foldl (fun acc_ p_ =>
    match acc_, exchangeContribution receiver p_.1 speed_of_sound E_sampling_rate p_.2.1 n_samples p_.2.2
        self_absorption self_scattering self_sound_attenuation_factor i_frequency with
    | some a_, some e_ => some (a_ + e_ t)
    | _, _ => none) acc_) (some before)
'''


EXPECTED_RECV = [
    "energy_response = np.zeros((self.n_bins, self.E_n_samples))",
    "for i_source, source_patch in enumerate(self.patches):\n    source_pos = source_patch.center\n    receiver_pos = receiver.position\n"
    "    difference = np.abs(receiver_pos - source_pos)\n    R = np.linalg.norm(source_pos - receiver_pos)\n"
    "    delay = int(R / speed_of_sound * sampling_rate)\n"
    "    cos_xi = np.abs(np.sum(source_patch.normal * difference)) / np.linalg.norm(source_pos - receiver_pos)\n"
    "    for k in range(max_order + 1):\n        for i_frequency in range(self.n_bins):\n"
    "            energy = self.E_matrix[i_frequency, k, i_source, :]\n            delayed_energy = _add_delay(energy, delay)\n"
    "            factor = cos_xi * np.exp(-self.sound_attenuation_factor[i_frequency] * R) / (np.pi * R ** 2)\n"
    "            receiver_energy = delayed_energy * factor\n            if factor < 0:\n                print(factor)\n"
    "            energy_response[i_frequency, ...] += receiver_energy",
    "return energy_response",
]

EXPECTED_RUN = [
    "self.source = source",
    "for patches in self.patch_list:\n    patches.init_energy_exchange(self.max_order_k, self.ir_length_s, source, sampling_rate=self.sampling_rate, speed_of_sound=self.speed_of_sound)",
    "if len(self.patch_list) > 1:\n    for patches in self.patch_list:\n        patches.calculate_form_factor(self.patch_list)",
    "if len(self.patch_list) > 1:\n    for k in range(1, self.max_order_k + 1):\n        for patches in self.patch_list:\n"
    "            patches.calculate_energy_exchange(self.patch_list, k, speed_of_sound=self.speed_of_sound, E_sampling_rate=self.sampling_rate)",
]

EXPECTED_ROOM_RECV = [
    "ir = 0",
    "if max_order_k is None:\n    max_order_k = self.max_order_k",
    "M_value = self.patch_list[0].sound_attenuation_factor",
    "for patches in self.patch_list:\n    ir += patches.energy_at_receiver(max_order_k, receiver, speed_of_sound=self.speed_of_sound, sampling_rate=self.sampling_rate)",
    "if not ignore_direct:\n    r = np.sqrt(np.sum((receiver.position - self.source.position) ** 2))\n"
    "    direct_sound = 1 / (4 * np.pi * np.square(r)) * np.exp(-M_value * r)\n"
    "    delay_dir = int(r / self.speed_of_sound * self.sampling_rate)\n    ir[:, delay_dir] += direct_sound",
    "return ir",
]

LEAN_RECV = '''/-- recognised from the body of `PatchesKang.energy_at_receiver` (%(k)s): what order `k` of one patch adds to
    `energy_response[i_frequency, :]` (`none` = the ValueError of `_add_delay`; the `print` of a negative factor has no effect on the
    result).  `energy` is `self.E_matrix[i_frequency, k, i_source, :]` of length `n_samples`. -/
def receiverContribution %(c)s
    (source_pos receiver_pos normal : Nat → α) (speed_of_sound sampling_rate : α) (energy : Nat → α) (n_samples : Nat)
    (self_sound_attenuation_factor : Nat → α) (i_frequency : Nat) : Option (Nat → α) :=
  let difference : Nat → α := fun q_ => Cmp.abs (receiver_pos q_ - source_pos q_)
  let R : α := Transc.sqrt ((source_pos 0 - receiver_pos 0) * (source_pos 0 - receiver_pos 0) +
    (source_pos 1 - receiver_pos 1) * (source_pos 1 - receiver_pos 1) + (source_pos 2 - receiver_pos 2) * (source_pos 2 - receiver_pos 2))
  let delay : Nat := ToBin.floorNat (R / speed_of_sound * sampling_rate)
  let cos_xi : α := Cmp.abs (normal 0 * difference 0 + normal 1 * difference 1 + normal 2 * difference 2) / R
  (addDelay energy n_samples delay).map fun delayed_energy =>
    let factor : α := cos_xi * Transc.exp (-(self_sound_attenuation_factor i_frequency) * R) / (Transc.pi * (R * R))
    fun t_ => delayed_energy t_ * factor

/-- the loops of `PatchesKang.energy_at_receiver` seen from one cell `energy_response[i_frequency, t]`: patch by patch and order by
    order (`k = 0 .. max_order`).  `patches` lists (centre, normal, histograms by order). -/
def receiverCell %(c)s
    (receiver_pos : Nat → α) (speed_of_sound sampling_rate : α) (n_samples max_order : Nat)
    (patches : List ((Nat → α) × (Nat → α) × (Nat → Nat → α))) (self_sound_attenuation_factor : Nat → α) (i_frequency t : Nat) : Option α :=
  patches.foldl (fun acc_ p_ => (List.range (max_order + 1)).foldl (fun acc_ k =>
    match acc_, receiverContribution p_.1 receiver_pos p_.2.1 speed_of_sound sampling_rate (p_.2.2 k) n_samples
        self_sound_attenuation_factor i_frequency with
    | some a_, some e_ => some (a_ + e_ t)
    | _, _ => none) acc_) (some 0)

/-- recognised from the direct-sound branch of `RadiosityKang.energy_at_receiver` (%(k)s): the bin and the per-band value added by
    `ir[:, delay_dir] += direct_sound`; `M_value` is the attenuation of the FIRST wall -/
def directSoundKang %(c)s
    (receiver_position source_position : Nat → α) (M_value : Nat → α) (speed_of_sound sampling_rate : α) : Nat × (Nat → α) :=
  let r : α := Transc.sqrt ((receiver_position 0 - source_position 0) * (receiver_position 0 - source_position 0) +
    (receiver_position 1 - source_position 1) * (receiver_position 1 - source_position 1) +
    (receiver_position 2 - source_position 2) * (receiver_position 2 - source_position 2))
  let direct_sound : Nat → α := fun b_ => ((1 : Nat) : α) / (((4 : Nat) : α) * Transc.pi * (r * r)) * Transc.exp (-(M_value b_) * r)
  let delay_dir : Nat := ToBin.floorNat (r / speed_of_sound * sampling_rate)
  (delay_dir, direct_sound)

/-- the calls `RadiosityKang.run` makes, in order (recognised): `init w`, then (more than one wall) `formFactor w`, then for
    `k = 1 .. max_order_k` `exchange w k`, each for all walls `w` in list order -/
inductive KangCall where
  | init (w : Nat) | formFactor (w : Nat) | exchange (w k : Nat)
  deriving DecidableEq, Repr

def runSchedule (n_walls max_order_k : Nat) : List KangCall :=
  (List.range n_walls).map KangCall.init ++
  (if n_walls > 1 then (List.range n_walls).map KangCall.formFactor else []) ++
  (if n_walls > 1 then (List.range max_order_k).flatMap fun k_ => (List.range n_walls).map fun w => KangCall.exchange w (k_ + 1) else [])
'''


def _body(fn):
    return [s for s in fn.body if not (isinstance(s, ast.Expr) and isinstance(s.value, ast.Constant))]


def _match(what, stmts, expected):
    if len(stmts) != len(expected):
        raise TranslationError('%s: %d statements, the recogniser knows %d' % (what, len(stmts), len(expected)))
    for k, (s, want) in enumerate(zip(stmts, expected)):
        got = src(s)
        if got != want:
            raise TranslationError('%s: statement %d is not in the recognised form: %s' % (what, k, got[:200]))


def generate():
    facts = {}
    f1 = func(KANG, '_init_energy_exchange')
    t1 = K(f1, [('dl', 'f'), ('dm', 'f'), ('dn', 'f'), ('dd_l', 'f'), ('dd_m', 'f'), ('S_x', 'f'), ('S_y', 'f'), ('S_z', 'f'),
                ('sound_power', 'f'), ('absorption', 'a'), ('distance', 'f'), ('attenuation', 'a'), ('n_bins', 'n')]).translate('initEnergyExchange')
    facts['_init_energy_exchange'] = {'statements': sum(1 for _ in ast.walk(f1) if isinstance(_, ast.stmt)), 'mode': 'rules'}

    f2 = func(KANG, '_add_delay')
    a2 = f2.args
    if [a.arg for a in a2.args] != ['ir', 'delay_samples', 'axis'] or len(a2.defaults) != 1 or src(a2.defaults[0]) != '-1':
        raise TranslationError('_add_delay: parameters')
    _match('_add_delay', _body(f2), EXPECTED_ADD_DELAY)
    facts['_add_delay'] = {'statements': len(EXPECTED_ADD_DELAY), 'mode': 'recogniser'}

    f3 = func(KANG, 'init_energy_exchange', cls='PatchesKang')
    if [a.arg for a in f3.args.args] != ['self', 'max_order_k', 'ir_length_s', 'source', 'sampling_rate', 'speed_of_sound']:
        raise TranslationError('init_energy_exchange: parameters')
    b3 = _body(f3)
    _match('init_energy_exchange (head)', b3[:-1], EXPECTED_INIT_HEAD)
    loop = b3[-1]
    if not (isinstance(loop, ast.For) and not loop.orelse and src(loop).split('\n')[0] == EXPECTED_INIT_LOOP):
        raise TranslationError('init_energy_exchange: loop header')
    _match('init_energy_exchange (loop body)', loop.body, EXPECTED_INIT_BODY)
    facts['init_energy_exchange'] = {'statements': sum(1 for _ in ast.walk(f3) if isinstance(_, ast.stmt)), 'mode': 'recogniser'}

    f4 = func(KANG, 'calculate_energy_exchange', cls='PatchesKang')
    if [a.arg for a in f4.args.args] != ['self', 'patches_list', 'current_order_k', 'speed_of_sound', 'E_sampling_rate']:
        raise TranslationError('calculate_energy_exchange: parameters')
    _match('calculate_energy_exchange', _body(f4), EXPECTED_EXCHANGE)
    facts['calculate_energy_exchange'] = {'statements': sum(1 for _ in ast.walk(f4) if isinstance(_, ast.stmt)), 'mode': 'recogniser'}

    f5 = func(KANG, 'energy_at_receiver', cls='PatchesKang')
    if [a.arg for a in f5.args.args] != ['self', 'max_order', 'receiver', 'speed_of_sound', 'sampling_rate']:
        raise TranslationError('PatchesKang.energy_at_receiver: parameters')
    _match('PatchesKang.energy_at_receiver', _body(f5), EXPECTED_RECV)
    facts['PatchesKang.energy_at_receiver'] = {'statements': sum(1 for _ in ast.walk(f5) if isinstance(_, ast.stmt)), 'mode': 'recogniser'}
    f6 = func(KANG, 'run', cls='RadiosityKang')
    if [a.arg for a in f6.args.args] != ['self', 'source']:
        raise TranslationError('RadiosityKang.run: parameters')
    _match('RadiosityKang.run', _body(f6), EXPECTED_RUN)
    facts['RadiosityKang.run'] = {'statements': sum(1 for _ in ast.walk(f6) if isinstance(_, ast.stmt)), 'mode': 'recogniser'}
    f7 = func(KANG, 'energy_at_receiver', cls='RadiosityKang')
    if ast.unparse(f7.args) != 'self, receiver, max_order_k=None, ignore_direct=False':
        raise TranslationError('RadiosityKang.energy_at_receiver: parameters')
    _match('RadiosityKang.energy_at_receiver', _body(f7), EXPECTED_ROOM_RECV)
    facts['RadiosityKang.energy_at_receiver'] = {'statements': sum(1 for _ in ast.walk(f7) if isinstance(_, ast.stmt)), 'mode': 'recogniser'}

    out = ['/- GENERATED by harness/translate/kangfn.py from %s -- do not edit. -/' % KANG, 'import Sparrow.Model.Basic',
           'set_option linter.unusedVariables false', 'namespace Sparrow.Generated.KangFn', 'open Sparrow', 'variable {α : Type}', '',
           t1, LEAN_ADD_DELAY % KANG, LEAN_INIT % (KANG, CLSB), LEAN_EXCHANGE % (KANG, CLSB, CLSB), LEAN_RECV % {'k': KANG, 'c': CLSB}, 'end Sparrow.Generated.KangFn']
    return '\n'.join(out) + '\n', facts
