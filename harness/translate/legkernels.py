"""Generated/LegKernels.lean: translation of the two kernels of the source leg and the receiver leg of the fast
engine — `_source2patch_energy_universal` and `_patch2receiver_energy_universal`
(sparrowpy/form_factor/universal.py) — in the style of kernels.py / bakekernels.py.

Additional constructs (everything else raises TranslationError):
  * `X.copy()` of an array expression is that expression (arrays are values here);
  * `integration.pt_solution(point=P, patch_points=Q, mode="source" | "receiver")` is an OPAQUE function of
    its two array arguments, one parameter of the generated definition per mode (`pt_solution_source`,
    `pt_solution_receiver`): the theorems hold for every such function, the point-to-patch factor itself
    is modelled and tied separately (Model/PointPatch.lean, C04);
  * `if B[j]:` on an element of a Boolean array; `if X is not None: … else: …` on an optional array;
  * `np.zeros((n))` with a parenthesised scalar; a tuple of arrays as the result."""
import ast
from .pyast import func, src, dotted, TranslationError
from .kernels import K, Arr, P
from .bakekernels import K2

UNIV = 'sparrowpy/form_factor/universal.py'
SPEC3 = {
    '_source2patch_energy_universal': {
        'lean': 'source2patchEnergyUniversal',
        'arrays': {'source_position': 1, 'patches_center': 2, 'patches_points': 3, 'source_visibility': 1,
                   'air_attenuation': 1},
        'bool_arrays': ['source_visibility'], 'opt_arrays': ['air_attenuation'],
        'nat_scalars': ['n_bins'], 'float_scalars': [], 'ret': [2, 1], 'opaque': ['source']},
    '_patch2receiver_energy_universal': {
        'lean': 'patch2receiverEnergyUniversal',
        'arrays': {'receiver_pos': 1, 'patches_points': 3, 'receiver_visibility': 1},
        'bool_arrays': ['receiver_visibility'],
        'nat_scalars': [], 'float_scalars': [], 'ret': [1], 'opaque': ['receiver']},
}
ORDER3 = ['_source2patch_energy_universal', '_patch2receiver_energy_universal']


def _strip_copy(e):
    if isinstance(e, ast.Call) and isinstance(e.func, ast.Attribute) and e.func.attr == 'copy' and not e.args and not e.keywords:
        return e.func.value
    return e


class K3(K2):
    def __init__(self, pyname):
        self.py = pyname
        self.spec = SPEC3[pyname]
        self.fn = func(UNIV, pyname)
        self.arr = {}
        self.scal_nat = set(self.spec['nat_scalars'])
        self.scal_float = set(self.spec['float_scalars'])
        self.bools = set(self.spec.get('bool_arrays', []))
        self.opt = set(self.spec.get('opt_arrays', []))
        self.unwrapped = set()
        for a, r in self.spec['arrays'].items():
            self.arr[a] = Arr(a, r, ['%s_shape_%d' % (a, k) for k in range(r)], False)
        args = [a.arg for a in self.fn.args.args]
        want = list(self.spec['arrays']) + self.spec['nat_scalars'] + self.spec['float_scalars']
        if sorted(args) != sorted(want):
            raise TranslationError('%s: parameters are %s' % (pyname, args))
        self.params = args

    def rank_of(self, e):
        return K2.rank_of(self, _strip_copy(e))

    def shape_of(self, e):
        return K2.shape_of(self, _strip_copy(e))

    def rhs_at(self, e, env, coords):
        return K2.rhs_at(self, _strip_copy(e), env, coords)

    def scalar(self, e, env):
        if isinstance(e, ast.Call) and dotted(e.func) == 'integration.pt_solution' and not e.args:
            kw = {k.arg: k.value for k in e.keywords}
            if sorted(kw) != ['mode', 'patch_points', 'point'] or not isinstance(kw['mode'], ast.Constant) \
                    or kw['mode'].value not in self.spec['opaque']:
                raise TranslationError('%s: call %s' % (self.py, src(e)))
            pt, pp = kw['point'], kw['patch_points']
            if self.rank_of(pt) != 1 or self.rank_of(pp) != 2:
                raise TranslationError('%s: arguments of %s' % (self.py, src(e)))
            s1, s2 = self.shape_of(pt), self.shape_of(pp)
            a1 = self.rhs_at(pt, env, [(0, 'q_', s1[0])])
            a2 = self.rhs_at(pp, env, [(0, 'v_', s2[0]), (1, 'q_', s2[1])])
            return 'pt_solution_%s (fun q_ => %s) (fun v_ q_ => %s)' % (kw['mode'].value, a1, a2), 'float'
        return K2.scalar(self, e, env)

    def cond(self, e, env):
        if isinstance(e, ast.Subscript) and dotted(e.value) in self.bools:
            t, kd = self.scalar(e, env)
            return '%s = true' % t
        return K2.cond(self, e, env)

    def block(self, body, env, ind, tail):
        if not body:
            return tail
        st, rest = body[0], body[1:]
        sp = '  ' * ind
        cont = lambda env_=env: self.block(rest, env_, ind, tail)
        if isinstance(st, ast.Return) and isinstance(st.value, ast.Tuple):
            names = [dotted(x) for x in st.value.elts]
            if [self.arr[n].rank if n in self.arr else None for n in names] != self.spec['ret']:
                raise TranslationError('%s: return %s' % (self.py, src(st)))
            return sp + '(%s)' % ', '.join(names)
        if isinstance(st, ast.Return) and isinstance(st.value, ast.Name):
            if [self.arr[st.value.id].rank if st.value.id in self.arr else None] != self.spec['ret']:
                raise TranslationError('%s: return %s' % (self.py, src(st)))
            return sp + st.value.id
        # np.zeros((n)): a parenthesised scalar
        if isinstance(st, ast.Assign) and len(st.targets) == 1 and isinstance(st.targets[0], ast.Name) \
                and isinstance(st.value, ast.Call) and dotted(st.value.func) == 'np.zeros' and len(st.value.args) == 1 \
                and not isinstance(st.value.args[0], ast.Tuple) and not st.value.keywords:
            n_, kd = self.scalar(st.value.args[0], env)
            if kd != 'nat':
                raise TranslationError('%s: shape %s' % (self.py, src(st.value)))
            name = st.targets[0].id
            self.arr[name] = Arr(name, 1, [n_])
            return sp + 'let %s : %s := fun _ => 0\n' % (name, self.fn_type(1)) + cont()
        # `if X is not None: … else: …` on an optional array parameter
        if isinstance(st, ast.If) and isinstance(st.test, ast.Compare) and isinstance(st.test.ops[0], ast.IsNot) \
                and dotted(st.test.left) in self.opt and st.orelse:
            x = dotted(st.test.left)
            arrays = self.assigned_arrays(st.body + st.orelse)
            if not arrays:
                raise TranslationError('%s: `%s is not None` without array updates' % (self.py, x))
            tup = arrays[0] if len(arrays) == 1 else '(%s)' % ', '.join(arrays)
            was = x in self.unwrapped
            self.unwrapped.add(x)
            t1 = self.block(st.body, env, ind + 2, '  ' * (ind + 2) + tup)
            if not was:
                self.unwrapped.discard(x)
            t2 = self.block(st.orelse, env, ind + 2, '  ' * (ind + 2) + tup)
            return (sp + 'let %s :=\n' % tup + sp + '  match %s with\n' % x + sp + '  | some %s =>\n' % x + t1 + '\n' +
                    sp + '  | none =>\n' + t2 + '\n' + cont())
        # `if B[j]:` on an element of a Boolean array
        if isinstance(st, ast.If) and isinstance(st.test, ast.Subscript) and dotted(st.test.value) in self.bools and not st.orelse:
            c = self.cond(st.test, env)
            saved = dict(self.arr)
            arrays = self.assigned_arrays(st.body)
            if not arrays:
                raise TranslationError('%s: branch without array updates' % self.py)
            tup = arrays[0] if len(arrays) == 1 else '(%s)' % ', '.join(arrays)
            inner = self.block(st.body, env, ind + 2, '  ' * (ind + 2) + tup)
            # arrays first defined inside the branch are local to it
            for k in list(self.arr):
                if k not in saved:
                    del self.arr[k]
            return (sp + 'let %s :=\n' % tup + sp + '  if %s then\n' % c + inner + '\n' + sp + '  else\n' +
                    '  ' * (ind + 2) + tup + '\n' + cont())
        return K2.block(self, body, env, ind, tail)

    def emit(self):
        sig = []
        for m in self.spec['opaque']:
            sig.append('(pt_solution_%s : (Nat → α) → (Nat → Nat → α) → α)' % m)
        for p in self.params:
            if p in self.arr:
                A = self.arr[p]
                sig += ['(%s : Nat)' % s for s in A.shape]
                sig.append('(%s : %s)' % (p, self.fn_type_param(p)))
            elif p in self.scal_nat:
                sig.append('(%s : Nat)' % p)
            else:
                sig.append('(%s : α)' % p)
        body = self.block(self.fn.body, {}, 1, '')
        ret = ' × '.join('(%s)' % self.fn_type(r) for r in self.spec['ret'])
        doc = '/-- translated from `%s` (%s); `pt_solution_…` stands for `integration.pt_solution` in that mode -/' % (self.py, UNIV)
        head = ('def %s [Add α] [Sub α] [Mul α] [Div α] [Neg α] [Zero α] [Cmp α] [ToBin α] [Transc α]\n    %s :\n    %s :=\n'
                % (self.spec['lean'], ' '.join(sig), ret))
        return doc + '\n' + head + body + '\n'


def generate():
    out = ['/- GENERATED by harness/translate/legkernels.py from %s -- do not edit. -/' % UNIV,
           'import Sparrow.Model.Vec', 'set_option linter.unusedVariables false', 'namespace Sparrow.Generated.LegKernels',
           'open Sparrow', 'variable {α : Type}', '']
    facts = {}
    for k in ORDER3:
        t = K3(k)
        out.append(t.emit())
        facts[k] = {'statements': sum(1 for _ in ast.walk(t.fn) if isinstance(_, ast.stmt))}
    out.append('end Sparrow.Generated.LegKernels')
    return '\n'.join(out) + '\n', facts
