"""Generated/PointFactor.lean: rule-based translation of the small numeric functions behind the point-to-patch factor —
`geometry._sphere_tangent_vector`, `geometry._polygon_area`, `integration.pt_solution` (once per `mode`).

Rules (anything else raises TranslationError):
  * kinds of values: float scalar, integer scalar, 3-vector (function of the axis), list of 3-vectors (function of
    index and axis; its length is the parameter `n_<name>`); `len(P)` / `P.shape[0]` is that length;
  * vector expressions: names, `P[i]`, `a - b`, `a + b`, `s * a`, `a * s`, `a / s`, `np.cross(a, b)`; scalars: `+ - * /`,
    unary minus, `np.dot(a, b)` of 3-vectors (`a0 b0 + a1 b1 + a2 b2`), `np.linalg.norm(a)` (square root of that),
    `np.abs`, `np.arccos`, `np.pi`, integer literals cast exactly, `.5` as `1/2`; the literal `1e-10` is the parameter
    `thr` (its value is tied by Generated/Constants.lean);
  * integer index expressions `i + c`, `(i - 1) %% n` (Python's non-negative result: `(i + n - 1) %% n`), `(i + 1) %% n`;
  * `x = e`, `x += e`, `v /= s`; `A = np.zeros_like(P)`; `A[i] = vec`;
  * `for i in range(n)`: a fold whose state is the tuple of variables assigned in the body that exist before the loop;
  * `if cond: … else: …` with a float comparison `>`: both branches define the same variables;
  * `if mode == 'receiver': … elif mode == 'source': …` is evaluated at translation time for the requested mode;
  * calls to the other translated functions of this file."""
import ast
from .pyast import func, src, dotted, TranslationError

GEOM = 'sparrowpy/geometry.py'
INTEG = 'sparrowpy/form_factor/integration.py'
CLS = '[Add α] [Sub α] [Mul α] [Div α] [Neg α] [Zero α] [Cmp α] [Transc α] [NatCast α]'


def ty(k):
    return {'f': 'α', 'n': 'Nat', 'v': 'Nat → α', 'p': 'Nat → Nat → α'}[k]


class F:
    def __init__(self, relpath, pyname, lean, params, mode=None):
        self.file, self.py, self.lean, self.mode = relpath, pyname, lean, mode
        self.fn = func(relpath, pyname)
        args = [a.arg for a in self.fn.args.args]
        if args != [p for p, _ in params] + (['mode'] if mode else []):
            raise TranslationError('%s: parameters are %s' % (pyname, args))
        self.params = params
        self.env = dict(params)
        self.out = []
        self.depth = 1
        self.ret = None

    def err(self, what, node=None):
        raise TranslationError('%s: %s%s' % (self.py, what, '' if node is None else ': ' + src(node)[:100]))

    def emit(self, t):
        self.out.append('  ' * self.depth + t)

    # ---- kinds
    def kind(self, e):
        if isinstance(e, ast.Name):
            return self.env.get(e.id)
        if isinstance(e, ast.Subscript) and isinstance(e.value, ast.Name) and self.env.get(e.value.id) == 'p':
            return 'v'
        if isinstance(e, ast.BinOp):
            a, b = self.kind(e.left), self.kind(e.right)
            if 'v' in (a, b):
                return 'v'
            if a == 'n' and b == 'n':
                return 'n'
            return 'f'
        if isinstance(e, ast.UnaryOp):
            return self.kind(e.operand)
        if isinstance(e, ast.Call):
            f = dotted(e.func)
            if f == 'np.cross' or f in ('geom._sphere_tangent_vector', '_sphere_tangent_vector'):
                return 'v'
            if f == 'len':
                return 'n'
            return 'f'
        if isinstance(e, ast.Constant):
            return 'n' if isinstance(e.value, int) else 'f'
        if isinstance(e, ast.Subscript) and isinstance(e.value, ast.Attribute) and e.value.attr == 'shape':
            return 'n'
        if isinstance(e, ast.Attribute) and e.attr == 'pi':
            return 'f'
        return None

    # ---- integer expressions
    def nat(self, e):
        if isinstance(e, ast.Constant) and isinstance(e.value, int) and not isinstance(e.value, bool):
            return str(e.value)
        if isinstance(e, ast.Name) and self.env.get(e.id) == 'n':
            return e.id
        if isinstance(e, ast.Call) and dotted(e.func) == 'len' and len(e.args) == 1 and self.kind(e.args[0]) == 'p':
            return 'n_' + e.args[0].id
        if isinstance(e, ast.Subscript) and isinstance(e.value, ast.Attribute) and e.value.attr == 'shape' \
                and self.kind(e.value.value) == 'p' and isinstance(e.slice, ast.Constant) and e.slice.value == 0:
            return 'n_' + e.value.value.id
        if isinstance(e, ast.BinOp) and isinstance(e.op, ast.Mod):
            m = self.nat(e.right)
            l = e.left
            if isinstance(l, ast.BinOp) and isinstance(l.op, ast.Sub) and isinstance(l.right, ast.Constant):
                return '((%s + %s - %d) %% %s)' % (self.nat(l.left), m, l.right.value, m)
            return '(%s %% %s)' % (self.nat(l), m)
        if isinstance(e, ast.BinOp) and isinstance(e.op, ast.Add):
            return '(%s + %s)' % (self.nat(e.left), self.nat(e.right))
        if isinstance(e, ast.BinOp) and isinstance(e.op, ast.Sub) and isinstance(e.right, ast.Constant):
            return '(%s - %d)' % (self.nat(e.left), e.right.value)      # truncated subtraction: used for `n - 2` with n >= 2
        self.err('integer expression', e)

    # ---- vectors at axis q
    def vec(self, e, q):
        if isinstance(e, ast.Name) and self.env.get(e.id) == 'v':
            return '%s (%s)' % (e.id, q)
        if isinstance(e, ast.Subscript) and isinstance(e.value, ast.Name) and self.env.get(e.value.id) == 'p':
            return '%s (%s) (%s)' % (e.value.id, self.nat(e.slice), q)
        if isinstance(e, ast.BinOp):
            ka, kb = self.kind(e.left), self.kind(e.right)
            op = {ast.Add: '+', ast.Sub: '-', ast.Mult: '*', ast.Div: '/'}.get(type(e.op))
            if op in ('+', '-') and ka == 'v' and kb == 'v':
                return '(%s %s %s)' % (self.vec(e.left, q), op, self.vec(e.right, q))
            if op == '*' and ka == 'v' and kb != 'v':
                return '(%s * %s)' % (self.vec(e.left, q), self.scal(e.right))
            if op == '*' and kb == 'v' and ka != 'v':
                return '(%s * %s)' % (self.scal(e.left), self.vec(e.right, q))
            if op == '/' and ka == 'v' and kb != 'v':
                return '(%s / %s)' % (self.vec(e.left, q), self.scal(e.right))
        if isinstance(e, ast.Call) and dotted(e.func) == 'np.cross' and len(e.args) == 2:
            a, b = e.args
            c = lambda x, k: self.vec(x, str(k))
            comp = {'0': '(%s * %s - %s * %s)' % (c(a, 1), c(b, 2), c(a, 2), c(b, 1)),
                    '1': '(%s * %s - %s * %s)' % (c(a, 2), c(b, 0), c(a, 0), c(b, 2)),
                    '2': '(%s * %s - %s * %s)' % (c(a, 0), c(b, 1), c(a, 1), c(b, 0))}
            if q in comp:
                return comp[q]
            return ('(if %s = 0 then %s * %s - %s * %s else if %s = 1 then %s * %s - %s * %s else %s * %s - %s * %s)'
                    % (q, c(a, 1), c(b, 2), c(a, 2), c(b, 1), q, c(a, 2), c(b, 0), c(a, 0), c(b, 2), c(a, 0), c(b, 1), c(a, 1), c(b, 0)))
        if isinstance(e, ast.Call) and dotted(e.func) in ('geom._sphere_tangent_vector', '_sphere_tangent_vector') and len(e.args) == 2:
            return 'sphereTangentVector thr (fun q_ => %s) (fun q_ => %s) (%s)' % (self.vec(e.args[0], 'q_'), self.vec(e.args[1], 'q_'), q)
        self.err('vector expression', e)

    def dot(self, a, b):
        return '(%s * %s + %s * %s + %s * %s)' % (self.vec(a, '0'), self.vec(b, '0'), self.vec(a, '1'), self.vec(b, '1'),
                                                  self.vec(a, '2'), self.vec(b, '2'))

    # ---- float scalars
    def scal(self, e):
        k = self.kind(e)
        if k == 'n':
            return '((%s : Nat) : α)' % self.nat(e)
        if isinstance(e, ast.Constant) and isinstance(e.value, float):
            if e.value == 0.5:
                return '(((1 : Nat) : α) / ((2 : Nat) : α))'
            self.err('float literal', e)
        if isinstance(e, ast.Name) and self.env.get(e.id) == 'f':
            return e.id
        if dotted(e) == 'np.pi':
            return 'Transc.pi'
        if isinstance(e, ast.UnaryOp) and isinstance(e.op, ast.USub):
            return '-(%s)' % self.scal(e.operand)
        if isinstance(e, ast.BinOp):
            op = {ast.Add: '+', ast.Sub: '-', ast.Mult: '*', ast.Div: '/'}.get(type(e.op))
            if op and self.kind(e.left) != 'v' and self.kind(e.right) != 'v':
                return '(%s %s %s)' % (self.scal(e.left), op, self.scal(e.right))
        if isinstance(e, ast.Call):
            f = dotted(e.func)
            if f == 'np.dot' and len(e.args) == 2:
                return self.dot(e.args[0], e.args[1])
            if f == 'np.linalg.norm' and len(e.args) == 1:
                return 'Transc.sqrt %s' % self.dot(e.args[0], e.args[0])
            if f == 'np.abs' and len(e.args) == 1:
                return 'Cmp.abs (%s)' % self.scal(e.args[0])
            if f == 'np.arccos' and len(e.args) == 1:
                return 'Transc.acos (%s)' % self.scal(e.args[0])
            if f in ('geom._polygon_area', '_polygon_area') and len(e.args) == 1 and self.kind(e.args[0]) == 'p':
                a = e.args[0].id
                return 'polygonAreaT thr %s n_%s' % (a, a)
        self.err('scalar expression', e)

    def cond(self, e):
        if isinstance(e, ast.Compare) and len(e.ops) == 1 and isinstance(e.ops[0], ast.Gt):
            r = e.comparators[0]
            rt = 'thr' if isinstance(r, ast.Constant) and r.value == 1e-10 else self.scal(r)
            return 'Cmp.lt (%s) (%s) = true' % (rt, self.scal(e.left))
        self.err('condition', e)

    # ---- statements
    def assigned(self, stmts):
        out = []
        for s in stmts:
            t = None
            if isinstance(s, ast.Assign) and len(s.targets) == 1:
                t = s.targets[0]
            elif isinstance(s, ast.AugAssign):
                t = s.target
            elif isinstance(s, ast.For):
                out += self.assigned(s.body)
                continue
            elif isinstance(s, ast.If):
                out += self.assigned(s.body) + self.assigned(s.orelse)
                continue
            if t is None:
                self.err('statement', s)
            name = t.id if isinstance(t, ast.Name) else t.value.id if isinstance(t, ast.Subscript) and isinstance(t.value, ast.Name) else None
            if name is None:
                self.err('assignment target', s)
            if name not in out:
                out.append(name)
        return out

    def stmt(self, s):
        if isinstance(s, ast.Expr) and isinstance(s.value, ast.Constant):
            return
        if self.ret is not None:
            self.err('statement after return', s)
        if isinstance(s, ast.Return):
            k = self.kind(s.value)
            self.ret_kind = k
            if k == 'v':
                self.ret = 'fun q_ => %s' % self.vec(s.value, 'q_')
            else:
                self.ret = self.scal(s.value)
            return
        # mode specialisation
        if isinstance(s, ast.If) and isinstance(s.test, ast.Compare) and dotted(s.test.left) == 'mode':
            node = s
            while True:
                if not (isinstance(node.test, ast.Compare) and dotted(node.test.left) == 'mode' and isinstance(node.test.ops[0], ast.Eq)
                        and isinstance(node.test.comparators[0], ast.Constant)):
                    self.err('mode test', node)
                if node.test.comparators[0].value == self.mode:
                    for b in node.body:
                        self.stmt(b)
                    return
                if len(node.orelse) == 1 and isinstance(node.orelse[0], ast.If):
                    node = node.orelse[0]
                else:
                    self.err('mode %r not handled by the text' % self.mode, s)
        if isinstance(s, ast.Assign) and len(s.targets) == 1 and isinstance(s.targets[0], ast.Name):
            name, v = s.targets[0].id, s.value
            if isinstance(v, ast.Call) and dotted(v.func) == 'np.zeros_like' and len(v.args) == 1 and self.kind(v.args[0]) == 'p':
                self.emit('let %s : Nat → Nat → α := fun _ _ => 0' % name)
                self.emit('let n_%s : Nat := n_%s' % (name, v.args[0].id))
                self.env[name] = 'p'
                return
            k = self.kind(v)
            if k == 'v':
                self.emit('let %s : Nat → α := fun q_ => %s' % (name, self.vec(v, 'q_')))
            elif k == 'n' and not (isinstance(v, ast.Constant)):
                self.emit('let %s : Nat := %s' % (name, self.nat(v)))
            else:
                k = 'f'        # integer literals that start a float accumulator (`area = 0`) are floats
                self.emit('let %s : α := %s' % (name, self.scal(v) if not (isinstance(v, ast.Constant) and v.value == 0) else '0'))
            self.env[name] = k
            return
        if isinstance(s, ast.Assign) and len(s.targets) == 1 and isinstance(s.targets[0], ast.Subscript) \
                and isinstance(s.targets[0].value, ast.Name) and self.env.get(s.targets[0].value.id) == 'p':
            a = s.targets[0].value.id
            i = self.nat(s.targets[0].slice)
            self.emit('let %s : Nat → Nat → α := fun k_ q_ => if k_ = %s then %s else %s k_ q_' % (a, i, self.vec(s.value, 'q_'), a))
            return
        if isinstance(s, ast.AugAssign) and isinstance(s.target, ast.Name):
            name = s.target.id
            k = self.env.get(name)
            if k == 'f' and isinstance(s.op, ast.Add):
                self.emit('let %s : α := %s + %s' % (name, name, self.scal(s.value)))
                return
            if k == 'v' and isinstance(s.op, ast.Div):
                self.emit('let %s : Nat → α := fun q_ => %s q_ / %s' % (name, name, self.scal(s.value)))
                return
            self.err('augmented assignment', s)
        if isinstance(s, ast.For):
            if not (isinstance(s.target, ast.Name) and isinstance(s.iter, ast.Call) and dotted(s.iter.func) in ('range', 'prange')
                    and len(s.iter.args) == 1 and not s.orelse):
                self.err('loop header', s)
            n = self.nat(s.iter.args[0])
            var = s.target.id
            state = [v for v in self.assigned(s.body) if v in self.env]
            if not state:
                self.err('loop without effect', s)
            sty = ' × '.join('(%s)' % ty(self.env[v]) for v in state)
            pat = state[0] if len(state) == 1 else '(' + ', '.join(state) + ')'
            self.emit('let %s := (List.range (%s)).foldl (fun (st_ : %s) %s =>' % (pat, n, sty, var))
            saved = dict(self.env)
            self.env[var] = 'n'
            self.depth += 2
            self.emit('let %s := st_' % pat)
            for b in s.body:
                self.stmt(b)
            self.emit(pat)
            self.depth -= 1
            self.emit(') %s' % pat)
            self.depth -= 1
            self.env = saved
            return
        if isinstance(s, ast.If) and s.orelse:
            c = self.cond(s.test)
            names = self.assigned(s.body)
            if sorted(names) != sorted(self.assigned(s.orelse)):
                self.err('branches define different variables', s)
            pat = names[0] if len(names) == 1 else '(' + ', '.join(names) + ')'
            saved = dict(self.env)
            self.emit('let %s :=' % pat)
            self.depth += 1
            self.emit('if %s then' % c)
            self.depth += 1
            for b in s.body:
                self.stmt(b)
            kinds = {v: self.env[v] for v in names}
            self.emit(pat)
            self.depth -= 1
            self.emit('else')
            self.depth += 1
            self.env = dict(saved)
            for b in s.orelse:
                self.stmt(b)
            if {v: self.env[v] for v in names} != kinds:
                self.err('branches give different kinds', s)
            self.emit(pat)
            self.depth -= 2
            self.env = dict(saved)
            self.env.update(kinds)
            return
        self.err('statement', s)

    def translate(self):
        for s in self.fn.body:
            self.stmt(s)
        if self.ret is None:
            self.err('no return')
        sig = ['(thr : α)']
        for p, k in self.params:
            sig.append('(%s : %s)' % (p, ty(k)))
            if k == 'p':
                sig.append('(n_%s : Nat)' % p)
        doc = '/-- translated from `%s` (%s)%s; `thr` is the literal `1e-10` -/' % (self.py, self.file, '' if not self.mode else ', mode="%s"' % self.mode)
        return '\n'.join([doc, 'def %s %s' % (self.lean, CLS), '    ' + ' '.join(sig) + ' :', '    %s :=' % ty(self.ret_kind)] +
                         self.out + ['  ' + self.ret]) + '\n'


def generate():
    fs = [F(GEOM, '_sphere_tangent_vector', 'sphereTangentVector', [('v0', 'v'), ('v1', 'v')]),
          F(GEOM, '_polygon_area', 'polygonAreaT', [('pts', 'p')]),
          F(INTEG, 'pt_solution', 'ptSolutionSource', [('point', 'v'), ('patch_points', 'p')], mode='source'),
          F(INTEG, 'pt_solution', 'ptSolutionReceiver', [('point', 'v'), ('patch_points', 'p')], mode='receiver')]
    out = ['/- GENERATED by harness/translate/smallfn.py from %s and %s -- do not edit. -/' % (GEOM, INTEG), 'import Sparrow.Model.Basic',
           'set_option linter.unusedVariables false', 'namespace Sparrow.Generated.PointFactor', 'open Sparrow', 'variable {α : Type}', '']
    facts = {}
    for f in fs:
        out.append(f.translate())
        facts[f.lean] = {'statements': sum(1 for _ in ast.walk(f.fn) if isinstance(_, ast.stmt))}
    out.append('end Sparrow.Generated.PointFactor')
    return '\n'.join(out) + '\n', facts
