"""Generated/Glue.lean: translation of the METHOD `DirectionalRadiosityFast._collect_energy_patches`
(sparrowpy/classes/RadiosityFast.py) — the glue that turns the stored patch histograms into the response at each
receiver by composing the visibility test, the receiver-leg factor, the direction lookup and the receiver kernel.

Rules on top of kernels.py / bakekernels.py / legkernels.py (everything else raises TranslationError):
  * attributes and properties of `self` that the method reads are parameters (`self._x` / `self.x` -> `self_x`), of the
    kinds listed in SPEC4; the list `[s.cartesian for s in self._brdf_outgoing_directions]` turned into an array is
    the parameter `self_brdf_outgoing_directions` (rank 3);
  * `np.empty(shape[, dtype=bool])` is an ARBITRARY array (extra parameter `<name>_init`): nothing proved may depend on
    what the buffers hold;
  * a name that is re-bound as a whole inside a loop body (`X = expr`) is local to the iteration (it must not be read
    after the loop);
  * `geometry._check_point2patch_visibility(eval_point=, patches_center=, surf_points=, surf_normal=)` is an OPAQUE
    function (parameter `check_point2patch_visibility`) returning a Boolean vector; `integration.pt_solution` stays
    opaque inside the translated receiver-leg kernel;
  * calls to kernels that are translated themselves (`form_factor._patch2receiver_energy_universal`,
    `get_scattering_data_receiver_index`, `_collect_receiver_energy`) are calls to their translations;
  * `np.atleast_2d` of the rank-2 parameter, `assert`: no-ops; `np.linalg.norm(X, axis=1)`; `if flag: … else: …` on a
    Boolean parameter; `X.shape[-1]`."""
import ast
import copy
from .pyast import func, src, dotted, TranslationError
from .kernels import K, Arr, P, FAST
from . import kernels, bakekernels, legkernels
from .legkernels import K3

SPEC4 = {
    'lean': 'collectEnergyPatches',
    'arrays': {'receiver_pos': 2, 'self_air_attenuation': 1, 'self_patches_points': 3, 'self_patches_center': 2,
               'self_energy_exchange_etc': 4, 'self_walls_points': 3, 'self_walls_normal': 2,
               'self_brdf_outgoing_directions': 3, 'self_patch_to_wall_ids': 1},
    'int_arrays': ['self_patch_to_wall_ids'],
    'nat_scalars': ['self_n_patches', 'self_n_bins'],
    'float_scalars': ['self_speed_of_sound', 'self_etc_time_resolution'],
    'bool_scalars': ['propagation_fx'],
    'ret_rank': 4,
}
CALLEES = {
    'form_factor._patch2receiver_energy_universal': ('leg', '_patch2receiver_energy_universal'),
    'get_scattering_data_receiver_index': ('bake', 'get_scattering_data_receiver_index'),
    '_collect_receiver_energy': ('kern', '_collect_receiver_energy'),
}


class _Self(ast.NodeTransformer):
    def visit_Attribute(self, node):
        if isinstance(node.value, ast.Name) and node.value.id == 'self':
            return ast.copy_location(ast.Name(id='self_' + node.attr.lstrip('_'), ctx=node.ctx), node)
        return self.generic_visit(node)


class K4(K3):
    def __init__(self):
        self.py = 'DirectionalRadiosityFast._collect_energy_patches'
        self.spec = dict(SPEC4, opaque=['receiver'])
        fn = copy.deepcopy(func(FAST, '_collect_energy_patches', cls='DirectionalRadiosityFast'))
        args = [a.arg for a in fn.args.args]
        if args != ['self', 'receiver_pos', 'propagation_fx']:
            raise TranslationError('%s: parameters are %s' % (self.py, args))
        self.fn = _Self().visit(fn)
        self.arr = {}
        self.scal_nat = set(SPEC4['nat_scalars'])
        self.scal_float = set(SPEC4['float_scalars'])
        self.bools = set()
        self.opt = set()
        self.unwrapped = set()
        self.junk = []
        for a, r in SPEC4['arrays'].items():
            self.arr[a] = Arr(a, r, ['%s_shape_%d' % (a, k) for k in range(r)], a in SPEC4['int_arrays'])
        used = {n.id for n in ast.walk(self.fn) if isinstance(n, ast.Name) and n.id.startswith('self_')}
        known = set(SPEC4['arrays']) | self.scal_nat | self.scal_float
        if not used <= known:
            raise TranslationError('%s: reads of self outside the declared ones: %s' % (self.py, sorted(used - known)))
        self.params = list(SPEC4['arrays']) + SPEC4['nat_scalars'] + SPEC4['float_scalars']

    # ---- types
    def elem(self, name):
        return 'Bool' if name in self.bools else ('Nat' if self.arr[name].is_int else 'α')

    def ftype(self, name):
        return ' → '.join(['Nat'] * self.arr[name].rank + [self.elem(name)])

    # ---- expressions
    def scalar(self, e, env):
        if isinstance(e, ast.Name) and e.id in SPEC4['bool_scalars']:
            return e.id, 'bool'
        if isinstance(e, ast.Subscript) and isinstance(e.value, ast.Attribute) and e.value.attr == 'shape' \
                and isinstance(e.slice, ast.UnaryOp) and isinstance(e.slice.op, ast.USub) \
                and isinstance(e.slice.operand, ast.Constant) and e.slice.operand.value == 1:
            a = dotted(e.value.value)
            if a in self.arr:
                return self.arr[a].shape[-1], 'nat'
        if isinstance(e, ast.Subscript) and dotted(e.value) in self.bools:
            idx = e.slice.elts if isinstance(e.slice, ast.Tuple) else [e.slice]
            a = dotted(e.value)
            if len(idx) == self.arr[a].rank and not any(isinstance(i, ast.Slice) for i in idx):
                return '%s %s' % (a, ' '.join('(%s)' % self.scalar(i, env)[0] for i in idx)), 'bool'
        return K3.scalar(self, e, env)

    def rank_of(self, e):
        if isinstance(e, ast.Call):
            f = dotted(e.func)
            if f == 'np.linalg.norm' and any(k.arg == 'axis' for k in e.keywords):
                return 1
            if f == 'geometry._check_point2patch_visibility':
                return 1
            if f in CALLEES:
                kind, py = CALLEES[f]
                if kind == 'kern':
                    return kernels.SPEC[py]['ret_rank']
                if kind == 'bake':
                    return bakekernels.SPEC2[py]['ret_rank']
                return 1
        return K3.rank_of(self, e)

    def shape_of(self, e):
        if isinstance(e, ast.Call):
            f = dotted(e.func)
            if f == 'np.linalg.norm' and any(k.arg == 'axis' for k in e.keywords):
                return [self.shape_of(e.args[0])[0]]
            if f == 'geometry._check_point2patch_visibility':
                kw = {k.arg: k.value for k in e.keywords}
                return [self.shape_of(kw['patches_center'])[0]]
            if f in CALLEES:
                kind = CALLEES[f][0]
                if kind == 'leg':
                    return [self.shape_of(e.args[1])[0]]
                if CALLEES[f][1] == '_add_directional':
                    return [self.shape_of(e.args[0])[0], self.shape_of(e.args[6])[1], self.scalar(e.args[3], getattr(self, '_env', {}))[0]]
                if kind == 'bake':
                    return [self.shape_of(e.args[0])[0]]
                if CALLEES[f][1] == '_collect_receiver_energy':
                    return self.shape_of(e.args[0])
                # the exchange kernels: shape of energy_0_directivity + [n_samples]
                return self.shape_of(e.args[1]) + [self.scalar(e.args[0], getattr(self, '_env', {}))[0]]
        return K3.shape_of(self, e)

    def lam(self, e, env):
        """An array expression as a Lean function with its shape list; Boolean arrays included."""
        r = self.rank_of(e)
        shp = self.shape_of(e)
        ps = ['a%d_' % k for k in range(r)]
        return '(fun %s => %s)' % (' '.join(ps), self.rhs_at(e, env, [(k, ps[k], shp[k]) for k in range(r)])), shp

    def call_text(self, e, env):
        """Lean text of a call to a translated kernel (a function of the result's indices)."""
        f = dotted(e.func)
        kind, py = CALLEES[f]
        if kind == 'leg':
            callee, opaque = legkernels.K3(py), ['pt_solution_receiver']
        elif kind == 'bake':
            callee, opaque = bakekernels.K2(py), []
        else:
            callee, opaque = kernels.K(py), []
        args = {}
        for prm, a in zip(callee.params, e.args):
            args[prm] = a
        for k in e.keywords:
            if k.arg in args or k.arg not in callee.params:
                raise TranslationError('%s: call %s' % (self.py, src(e)))
            args[k.arg] = k.value
        if sorted(args) != sorted(callee.params):
            raise TranslationError('%s: arguments of %s' % (self.py, src(e)))
        parts = list(opaque)
        for prm in callee.params:
            a = args[prm]
            if prm in callee.arr:
                rk = callee.arr[prm].rank
                if self.rank_of(a) != rk:
                    raise TranslationError('%s: argument %s of %s has rank %d' % (self.py, src(a), f, self.rank_of(a)))
                text, shp = self.lam(a, env)
                parts += ['(%s)' % s_ for s_ in shp] + [text]
            else:
                t, kd = self.scalar(a, env)
                parts.append('(%s)' % t)
        return '%s %s' % (callee.spec['lean'], ' '.join(parts))

    def rhs_at(self, e, env, coords):
        if isinstance(e, ast.Call):
            f = dotted(e.func)
            if f == 'np.linalg.norm' and len(e.args) == 1 and len(e.keywords) == 1 and e.keywords[0].arg == 'axis' \
                    and isinstance(e.keywords[0].value, ast.Constant) and e.keywords[0].value.value == 1 and self.rank_of(e.args[0]) == 2:
                n = self.shape_of(e.args[0])[1]
                at = self.rhs_at(e.args[0], env, [(0, coords[-1][1], self.shape_of(e.args[0])[0]), (1, 'q_', n)])
                return 'Transc.sqrt ((List.range (%s)).foldl (fun acc_ q_ => acc_ + (%s) * (%s)) 0)' % (n, at, at)
            if f == 'geometry._check_point2patch_visibility' and not e.args:
                kw = {k.arg: k.value for k in e.keywords}
                if sorted(kw) != ['eval_point', 'patches_center', 'surf_normal', 'surf_points']:
                    raise TranslationError('%s: call %s' % (self.py, src(e)))
                parts = [self.lam(kw[k], env)[0] for k in ('eval_point', 'patches_center', 'surf_normal', 'surf_points')]
                return 'check_point2patch_visibility %s (%s)' % (' '.join(parts), coords[-1][1])
            if f in CALLEES:
                r = self.rank_of(e)
                return '%s %s' % (self.call_text(e, env), ' '.join('(%s)' % c[1] for c in coords[-r:]))
        if isinstance(e, (ast.Name, ast.Subscript)):
            a = e.id if isinstance(e, ast.Name) else dotted(e.value)
            if a in self.bools:
                return K.rhs_at(self, e, env, coords)
        return K3.rhs_at(self, e, env, coords)

    # ---- statements
    def whole_rebinds(self, body):
        out = []
        for s in body:
            if isinstance(s, ast.Assign) and len(s.targets) == 1 and isinstance(s.targets[0], ast.Name):
                out.append(s.targets[0].id)
        return out

    def assigned_arrays(self, body):
        local = set(self.whole_rebinds(body)) if getattr(self, '_in_loop_header', False) else set()
        return [a for a in K3.assigned_arrays(self, body) if a not in local]

    def block(self, body, env, ind, tail):
        if not body:
            return tail
        self._env = env
        st, rest = body[0], body[1:]
        sp = '  ' * ind
        cont = lambda env_=env: self.block(rest, env_, ind, tail)
        if isinstance(st, ast.Assert):
            return cont()
        if isinstance(st, ast.Return) and isinstance(st.value, ast.Name) and st.value.id in self.arr \
                and self.arr[st.value.id].rank == SPEC4['ret_rank']:
            return sp + st.value.id
        if isinstance(st, ast.Assign) and len(st.targets) == 1 and isinstance(st.targets[0], ast.Name):
            name, v = st.targets[0].id, st.value
            f = dotted(v.func) if isinstance(v, ast.Call) else None
            # X = np.atleast_2d(X) on the rank-2 parameter
            if f == 'np.atleast_2d' and len(v.args) == 1 and dotted(v.args[0]) == name and name in self.arr and self.arr[name].rank == 2:
                return cont()
            # X = np.array([s.cartesian for s in self_brdf_outgoing_directions])
            if f == 'np.array' and len(v.args) == 1 and isinstance(v.args[0], ast.ListComp):
                lc = v.args[0]
                if len(lc.generators) == 1 and dotted(lc.generators[0].iter) == 'self_brdf_outgoing_directions' \
                        and isinstance(lc.elt, ast.Attribute) and lc.elt.attr == 'cartesian' \
                        and dotted(lc.elt.value) == dotted(lc.generators[0].target) and not lc.generators[0].ifs:
                    B = self.arr['self_brdf_outgoing_directions']
                    self.arr[name] = Arr(name, 3, list(B.shape))
                    return sp + 'let %s : %s := self_brdf_outgoing_directions\n' % (name, self.ftype(name)) + cont()
                raise TranslationError('%s: %s' % (self.py, src(st)))
            # np.empty(shape[, dtype=bool])
            if f == 'np.empty' and len(v.args) == 1 and isinstance(v.args[0], (ast.Tuple, ast.List)):
                shape = []
                for d in v.args[0].elts:
                    t, kd = self.scalar(d, env)
                    if kd != 'nat':
                        raise TranslationError('%s: shape entry %s' % (self.py, src(d)))
                    shape.append(t)
                isb = any(k.arg == 'dtype' and dotted(k.value) == 'bool' for k in v.keywords)
                if v.keywords and not isb:
                    raise TranslationError('%s: %s' % (self.py, src(v)))
                self.arr[name] = Arr(name, len(shape), shape)
                if isb:
                    self.bools.add(name)
                self.junk.append((name + '_init', self.ftype(name)))
                return sp + 'let %s : %s := %s_init\n' % (name, self.ftype(name), name) + cont()
            # call of a translated kernel giving an array
            if f in CALLEES:
                r, shp = self.rank_of(v), self.shape_of(v)
                self.arr[name] = Arr(name, r, shp, CALLEES[f][1] == 'get_scattering_data_receiver_index')
                return sp + 'let %s : %s := %s\n' % (name, self.ftype(name), self.call_text(v, env)) + cont()
        # assignment into a Boolean array
        if isinstance(st, ast.Assign) and len(st.targets) == 1 and isinstance(st.targets[0], ast.Subscript) \
                and dotted(st.targets[0].value) in self.bools:
            A, conds, coords = self.region(st.targets[0], env)
            val = self.rhs_at(st.value, env, coords)
            ps = ' '.join(P(k) for k in range(A.rank))
            return sp + 'let %s : %s := fun %s => if %s then %s else %s %s\n' % (A.name, self.ftype(A.name), ps, ' ∧ '.join(conds), val, A.name, ps) + cont()
        # loops: Boolean-aware state, whole re-bindings are local
        if isinstance(st, ast.For):
            it = st.iter
            if not (isinstance(it, ast.Call) and dotted(it.func) in ('range', 'prange') and len(it.args) == 1
                    and isinstance(st.target, ast.Name) and not st.orelse):
                raise TranslationError('%s: loop %s' % (self.py, src(st.target)))
            n, kd = self.scalar(it.args[0], env)
            local = [a for a in self.whole_rebinds(st.body) if a in self.arr]
            for a in local:
                for later in rest:
                    if any(isinstance(x, ast.Name) and x.id == a for x in ast.walk(later)):
                        raise TranslationError('%s: %s is re-bound inside a loop and read after it' % (self.py, a))
            arrays = [a for a in K3.assigned_arrays(self, st.body) if a not in local]
            if not arrays:
                raise TranslationError('%s: loop without array updates' % self.py)
            tup = arrays[0] if len(arrays) == 1 else '(%s)' % ', '.join(arrays)
            typ = ' × '.join('(%s)' % self.ftype(a) for a in arrays)
            env2 = dict(env)
            env2[st.target.id] = 'nat'
            saved = dict(self.arr)
            inner = self.block(st.body, env2, ind + 2, '  ' * (ind + 2) + tup)
            for k_ in list(self.arr):
                if k_ not in saved:
                    del self.arr[k_]
            for k_ in local:
                self.arr[k_] = saved[k_]
            head = sp + 'let %s := (List.range (%s)).foldl (fun (st_ : %s) %s =>\n' % (tup, n, typ, st.target.id)
            unpack = '  ' * (ind + 2) + ('let %s := st_\n' % tup)
            return head + unpack + inner + '\n' + sp + '  ) %s\n' % tup + cont()
        # `if flag: … else: …` on a Boolean parameter
        if isinstance(st, ast.If) and isinstance(st.test, ast.Name) and st.test.id in SPEC4['bool_scalars']:
            arrays = K3.assigned_arrays(self, st.body + st.orelse)
            tup = arrays[0] if len(arrays) == 1 else '(%s)' % ', '.join(arrays)
            t1 = self.block(st.body, env, ind + 2, '  ' * (ind + 2) + tup)
            t2 = self.block(st.orelse, env, ind + 2, '  ' * (ind + 2) + tup) if st.orelse else '  ' * (ind + 2) + tup
            return (sp + 'let %s :=\n' % tup + sp + '  if %s = true then\n' % st.test.id + t1 + '\n' + sp + '  else\n' + t2 + '\n' + cont())
        # whole re-binding of an existing array by an array expression (inside a loop body: a local)
        if isinstance(st, ast.Assign) and len(st.targets) == 1 and isinstance(st.targets[0], ast.Name) \
                and st.targets[0].id in self.arr and self.rank_of(st.value) > 0 and not isinstance(st.value, ast.Call):
            name, v = st.targets[0].id, st.value
            r, shp = self.rank_of(v), self.shape_of(v)
            coords = [(k, P(k), shp[k]) for k in range(r)]
            text = sp + 'let %s : %s := fun %s => %s\n' % (name, ' → '.join(['Nat'] * r + ['α']), ' '.join(P(k) for k in range(r)), self.rhs_at(v, env, coords))
            self.arr[name] = Arr(name, r, shp)
            return text + cont()
        return K3.block(self, body, env, ind, tail)

    def emit(self):
        body = self.block(self.fn.body, {}, 1, '')
        sig = ['(check_point2patch_visibility : (Nat → α) → (Nat → Nat → α) → (Nat → Nat → α) → (Nat → Nat → Nat → α) → Nat → Bool)',
               '(pt_solution_receiver : (Nat → α) → (Nat → Nat → α) → α)']
        for p in self.params:
            if p in SPEC4['arrays']:
                r = SPEC4['arrays'][p]
                sig += ['(%s_shape_%d : Nat)' % (p, k) for k in range(r)]
                sig.append('(%s : %s)' % (p, ' → '.join(['Nat'] * r + ['Nat' if p in SPEC4['int_arrays'] else 'α'])))
            elif p in self.scal_nat:
                sig.append('(%s : Nat)' % p)
            else:
                sig.append('(%s : α)' % p)
        sig.append('(propagation_fx : Bool)')
        for n, t in self.junk:
            sig.append('(%s : %s)' % (n, t))
        doc = ('/-- translated from `%s` (%s); `check_point2patch_visibility` and `pt_solution_receiver` stand for the functions of '
               'that name, the `_init` parameters for the contents of the `np.empty` buffers -/' % (self.py, FAST))
        head = ('def %s [Add α] [Sub α] [Mul α] [Div α] [Neg α] [Zero α] [Cmp α] [ToBin α] [Transc α]\n    %s :\n    %s :=\n'
                % (SPEC4['lean'], ' '.join(sig), ' → '.join(['Nat'] * 4 + ['α'])))
        return doc + '\n' + head + body + '\n'


def generate():
    out = ['/- GENERATED by harness/translate/gluekernels.py from %s -- do not edit. -/' % FAST,
           'import Sparrow.Generated.Kernels', 'import Sparrow.Generated.BakeKernels', 'import Sparrow.Generated.LegKernels',
           'set_option linter.unusedVariables false', 'namespace Sparrow.Generated.Glue',
           'open Sparrow Sparrow.Generated.Kernels Sparrow.Generated.BakeKernels Sparrow.Generated.LegKernels', 'variable {α : Type}', '']
    t = K4()
    out.append(t.emit())
    out.append('end Sparrow.Generated.Glue')
    facts = {'_collect_energy_patches': {'statements': sum(1 for _ in ast.walk(t.fn) if isinstance(_, ast.stmt)),
                                         'np_empty_buffers': [n for n, _ in t.junk]}}
    return '\n'.join(out) + '\n', facts


# ====================================================================== calculate_energy_exchange
SPEC5 = {
    'lean': 'calculateEnergyExchange',
    'arrays': {'self_patches_center': 2, 'self_distance_patches_to_source': 1, 'self_energy_init_source': 3,
               'self_form_factors_tilde': 4, 'self_patch_2_brdf_outgoing_index': 2, 'self_visible_patches': 2},
    'int_arrays': ['self_patch_2_brdf_outgoing_index', 'self_visible_patches'],
    'nat_scalars': ['self_n_patches'],
    'float_scalars': ['speed_of_sound', 'etc_time_resolution', 'etc_duration'],
    'int_scalars': ['max_reflection_order'], 'bool_scalars': ['recalculate'],
    # attributes the method WRITES (and keeps otherwise): inputs and outputs of the translation
    'state': [('self_energy_exchange_etc', 4), ('self_etc_time_resolution', 0), ('self_speed_of_sound', 0), ('self_etc_duration', 0)],
}
CALLEES['_energy_exchange_init_energy'] = ('kern', '_energy_exchange_init_energy')
CALLEES['_energy_exchange'] = ('kern', '_energy_exchange')


class K5(K4):
    """`DirectionalRadiosityFast.calculate_energy_exchange`: the stored attributes it writes are a state tuple
    (`Option`: `None` before the first run) that goes in and comes out."""

    def __init__(self):
        self.py = 'DirectionalRadiosityFast.calculate_energy_exchange'
        self.spec = dict(SPEC5, opaque=[])
        fn = copy.deepcopy(func(FAST, 'calculate_energy_exchange', cls='DirectionalRadiosityFast'))
        args = [a.arg for a in fn.args.args]
        if args != ['self', 'speed_of_sound', 'etc_time_resolution', 'etc_duration', 'max_reflection_order', 'recalculate']:
            raise TranslationError('%s: parameters are %s' % (self.py, args))
        self.fn = _Self().visit(fn)
        self.arr = {}
        self.scal_nat = set(SPEC5['nat_scalars'])
        self.scal_float = set(SPEC5['float_scalars'])
        self.bools, self.opt, self.unwrapped, self.junk = set(), set(), set(), []
        for a, r in SPEC5['arrays'].items():
            self.arr[a] = Arr(a, r, ['%s_shape_%d' % (a, k) for k in range(r)], a in SPEC5['int_arrays'])
        self.state = [n for n, _ in SPEC5['state']]
        used = {n.id for n in ast.walk(self.fn) if isinstance(n, ast.Name) and n.id.startswith('self_')}
        known = set(SPEC5['arrays']) | self.scal_nat | set(self.state)
        if not used <= known:
            raise TranslationError('%s: reads/writes of self outside the declared ones: %s' % (self.py, sorted(used - known)))
        for n in ast.walk(self.fn):
            if isinstance(n, ast.Name) and isinstance(n.ctx, ast.Store) and n.id.startswith('self_') and n.id not in self.state:
                raise TranslationError('%s: writes %s' % (self.py, n.id))

    def scalar(self, e, env):
        if isinstance(e, ast.Name) and e.id in SPEC5['int_scalars']:
            return '%s.toNat' % e.id, 'nat'          # used as an order only where the text has established it is >= 1
        if isinstance(e, ast.Name) and e.id in SPEC5['bool_scalars']:
            return e.id, 'bool'
        if isinstance(e, ast.Call) and dotted(e.func) == 'float' and len(e.args) == 1:
            t, kd = self.scalar(e.args[0], env)
            if kd == 'float':
                return t, 'float'
        return K3.scalar(self, e, env)

    def state_ty(self, name):
        r = dict(SPEC5['state'])[name]
        return 'Option (%s)' % ' → '.join(['Nat'] * r + ['α']) if r else 'Option α'

    def top_cond(self, e):
        if isinstance(e, ast.BoolOp) and isinstance(e.op, ast.Or):
            return ' ∨ '.join(self.top_cond(v) for v in e.values)
        if isinstance(e, ast.Compare) and len(e.ops) == 1 and isinstance(e.ops[0], ast.Is) and \
                isinstance(e.comparators[0], ast.Constant) and e.comparators[0].value is None and dotted(e.left) in self.state:
            return '%s.isNone = true' % dotted(e.left)
        if isinstance(e, ast.Name) and e.id in SPEC5['bool_scalars']:
            return '%s = true' % e.id
        raise TranslationError('%s: condition %s' % (self.py, src(e)))

    def state_assign(self, st, env, ind):
        """`self_x = <kernel call>` / `self_x = float(param)` as a `let self_x : Option … := some …` line."""
        sp = '  ' * ind
        if isinstance(st, ast.Assign) and len(st.targets) == 1 and isinstance(st.targets[0], ast.Name) and st.targets[0].id in self.state:
            name, v = st.targets[0].id, st.value
            r = dict(SPEC5['state'])[name]
            if r and isinstance(v, ast.Call) and dotted(v.func) in CALLEES and self.rank_of(v) == r:
                return name, 'some (%s)' % self.call_text(v, env)
            if not r:
                t, kd = self.scalar(v, env)
                if kd == 'float':
                    return name, 'some (%s)' % t
        raise TranslationError('%s: statement %s' % (self.py, src(st)[:80]))

    def block(self, body, env, ind, tail):
        if not body:
            return tail
        st, rest = body[0], body[1:]
        sp = '  ' * ind
        cont = lambda env_=env: self.block(rest, env_, ind, tail)
        if isinstance(st, ast.If) and not st.orelse and isinstance(st.test, ast.BoolOp):
            c = self.top_cond(st.test)
            lines, written = [], []
            for b in st.body:
                if isinstance(b, ast.If) and isinstance(b.test, ast.Compare) and dotted(b.test.left) in SPEC5['int_scalars'] \
                        and isinstance(b.test.ops[0], ast.Lt) and isinstance(b.test.comparators[0], ast.Constant) \
                        and len(b.body) == 1 and len(b.orelse) == 1:
                    n1, t1 = self.state_assign(b.body[0], env, ind + 2)
                    n2, t2 = self.state_assign(b.orelse[0], env, ind + 2)
                    if n1 != n2:
                        raise TranslationError('%s: branches assign different attributes' % self.py)
                    lines.append('let %s : %s := if %s < %d then %s else %s' % (n1, self.state_ty(n1), dotted(b.test.left),
                                                                              b.test.comparators[0].value, t1, t2))
                    written.append(n1)
                else:
                    n1, t1 = self.state_assign(b, env, ind + 2)
                    lines.append('let %s : %s := %s' % (n1, self.state_ty(n1), t1))
                    written.append(n1)
            tup = '(%s)' % ', '.join(self.state)
            inner = ''.join('  ' * (ind + 2) + ln + '\n' for ln in lines)
            return (sp + 'let %s :=\n' % tup + sp + '  if %s then\n' % c + inner + '  ' * (ind + 2) + tup + '\n' +
                    sp + '  else\n' + '  ' * (ind + 2) + tup + '\n' + cont())
        return K4.block(self, body, env, ind, tail)

    def emit(self):
        body = self.block(self.fn.body, {}, 1, '  (%s)' % ', '.join(self.state))
        sig = []
        for p, r in SPEC5['arrays'].items():
            sig += ['(%s_shape_%d : Nat)' % (p, k) for k in range(r)]
            sig.append('(%s : %s)' % (p, ' → '.join(['Nat'] * r + ['Nat' if p in SPEC5['int_arrays'] else 'α'])))
        sig += ['(%s : Nat)' % p for p in SPEC5['nat_scalars']]
        sig += ['(%s : %s)' % (n, self.state_ty(n)) for n in self.state]
        sig += ['(%s : α)' % p for p in SPEC5['float_scalars']]
        sig += ['(max_reflection_order : Int)', '(recalculate : Bool)']
        sig += ['(%s : %s)' % (n, t) for n, t in self.junk]
        ret = ' × '.join('(%s)' % self.state_ty(n) for n in self.state)
        doc = ('/-- translated from `%s` (%s); the attributes it writes go in and come out as a tuple of `Option`s, the `_init` '
               'parameter is the content of the `np.empty` buffer -/' % (self.py, FAST))
        head = ('def %s [Add α] [Sub α] [Mul α] [Div α] [Neg α] [Zero α] [Cmp α] [ToBin α] [Transc α]\n    %s :\n    %s :=\n'
                % (SPEC5['lean'], ' '.join(sig), ret))
        return doc + '\n' + head + body + '\n'


# ====================================================================== init_source_energy
SPEC6 = {
    'lean': 'initSourceEnergy',
    'arrays': {'source_position': 1, 'self_patch_to_wall_ids': 1, 'self_brdf_incoming_directions': 3,
               'self_brdf_outgoing_directions': 3, 'self_brdf': 4, 'self_brdf_index': 1, 'self_patches_center': 2,
               'self_walls_points': 3, 'self_walls_normal': 2, 'self_patches_points': 3, 'self_air_attenuation': 1,
               'self_frequencies': 1},
    'int_arrays': ['self_patch_to_wall_ids', 'self_brdf_index'],
    'nat_scalars': ['self_n_bins'], 'float_scalars': [],
    'writes': ['self_source', 'self_source_visibility', 'self_energy_init_source', 'self_distance_patches_to_source'],
    'outputs': ['self_source_visibility', 'self_energy_init_source', 'self_distance_patches_to_source'],
    'precondition': ['self_brdf_incoming_directions', 'self_air_attenuation'],
}
CALLEES['form_factor._source2patch_energy_universal'] = ('leg', '_source2patch_energy_universal')
CALLEES['_add_directional'] = ('bake', '_add_directional')


def _is_instance(e, what):
    return isinstance(e, ast.Call) and dotted(e.func) == 'isinstance' and len(e.args) == 2 and \
        dotted(e.args[0]) == 'source' and dotted(e.args[1]) == what


class K6(K4):
    """`DirectionalRadiosityFast.init_source_energy` for an object whose materials and attenuation are installed
    (the two `if … is None:` blocks that install defaults by calling other methods are outside the translation:
    PRECONDITION, recorded in the generated docstring).  The source object is represented by what the method
    reads of it: its position (`source_position`), whether it is a `SoundSource` (`is_sound_source`) and its
    `get_directivity` as an optional opaque function (`None`: no directivity).  The attributes written come out
    as a tuple."""

    def __init__(self):
        self.py = 'DirectionalRadiosityFast.init_source_energy'
        self.spec = dict(SPEC6, opaque=['source'])
        fn = copy.deepcopy(func(FAST, 'init_source_energy', cls='DirectionalRadiosityFast'))
        args = [a.arg for a in fn.args.args]
        if args != ['self', 'source']:
            raise TranslationError('%s: parameters are %s' % (self.py, args))
        self.fn = _Self().visit(fn)
        self.arr = {}
        self.scal_nat = set(SPEC6['nat_scalars'])
        self.scal_float = set()
        self.bools, self.opt, self.unwrapped, self.junk = set(), set(), set(), []
        for a, r in SPEC6['arrays'].items():
            self.arr[a] = Arr(a, r, ['%s_shape_%d' % (a, k) for k in range(r)], a in SPEC6['int_arrays'])
        self.written = {}
        used = {n.id for n in ast.walk(self.fn) if isinstance(n, ast.Name) and n.id.startswith('self_')}
        known = set(SPEC6['arrays']) | self.scal_nat | set(SPEC6['writes']) | {'self_n_walls', 'self_set_wall_brdf', 'self_set_air_attenuation'}   # the last three only inside the default-installing blocks
        if not used <= known:
            raise TranslationError('%s: reads/writes of self outside the declared ones: %s' % (self.py, sorted(used - known)))

    # ---- expressions
    def scalar(self, e, env):
        if isinstance(e, ast.Name) and e.id == 'is_sound_source':
            return e.id, 'bool'
        return K4.scalar(self, e, env)

    def rank_of(self, e):
        if isinstance(e, ast.Call):
            f = dotted(e.func)
            if f == 'np.real' and len(e.args) == 1:
                return self.rank_of(e.args[0])
            if f == 'source.get_directivity':
                return 1
            if f == 'np.repeat':
                return self.rank_of(e.args[0])
            if f == 'np.array' and len(e.args) == 1 and isinstance(e.args[0], ast.Name) and e.args[0].id in self.arr:
                return self.arr[e.args[0].id].rank
        if isinstance(e, ast.Subscript) and self._newaxis_view(e) is not None:
            return 2
        return K4.rank_of(self, e)

    def shape_of(self, e):
        if isinstance(e, ast.Call):
            f = dotted(e.func)
            if f == 'np.real' and len(e.args) == 1:
                return self.shape_of(e.args[0])
            if f == 'source.get_directivity':
                return [self.shape_of(e.args[0])[0]]
        return K4.shape_of(self, e)

    def _newaxis_view(self, e):
        """`v[:, np.newaxis]` / `v[..., np.newaxis]` of a rank-1 array `v`: the name of `v`, else None."""
        if isinstance(e, ast.Subscript) and isinstance(e.value, ast.Name) and e.value.id in self.arr \
                and self.arr[e.value.id].rank == 1 and isinstance(e.slice, ast.Tuple) and len(e.slice.elts) == 2 \
                and dotted(e.slice.elts[1]) == 'np.newaxis':
            a = e.slice.elts[0]
            if (isinstance(a, ast.Slice) and a.lower is None and a.upper is None) or \
                    (isinstance(a, ast.Constant) and a.value is Ellipsis):
                return e.value.id
        return None

    def rhs_at(self, e, env, coords):
        # v[:, np.newaxis] and np.repeat(v[..., np.newaxis], n, axis=-1): the value of v at the first of the two coordinates
        v = self._newaxis_view(e)
        if v is None and isinstance(e, ast.Call) and dotted(e.func) == 'np.repeat' and len(e.args) == 2 \
                and [k.arg for k in e.keywords] == ['axis'] and isinstance(e.keywords[0].value, ast.UnaryOp):
            v = self._newaxis_view(e.args[0])
            if v is None:
                raise TranslationError('%s: %s' % (self.py, src(e)))
        if v is not None:
            if len(coords) != 2:
                raise TranslationError('%s: %s assigned to a region of rank %d' % (self.py, src(e), len(coords)))
            return '%s (%s)' % (v, coords[0][1])
        if isinstance(e, ast.Call) and dotted(e.func) == 'source.get_directivity' and len(e.args) == 2 and not e.keywords:
            if 'source_get_directivity' not in self.unwrapped:
                raise TranslationError('%s: get_directivity outside `source.directivity is not None`' % self.py)
            text, shp = self.lam(e.args[0], env)
            fq, kd = self.scalar(e.args[1], env)
            return 'source_get_directivity %s (%s) (%s)' % (text, fq, coords[-1][1])
        if isinstance(e, ast.Call) and dotted(e.func) == 'np.array' and len(e.args) == 1 and isinstance(e.args[0], ast.Name) \
                and e.args[0].id in self.arr:
            return K4.rhs_at(self, e.args[0], env, coords)
        return K4.rhs_at(self, e, env, coords)

    def call_text(self, e, env):
        f = dotted(e.func)
        if f == 'form_factor._source2patch_energy_universal':
            callee = legkernels.K3('_source2patch_energy_universal')
            if len(e.args) != len(callee.params) or e.keywords:
                raise TranslationError('%s: call %s' % (self.py, src(e)))
            parts = ['pt_solution_source']
            for prm, a in zip(callee.params, e.args):
                if prm in callee.arr:
                    if self.rank_of(a) != callee.arr[prm].rank:
                        raise TranslationError('%s: argument %s of %s' % (self.py, src(a), f))
                    text, shp = self.lam(a, env)
                    parts += ['(%s)' % s_ for s_ in shp] + ['(some %s)' % text if prm in callee.opt else text]
                else:
                    parts.append('(%s)' % self.scalar(a, env)[0])
            return '%s %s' % (callee.spec['lean'], ' '.join(parts))
        return K4.call_text(self, e, env)

    # ---- statements
    def block(self, body, env, ind, tail):
        if not body:
            return tail
        st, rest = body[0], body[1:]
        sp = '  ' * ind
        cont = lambda env_=env: self.block(rest, env_, ind, tail)
        self._env = env
        # the source object: position (parameter), kind (parameter)
        if isinstance(st, ast.If) and _is_instance(st.test, 'pf.Coordinates') and 'source_position' in \
                [t.id for n in ast.walk(st) if isinstance(n, ast.Assign) for t in n.targets if isinstance(t, ast.Name)]:
            names = {t.id for n in ast.walk(st) if isinstance(n, ast.Assign) for t in n.targets if isinstance(t, ast.Name)}
            if names != {'source_position'}:
                raise TranslationError('%s: the source branch assigns %s' % (self.py, sorted(names)))
            return cont()
        if isinstance(st, ast.Assign) and len(st.targets) == 1 and dotted(st.targets[0]) == 'self_source' and dotted(st.value) == 'source':
            return cont()
        # default installation: outside the translation (precondition)
        if isinstance(st, ast.If) and not st.orelse and isinstance(st.test, ast.Compare) and isinstance(st.test.ops[0], ast.Is) \
                and isinstance(st.test.comparators[0], ast.Constant) and st.test.comparators[0].value is None \
                and dotted(st.test.left) in SPEC6['precondition']:
            return cont()
        if isinstance(st, ast.Assign) and len(st.targets) == 1 and isinstance(st.targets[0], ast.Name):
            name, v = st.targets[0].id, st.value
            f = dotted(v.func) if isinstance(v, ast.Call) else None
            # direction lists as arrays
            if f == 'np.array' and len(v.args) == 1 and isinstance(v.args[0], ast.ListComp):
                lc = v.args[0]
                it = dotted(lc.generators[0].iter) if len(lc.generators) == 1 else None
                if it in ('self_brdf_incoming_directions', 'self_brdf_outgoing_directions') and isinstance(lc.elt, ast.Attribute) \
                        and lc.elt.attr == 'cartesian' and dotted(lc.elt.value) == dotted(lc.generators[0].target) and not lc.generators[0].ifs:
                    self.arr[name] = Arr(name, 3, list(self.arr[it].shape))
                    return sp + 'let %s : %s := %s\n' % (name, self.ftype(name), it) + cont()
                raise TranslationError('%s: %s' % (self.py, src(st)))
            # plain alias of an array (keeps the element type)
            if isinstance(v, ast.Name) and v.id in self.arr and name not in SPEC6['writes']:
                self.arr[name] = Arr(name, self.arr[v.id].rank, list(self.arr[v.id].shape), self.arr[v.id].is_int)
                if v.id in self.bools:
                    self.bools.add(name)
                return sp + 'let %s : %s := %s\n' % (name, self.ftype(name), v.id) + cont()
            # opaque visibility vector
            if f == 'geometry._check_point2patch_visibility':
                shp = self.shape_of(v)
                self.arr[name] = Arr(name, 1, shp)
                self.bools.add(name)
                return sp + 'let %s : Nat → Bool := fun a0_ => %s\n' % (name, self.rhs_at(v, env, [(0, 'a0_', shp[0])])) + cont()
            # attributes written: outputs
            if name in SPEC6['writes'] and isinstance(v, ast.Name) and v.id in self.arr:
                self.written[name] = v.id
                self.arr[name] = Arr(name, self.arr[v.id].rank, list(self.arr[v.id].shape), self.arr[v.id].is_int)
                if v.id in self.bools:
                    self.bools.add(name)
                return sp + 'let %s : %s := %s\n' % (name, self.ftype(name), v.id) + cont()
        # energy_0, distance_0 = form_factor._source2patch_energy_universal(...)
        if isinstance(st, ast.Assign) and len(st.targets) == 1 and isinstance(st.targets[0], ast.Tuple) \
                and isinstance(st.value, ast.Call) and dotted(st.value.func) == 'form_factor._source2patch_energy_universal':
            names = [dotted(t) for t in st.targets[0].elts]
            if len(names) != 2:
                raise TranslationError('%s: %s' % (self.py, src(st)))
            P_ = self.shape_of(st.value.args[1])[0]
            nb, _ = self.scalar(st.value.args[5], env)
            self.arr[names[0]] = Arr(names[0], 2, [P_, nb])
            self.arr[names[1]] = Arr(names[1], 1, [P_])
            return (sp + 'let r_ := %s\n' % self.call_text(st.value, env) + sp + 'let %s : Nat → Nat → α := r_.1\n' % names[0] +
                    sp + 'let %s : Nat → α := r_.2\n' % names[1] + cont())
        # if isinstance(source, SoundSource): (array updates only)
        if isinstance(st, ast.If) and _is_instance(st.test, 'sound_object.SoundSource') and not st.orelse:
            return self.cond_arrays(st.body, [], 'is_sound_source = true', env, ind, cont, scal_ok=True)
        # if source.directivity is not None: … else: …
        if isinstance(st, ast.If) and isinstance(st.test, ast.Compare) and isinstance(st.test.ops[0], ast.IsNot) \
                and dotted(st.test.left) == 'source.directivity':
            arrays = [a for a in K3.assigned_arrays(self, st.body + st.orelse)]
            tup = arrays[0] if len(arrays) == 1 else '(%s)' % ', '.join(arrays)
            saved = dict(self.arr)
            self.unwrapped.add('source_get_directivity')
            t1 = self.block(st.body, env, ind + 2, '  ' * (ind + 2) + tup)
            self.unwrapped.discard('source_get_directivity')
            for k_ in list(self.arr):
                if k_ not in saved:
                    del self.arr[k_]
            t2 = self.block(st.orelse, env, ind + 2, '  ' * (ind + 2) + tup) if st.orelse else '  ' * (ind + 2) + tup
            return (sp + 'let %s :=\n' % tup + sp + '  match source_get_directivity with\n' + sp + '  | some source_get_directivity =>\n' + t1 + '\n' +
                    sp + '  | none =>\n' + t2 + '\n' + cont())
        # if n_directions == 1: A[...] = …  else: A[...] = …
        if isinstance(st, ast.If) and isinstance(st.test, ast.Compare) and isinstance(st.test.ops[0], ast.Eq) and st.orelse:
            c = K.cond(self, st.test, env)
            return self.cond_arrays(st.body, st.orelse, c, env, ind, cont)
        # A *= B on whole arrays of the same rank
        if isinstance(st, ast.AugAssign) and isinstance(st.op, ast.Mult) and isinstance(st.target, ast.Name) \
                and st.target.id in self.arr and isinstance(st.value, ast.Name) and st.value.id in self.arr \
                and self.arr[st.value.id].rank == self.arr[st.target.id].rank:
            A = self.arr[st.target.id]
            ps = ' '.join(P(k) for k in range(A.rank))
            return sp + 'let %s : %s := fun %s => %s %s * %s %s\n' % (A.name, self.ftype(A.name), ps, A.name, ps, st.value.id, ps) + cont()
        # local rank-1 array from an expression involving the opaque directivity
        if isinstance(st, ast.Assign) and len(st.targets) == 1 and isinstance(st.targets[0], ast.Name) \
                and isinstance(st.value, ast.Call) and dotted(st.value.func) == 'np.real' and self.rank_of(st.value) == 1:
            name = st.targets[0].id
            shp = self.shape_of(st.value)
            self.arr[name] = Arr(name, 1, shp)
            return sp + 'let %s : Nat → α := fun a0_ => %s\n' % (name, self.rhs_at(st.value.args[0], env, [(0, 'a0_', shp[0])])) + cont()
        return K4.block(self, body, env, ind, tail)

    def cond_arrays(self, body, orelse, c, env, ind, cont, scal_ok=False):
        sp = '  ' * ind
        arrays = K3.assigned_arrays(self, body + orelse)
        if not arrays:
            raise TranslationError('%s: branch without array updates' % self.py)
        tup = arrays[0] if len(arrays) == 1 else '(%s)' % ', '.join(arrays)
        saved = dict(self.arr)
        t1 = self.block(body, env, ind + 2, '  ' * (ind + 2) + tup)
        for k_ in list(self.arr):
            if k_ not in saved:
                del self.arr[k_]
        t2 = self.block(orelse, env, ind + 2, '  ' * (ind + 2) + tup) if orelse else '  ' * (ind + 2) + tup
        for k_ in list(self.arr):
            if k_ not in saved:
                del self.arr[k_]
        return (sp + 'let %s :=\n' % tup + sp + '  if %s then\n' % c + t1 + '\n' + sp + '  else\n' + t2 + '\n' + cont())

    def emit(self):
        outs = SPEC6['outputs']
        body = self.block(self.fn.body, {}, 1, '  (%s)' % ', '.join(outs))
        if sorted(self.written) != sorted(outs):
            raise TranslationError('%s: attributes written are %s' % (self.py, sorted(self.written)))
        sig = ['(check_point2patch_visibility : (Nat → α) → (Nat → Nat → α) → (Nat → Nat → α) → (Nat → Nat → Nat → α) → Nat → Bool)',
               '(pt_solution_source : (Nat → α) → (Nat → Nat → α) → α)', '(is_sound_source : Bool)',
               '(source_get_directivity : Option ((Nat → Nat → α) → α → Nat → α))']
        for p, r in SPEC6['arrays'].items():
            sig += ['(%s_shape_%d : Nat)' % (p, k) for k in range(r)]
            sig.append('(%s : %s)' % (p, ' → '.join(['Nat'] * r + ['Nat' if p in SPEC6['int_arrays'] else 'α'])))
        sig += ['(%s : Nat)' % p for p in SPEC6['nat_scalars']]
        ret = '(Nat → Bool) × (Nat → Nat → Nat → α) × (Nat → α)'
        doc = ('/-- translated from `%s` (%s) for an object with materials and attenuation installed (the two blocks that install '
               'defaults are outside the translation); the source is its position, its kind and its optional `get_directivity`; the '
               'result is the tuple of the attributes written: source visibility, initial energy, distances -/' % (self.py, FAST))
        head = ('def %s [Add α] [Sub α] [Mul α] [Div α] [Neg α] [Zero α] [One α] [Cmp α] [ToBin α] [Transc α] [NatCast α]\n    %s :\n    %s :=\n'
                % (SPEC6['lean'], ' '.join(sig), ret))
        return doc + '\n' + head + body + '\n'


def generate_source():
    """Generated/SourceGlue.lean"""
    out = ['/- GENERATED by harness/translate/gluekernels.py from %s -- do not edit. -/' % FAST,
           'import Sparrow.Generated.BakeKernels', 'import Sparrow.Generated.LegKernels', 'set_option linter.unusedVariables false',
           'namespace Sparrow.Generated.SourceGlue', 'open Sparrow Sparrow.Generated.BakeKernels Sparrow.Generated.LegKernels', 'variable {α : Type}', '']
    t = K6()
    out.append(t.emit())
    out.append('end Sparrow.Generated.SourceGlue')
    facts = {'init_source_energy': {'statements': sum(1 for _ in ast.walk(t.fn) if isinstance(_, ast.stmt)),
                                    'precondition': 'materials and attenuation installed (default-installing blocks not translated)'}}
    return '\n'.join(out) + '\n', facts


def generate_exchange():
    """Generated/ExchangeGlue.lean (its own file: a change to one method must not cost the other its tie)."""
    out = ['/- GENERATED by harness/translate/gluekernels.py from %s -- do not edit. -/' % FAST,
           'import Sparrow.Generated.Kernels', 'set_option linter.unusedVariables false', 'namespace Sparrow.Generated.ExchangeGlue',
           'open Sparrow Sparrow.Generated.Kernels', 'variable {α : Type}', '']
    t = K5()
    out.append(t.emit())
    out.append('end Sparrow.Generated.ExchangeGlue')
    facts = {'calculate_energy_exchange': {'statements': sum(1 for _ in ast.walk(t.fn) if isinstance(_, ast.stmt)),
                                           'np_empty_buffers': [n for n, _ in t.junk]}}
    return '\n'.join(out) + '\n', facts
