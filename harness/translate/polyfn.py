"""Generated/PolygonFn.lean: the membership test behind the line-of-sight scan (sparrowpy/geometry.py):
`_matrix_vector_product`, `_rotation_matrix` (default target +z, the only way `_point_in_polygon` calls it) and `_point_in_polygon`.

This generator is a *recogniser*: every statement is compared (ast.unparse, docstrings dropped) with the normal form in EXPECTED;
the Lean text emitted is fixed and follows the Python statement by statement.  A change of the text - harmless or not - raises
TranslationError (= broken tie for the properties importing the file).  How the statements are read:

  * arrays are total functions of their indices; `np.empty` cells are written before they are read; 3-vectors have components
    0, 1, 2; `x[0:2]` of a 3-vector is represented as the 3-vector with component 2 set to 0, so that the 2-D call of
    `_project_to_plane` is the TRANSLATED 3-D text (Generated/VisibilityFn.lean `projectToPlaneT`) on padded vectors;
  * `a == b` on floats is `not a < b and not b < a` (no NaN); `counter == n_in.shape[0]` with three components is `counter = 3`;
  * `np.eye(3)` is the Kronecker delta, `kmat.dot(kmat)` the 3 x 3 matrix product, `s ** 2` is `s * s`;
  * `count` is an integer (`Int`); `prange` is `range` (no numba in this environment, and the loop bodies only accumulate);
  * `b is not None and b[0] > pt[0]` is a match on the `Option` returned by `projectToPlaneT`."""
import ast
from .pyast import func, src, TranslationError
from .smallfn import GEOM

EXPECTED = {
    '_matrix_vector_product': ('matrix: np.ndarray, vector: np.ndarray', [
        'out = np.empty(matrix.shape[0])',
        'for i in prange(matrix.shape[0]):\n    out[i] = np.dot(matrix[i], vector)',
        'return out']),
    '_rotation_matrix': ('n_in: np.ndarray, n_out=np.array([])', [
        'if n_out.shape[0] == 0:\n    n_out = np.zeros_like(n_in)\n    n_out[-1] = 1.0\nelse:\n    n_out = n_out',
        'counter = int(0)',
        'for i in prange(n_in.shape[0]):\n    if n_in[i] == n_out[i]:\n        counter += 1\n    else:\n        counter = counter',
        'if counter == n_in.shape[0]:\n    matrix = np.eye(len(n_in), dtype=np.float64)\nelse:\n    a = n_in / np.linalg.norm(n_in)\n'
        '    a = np.reshape(a, len(n_in))\n    b = n_out / np.linalg.norm(n_out)\n    b = np.reshape(b, len(n_in))\n    c = np.dot(a, b)\n'
        '    v = np.cross(a, b)\n    s = np.linalg.norm(v)\n    if s == 0 and c > 0:\n        matrix = np.eye(len(n_in), dtype=np.float64)\n'
        '    elif c != -1:\n        kmat = np.array([[0, -v[2], v[1]], [v[2], 0, -v[0]], [-v[1], v[0], 0]])\n'
        '        matrix = np.eye(len(n_in)) + kmat + kmat.dot(kmat) * ((1 - c) / s ** 2)\n    else:\n'
        '        matrix = np.array([[-1.0, 0.0, 0.0], [0.0, 1.0, 0.0], [0.0, 0.0, -1.0]])',
        'return matrix']),
    '_point_in_polygon': ('point3d: np.ndarray, polygon3d: np.ndarray, plane_normal: np.ndarray, eta=1e-06', [
        'if np.abs(np.dot(point3d - polygon3d[0], plane_normal)) > eta:\n    out = False\nelse:\n'
        '    rotmat = _rotation_matrix(n_in=plane_normal)\n'
        '    pt = _matrix_vector_product(matrix=rotmat, vector=point3d)[0:point3d.shape[0] - 1]\n'
        '    poly = np.empty((polygon3d.shape[0], 2))\n    for i in prange(polygon3d.shape[0]):\n'
        '        poly[i] = _matrix_vector_product(matrix=rotmat, vector=polygon3d[i])[0:point3d.shape[0] - 1]\n'
        '    count = 0\n    for i in prange(poly.shape[0]):\n        a1 = poly[(i + 1) % poly.shape[0]]\n        a0 = poly[i % poly.shape[0]]\n'
        '        side = a1 - a0\n        nl = np.array([-side[1], side[0]]) / np.linalg.norm(side)\n'
        '        b = _project_to_plane(origin=pt, point=pt + np.array([1.0, 0.0]), plane_pt=a1, plane_normal=nl, check_normal=False)\n'
        '        if b is not None and b[0] > pt[0]:\n'
        '            if abs(np.linalg.norm(b - a0) + np.linalg.norm(b - a1) - np.linalg.norm(a1 - a0)) <= eta:\n'
        '                if np.dot(b - pt, nl) > 0:\n                    count += 1\n'
        '                elif np.dot(b - pt, nl) < 0:\n                    count -= 1\n'
        '    if count != 0:\n        out = True\n    else:\n        out = False',
        'return out']),
}

LEAN = '''/-- recognised from `_matrix_vector_product` (%(f)s) for a 3 x 3 matrix -/
def matrixVectorProduct [Add α] [Mul α] (matrix : Nat → Nat → α) (vector : Nat → α) : Nat → α :=
  fun i => matrix i 0 * vector 0 + matrix i 1 * vector 1 + matrix i 2 * vector 2

/-- recognised from `_rotation_matrix` (%(f)s) called with `n_in` only (target `+z`) -/
def rotationMatrixT %(c)s (n_in : Nat → α) : Nat → Nat → α :=
  let n_out : Nat → α := fun q_ => if q_ = 2 then ((1 : Nat) : α) else 0
  let counter : Nat := (List.range 3).foldl (fun counter i =>
    if (!Cmp.lt (n_in i) (n_out i) && !Cmp.lt (n_out i) (n_in i)) = true then counter + 1 else counter) 0
  let eye : Nat → Nat → α := fun r_ c_ => if r_ = c_ then ((1 : Nat) : α) else 0
  if counter = 3 then eye
  else
    let norm_in : α := Transc.sqrt (n_in 0 * n_in 0 + n_in 1 * n_in 1 + n_in 2 * n_in 2)
    let a : Nat → α := fun q_ => n_in q_ / norm_in
    let norm_out : α := Transc.sqrt (n_out 0 * n_out 0 + n_out 1 * n_out 1 + n_out 2 * n_out 2)
    let b : Nat → α := fun q_ => n_out q_ / norm_out
    let c : α := a 0 * b 0 + a 1 * b 1 + a 2 * b 2
    let v : Nat → α := fun q_ => if q_ = 0 then a 1 * b 2 - a 2 * b 1 else if q_ = 1 then a 2 * b 0 - a 0 * b 2 else a 0 * b 1 - a 1 * b 0
    let s : α := Transc.sqrt (v 0 * v 0 + v 1 * v 1 + v 2 * v 2)
    if ((!Cmp.lt s 0 && !Cmp.lt 0 s) && Cmp.lt 0 c) = true then eye
    else if (!(!Cmp.lt c (-(((1 : Nat) : α))) && !Cmp.lt (-(((1 : Nat) : α))) c)) = true then
      let kmat : Nat → Nat → α := fun r_ c_ =>
        if r_ = 0 then (if c_ = 0 then 0 else if c_ = 1 then -(v 2) else v 1)
        else if r_ = 1 then (if c_ = 0 then v 2 else if c_ = 1 then 0 else -(v 0))
        else (if c_ = 0 then -(v 1) else if c_ = 1 then v 0 else 0)
      fun r_ c_ => eye r_ c_ + kmat r_ c_ +
        (kmat r_ 0 * kmat 0 c_ + kmat r_ 1 * kmat 1 c_ + kmat r_ 2 * kmat 2 c_) * ((((1 : Nat) : α) - c) / (s * s))
    else fun r_ c_ =>
      if r_ = 0 then (if c_ = 0 then -(((1 : Nat) : α)) else 0)
      else if r_ = 1 then (if c_ = 1 then ((1 : Nat) : α) else 0)
      else (if c_ = 2 then -(((1 : Nat) : α)) else 0)

/-- recognised from `_point_in_polygon` (%(f)s); `eta` is its default `1e-6`, `eps` the default `epsilon` of `_project_to_plane`,
    `thr` the (unused) literal parameter of the translated `_project_to_plane` -/
def pointInPolygonT %(c)s
    (thr : α) (point3d : Nat → α) (polygon3d : Nat → Nat → α) (n_polygon3d : Nat) (plane_normal : Nat → α) (eta eps : α) : Bool :=
  if Cmp.lt eta (Cmp.abs ((point3d 0 - polygon3d 0 0) * plane_normal 0 + (point3d 1 - polygon3d 0 1) * plane_normal 1 +
      (point3d 2 - polygon3d 0 2) * plane_normal 2)) = true then false
  else
    let rotmat : Nat → Nat → α := rotationMatrixT plane_normal
    let pt : Nat → α := fun q_ => if q_ < 2 then matrixVectorProduct rotmat point3d q_ else 0
    let poly : Nat → Nat → α := fun i q_ => if q_ < 2 then matrixVectorProduct rotmat (fun k_ => polygon3d i k_) q_ else 0
    let count : Int := (List.range n_polygon3d).foldl (fun (count : Int) i =>
      let a1 : Nat → α := poly ((i + 1) %% n_polygon3d)
      let a0 : Nat → α := poly (i %% n_polygon3d)
      let side : Nat → α := fun q_ => a1 q_ - a0 q_
      let norm_side : α := Transc.sqrt (side 0 * side 0 + side 1 * side 1)
      let nl : Nat → α := fun q_ => if q_ = 0 then -(side 1) / norm_side else if q_ = 1 then side 0 / norm_side else 0
      let b : Option (Nat → α) := projectToPlaneT thr pt (fun q_ => pt q_ + (if q_ = 0 then ((1 : Nat) : α) else 0)) a1 nl eps
      match b with
      | none => count
      | some b =>
        if Cmp.lt (pt 0) (b 0) = true then
          if Cmp.le (Cmp.abs (Transc.sqrt ((b 0 - a0 0) * (b 0 - a0 0) + (b 1 - a0 1) * (b 1 - a0 1)) +
              Transc.sqrt ((b 0 - a1 0) * (b 0 - a1 0) + (b 1 - a1 1) * (b 1 - a1 1)) -
              Transc.sqrt ((a1 0 - a0 0) * (a1 0 - a0 0) + (a1 1 - a0 1) * (a1 1 - a0 1)))) eta = true then
            if Cmp.lt 0 ((b 0 - pt 0) * nl 0 + (b 1 - pt 1) * nl 1) = true then count + 1
            else if Cmp.lt ((b 0 - pt 0) * nl 0 + (b 1 - pt 1) * nl 1) 0 = true then count - 1
            else count
          else count
        else count) 0
    if count != 0 then true else false
'''

CLSP = '[Add α] [Sub α] [Mul α] [Div α] [Neg α] [Zero α] [Cmp α] [Transc α] [NatCast α]'


def generate():
    facts = {}
    for name, (sig, want) in EXPECTED.items():
        fn = func(GEOM, name)
        if ast.unparse(fn.args) != sig:
            raise TranslationError('%s: parameters are (%s)' % (name, ast.unparse(fn.args)))
        body = [s for s in fn.body if not (isinstance(s, ast.Expr) and isinstance(s.value, ast.Constant))]
        if len(body) != len(want):
            raise TranslationError('%s: %d statements, the recogniser knows %d' % (name, len(body), len(want)))
        for k, (s, w) in enumerate(zip(body, want)):
            if src(s) != w:
                got, i = src(s), 0
                while i < min(len(got), len(w)) and got[i] == w[i]:
                    i += 1
                raise TranslationError('%s: statement %d is not in the recognised form, from: %s' % (name, k, got[max(0, i - 40):i + 120]))
        facts[name] = {'statements': sum(1 for _ in ast.walk(fn) if isinstance(_, ast.stmt)), 'mode': 'recogniser'}
    out = ['/- GENERATED by harness/translate/polyfn.py from %s -- do not edit. -/' % GEOM, 'import Sparrow.Generated.VisibilityFn',
           'set_option linter.unusedVariables false', 'namespace Sparrow.Generated.PolygonFn', 'open Sparrow Sparrow.Generated.VisibilityFn',
           'variable {α : Type}', '', LEAN % {'f': GEOM, 'c': CLSP}, 'end Sparrow.Generated.PolygonFn']
    return '\n'.join(out) + '\n', facts
