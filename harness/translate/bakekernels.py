"""Generated/BakeKernels.lean: translation of the kernels that put the materials into the run —
`get_scattering_data_source`, `_form_factors_with_directivity_dim` (the baked transfer factors)
and `_add_directional` (the initial energy per outgoing direction) — in the same style as
kernels.py (arrays as functions, loops as folds, in-place statements as pointwise updates).

Additional constructs (everything else raises TranslationError):
  * optional array parameters: `if X is not None:` is a `match X with | some X => … | none => …`;
    `a if X is not None else b`;
  * local arrays defined by an array expression (`d = c[i] - c[j]`), updated in place by a scalar
    (`d /= s`); an argument `c[i]` of a helper is the view `fun q => c i q`;
  * `np.linalg.norm(v)` of a rank-1 expression: square root of the left-to-right sum of squares;
    `np.argmin(np.sum((A[w, :, :] - v)**2, axis=-1))`: first index of the smallest sum of squares;
  * Boolean arrays, conditional expressions, `n**2`, `int(a/b)` of non-negative integers (floor
    division), `int(x)` of an integer, `np.real`, a helper returning a sub-array."""
import ast
from .pyast import func, src, dotted, TranslationError
from .kernels import K, Arr, P, FAST

SPEC2 = {
    'get_scattering_data_source': {
        'lean': 'getScatteringDataSource',
        'arrays': {'pos_h': 1, 'pos_i': 1, 'sources': 3, 'scattering': 4, 'scattering_index': 1},
        'int_arrays': ['scattering_index'],
        'nat_scalars': ['wall_id_i'], 'float_scalars': [], 'ret_rank': 2},
    '_form_factors_with_directivity_dim': {
        'lean': 'formFactorsWithDirectivityDim',
        'arrays': {'visibility_matrix': 2, 'form_factors': 2, 'patches_center': 2, 'patches_area': 1,
                   'air_attenuation': 1, 'patch_to_wall_ids': 1, 'scattering': 4, 'scattering_index': 1,
                   'sources': 3, 'receivers': 3},
        'int_arrays': ['patch_to_wall_ids', 'scattering_index'], 'bool_arrays': ['visibility_matrix'],
        # `scattering_index` and `sources` are None exactly when `scattering` is (set together by bake_geometry);
        # they are read only under `scattering is not None`, so they are translated as plain arrays
        'opt_arrays': ['air_attenuation', 'scattering', 'receivers'],
        'nat_scalars': ['n_bins'], 'float_scalars': [], 'ret_rank': 4},
    '_add_directional': {
        'lean': 'addDirectional',
        'arrays': {'energy_0': 2, 'source_position': 1, 'patches_center': 2, 'patch_to_wall_ids': 1,
                   'sources': 3, 'receivers': 3, 'scattering': 4, 'scattering_index': 1},
        'int_arrays': ['patch_to_wall_ids', 'scattering_index'],
        'nat_scalars': ['n_bins'], 'float_scalars': [], 'ret_rank': 3},
}
SPEC2['get_scattering_data_receiver_index'] = {
    'lean': 'getScatteringDataReceiverIndex',
    'arrays': {'pos_i': 2, 'pos_j': 1, 'receivers': 3, 'wall_id_i': 1},
    'int_arrays': ['wall_id_i'], 'nat_scalars': [], 'float_scalars': [], 'ret_rank': 1, 'ret_int': True}
ORDER2 = ['get_scattering_data_source', '_form_factors_with_directivity_dim', '_add_directional',
          'get_scattering_data_receiver_index']


class K2(K):
    def __init__(self, pyname):
        self.py = pyname
        self.spec = SPEC2[pyname]
        self.fn = func(FAST, pyname)
        self.arr = {}
        self.scal_nat = set(self.spec['nat_scalars'])
        self.scal_float = set(self.spec['float_scalars'])
        self.bools = set(self.spec.get('bool_arrays', []))
        self.opt = set(self.spec.get('opt_arrays', []))
        self.unwrapped = set()
        for a, r in self.spec['arrays'].items():
            self.arr[a] = Arr(a, r, ['%s_shape_%d' % (a, k) for k in range(r)], a in self.spec.get('int_arrays', []))
        args = [a.arg for a in self.fn.args.args]
        want = list(self.spec['arrays']) + self.spec['nat_scalars'] + self.spec['float_scalars']
        if sorted(args) != sorted(want):
            raise TranslationError('%s: parameters are %s' % (pyname, args))
        self.params = args

    # ---- helpers about array expressions
    def is_array_expr(self, e):
        return self.rank_of(e) > 0

    def rank_of(self, e):
        if isinstance(e, ast.Name):
            return self.arr[e.id].rank if e.id in self.arr else 0
        if isinstance(e, ast.Subscript):
            a = dotted(e.value)
            if a in self.arr:
                idx = e.slice.elts if isinstance(e.slice, ast.Tuple) else [e.slice]
                return self.arr[a].rank - sum(1 for i in idx if not isinstance(i, ast.Slice))
            return 0
        if isinstance(e, ast.BinOp):
            return max(self.rank_of(e.left), self.rank_of(e.right))
        if isinstance(e, ast.UnaryOp):
            return self.rank_of(e.operand)
        if isinstance(e, ast.Call) and dotted(e.func) in ('np.exp', 'np.real') and len(e.args) == 1:
            return self.rank_of(e.args[0])
        return 0

    def shape_of(self, e):
        if isinstance(e, ast.Name) and e.id in self.arr:
            return list(self.arr[e.id].shape)
        if isinstance(e, ast.Subscript) and dotted(e.value) in self.arr:
            A = self.arr[dotted(e.value)]
            idx = e.slice.elts if isinstance(e.slice, ast.Tuple) else [e.slice]
            out = []
            for k in range(A.rank):
                i = idx[k] if k < len(idx) else ast.Slice(None, None, None)
                if isinstance(i, ast.Slice):
                    if i.lower is not None or i.upper is not None:
                        raise TranslationError('%s: shape of the slice %s' % (self.py, src(e)))
                    out.append(A.shape[k])
            return out
        if isinstance(e, ast.BinOp):
            a, b = self.shape_of(e.left), self.shape_of(e.right)
            return a if len(a) >= len(b) else b
        if isinstance(e, ast.UnaryOp):
            return self.shape_of(e.operand)
        if isinstance(e, ast.Call) and len(e.args) == 1:
            return self.shape_of(e.args[0])
        return []

    def opt_guard(self, name):
        if name in self.opt and name not in self.unwrapped:
            raise TranslationError('%s: optional array %s used outside an `is not None` branch' % (self.py, name))

    # ---- scalars (extensions)
    def scalar(self, e, env):
        if isinstance(e, ast.IfExp):
            c = self.cond(e.test, env)
            a, ka = self.scalar(e.body, env)
            b, kb = self.scalar(e.orelse, env)
            if ka != kb:
                raise TranslationError('%s: branches of %s differ in kind' % (self.py, src(e)))
            return '(if %s then %s else %s)' % (c, a, b), ka
        if isinstance(e, ast.BinOp) and isinstance(e.op, ast.Pow) and isinstance(e.right, ast.Constant) and e.right.value == 2:
            a, ka = self.scalar(e.left, env)
            return '(%s * %s)' % (a, a), ka
        if isinstance(e, ast.Attribute) and e.attr == 'ndim' and dotted(e.value) in self.arr:
            return str(self.arr[dotted(e.value)].rank), 'nat'
        if isinstance(e, ast.BinOp) and isinstance(e.op, ast.Sub):
            a, ka = self.scalar(e.left, env)
            b, kb = self.scalar(e.right, env)
            if ka == 'float' and kb == 'float':
                return '(%s - %s)' % (a, b), 'float'
        if isinstance(e, ast.Call):
            f = dotted(e.func)
            if f == 'int' and len(e.args) == 1:
                inner = e.args[0]
                if isinstance(inner, ast.BinOp) and isinstance(inner.op, ast.Div):
                    a, ka = self.scalar(inner.left, env)
                    b, kb = self.scalar(inner.right, env)
                    if ka == 'nat' and kb == 'nat':
                        return '(%s / %s)' % (a, b), 'nat'          # true division of non-negative integers, truncated
                try:
                    t, kd = self.scalar(inner, env)
                    if kd == 'nat':
                        return t, 'nat'
                except TranslationError:
                    pass
            if f == 'np.real' and len(e.args) == 1:
                return self.scalar(e.args[0], env)
            if f == 'np.linalg.norm' and len(e.args) == 1:
                v = e.args[0]
                if self.rank_of(v) != 1:
                    raise TranslationError('%s: norm of %s' % (self.py, src(v)))
                n = self.shape_of(v)[0]
                at = self.rhs_at(v, env, [(0, 'q_', n)])
                return 'Transc.sqrt ((List.range (%s)).foldl (fun acc_ q_ => acc_ + (%s) * (%s)) 0)' % (n, at, at), 'float'
            if f == 'np.argmin' and len(e.args) == 1 and all(k.arg == 'axis' for k in e.keywords):
                s = e.args[0]
                ok = isinstance(s, ast.Call) and dotted(s.func) == 'np.sum' and len(s.args) == 1 and \
                    any(k.arg == 'axis' and isinstance(k.value, ast.UnaryOp) for k in s.keywords)
                if ok:
                    p = s.args[0]
                    if isinstance(p, ast.BinOp) and isinstance(p.op, ast.Pow) and isinstance(p.right, ast.Constant) and p.right.value == 2 \
                            and self.rank_of(p.left) == 2:
                        n, m = self.shape_of(p.left)
                        at = self.rhs_at(p.left, env, [(0, 'k_', n), (1, 'q_', m)])
                        return ('argminFirst (%s) (fun k_ => (List.range (%s)).foldl (fun acc_ q_ => acc_ + (%s) * (%s)) 0)'
                                % (n, m, at, at)), 'nat'
                raise TranslationError('%s: argmin of %s' % (self.py, src(s)))
        if isinstance(e, ast.Subscript) and dotted(e.value) in self.arr:
            self.opt_guard(dotted(e.value))
            a = dotted(e.value)
            if a in self.bools:
                idx = e.slice.elts if isinstance(e.slice, ast.Tuple) else [e.slice]
                if len(idx) != self.arr[a].rank:
                    raise TranslationError('%s: element of %s' % (self.py, src(e)))
                return '%s %s' % (a, ' '.join('(%s)' % self.scalar(i, env)[0] for i in idx)), 'bool'
        if isinstance(e, ast.Subscript) and isinstance(e.value, ast.Attribute) and e.value.attr == 'shape':
            a = dotted(e.value.value)
            if a in self.arr and isinstance(e.slice, ast.Constant):
                return self.arr[a].shape[e.slice.value], 'nat'          # shapes are plain parameters, also of optional arrays
        return K.scalar(self, e, env)

    def cond(self, e, env):
        if isinstance(e, ast.Name) and env.get(e.id) == 'bool':
            return '%s = true' % e.id
        if isinstance(e, ast.Compare) and len(e.ops) == 1 and isinstance(e.ops[0], ast.IsNot) and \
                isinstance(e.comparators[0], ast.Constant) and e.comparators[0].value is None:
            a = dotted(e.left)
            if a in self.opt:
                return '%s.isSome = true' % a
        return K.cond(self, e, env)

    # ---- array expressions at a point (extensions)
    def rhs_at(self, e, env, coords):
        if isinstance(e, ast.Call) and dotted(e.func) == 'np.exp' and len(e.args) == 1 and self.rank_of(e.args[0]) > 0:
            return 'Transc.exp (%s)' % self.rhs_at(e.args[0], env, coords)
        if isinstance(e, ast.Call) and dotted(e.func) == 'np.real' and len(e.args) == 1:
            return self.rhs_at(e.args[0], env, coords)
        if isinstance(e, ast.UnaryOp) and isinstance(e.op, ast.USub) and self.rank_of(e.operand) > 0:
            return '-(%s)' % self.rhs_at(e.operand, env, coords)
        if isinstance(e, ast.BinOp) and isinstance(e.op, (ast.Sub, ast.Div)) and self.rank_of(e) > 0:
            op = '-' if isinstance(e.op, ast.Sub) else '/'
            return '(%s %s %s)' % (self.rhs_at(e.left, env, coords), op, self.rhs_at(e.right, env, coords))
        if isinstance(e, (ast.Name, ast.Subscript)):
            a = e.id if isinstance(e, ast.Name) else dotted(e.value)
            if a in self.arr:
                self.opt_guard(a)
        return K.rhs_at(self, e, env, coords)

    # ---- statements (extensions)
    def block(self, body, env, ind, tail):
        if not body:
            return tail
        st, rest = body[0], body[1:]
        sp = '  ' * ind
        cont = lambda env_=env: self.block(rest, env_, ind, tail)
        # return of a sub-array
        if isinstance(st, ast.Return) and isinstance(st.value, ast.Subscript) and dotted(st.value.value) in self.arr:
            r = self.rank_of(st.value)
            coords = [(k, P(k), s_) for k, s_ in enumerate(self.shape_of(st.value))]
            ps = ' '.join(P(k) for k in range(r))
            return sp + 'fun %s => %s' % (ps, self.rhs_at(st.value, env, coords))
        if isinstance(st, ast.Assign) and len(st.targets) == 1 and isinstance(st.targets[0], ast.Name):
            name, v = st.targets[0].id, st.value
            # integer result array: np.empty((n), dtype=np.int64)
            if isinstance(v, ast.Call) and dotted(v.func) == 'np.empty' and len(v.args) == 1 and \
                    any(k.arg == 'dtype' and dotted(k.value) == 'np.int64' for k in v.keywords):
                n_, kd = self.scalar(v.args[0], env)
                self.arr[name] = Arr(name, 1, [n_], True)
                return sp + 'let %s : Nat → Nat := fun _ => 0\n' % name + cont()
            # helper call returning an array
            if isinstance(v, ast.Call) and dotted(v.func) in SPEC2:
                callee = K2(dotted(v.func))
                if len(v.args) != len(callee.params) or v.keywords:
                    raise TranslationError('%s: call %s' % (self.py, src(v)))
                parts = []
                for prm, a in zip(callee.params, v.args):
                    if prm in callee.arr:
                        rk = callee.arr[prm].rank
                        if self.rank_of(a) != rk:
                            raise TranslationError('%s: argument %s of %s has rank %d' % (self.py, src(a), dotted(v.func), self.rank_of(a)))
                        shp = self.shape_of(a)
                        ps = ['a%d_' % k for k in range(rk)]
                        at = self.rhs_at(a, env, [(k, ps[k], shp[k]) for k in range(rk)])
                        parts += ['(%s)' % s_ for s_ in shp] + ['(fun %s => %s)' % (' '.join(ps), at)]
                    else:
                        t, kd = self.scalar(a, env)
                        parts.append('(%s)' % t)
                rr = callee.spec['ret_rank']
                # result shape: last `rr` axes of the scattering table
                sc_arg = v.args[callee.params.index('scattering')]
                shape = self.shape_of(sc_arg)[-rr:]
                self.arr[name] = Arr(name, rr, shape)
                return sp + 'let %s : %s := %s %s\n' % (name, self.fn_type(rr), callee.spec['lean'], ' '.join(parts)) + cont()
            # local array defined by an array expression
            if self.rank_of(v) > 0 and not (isinstance(v, ast.Call) and dotted(v.func) in ('np.zeros', 'np.zeros_like')) \
                    and not (isinstance(v, ast.Subscript) and dotted(v.value) == name):
                r = self.rank_of(v)
                shp = self.shape_of(v)
                coords = [(k, P(k), shp[k]) for k in range(r)]
                self_arr = Arr(name, r, shp)
                text = sp + 'let %s : %s := fun %s => %s\n' % (name, self.fn_type(r), ' '.join(P(k) for k in range(r)), self.rhs_at(v, env, coords))
                self.arr[name] = self_arr
                return text + cont()
            # scalar with the extended expression language (IfExp, norm, argmin, bool)
            if self.rank_of(v) == 0 and not isinstance(v, ast.Call) or (isinstance(v, ast.Call) and dotted(v.func) in ('int', 'np.linalg.norm', 'np.argmin', 'np.real')):
                try:
                    t, kd = self.scalar(v, env)
                except TranslationError:
                    t = None
                if t is not None:
                    env2 = dict(env)
                    env2[name] = kd
                    return sp + 'let %s := %s\n' % (name, t) + self.block(rest, env2, ind, tail)
        # in-place update of a local array by a scalar
        if isinstance(st, ast.AugAssign) and isinstance(st.target, ast.Name) and st.target.id in self.arr \
                and isinstance(st.op, (ast.Div, ast.Mult)) and self.rank_of(st.value) == 0:
            A = self.arr[st.target.id]
            t, kd = self.scalar(st.value, env)
            ps = ' '.join(P(k) for k in range(A.rank))
            op = '/' if isinstance(st.op, ast.Div) else '*'
            return sp + 'let %s : %s := fun %s => %s %s %s (%s)\n' % (A.name, self.fn_type(A.rank), ps, A.name, ps, op, t) + cont()
        # `if X is not None:` on an optional array parameter
        if isinstance(st, ast.If) and isinstance(st.test, ast.Compare) and isinstance(st.test.ops[0], ast.IsNot) \
                and dotted(st.test.left) in self.opt and not st.orelse:
            x = dotted(st.test.left)
            arrays = self.assigned_arrays(st.body)
            if not arrays:
                raise TranslationError('%s: `%s is not None` branch without array updates' % (self.py, x))
            tup = arrays[0] if len(arrays) == 1 else '(%s)' % ', '.join(arrays)
            was = x in self.unwrapped
            self.unwrapped.add(x)
            # the optional companions that are set together with it
            inner = self.block(st.body, env, ind + 2, '  ' * (ind + 2) + tup)
            if not was:
                self.unwrapped.discard(x)
            return (sp + 'let %s :=\n' % tup + sp + '  match %s with\n' % x + sp + '  | none => %s\n' % tup +
                    sp + '  | some %s =>\n' % x + inner + '\n' + cont())
        # `if flag:` on a Boolean scalar
        if isinstance(st, ast.If) and isinstance(st.test, ast.Name) and env.get(st.test.id) == 'bool' and not st.orelse:
            arrays = self.assigned_arrays(st.body)
            tup = arrays[0] if len(arrays) == 1 else '(%s)' % ', '.join(arrays)
            inner = self.block(st.body, env, ind + 2, '  ' * (ind + 2) + tup)
            return (sp + 'let %s :=\n' % tup + sp + '  if %s = true then\n' % st.test.id + inner + '\n' + sp + '  else\n' +
                    '  ' * (ind + 2) + tup + '\n' + cont())
        return K.block(self, body, env, ind, tail)

    def fn_type_param(self, name):
        A = self.arr[name]
        t = ' → '.join(['Nat'] * A.rank + ['Bool' if name in self.bools else ('Nat' if A.is_int else 'α')])
        return 'Option (%s)' % t if name in self.opt else t

    def emit(self):
        sig = []
        for p in self.params:
            if p in self.arr:
                A = self.arr[p]
                sig += ['(%s : Nat)' % s for s in A.shape]
                sig.append('(%s : %s)' % (p, self.fn_type_param(p)))
            elif p in self.scal_nat:
                sig.append('(%s : Nat)' % p)
            else:
                sig.append('(%s : α)' % p)
        body = self.block(self.fn.body, {}, 1, '')
        doc = '/-- translated from `%s` (%s) -/' % (self.py, FAST)
        head = ('def %s [Add α] [Sub α] [Mul α] [Div α] [Neg α] [Zero α] [Cmp α] [ToBin α] [Transc α]\n    %s :\n    %s :=\n'
                % (self.spec['lean'], ' '.join(sig), self.fn_type(self.spec['ret_rank'], self.spec.get('ret_int', False))))
        return doc + '\n' + head + body + '\n'


def generate():
    out = ['/- GENERATED by harness/translate/bakekernels.py from %s -- do not edit. -/' % FAST,
           'import Sparrow.Model.Vec', 'set_option linter.unusedVariables false', 'namespace Sparrow.Generated.BakeKernels',
           'open Sparrow', 'variable {α : Type}', '']
    facts = {}
    for k in ORDER2:
        t = K2(k)
        out.append(t.emit())
        facts[k] = {'statements': sum(1 for _ in ast.walk(t.fn) if isinstance(_, ast.stmt))}
    out.append('end Sparrow.Generated.BakeKernels')
    return '\n'.join(out) + '\n', facts
