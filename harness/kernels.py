"""Kernel-level correspondence: real module-level kernels of /repo vs the Lean model
through the driver's line protocol.  Inputs need not come from any geometry."""
import numpy as np
from . import common
from .common import fhex, fhexs


# ------------------------------------------------------------------ _energy_exchange
def gen_exchange_case(rng, big=False):
    P = int(rng.integers(1, 9 if big else 7))
    D = int(rng.choice([1, 1, 2, 3]))
    B = int(rng.choice([1, 1, 2, 3]))
    S = int(rng.choice([1, 2, 3, 5, 8, 13, 30] + ([64] if big else [])))
    K = int(rng.integers(0, 6 if big else 5))
    c = float(rng.uniform(300, 360))
    dt = float(rng.choice([1e-4, 5e-4, 1e-3, 2e-3, 5e-3, 3e-3, 7e-4, 0.3, 0.4, 0.15, 0.07]))      # reciprocal integer or not
    # visible pairs: subset of the strict upper triangle, in row-major order (as bake builds it)
    pairs = [(i, j) for i in range(P) for j in range(i + 1, P) if rng.random() < 0.7]
    # delays straddling the histogram end
    pool = [0, 0, 1, 1, 2, 3, max(S - 1, 0), S, S + 3, max(S // 2, 0), max(S // 3, 0)]

    def dist_for(b):
        return (b + float(rng.uniform(0.05, 0.95))) * c * dt
    bins_ij = rng.choice(pool, size=(P, P))
    bins_ij = np.triu(bins_ij, 1)
    bins_ij = bins_ij + bins_ij.T
    dij = np.zeros((P, P))
    for i in range(P):
        for j in range(i + 1, P):
            dij[i, j] = dij[j, i] = dist_for(int(bins_ij[i, j]))
    bins0 = rng.choice(pool, size=P)
    d0 = np.array([dist_for(int(b)) for b in bins0])
    kind = rng.choice(['uniform', 'sparse', 'ints'])
    if kind == 'uniform':
        fft = rng.uniform(0, 1, size=(P, P, D, B))
        e0 = rng.uniform(0, 1, size=(P, D, B))
    elif kind == 'sparse':
        fft = rng.uniform(0, 1, size=(P, P, D, B)) * (rng.random((P, P, D, B)) < 0.6)
        e0 = rng.uniform(0, 1, size=(P, D, B)) * (rng.random((P, D, B)) < 0.6)
    else:
        fft = rng.integers(0, 4, size=(P, P, D, B)).astype(float)
        e0 = rng.integers(0, 4, size=(P, D, B)).astype(float)
    dirm = rng.integers(0, D, size=(P, P))
    return dict(P=P, D=D, B=B, S=S, K=K, c=c, dt=dt, pairs=pairs, dij=dij, d0=d0,
                fft=fft, e0=e0, dir=dirm, bins_ij=bins_ij, bins0=bins0, kind=str(kind))


def impl_exchange(case):
    sp = common.import_repo()
    from sparrowpy.classes import RadiosityFast as RF
    vis = np.array(case['pairs'], dtype=np.int32).reshape(-1, 2)
    try:
        if case['K'] == 0:
            out = RF._energy_exchange_init_energy(
                case['S'], case['e0'].copy(), case['d0'].copy(), case['c'], case['dt'])
        else:
            out = RF._energy_exchange(
                case['S'], case['e0'].copy(), case['d0'].copy(), case['dij'].copy(),
                case['fft'].copy(), case['dir'].copy(), case['c'], case['dt'], case['K'], vis)
        return 'ok', np.asarray(out)
    except IndexError:
        return 'err', 'index_error'
    except ValueError:
        return 'err', 'value_error'


def exchange_line(case, b):
    P, D, S, K = case['P'], case['D'], case['S'], case['K']
    toks = ['exchange', str(P), str(D), str(S), str(K), fhex(case['c']), fhex(case['dt']),
            str(len(case['pairs']))]
    for (i, j) in case['pairs']:
        toks += [str(i), str(j)]
    toks.append(fhexs(case['d0']))
    toks.append(fhexs(case['dij']))
    toks.append(fhexs(case['e0'][:, :, b]))
    toks.append(fhexs(case['fft'][:, :, :, b]))
    toks.append(' '.join(str(int(x)) for x in np.asarray(case['dir']).ravel()))
    return ' '.join(t for t in toks if t != '')


def corr_exchange(ctx, cases):
    """Run a batch of exchange cases on implementation and model; EXACT class."""
    lines, index = [], []
    impl = []
    for ci, case in enumerate(cases):
        impl.append(impl_exchange(case))
        for b in range(case['B']):
            lines.append(exchange_line(case, b))
            index.append((ci, b))
    outs = common.run_driver(lines)
    for (ci, b), line in zip(index, outs):
        case = cases[ci]
        st, val = common.parse_ok_floats(line)
        ist, ival = impl[ci]
        what = 'corr:_energy_exchange[case %d band %d P=%d D=%d S=%d K=%d]' % (
            ci, b, case['P'], case['D'], case['S'], case['K'])
        if not ctx.cmp.tag(what + ' status', ist, st):
            continue
        if st == 'ok':
            ctx.cmp.exact(what, ival[:, :, b, :], val)
    for ci, case in enumerate(cases):
        ctx.cases += 1
        trunc = bool((case['bins_ij'] >= case['S']).any() or (case['bins0'] >= case['S']).any())
        zero_delay = bool(any(case['bins_ij'][i, j] == 0 for (i, j) in case['pairs']))
        ctx.count('exchange.cases')
        ctx.count('exchange.truncating', trunc)
        ctx.count('exchange.zero_delay', zero_delay)
        ctx.count('exchange.multi_dir', case['D'] > 1)
        ctx.count('exchange.multi_band', case['B'] > 1)
        ctx.count('exchange.order_%d' % case['K'])
        if case['pairs'] and case['K'] >= 1 and impl[ci][0] == 'ok' and np.any(impl[ci][1] != 0):
            ctx.nontriv(['ex', case['P'], case['D'], case['B'], case['S'], case['K'],
                         case['pairs'], case['bins_ij'].tolist(), case['bins0'].tolist()])
        ctx.sample({'kernel': '_energy_exchange', 'P': case['P'], 'D': case['D'], 'B': case['B'],
                    'S': case['S'], 'K': case['K'], 'pairs': case['pairs'],
                    'bins_ij': case['bins_ij'].tolist(), 'bins0': case['bins0'].tolist()}, limit=2)


# ------------------------------------------------------------------ _collect_receiver_energy
def gen_collect_case(rng):
    P = int(rng.integers(1, 7))
    B = int(rng.choice([1, 2, 3]))
    S = int(rng.choice([1, 2, 3, 5, 8, 13, 30]))
    c = float(rng.uniform(300, 360))
    dt = float(rng.choice([1e-4, 1e-3, 5e-3, 3e-3, 0.3, 0.4, 0.15]))      # reciprocal integer or not
    pool = [0, 1, 2, max(S - 1, 0), S, S + 2, 2 * S + 1]
    bins = rng.choice(pool, size=P)
    dist = np.array([max(b - float(rng.uniform(0.05, 0.95)), 0.0) * c * dt for b in bins])
    att = rng.choice([0.0, 0.0, 0.01, 0.2], size=B) * rng.uniform(0.5, 1.5, size=B)
    E = rng.uniform(0, 1, size=(P, B, S)) * (rng.random((P, B, S)) < 0.7)
    return dict(P=P, B=B, S=S, c=c, dt=dt, dist=dist, att=att, E=E, bins=bins)


def impl_collect(case):
    common.import_repo()
    from sparrowpy.classes import RadiosityFast as RF
    return np.asarray(RF._collect_receiver_energy(
        case['E'].copy(), case['dist'].copy(), case['c'], case['dt'], case['att'].copy()))


def collect_line(case, b):
    toks = ['collect', str(case['P']), str(case['S']), fhex(case['c']), fhex(case['dt']),
            fhex(case['att'][b]), fhexs(case['dist']), fhexs(case['E'][:, b, :])]
    return ' '.join(t for t in toks if t != '')


def corr_collect(ctx, cases):
    lines, index, impl = [], [], []
    for ci, case in enumerate(cases):
        impl.append(impl_collect(case))
        for b in range(case['B']):
            lines.append(collect_line(case, b))
            index.append((ci, b))
    outs = common.run_driver(lines)
    for (ci, b), line in zip(index, outs):
        case = cases[ci]
        st, val = common.parse_ok_floats(line)
        what = 'corr:_collect_receiver_energy[case %d band %d P=%d S=%d]' % (ci, b, case['P'], case['S'])
        if not ctx.cmp.tag(what + ' status', 'ok', st):
            continue
        # placement exact; values through exp() -> ULP class on the non-zero entries
        a = impl[ci][:, b, :]
        m = val.reshape(a.shape)
        if not ctx.cmp.ints(what + ' zero pattern', (a != 0).astype(int), (m != 0).astype(int)):
            continue
        ctx.cmp.ulp(what, a, m)
    for ci, case in enumerate(cases):
        ctx.cases += 1
        ctx.count('collect.cases')
        ctx.count('collect.truncating', bool((np.ceil(case['dist'] / case['c'] / case['dt']) >= case['S']).any()))
        if np.any(impl[ci] != 0):
            ctx.nontriv(['col', case['P'], case['B'], case['S'], case['bins'].tolist()])
        ctx.sample({'kernel': '_collect_receiver_energy', 'P': case['P'], 'B': case['B'],
                    'S': case['S'], 'delay_bins': case['bins'].tolist()}, limit=3)
