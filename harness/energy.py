"""Scene runs of the fast engine shared by the energy properties (C01, C03, C09-C12):
generation, an independent numpy solver of the discretised recursion fed only with the
scene description, and the property predicates evaluated on the implementation."""
import numpy as np
from . import common, scenes, pipeline


def gen_scene(rng, small=True, kinds=None, multi_dir=None, n_bands=None, att_zero=None):
    sides, patch = scenes.gen_room_params(rng, small=small)
    B = int(n_bands if n_bands is not None else rng.choice([1, 1, 2, 3]))
    a, kind = scenes.gen_materials(rng, B, kind=None if kinds is None else rng.choice(kinds))
    if att_zero is None:
        att_zero = rng.random() < 0.25
    att = np.zeros(B) if att_zero else rng.uniform(0.0, 0.4, size=B)
    if not att_zero and B > 1 and rng.random() < 0.4:
        att[int(rng.integers(0, B))] = 0.0          # lossless band next to lossy ones
    md = (rng.random() < 0.3) if multi_dir is None else multi_dir
    samp_par = None
    samp_in = None
    tables = None
    if md:
        samp_par = (int(rng.choice([1, 2])), int(rng.choice([3, 4, 5])), float(rng.uniform(0.3, 3.0)),
                    float(rng.uniform(0, 1)))
        n = samp_par[0] * samp_par[1]
        n_in = n
        if rng.random() < 0.5:
            # incoming directions on a DIFFERENT sampling (other count, other positions)
            samp_in = (int(rng.choice([1, 2])), int(rng.choice([2, 3, 4])), float(rng.uniform(0.3, 3.0)),
                       float(rng.uniform(0, 1)))
            n_in = samp_in[0] * samp_in[1]
        if rng.random() < 0.5 or n_in != n:
            tables = [rng.uniform(0, 1 / np.pi, size=(n_in, n, B)) * (rng.random((n_in, n, B)) < 0.8)
                      for _ in range(6)]
            kind = 'arbitrary-tables'
    c = float(rng.uniform(330, 350))
    dt = float(rng.choice([1e-3, 2e-3, 4e-3, 3e-3, 1.3e-3]))
    if rng.random() < 0.25:
        # normalised units: a resolution whose reciprocal is far from an integer (1/dt = 3.33, 2.5, 6.67, 1.43)
        c = float(rng.uniform(0.8, 1.3))
        dt = float(rng.choice([0.3, 0.4, 0.15, 0.7]))
    diag = float(np.linalg.norm(sides))
    K = int(rng.integers(0, 4))
    long_bins = int(np.ceil((K + 3) * diag / c / dt)) + 3
    S = int(rng.choice([long_bins, long_bins, max(3, long_bins // 3)]))
    src = scenes.gen_point_inside(rng, sides)
    recs = np.array([scenes.gen_point_inside(rng, sides) for _ in range(int(rng.integers(1, 4)))])
    # how the configuration is installed (one call per wall / wall 0's material on all walls first,
    # then overrides) and whether the direction sets are given with non-unit radii (the radius of a
    # direction is documented to be ignored)
    install = 'default-first' if rng.random() < 0.3 else None
    radii = bool(rng.random() < 0.5)
    return dict(sides=sides, patch=patch, B=B, absorption=a, kind=kind, att=att, samp_par=samp_par,
                tables=tables, c=c, dt=dt, S=S, long_bins=long_bins, K=K, src=src, recs=recs,
                install=install, radii=radii, samp_in=samp_in)


def sampling_in_of(sc):
    """Incoming direction set (the outgoing one unless the scene has its own incoming sampling)."""
    if sc.get('samp_in') is None:
        return sampling_of(sc)
    return sampling_of(dict(sc, samp_par=sc['samp_in'], samp_in=None))


def sampling_of(sc):
    if sc['samp_par'] is None:
        return None
    nt, nph, scale, off = sc['samp_par']
    s = scenes.hemisphere_sampling(nt, nph, weight_scale=scale)
    s.azimuth = s.azimuth + off * 0.37      # away from the symmetry planes of the box
    # break the symmetry about the wall normal (a patch straight opposite would otherwise be
    # equidistant from all samples of one colatitude ring): deterministic per-sample jitter
    jit = 0.03 * np.sin(1.0 + 7.3 * np.arange(s.csize) + 3.1 * off)
    s.colatitude = np.clip(s.colatitude + jit, 0.02, np.pi / 2 - 0.02)
    if sc.get('radii'):
        s.radius = 0.4 + 1.9 * np.abs(np.sin(2.0 + 5.1 * np.arange(s.csize) + 1.7 * off))
    return s


def build(sc, att=True, absorption=None, n_bands=None, band=None, setter_order=None):
    """Real object for scene `sc` (optionally one band only)."""
    B = sc['B']
    a = sc['absorption'] if absorption is None else absorption
    tables = sc['tables']
    att_v = sc['att'] if att else None
    if band is not None:
        a = a[:, band:band + 1]
        tables = None if tables is None else [t[:, :, band:band + 1] for t in tables]
        att_v = None if att_v is None else att_v[band:band + 1]
        B = 1
    r = scenes.build_fast(sc['sides'], sc['patch'], absorption=a, att=att_v, n_bands=B,
                          sampling=sampling_of(sc), sampling_in=sampling_in_of(sc), tables=tables, setter_order=setter_order,
                          install=sc.get('install'))
    if band is not None:
        # same frequency value as in the multi-band run
        pass
    return r


def duration_of(sc, S=None):
    S = sc['S'] if S is None else S
    return (S + 0.5) * sc['dt']


def run_all(sc, r=None, K=None, S=None):
    r = build(sc) if r is None else r
    if r._form_factors is None:
        r.bake_geometry()
    r.init_source_energy(scenes.coords(sc['src']))
    r.calculate_energy_exchange(sc['c'], sc['dt'], duration_of(sc, S), sc['K'] if K is None else K,
                                recalculate=True)
    return r


# ------------------------------------------------------------- independent solver
def nearest(samples, u):
    return int(np.argmin(np.sum((samples - u) ** 2, axis=-1)))


def scene_description(r):
    """Only the scene description: geometry, form factors, tables, direction sets, attenuation."""
    P = r.n_patches
    centers = r.patches_center
    area = r.patches_area
    wall = np.asarray(r._patch_to_wall_ids)
    F = np.asarray(r.form_factors)
    vis = np.asarray(r.visibility_matrix)
    vi = np.array([s.cartesian for s in r._brdf_incoming_directions])
    vo = np.array([s.cartesian for s in r._brdf_outgoing_directions])
    # directions only: the solver picks the sample nearest IN ANGLE whatever lengths are stored
    vi = vi / np.linalg.norm(vi, axis=-1, keepdims=True)
    vo = vo / np.linalg.norm(vo, axis=-1, keepdims=True)
    tab = np.real(np.array(r._brdf))
    tidx = np.asarray(r._brdf_index)
    att = np.zeros(tab.shape[-1]) if r._air_attenuation is None else np.asarray(r._air_attenuation)
    return dict(P=P, centers=centers, area=area, wall=wall, F=F, vis=vis, vi=vi, vo=vo, tab=tab,
                tidx=tidx, att=att)


def reference_factors(sd):
    """fft_ref[i,j,d,b] = F'_ij * exp(-m_b d_ij) * table[w(j)][nearest incoming to (c_i-c_j)][d][b]
    and dir_ref[i,j] = outgoing sample of w(i) nearest to (c_j-c_i)."""
    P = sd['P']
    D, B = sd['tab'].shape[2], sd['tab'].shape[3]
    fft = np.zeros((P, P, D, B))
    dirm = np.zeros((P, P), dtype=int)
    dist = np.zeros((P, P))
    margin_in = np.full((P, P), np.inf)
    for i in range(P):
        for j in range(P):
            if i == j:
                continue
            v = sd['vis'][i, j] if i < j else sd['vis'][j, i]
            if not v:
                continue
            diff = sd['centers'][i] - sd['centers'][j]
            d = float(np.sqrt(np.dot(diff, diff)))
            dist[i, j] = d
            Fp = sd['F'][i, j] if i < j else sd['F'][j, i] * sd['area'][j] / sd['area'][i]
            wj = sd['wall'][j]
            u = diff / d
            d2 = np.sum((sd['vi'][wj] - u) ** 2, axis=-1)
            k = int(np.argmin(d2))
            if len(d2) > 1:
                s2 = np.sort(d2)
                margin_in[i, j] = s2[1] - s2[0]
            fft[i, j] = Fp * np.exp(-sd['att'] * d)[None, :] * sd['tab'][sd['tidx'][wj], k]
            dirm[i, j] = nearest(sd['vo'][sd['wall'][i]], -u)
    return fft, dirm, dist, margin_in


def solve_recursion(P, D, B, S, K, pairs, bins0, bins, e0, fft, dirm):
    """Gather form of the recursion, written independently of the code's slice loop."""
    H = np.zeros((P, D, B, S))
    for j in range(P):
        if bins0[j] < S:
            H[j, :, :, bins0[j]] = e0[j]
    total = H.copy()
    arcs = []
    for (i, j) in pairs:
        arcs += [(i, j), (j, i)]
    for _ in range(K):
        Hn = np.zeros_like(H)
        for (i, j) in arcs:
            n = bins[i][j]
            if n >= S:
                continue
            src = H[i, dirm[i, j]]                       # (B, S)
            Hn[j, :, :, n:] += fft[i, j][:, :, None] * src[None, :, :S - n]
        H = Hn
        total += H
    return total


def per_order(sc, r, Kmax):
    """Order-k histograms of the implementation as differences of two public runs."""
    out = []
    prev = None
    for k in range(Kmax + 1):
        r.calculate_energy_exchange(sc['c'], sc['dt'], duration_of(sc), k, recalculate=True)
        cur = np.array(r._energy_exchange_etc)
        out.append(cur if prev is None else cur - prev)
        prev = cur
    return out


def pairs_of(r):
    return [(int(a), int(b)) for a, b in np.asarray(r._visible_patches)]


def bins_of(r, sc):
    c, dt = sc['c'], sc['dt']
    dij = pipeline.distance_ij(r)
    P = r.n_patches
    bins = [[int(dij[i, j] / c / dt) for j in range(P)] for i in range(P)]
    bins0 = [int(x / c / dt) for x in r._distance_patches_to_source]
    return bins0, bins, dij


def describe(sc, r=None):
    d = {k: sc[k] for k in ('sides', 'patch', 'B', 'kind', 'c', 'dt', 'S', 'K')}
    d['absorption'] = np.round(sc['absorption'], 3).tolist()
    d['att'] = np.round(sc['att'], 4).tolist()
    d['multi_dir'] = sc['samp_par']
    d['install'] = sc.get('install')
    d['incoming_sampling'] = sc.get('samp_in')
    d['non_unit_direction_radii'] = bool(sc.get('radii'))
    d['src'] = np.round(sc['src'], 3).tolist()
    if r is not None:
        d['n_patches'] = int(r.n_patches)
    return d


def scene_input(sc):
    d = dict(sc)
    return d
