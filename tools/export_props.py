#!/usr/bin/env python3
"""tools/export_props.py <Proofs module file> <Cxx> <header comment file or ''> name...
Re-export proved lemmas (docstring + statement) as property theorems in lean/Sparrow/Props/<Cxx>.lean."""
import re, sys
src_path, prop, header = sys.argv[1], sys.argv[2], sys.argv[3]
names = sys.argv[4:]
src = open(src_path).read()
mod = src_path.split('lean/')[-1][:-5].replace('/', '.')
ns = re.search(r'^namespace (\S+)', src, re.M).group(1)
opens = re.findall(r'^open (.+)$', src, re.M)
out = ['import ' + mod]
if header:
    out.append(open(header).read().rstrip())
out += ['namespace Sparrow.Props.' + prop, 'open ' + ' '.join(dict.fromkeys([ns] + [o for op in opens for o in op.split()])), '']
for n in names:
    m = re.search(r'((?:/--(?:(?!-/).)*-/\s*)?)theorem ' + re.escape(n) + r'\b(.*?):=\s*(?:by\b|\n)', src, re.S)
    if not m:
        raise SystemExit('theorem %s not found' % n)
    doc, sig = m.group(1), m.group(2)
    args, i, s = [], 0, sig
    while i < len(s):
        if s[i] in '({[':
            close = {'(': ')', '{': '}', '[': ']'}[s[i]]
            j, d = i, 0
            while True:
                if s[j] == s[i]:
                    d += 1
                if s[j] == close:
                    d -= 1
                    if d == 0:
                        break
                j += 1
            inner = s[i + 1:j]
            if s[i] == '(' and ':' in inner:
                args += inner.split(':')[0].split()
            i = j + 1
        elif s[i] == ':' and s[i - 1] in ' \n':
            break
        else:
            i += 1
    out.append(doc.rstrip())
    out.append('theorem ' + n.split('.')[-1] + sig.rstrip() + ' :=')
    out.append('  ' + ns + '.' + n + ' ' + ' '.join(args))
    out.append('')
out.append('end Sparrow.Props.' + prop)
open('/verif/lean/Sparrow/Props/%s.lean' % prop, 'w').write('\n'.join(out) + '\n')
print('wrote', len(names), 'theorems')
