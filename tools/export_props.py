#!/usr/bin/env python3
"""tools/export_props.py <Cxx> <header file or ''> <Proofs file> name... [-- <Proofs file> name...]...
Re-export proved lemmas (docstring + statement) as property theorems in lean/Sparrow/Props/<Cxx>.lean."""
import re, sys


def export(src_path, names):
    src = open(src_path).read()
    mod = src_path.split('lean/')[-1][:-5].replace('/', '.')
    ns = re.search(r'^namespace (\S+)', src, re.M).group(1)
    opens = [o for op in re.findall(r'^open (.+)$', src, re.M) for o in op.split()]
    body = []
    for n in names:
        m = re.search(r'((?:/--(?:(?!-/).)*-/\s*)?)theorem ' + re.escape(n) + r'\b(.*?):=\s*(?:by\b|\n)', src, re.S)
        if not m:
            raise SystemExit('theorem %s not found in %s' % (n, src_path))
        doc, sig = m.group(1), m.group(2)
        args, i, s = [], 0, sig
        while i < len(s):
            if s[i] in '({[':
                close = {'(': ')', '{': '}', '[': ']'}[s[i]]
                j, d = i, 0
                while True:
                    if s[j] == s[i]:
                        d += 1
                    if s[j] == close:
                        d -= 1
                        if d == 0:
                            break
                    j += 1
                inner = s[i + 1:j]
                if s[i] == '(' and ':' in inner:
                    args += inner.split(':')[0].split()
                i = j + 1
            elif s[i] == ':' and s[i - 1] in ' \n':
                break
            else:
                i += 1
        body.append(doc.rstrip())
        body.append('theorem ' + n.split('.')[-1] + sig.rstrip() + ' :=')
        body.append('  ' + ns + '.' + n + ' ' + ' '.join(args))
        body.append('')
    return mod, [ns] + opens, body


def main():
    prop, header = sys.argv[1], sys.argv[2]
    groups, cur = [], []
    for a in sys.argv[3:]:
        if a == '--':
            groups.append(cur)
            cur = []
        else:
            cur.append(a)
    groups.append(cur)
    imports, opens, body = [], [], []
    for g in groups:
        mod, op, b = export(g[0], g[1:])
        imports.append(mod)
        opens += op
        body += b
    out = ['import ' + m for m in dict.fromkeys(imports)]
    if header:
        out.append(open(header).read().rstrip())
    out += ['namespace Sparrow.Props.' + prop, 'open ' + ' '.join(dict.fromkeys(opens)), ''] + body + ['end Sparrow.Props.' + prop]
    open('/verif/lean/Sparrow/Props/%s.lean' % prop, 'w').write('\n'.join(out) + '\n')
    print('wrote', sum(len(g) - 1 for g in groups), 'theorems')


if __name__ == '__main__':
    main()
