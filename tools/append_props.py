#!/usr/bin/env python3
"""tools/append_props.py <Cxx> [--ns Sub] <Proofs file> name...: append re-exports (docstring + full
statement) of proved lemmas to lean/Sparrow/Props/<Cxx>.lean (import added).  Without --ns they
are inserted before the final `end`; with --ns Sub they go into a new block
`namespace Sparrow.Props.<Cxx>.Sub` (opening the source file's namespaces) after it."""
import re, sys, os
sys.path.insert(0, os.path.dirname(__file__))
from export_props import export


def main():
    args = sys.argv[1:]
    prop = args.pop(0)
    sub = None
    if args[0] == '--ns':
        args.pop(0)
        sub = args.pop(0)
    src, names = args[0], args[1:]
    mod, opens, body = export(src, names)
    path = os.path.join(os.path.dirname(__file__), '..', 'lean', 'Sparrow', 'Props', prop + '.lean')
    s = open(path).read()
    imp = 'import ' + mod + '\n'
    if imp not in s:
        s = imp + s
    if sub is None:
        m = list(re.finditer(r'^end \S+\s*$', s, re.M))[-1]
        s = s[:m.start()] + '\n'.join(body) + '\n' + s[m.start():]
    else:
        ns = 'Sparrow.Props.%s.%s' % (prop, sub)
        s = s.rstrip('\n') + '\n\nnamespace %s\nopen %s\n\n' % (ns, ' '.join(dict.fromkeys(opens))) + '\n'.join(body) + '\nend %s\n' % ns
    open(path, 'w').write(s)


main()
