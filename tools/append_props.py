#!/usr/bin/env python3
"""tools/append_props.py <Cxx> <Proofs file> name...: append re-exports (docstring + full statement)
of proved lemmas to lean/Sparrow/Props/<Cxx>.lean (import added, inserted before the final `end`)."""
import re, sys, os
sys.path.insert(0, os.path.dirname(__file__))
from export_props import export


def main():
    prop, src, names = sys.argv[1], sys.argv[2], sys.argv[3:]
    mod, opens, body = export(src, names)
    path = os.path.join(os.path.dirname(__file__), '..', 'lean', 'Sparrow', 'Props', prop + '.lean')
    s = open(path).read()
    imp = 'import ' + mod + '\n'
    if imp not in s:
        s = imp + s
    m = list(re.finditer(r'^end \S+\s*$', s, re.M))[-1]
    s = s[:m.start()] + '\n'.join(body) + '\n' + s[m.start():]
    open(path, 'w').write(s)


main()
