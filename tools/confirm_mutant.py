#!/usr/bin/env python3
"""tools/confirm_mutant.py <ID> [worktree] [outdir]: independent confirmation of a seeded change:
patch == worktree diff, the 380 stable baseline tests pass with it, the demo passes on /repo and
fails on the changed worktree.  Writes <outdir>/confirm.json."""
import json, os, subprocess, sys, time, xml.etree.ElementTree as ET
pid = sys.argv[1]
wt = sys.argv[2] if len(sys.argv) > 2 else '/tmp/mut/' + pid
out = sys.argv[3] if len(sys.argv) > 3 else '/tmp/mut/out/' + pid
res = {'id': pid, 'worktree': wt}
diff = subprocess.run(['git', '-C', wt, 'diff'], capture_output=True, text=True).stdout
res['patch_matches_worktree'] = diff.strip() == open(os.path.join(out, 'patch.diff')).read().strip()
pristine0 = '/tmp/mut/pristine'
if not os.path.exists(pristine0):
    subprocess.run(['git', '-C', '/repo', 'worktree', 'add', '--detach', pristine0, 'HEAD'], capture_output=True)
res['patch_applies_to_repo_head'] = subprocess.run(['git', '-C', pristine0, 'apply', '--check', os.path.join(out, 'patch.diff')]).returncode == 0
t = time.time()
junit = os.path.join(out, 'confirm_junit.xml')
subprocess.run(['/venv/bin/python', '-m', 'pytest', '-q', '-p', 'no:cacheprovider', '--timeout=900',
                '--continue-on-collection-errors', '--junitxml=' + junit], cwd=wt,
               stdout=open(os.path.join(out, 'confirm_pytest.log'), 'w'), stderr=subprocess.STDOUT)
res['pytest_s'] = round(time.time() - t)
stable = set(json.load(open('/root/.vp/BASELINE.json'))['stable_pass'])
st = {}
for tc in ET.parse(junit).iter('testcase'):
    name = tc.get('classname') + '::' + tc.get('name')
    st[name] = 'fail' if any(c.tag in ('failure', 'error') for c in tc) else ('skip' if any(c.tag == 'skipped' for c in tc) else 'pass')
miss = sorted(n for n in stable if st.get(n) != 'pass')
res['stable_passing'] = len(stable) - len(miss)
res['stable_not_passing'] = miss[:10]
pristine = '/tmp/mut/pristine'
if not os.path.exists(pristine):
    subprocess.run(['git', '-C', '/repo', 'worktree', 'add', '--detach', pristine, 'HEAD'], capture_output=True)
for name, tree in (('demo_unchanged', pristine), ('demo_changed', wt)):
    p = subprocess.run(['/venv/bin/python', os.path.join(out, 'demo.py'), tree], cwd='/tmp', capture_output=True, text=True, timeout=1200)
    res[name] = {'exit': p.returncode, 'last_line': (p.stdout.strip().split('\n') or [''])[-1][:200]}
res['confirmed'] = bool(res['patch_matches_worktree'] and res['patch_applies_to_repo_head'] and not miss
                        and res['demo_unchanged']['exit'] == 0 and res['demo_changed']['exit'] != 0)
json.dump(res, open(os.path.join(out, 'confirm.json'), 'w'), indent=1)
print(json.dumps(res)[:600])
