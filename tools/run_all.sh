#!/bin/bash
# tools/run_all.sh [tier] [seeds...]: run every registered check; print one line per check and seed.
cd "$(dirname "$0")/.."
TIER=${1:-quick}; shift
SEEDS=${@:-0}
for s in $SEEDS; do
  for c in $(python3 -c "import json; print(' '.join(x['property_id'] for x in json.load(open('MANIFEST.json'))['checks']))"); do
    start=$(date +%s)
    out=$(VERIF_SEED=$s ./check $c --tier $TIER 2>&1); rc=$?
    echo "seed=$s $c rc=$rc $(( $(date +%s) - start ))s :: $(echo "$out" | grep -E "VIOLATION|$TIER:" | tail -2 | tr '\n' ' ' | cut -c1-200)"
  done
done
