#!/usr/bin/env python3
"""tools/matrix_table.py <matrix log>: markdown table (seeded change | reported with a concrete input by | reported as a broken
tie only by) from the output of tools/mutant_matrix.sh."""
import re, sys
log = open(sys.argv[1]).read()
print('| seeded change | concrete failing input reported by | broken tie only (no-failing-input-found) | exit >= 2 |')
print('|---|---|---|---|')
for b in re.split(r'^### ', log, flags=re.M)[1:]:
    lines = b.strip().split('\n')
    name = lines[0].strip().rstrip('/')
    if name == 'done':
        continue
    conc, tie, bad = [], [], []
    for l in lines[1:]:
        m = re.match(r'(C\d\d) rc=(\d+)(.*)', l)
        if not m:
            continue
        rc = int(m.group(2))
        if rc == 1:
            (tie if 'no-failing-input-found' in m.group(3) else conc).append(m.group(1))
        elif rc >= 2:
            bad.append(m.group(1))
    print('| %s | %s | %s | %s |' % (name, ', '.join(conc) or '—', ', '.join(tie) or '—', ', '.join(bad) or '—'))
