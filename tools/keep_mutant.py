#!/usr/bin/env python3
"""tools/keep_mutant.py <ID> <name> <caught_by comma list> [--missed-by list]: copy a confirmed seeded
change into /verif/seeded/<name>/ (patch.diff, demo.py, meta.json) and remove its scratch worktree."""
import json, os, shutil, subprocess, sys
pid, name, caught = sys.argv[1], sys.argv[2], sys.argv[3].split(',')
src = '/tmp/mut/out/' + pid
conf = json.load(open(os.path.join(src, 'confirm.json')))
assert conf['confirmed'], conf
meta = json.load(open(os.path.join(src, 'meta.json')))
dst = os.path.join('/verif/seeded', name)
os.makedirs(dst, exist_ok=True)
shutil.copy(os.path.join(src, 'patch.diff'), os.path.join(dst, 'patch.diff'))
shutil.copy(os.path.join(src, 'demo.py'), os.path.join(dst, 'demo.py'))
out = {
    'property': meta.get('property', pid),
    'summary': meta.get('summary'),
    'needs_to_manifest': meta.get('needs_to_manifest'),
    'author': 'independent sub-agent given only the property text and a scratch worktree',
    'confirmed_by_me': {
        'patch_applies_to_repo_head': conf['patch_applies_to_repo_head'],
        'stable_baseline_tests_passing_with_patch': conf['stable_passing'],
        'demo_on_unchanged_repo_exit': conf['demo_unchanged']['exit'],
        'demo_on_changed_tree_exit': conf['demo_changed']['exit'],
        'ran': 'tools/confirm_mutant.py (full pytest baseline command in the scratch worktree, junit compared with BASELINE.json stable_pass; demo.py against /repo and against the worktree)',
    },
    'checks_that_catch_it': caught,
    'how_run': 'tools/try_mutant.sh seeded/%s %s   (git -C /repo apply; ./check <id>; git -C /repo checkout -- .)' % (name, ' '.join(caught)),
}
if len(sys.argv) > 4:
    out['notes'] = ' '.join(sys.argv[4:])
json.dump(out, open(os.path.join(dst, 'meta.json'), 'w'), indent=1)
subprocess.run(['git', '-C', '/repo', 'worktree', 'remove', '--force', '/tmp/mut/' + pid])
print('kept', dst)
