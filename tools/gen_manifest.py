#!/usr/bin/env python3
"""Regenerates MANIFEST.json from the table below (keeps it schema-valid)."""
import json, os, subprocess
HERE = os.path.dirname(os.path.dirname(os.path.abspath(__file__)))
props = [json.loads(l) for l in open(os.path.join(HERE, 'properties.jsonl'))]

PROOF_NOTE = ('Trusted: Lean 4.33.0 kernel (+ leanchecker in the thorough tier), Mathlib v4.33.0, axioms propext / '
              'Classical.choice / Quot.sound only (audited by #print axioms on every property theorem each run; no sorry, '
              'native_decide, bv_decide or own axioms); the translator (harness/translate: AST patterns -> Generated/*.lean); '
              'the correspondence check (finite differential sample, classes EXACT / 1e-12 relative / guarded decisions); '
              'real-number semantics of the theorems vs float64 of the code; numpy, pyfar, scipy, sofar as libraries.')

CHECKS = {
 'C01': ('proof', 'Theorems over the Lean model at R (exact energy-step formula for every histogram length, long-histogram form with the RECEIVING wall\'s table, no creation beyond the row-sum bound, uniform-wall ratio, dark absorbing walls, truncation only removes), tied to /repo by bit-exact kernel correspondence and stage-wise pipeline correspondence; the closure error eps itself is measured (C05).', '5 C01', 'refinement to polynomial recursion + energy identities (Lean 4), differential tie'),
 'C02': ('proof', 'Theorems: every non-zero bin is a sum of per-leg bins along a chain of visible arcs, nothing before the first arrival, truncation changes no earlier bin; receiver kernel: partial theorem (no wrap when nothing is delayed past the end) + kernel-checked counterexample for np.roll (known finding D3). Tie: bit-exact kernel correspondence with delays straddling the histogram end; generated delay-site constants.', '5 C02', 'invariant by induction over orders (Lean 4), generated constants, differential tie'),
 'C03': ('proof', 'Core refinement theorem: model histogram bin = coefficient of the polynomial recursion (the independent solver), all slots, all orders; order K = order K-1 + non-negative term; diffuse walls make slots irrelevant. Tie: bit-exact exchange, ULP-class bake/init stage-wise on real rooms; oracle = independent numpy solver fed with the scene description.', '5 C03', 'refinement to spec (Lean 4 + Mathlib Polynomial), differential tie'),
 'C09': ('proof', 'Reciprocity theorem of the discrete model (path-sum / transposition over R[X]) for every order and histogram length with the truncating receiver kernel, and for the code\'s receiver kernel under the no-wrap hypothesis; floor/ceil bin lemma. Tie: as C01/C02/C11; oracle swaps source and receiver on the implementation.', '5 C09', 'algebraic law over commutative ring R[X] (Lean 4), differential tie'),
 'C10': ('proof', 'Theorems: each leg = unattenuated value x exp(-m d) with d the un-normalised leg length, m=0 identity, antitone in m for every bin/order/length. Tie: stage-wise correspondence with band-dependent m; oracle: m=0 bitwise identity, ratios, monotonicity on the implementation.', '5 C10', 'algebraic law + monotonicity by induction (Lean 4), differential tie'),
 'C11': ('proof', 'Theorems: patch-wise formula (partial: no energy delayed past the end; D3 is a known finding), hidden patches contribute nothing, mono = sum over patches, receivers independent, direct-sound law. Tie: receiver kernel and collect stage correspondence; oracle evaluates the formula on the implementation.', '5 C11', 'decision logic + algebraic law (Lean 4), differential tie'),
 'C12': ('proof', 'The model is band-wise by construction; theorems (any scalar type) only guard the model. The weight is on the tie (band-dependent data, shape-coincidence cases D=B/P=B/S=B) and on the bitwise multi-band vs single-band oracle on the implementation; stated as such.', '5 C12', 'congruence theorem (Lean 4) + differential tie carrying the weight'),
 'C08': ('proof', 'Theorems over the Lean model of _create_patches/_process_patches (and the identical Kang loop): floor(side/p) x floor(side/p) cells, each patch the rectangle anchored at the minimum corner (congruent), cells cover the wall, interiors disjoint, areas sum to the wall area, enumeration bijective, wall attribution by index blocks, vertex-order independence, translation covariance. Tie: coordinates of the real functions (both engines, 3 planes, 8 orderings) bit for bit with the model.', '5 C08', 'algebraic law + decision logic (Lean 4), bit-exact differential tie'),
 'C13': ('proof', 'Theorems over the Lean model of create_from_scattering / create_from_directional_scattering: non-negative, reflects exactly 1-a for every incident direction on Gauss-type mirror-closed samplings (split s diffuse / 1-s mirror), symmetric, weight-scale free; directional coefficients summing to 1 reflect 1-a. Sampling hypotheses are decidable predicates checked on every generated sampling. Tie: real constructors vs model (1e-12), mirror index vs nearest-sample rule.', '5 C13', 'algebraic law (Lean 4), differential tie'),
 'C14': ('proof', 'Theorems: wall frame [u | n x u | n] is a proper rotation with R e_z = n, R e_x = u, preserves inner products, scale-free in n and u; rotated directions are unit vectors in the outer half space; nearest sample (first argmin of the chord distance) = first sample of maximal cosine; the four lookups apply it to the geometric direction in the wall of the looked-up patch. Tie: real _rotate_coords_to_normal (pyfar/scipy Euler route) vs model on random and axis frames; index maps vs model with near-ties set aside; oracle: brute-force nearest angle.', '5 C14', 'algebraic law + argmin specification (Lean 4), differential tie'),
 'C15': ('proof', 'Life-cycle model over terms: for every continuation after a save/restore the restored object differs at most in the unsaved _source, is identical after the next source initialisation, and every receiver collection is identical; kernel-checked witness for the direct-sound loss (known finding D8). Generated facts (re-extracted every run): to_dict keys = constructor parameters, None encoded/decoded on both paths, __eq__ compares to_dict, write footprints per method, the only unserialised attribute a pipeline method reads is _source. Tie: random histories with restores on real objects: term none <=> attribute None, equal terms => equal content hashes; oracle: round trip at every stage x continue both objects bit for bit (and a completed Kang run).', '5 C15', 'invariant by induction over operation histories (Lean 4) + translator + history correspondence'),
 'C16': ('proof', 'Life-cycle model: for every history of the grammar setters*;bake+;(init+;exchange(recalculate)+)* the whole state equals that of the canonical fresh history (config_determines); stages idempotent; setters commute up to the private table numbering; downstream reads materials only through per-wall effective tables; generated facts: read footprints of init/exchange/bake, no in-place mutation site targets a parameter. Tie: history correspondence (terms vs content hashes) incl. canonical twin of every history; oracle: history vs fresh object bit for bit, setter permutations, repeated stages, caller inputs hashed before/after each call.', '5 C16', 'invariant by induction over histories (Lean 4) + translator + history correspondence'),
 'C18': ('proof', 'check() and the __init__ conversions are TRANSLATED from the source on every run (symbolic execution of the method body into Lean reject conditions over an abstract configuration); theorems: whatever is accepted satisfies every documented constraint (all ranks, lengths, ids, scalars), a rejection is always ValueError, valid states whose walls all own a patch are accepted; kernel-evaluated examples. Tie: every catalogue corruption x every stage through the real from_dict, outcome compared with the generated checker run by the driver.', '5 C18', 'translator (regenerated model) + soundness proof (Lean 4) + differential tie'),
 'C19': ('proof', 'The Kang recursion is an instance of the exchange model (arcs = ordered pairs of patches on different walls, transfer factor ff x scattering x (1-absorption) of the RECEIVING wall x exp(-m d)): order recursion formula, truncation, receiver response monotone in the maximum order, direct-sound law; analytic form factors (orthogonal/parallel) and the first-order source term are translation invariant and follow the axes under cyclic permutation. Tie: real form factors, first-order energies, per-order E_matrix, receiver response vs the model (1e-10), _add_delay bit for bit; oracle on the implementation: recursion, prefix property, translation, cyclic permutation, monotonicity, direct sound.', '5 C19', 'refinement (instance of the core theorem) + algebraic invariance (Lean 4), differential tie'),
 'C20': ('proof', 'Theorems: the atan2/asin route of _get_metrics yields the unit vector (d.view, d.(up x view), d.up)/|d|; covariant under rotating source frame and scene together; factor = table[nearest direction][nearest frequency] (argmin specifications); multiplies every slot; unit table or no directivity = omnidirectional result (patch energies and direct sound). Tie: real _get_metrics / get_directivity on synthetic SOFA files vs the model; pipeline oracle: with vs without directivity, unit table, oriented source without directivity, rotation.', '5 C20', 'algebraic law (Lean 4 + Mathlib trigonometry), differential tie'),
 'C04': ('other', 'PARTIAL. Proved (Lean 4): pt_solution depends only on the directions from the point to the vertices - invariant under translation, scaling about the point, every linear isometry, reversal and rotation of the vertex order; hidden patches get exactly zero energy and distance. Measured, not proved (sampling on the implementation, reported separately in the evidence): that the spherical excess is the solid angle, hence range [0,1/2), sum to 1 over a closed room, subdivision independence. Tie: real pt_solution vs the model (1e-11, wider near the arccos singularity).', '5 C04 and 8', 'algebraic invariance proofs (Lean 4) + differential tie + measured envelope'),
 'C05': ('other', 'PARTIAL. Proved: baked matrix zero off the visible list; A_i F\'_ij = A_j F\'_ji by construction; contour integrator non-negative, symmetric in the two patches (A_i F_ij = A_j F_ji exactly), translation invariant, invariant under axis permutations and mirrorings. Measured: 0 <= F <= 1, closure <= 2.5 %, rotation/scaling invariance (exact only outside the per-axis 1e-3 cut-off band of the code). Tie: real stokes_integration / Boole rule / boundary sampling vs the model.', '5 C05 and 8', 'algebraic law proofs (Lean 4) + differential tie + measured envelope'),
 'C06': ('other', 'PARTIAL - the main clause (accuracy within 1/3/8/5 % of the exact integral over a continuous envelope) is an analytic error bound out of reach of this technique here; it is MEASURED against an independent graded Gauss-Legendre contour reference (validated on closed forms every run) with exactly the tolerances of the statement. Proved (structure only): Boole rule exact to degree 5 with the generated weights, closed equispaced boundary sampling, integrator branch = Nusselt iff a vertex pair is closer than 1e-6, symmetry of the contour sum. Known finding D12 (obtuse shared-edge angles).', '5 C06 and 8', 'structural proofs (Lean 4) + differential tie + measured envelope against an independent reference'),
 'C07': ('other', 'PARTIAL. Proved: full case analysis of _basic_visibility over an abstract membership test (blocked / seen from behind / coplanar), symmetry in the two points, scans = conjunction over all surfaces and symmetric, projection point on the line and in the plane and translation covariant, _rotation_matrix orthogonal and mapping the normal to +z. Not proved: exactness of the winding-number membership test for every convex polygon - tied flag for flag with the model and checked against an independent line-of-sight oracle on sampled general-position configurations and scenes with blockers.', '5 C07 and 8', 'decision-logic proofs (Lean 4) + differential tie + independent oracle'),
 'C17': ('other', 'PARTIAL (rotations measured). Proved (kernel level): point-to-patch factor invariant under translations, scalings about the point and all linear isometries; contour form factor under translations, axis permutations and mirrorings; patch tiling translation covariant and vertex-order free; wall frame scale-free in normal and up; projection translation covariant; visibility symmetric. Measured on the implementation: the whole pipeline under translations, mirrorings, normal/up rescalings (1e-9) and axis permutations (bins and initial energies equal, curve within 0.5 % of the peak), patches matched by transformed centres.', '5 C17 and 8', 'kernel invariance proofs (Lean 4) + pipeline-level measured invariance'),
}

# statements added after the first round: lifted to the whole modelled run (Model/Pipeline.lean: runPipeline)
EXTRA = {
 'C01': ' Pipeline level: runPipeline_absorbing_wall_dark (a wall whose table is zero carries no energy at any order, for the composed run from the bare room description).',
 'C02': ' Pipeline level: runPipeline_prefix (a run with a shorter histogram is the exact prefix of the longer run).',
 'C03': ' Pipeline level: runPipeline_nonneg; the composed run (driver command `pipeline`) is compared with the real object end to end.',
 'C05': ' Known finding D16 (absolute per-axis cut-off of the contour integrator breaks rotation invariance for almost axis-parallel edges, <= 5e-4 relative) is evaluated and reported under its own signature.',
 'C07': ' Proved in addition: the winding-number membership test is exact for axis-parallel rectangles in coordinate planes (walls and patches of shoebox rooms): non-zero count iff x0 <= x < x1 and y0 - eta/2 <= y <= y1 + eta/2, either orientation, any starting corner; the 3-D test accepts the strict interior of the slab and rejects everything outside by more than eta (checked against the implementation on boundary points).',
 'C09': ' Pipeline level: runPipeline_reciprocity (source and receiver exchanged in the composed run from_polygon ... collect_energy_receiver_mono give the same mono curve, any order / length / attenuation, diffuse room, generic positions, no receiver wrap), via reciprocity_cond.',
 'C10': ' Pipeline level: runPipeline_att_antitone (larger attenuation never increases any bin of any patch histogram nor of the mono curve of the composed run).',
 'C15': ' Added: params_describe_etc (in every history the stored speed/resolution/duration are those of the stored histogram; defect D14 repaired by a fix: commit), translator fact for the store site; histories with exchange(recalculate=False) and with setters after the bake; known finding D15 (stale baked factors refuse the restore).',
 'C17': ' Pipeline level PROVED: runPipeline_translation (room, source and receiver moved by one vector: every output of the composed run is identical).',
 'C18': ' Added: shape-level life-cycle model (Model/ShapeLife.lean) tied by random call histories (shapes of every saved attribute and the accept/refuse outcome after every step); reachable_accepted_iff: a state reachable by ANY call history is accepted on restore iff it is neither partially set (D13) nor stale (D15); regular and default pipelines are accepted after every stage.',
}

NA = {}

def main():
    checks = []
    for p in props:
        pid = p['id']
        if pid in CHECKS:
            cat, text, ref, tech = CHECKS[pid]
            text = text + EXTRA.get(pid, '')
            checks.append({
                'property_id': pid,
                'quick_cmd': './check %s --tier quick' % pid,
                'thorough_cmd': './check %s --tier thorough' % pid,
                'evidence_file': 'evidence/%s.json' % pid,
                'replay_cmd_template': './check %s --replay {path}' % pid,
                'engine': 'lean4-proof+correspondence',
                'level_claimed': {'category': cat, 'text': text, 'design_ref': 'DESIGN.md section ' + ref},
                'level_note': PROOF_NOTE,
                'technique': tech,
            })
    na = [{'property_id': p['id'], 'reason': NA.get(p['id'], 'check under construction in this round (see DESIGN.md section 5); not claimed yet')}
          for p in props if p['id'] not in CHECKS]
    m = {
        'version': 1,
        'setup_cmd': 'cd lean && lake build Sparrow sparrow-driver Sparrow.Props.All',
        'hooks': {'guard': 'SPARROWPY_VERIF',
                  'enable': 'no hooks are needed: checks import /repo\'s working tree in-process (sys.path[0]=/repo); the guard name is reserved',
                  'baseline_off_cmd': 'cd /repo && /venv/bin/python -m pytest -ra -q -p no:cacheprovider --timeout=900 --continue-on-collection-errors',
                  'source_commits': [], 'add_only': True},
        'engines': [{'name': 'lean4-proof+correspondence', 'path': 'check',
                     'serves_properties': sorted(CHECKS),
                     'kind_free_text': 'Lean 4 model (lean/Sparrow/Model, Mathlib-free, executable) + theorems (lean/Sparrow/Props) + translator (harness/translate) + correspondence driver (lean/Driver, harness/*)'}],
        'checks': checks,
        'notes': 'fix: commits in /repo and the known finding(s) are listed in known_findings.json; see DESIGN.md',
        'not_applicable': na,
    }
    json.dump(m, open(os.path.join(HERE, 'MANIFEST.json'), 'w'), indent=1)
    print('checks:', len(checks), 'not claimed:', len(na))

if __name__ == '__main__':
    main()
