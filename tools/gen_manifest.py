#!/usr/bin/env python3
"""Regenerates MANIFEST.json from the table below (keeps it schema-valid)."""
import json, os, subprocess
HERE = os.path.dirname(os.path.dirname(os.path.abspath(__file__)))
props = [json.loads(l) for l in open(os.path.join(HERE, 'properties.jsonl'))]

PROOF_NOTE = ('Trusted: Lean 4.33.0 kernel (+ leanchecker in the thorough tier), Mathlib v4.33.0, axioms propext / '
              'Classical.choice / Quot.sound only (audited by #print axioms on every property theorem each run; no sorry, '
              'native_decide, bv_decide or own axioms); the translator (harness/translate: AST patterns -> Generated/*.lean); '
              'the correspondence check (finite differential sample, classes EXACT / 1e-12 relative / guarded decisions); '
              'real-number semantics of the theorems vs float64 of the code; numpy, pyfar, scipy, sofar as libraries.')

CHECKS = {
 'C01': ('proof', 'Theorems over the Lean model at R (exact energy-step formula for every histogram length, long-histogram form with the RECEIVING wall\'s table, no creation beyond the row-sum bound, uniform-wall ratio, dark absorbing walls, truncation only removes), tied to /repo by bit-exact kernel correspondence and stage-wise pipeline correspondence; the closure error eps itself is measured (C05).', '5 C01', 'refinement to polynomial recursion + energy identities (Lean 4), differential tie'),
 'C02': ('proof', 'Theorems: every non-zero bin is a sum of per-leg bins along a chain of visible arcs, nothing before the first arrival, truncation changes no earlier bin; receiver kernel: partial theorem (no wrap when nothing is delayed past the end) + kernel-checked counterexample for np.roll (known finding D3). Tie: bit-exact kernel correspondence with delays straddling the histogram end; generated delay-site constants.', '5 C02', 'invariant by induction over orders (Lean 4), generated constants, differential tie'),
 'C03': ('proof', 'Core refinement theorem: model histogram bin = coefficient of the polynomial recursion (the independent solver), all slots, all orders; order K = order K-1 + non-negative term; diffuse walls make slots irrelevant. Tie: bit-exact exchange, ULP-class bake/init stage-wise on real rooms; oracle = independent numpy solver fed with the scene description.', '5 C03', 'refinement to spec (Lean 4 + Mathlib Polynomial), differential tie'),
 'C09': ('proof', 'Reciprocity theorem of the discrete model (path-sum / transposition over R[X]) for every order and histogram length with the truncating receiver kernel, and for the code\'s receiver kernel under the no-wrap hypothesis; floor/ceil bin lemma. Tie: as C01/C02/C11; oracle swaps source and receiver on the implementation.', '5 C09', 'algebraic law over commutative ring R[X] (Lean 4), differential tie'),
 'C10': ('proof', 'Theorems: each leg = unattenuated value x exp(-m d) with d the un-normalised leg length, m=0 identity, antitone in m for every bin/order/length. Tie: stage-wise correspondence with band-dependent m; oracle: m=0 bitwise identity, ratios, monotonicity on the implementation.', '5 C10', 'algebraic law + monotonicity by induction (Lean 4), differential tie'),
 'C11': ('proof', 'Theorems: patch-wise formula (partial: no energy delayed past the end; D3 is a known finding), hidden patches contribute nothing, mono = sum over patches, receivers independent, direct-sound law. Tie: receiver kernel and collect stage correspondence; oracle evaluates the formula on the implementation.', '5 C11', 'decision logic + algebraic law (Lean 4), differential tie'),
 'C12': ('proof', 'The model is band-wise by construction; theorems (any scalar type) only guard the model. The weight is on the tie (band-dependent data, shape-coincidence cases D=B/P=B/S=B) and on the bitwise multi-band vs single-band oracle on the implementation; stated as such.', '5 C12', 'congruence theorem (Lean 4) + differential tie carrying the weight'),
}

NA = {}

def main():
    checks = []
    for p in props:
        pid = p['id']
        if pid in CHECKS:
            cat, text, ref, tech = CHECKS[pid]
            checks.append({
                'property_id': pid,
                'quick_cmd': './check %s --tier quick' % pid,
                'thorough_cmd': './check %s --tier thorough' % pid,
                'evidence_file': 'evidence/%s.json' % pid,
                'replay_cmd_template': './check %s --replay {path}' % pid,
                'engine': 'lean4-proof+correspondence',
                'level_claimed': {'category': cat, 'text': text, 'design_ref': 'DESIGN.md section ' + ref},
                'level_note': PROOF_NOTE,
                'technique': tech,
            })
    na = [{'property_id': p['id'], 'reason': NA.get(p['id'], 'check under construction in this round (see DESIGN.md section 5); not claimed yet')}
          for p in props if p['id'] not in CHECKS]
    m = {
        'version': 1,
        'setup_cmd': 'cd lean && lake build Sparrow sparrow-driver Sparrow.Props.All',
        'hooks': {'guard': 'SPARROWPY_VERIF',
                  'enable': 'no hooks are needed: checks import /repo\'s working tree in-process (sys.path[0]=/repo); the guard name is reserved',
                  'baseline_off_cmd': 'cd /repo && /venv/bin/python -m pytest -ra -q -p no:cacheprovider --timeout=900 --continue-on-collection-errors',
                  'source_commits': [], 'add_only': True},
        'engines': [{'name': 'lean4-proof+correspondence', 'path': 'check',
                     'serves_properties': sorted(CHECKS),
                     'kind_free_text': 'Lean 4 model (lean/Sparrow/Model, Mathlib-free, executable) + theorems (lean/Sparrow/Props) + translator (harness/translate) + correspondence driver (lean/Driver, harness/*)'}],
        'checks': checks,
        'notes': 'fix: commits in /repo and the known finding(s) are listed in known_findings.json; see DESIGN.md',
        'not_applicable': na,
    }
    json.dump(m, open(os.path.join(HERE, 'MANIFEST.json'), 'w'), indent=1)
    print('checks:', len(checks), 'not claimed:', len(na))

if __name__ == '__main__':
    main()
