#!/bin/bash
# tools/mutant_matrix.sh <dir with patch.diff>...: run EVERY check against each seeded change, in a
# scratch clone of /verif (/tmp/vmat) against a scratch worktree of /repo (/tmp/mut/matrix); /repo and
# /verif themselves are not touched.  One line per check that reports; "### done" at the end.
set -u
[ -d /tmp/mut/matrix ] || git -C /repo worktree add --detach /tmp/mut/matrix HEAD >/dev/null 2>&1
git -C /tmp/mut/matrix checkout -q --detach "$(git -C /repo rev-parse HEAD)"
mkdir -p /tmp/vmat
rsync -a --exclude .git --exclude replays --exclude evidence --exclude 'lean/.lake/build' /verif/ /tmp/vmat/
[ -d /tmp/vmat/lean/.lake/build ] || cp -r /verif/lean/.lake/build /tmp/vmat/lean/.lake/build
cd /tmp/vmat
export SPARROW_REPO=/tmp/mut/matrix
( cd lean && lake build Sparrow sparrow-driver Sparrow.Props.All >/dev/null 2>&1 )
CHECKS=$(python3 -c "import json; print(' '.join(x['property_id'] for x in json.load(open('MANIFEST.json'))['checks']))")
one() { c=$1; out=$(VERIF_SEED=${VERIF_SEED:-0} ./check $c 2>&1); rc=$?; echo "$c rc=$rc $(echo "$out" | grep -E "VIOLATION" | head -1 | cut -c1-160)"; if [ $rc -ge 2 ]; then echo "$out" | tail -6 | sed "s/^/    /"; fi; }
export -f one
for d in "$@"; do
  git -C /tmp/mut/matrix checkout -q -- . ; git -C /tmp/mut/matrix apply "$d/patch.diff" || { echo "$d: patch failed"; continue; }
  echo "### $(basename $d)"
  /venv/bin/python -c "from harness import leanproof; leanproof.translate()" >/dev/null 2>&1
  ( cd lean && lake build Sparrow.Props.All sparrow-driver >/dev/null 2>&1 )
  for c in $CHECKS; do echo $c; done | xargs -P ${VERIF_JOBS:-6} -L 1 bash -c 'one $0' | sort
done
git -C /tmp/mut/matrix checkout -q -- .
/venv/bin/python -c "from harness import leanproof; leanproof.translate()" >/dev/null 2>&1
echo "### done"
