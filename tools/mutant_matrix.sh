#!/bin/bash
# tools/mutant_matrix.sh <dir with patch.diff>...: run EVERY check against each seeded change, in a
# scratch clone of /verif (VMAT_DIR, default /tmp/vmat) against a scratch worktree of /repo (VMAT_REPO, default /tmp/mut/matrix); /repo and
# /verif themselves are not touched.  One line per check that reports; "### done" at the end.
set -u
VM=${VMAT_DIR:-/tmp/vmat}
WT=${VMAT_REPO:-/tmp/mut/matrix}
[ -d $WT ] || git -C /repo worktree add --detach $WT HEAD >/dev/null 2>&1
git -C $WT checkout -q --detach "$(git -C /repo rev-parse HEAD)"
mkdir -p $VM
rsync -a --exclude .git --exclude replays --exclude evidence --exclude 'lean/.lake/build' /verif/ $VM/
[ -d $VM/lean/.lake/build ] || cp -r /verif/lean/.lake/build $VM/lean/.lake/build
cd $VM
export SPARROW_REPO=$WT
( cd lean && lake build Sparrow sparrow-driver Sparrow.Props.All >/dev/null 2>&1 )
CHECKS=$(python3 -c "import json; print(' '.join(x['property_id'] for x in json.load(open('MANIFEST.json'))['checks']))")
one() { c=$1; out=$(VERIF_SEED=${VERIF_SEED:-0} ./check $c 2>&1); rc=$?; echo "$c rc=$rc $(echo "$out" | grep -E "VIOLATION" | head -1 | cut -c1-160)"; if [ $rc -ge 2 ]; then echo "$out" | tail -6 | sed "s/^/    /"; fi; }
export -f one
for d in "$@"; do
  git -C $WT checkout -q -- . ; git -C $WT apply "$d/patch.diff" || { echo "$d: patch failed"; continue; }
  echo "### $(basename $d)"
  /venv/bin/python -c "from harness import leanproof; leanproof.translate()" >/dev/null 2>&1
  ( cd lean && lake build Sparrow.Props.All sparrow-driver >/dev/null 2>&1 )
  for c in $CHECKS; do echo $c; done | xargs -P ${VERIF_JOBS:-6} -L 1 bash -c 'one $0' | sort
done
git -C $WT checkout -q -- .
/venv/bin/python -c "from harness import leanproof; leanproof.translate()" >/dev/null 2>&1
echo "### done"
