#!/bin/bash
# tools/try_mutant.sh <dir with patch.diff [demo.py]> <check ids...>: apply to /repo, run checks, undo.
set -u
D="$1"; shift
cd /repo || exit 2
if [ -n "$(git status --porcelain)" ]; then echo "/repo not clean"; exit 2; fi
git apply "$D/patch.diff" || { echo "patch does not apply"; exit 2; }
trap 'git -C /repo checkout -- . ; git -C /repo status --short' EXIT
if [ -f "$D/demo.py" ]; then
  ( cd /tmp && timeout 600 /venv/bin/python "$D/demo.py" /repo > /tmp/demo_mut.log 2>&1; echo "demo on mutated tree: exit $? ($(tail -1 /tmp/demo_mut.log | cut -c1-100))" )
fi
cd /verif
for c in "$@"; do
  out=$(./check "$c" 2>&1); rc=$?
  echo "== $c rc=$rc"; echo "$out" | grep -E "VIOLATION|KNOWN-FINDING|quick:|thorough:" | cut -c1-260
done
