#!/bin/bash
# tools/run_par.sh [tier] [seeds...]: like run_all.sh, but the checks of one seed run in parallel
# (one build first, so that the concurrent `lake build`s are no-ops).
cd "$(dirname "$0")/.."
TIER=${1:-quick}; shift
SEEDS=${@:-0}
JOBS=${VERIF_JOBS:-8}
( cd lean && lake build Sparrow sparrow-driver Sparrow.Props.All >/dev/null 2>&1 )
CHECKS=$(python3 -c "import json; print(' '.join(x['property_id'] for x in json.load(open('MANIFEST.json'))['checks']))")
one() {
  s=$1; c=$2; TIER=$3
  start=$(date +%s)
  out=$(VERIF_SEED=$s ./check $c --tier $TIER 2>&1); rc=$?
  echo "seed=$s $c rc=$rc $(( $(date +%s) - start ))s :: $(echo "$out" | grep -E "VIOLATION|$TIER:" | tail -2 | tr '\n' ' ' | cut -c1-220)"
  if [ $rc -ge 2 ]; then echo "$out" | tail -15 | sed "s/^/    [$c] /"; fi
}
export -f one
for s in $SEEDS; do
  for c in $CHECKS; do echo "$s $c $TIER"; done | xargs -P $JOBS -L 1 bash -c 'one $0 $1 $2'
done
