import Sparrow.Generated.KangFn
import Sparrow.Model.Kang
import Sparrow.Model.Source
import Sparrow.Proofs.RealInst
import Sparrow.Proofs.KangFnEquiv
import Mathlib.Tactic.Ring
import Mathlib.Tactic.NormNum
/-
  The receiver side of the Kang engine as REGENERATED from `/repo` on every run (`Generated/KangFn.lean`: body of
  `PatchesKang.energy_at_receiver`, direct-sound branch of `RadiosityKang.energy_at_receiver`, call schedule of `RadiosityKang.run`,
  all recognised) computes the hand-written model (`Model/Kang.lean`: `kangRecvFactor`, `binKang`; `Model/Source.lean`:
  `directSound`).
-/
namespace Sparrow
open Sparrow.Generated.KangFn

/-- one patch, one order, one band at the receiver (Kang eq. 20): the patch histogram delayed by the patch-receiver bins with
    truncation, weighted by `cos ξ · exp(-m R) / (π R²)` — the model's `kangRecvFactor` -/
theorem receiverContribution_eq (center recv normal : Nat → ℝ) (c fs : ℝ) (E : Nat → ℝ) (n : Nat) (att : Nat → ℝ) (f : Nat)
    (hd : binKang (Vec3.norm (Vec3.sub (Vec3.ofFn center) (Vec3.ofFn recv))) c fs ≤ n) :
    ∃ g, receiverContribution center recv normal c fs E n att f = some g ∧
      ∀ t, t < n → g t =
        if binKang (Vec3.norm (Vec3.sub (Vec3.ofFn center) (Vec3.ofFn recv))) c fs ≤ t then
          E (t - binKang (Vec3.norm (Vec3.sub (Vec3.ofFn center) (Vec3.ofFn recv))) c fs) *
            kangRecvFactor (Vec3.ofFn normal) (Vec3.ofFn center) (Vec3.ofFn recv) (att f)
        else 0 := by
  unfold receiverContribution
  dsimp only
  have hb : ToBin.floorNat (Transc.sqrt ((center 0 - recv 0) * (center 0 - recv 0) +
      (center 1 - recv 1) * (center 1 - recv 1) + (center 2 - recv 2) * (center 2 - recv 2)) / c * fs) =
      binKang (Vec3.norm (Vec3.sub (Vec3.ofFn center) (Vec3.ofFn recv))) c fs := rfl
  rw [hb]
  obtain ⟨g, hg, pg⟩ := addDelay_eq E n _ hd
  rw [hg, Option.map_some]
  refine ⟨_, rfl, ?_⟩
  intro t ht
  rw [pg t ht]
  by_cases hle : binKang (Vec3.norm (Vec3.sub (Vec3.ofFn center) (Vec3.ofFn recv))) c fs ≤ t
  · rw [if_pos hle, if_neg (by omega)]
    rfl
  · rw [if_neg hle, if_pos (by omega)]
    exact zero_mul _


/-- one step of the order loop of `receiverCell` -/
noncomputable def recvStep (recv : Nat → ℝ) (c fs : ℝ) (n : Nat) (att : Nat → ℝ) (f t : Nat)
    (p : (Nat → ℝ) × (Nat → ℝ) × (Nat → Nat → ℝ)) (acc_ : Option ℝ) (k : Nat) : Option ℝ :=
  match acc_, receiverContribution p.1 recv p.2.1 c fs (p.2.2 k) n att f with
  | some a_, some e_ => some (a_ + e_ t)
  | _, _ => none

theorem receiverCell_eq_fold (recv : Nat → ℝ) (c fs : ℝ) (n K : Nat)
    (patches : List ((Nat → ℝ) × (Nat → ℝ) × (Nat → Nat → ℝ))) (att : Nat → ℝ) (f t : Nat) :
    receiverCell recv c fs n K patches att f t =
      patches.foldl (fun acc_ p_ => (List.range (K + 1)).foldl (recvStep recv c fs n att f t p_) acc_) (some 0) := by
  unfold receiverCell
  congr 1
  funext acc_ p_
  congr 1
  funext a k
  unfold recvStep
  cases a <;> cases receiverContribution p_.1 recv p_.2.1 c fs (p_.2.2 k) n att f <;> rfl

theorem kr_orders (recv : Nat → ℝ) (c fs : ℝ) (n : Nat) (att : Nat → ℝ) (f t : Nat) (ht : t < n)
    (p : (Nat → ℝ) × (Nat → ℝ) × (Nat → Nat → ℝ))
    (hd : binKang (Vec3.norm (Vec3.sub (Vec3.ofFn p.1) (Vec3.ofFn recv))) c fs ≤ n) (ks : List Nat) (acc : ℝ) :
    ks.foldl (recvStep recv c fs n att f t p) (some acc) =
      some (acc + (ks.map fun k =>
        if binKang (Vec3.norm (Vec3.sub (Vec3.ofFn p.1) (Vec3.ofFn recv))) c fs ≤ t then
          p.2.2 k (t - binKang (Vec3.norm (Vec3.sub (Vec3.ofFn p.1) (Vec3.ofFn recv))) c fs) *
            kangRecvFactor (Vec3.ofFn p.2.1) (Vec3.ofFn p.1) (Vec3.ofFn recv) (att f)
        else 0).sum) := by
  induction ks generalizing acc with
  | nil => simp
  | cons k ks ih =>
    obtain ⟨g, hg, pg⟩ := receiverContribution_eq p.1 recv p.2.1 c fs (p.2.2 k) n att f hd
    rw [List.foldl_cons]
    have e : recvStep recv c fs n att f t p (some acc) k = some (acc + g t) := by
      unfold recvStep
      rw [hg]
    rw [e, ih, pg t ht, List.map_cons, List.sum_cons, add_assoc]

theorem kr_sum_factor (b t : Nat) (w : ℝ) (E : Nat → Nat → ℝ) (ks : List Nat) :
    (ks.map fun k => if b ≤ t then E k (t - b) * w else 0).sum =
      if b ≤ t then (ks.map fun k => E k (t - b)).sum * w else 0 := by
  by_cases h : b ≤ t
  · simp only [if_pos h]
    rw [List.sum_map_mul_right]
  · simp only [if_neg h]
    simp

/-- the contribution of one patch (all orders up to `K`) to one cell, as the model writes it -/
noncomputable def kangRecvTerm (recv : Nat → ℝ) (c fs : ℝ) (K : Nat) (att : Nat → ℝ) (f t : Nat)
    (p : (Nat → ℝ) × (Nat → ℝ) × (Nat → Nat → ℝ)) : ℝ :=
  let b := binKang (Vec3.norm (Vec3.sub (Vec3.ofFn p.1) (Vec3.ofFn recv))) c fs
  if b ≤ t then
    ((List.range (K + 1)).map fun k => p.2.2 k (t - b)).sum * kangRecvFactor (Vec3.ofFn p.2.1) (Vec3.ofFn p.1) (Vec3.ofFn recv) (att f)
  else 0


theorem kr_patches (recv : Nat → ℝ) (c fs : ℝ) (n K : Nat) (att : Nat → ℝ) (f t : Nat) (ht : t < n)
    (patches : List ((Nat → ℝ) × (Nat → ℝ) × (Nat → Nat → ℝ))) (acc : ℝ)
    (hd : ∀ p ∈ patches, binKang (Vec3.norm (Vec3.sub (Vec3.ofFn p.1) (Vec3.ofFn recv))) c fs ≤ n) :
    patches.foldl (fun acc_ p_ => (List.range (K + 1)).foldl (recvStep recv c fs n att f t p_) acc_) (some acc) =
      some (acc + (patches.map (kangRecvTerm recv c fs K att f t)).sum) := by
  induction patches generalizing acc with
  | nil => simp
  | cons p ps ih =>
    rw [List.foldl_cons, kr_orders recv c fs n att f t ht p (hd p (by simp)), ih _ (fun q hq => hd q (by simp [hq])),
      List.map_cons, List.sum_cons, add_assoc, kr_sum_factor]
    rfl

/-- **the loops of `PatchesKang.energy_at_receiver`**: the response is additive over patches and orders -/
theorem receiverCell_eq (recv : Nat → ℝ) (c fs : ℝ) (n K : Nat) (patches : List ((Nat → ℝ) × (Nat → ℝ) × (Nat → Nat → ℝ)))
    (att : Nat → ℝ) (f t : Nat) (ht : t < n)
    (hd : ∀ p ∈ patches, binKang (Vec3.norm (Vec3.sub (Vec3.ofFn p.1) (Vec3.ofFn recv))) c fs ≤ n) :
    receiverCell recv c fs n K patches att f t = some ((patches.map (kangRecvTerm recv c fs K att f t)).sum) := by
  rw [receiverCell_eq_fold, kr_patches recv c fs n K att f t ht patches 0 hd, zero_add]

/-- nothing arrives at the receiver before the patch-receiver travel time of the nearest patch -/
theorem receiverCell_silent_before (recv : Nat → ℝ) (c fs : ℝ) (n K : Nat)
    (patches : List ((Nat → ℝ) × (Nat → ℝ) × (Nat → Nat → ℝ))) (att : Nat → ℝ) (f t : Nat) (ht : t < n)
    (hd : ∀ p ∈ patches, binKang (Vec3.norm (Vec3.sub (Vec3.ofFn p.1) (Vec3.ofFn recv))) c fs ≤ n)
    (hearly : ∀ p ∈ patches, t < binKang (Vec3.norm (Vec3.sub (Vec3.ofFn p.1) (Vec3.ofFn recv))) c fs) :
    receiverCell recv c fs n K patches att f t = some 0 := by
  rw [receiverCell_eq recv c fs n K patches att f t ht hd]
  congr 1
  apply List.sum_eq_zero
  intro x hx
  obtain ⟨p, hp, rfl⟩ := List.mem_map.1 hx
  unfold kangRecvTerm
  dsimp only
  rw [if_neg (by have := hearly p hp; omega)]

/-- **direct-sound law of the Kang engine** (recognised text): bin `int(r/c·fs)`, value `exp(-m r) / (4 π r²)` per band -/
theorem directSoundKang_eq (recv src : Nat → ℝ) (M : Nat → ℝ) (c fs : ℝ) :
    directSoundKang recv src M c fs =
      (binKang (Vec3.norm (Vec3.sub (Vec3.ofFn recv) (Vec3.ofFn src))) c fs,
       fun b => directSound (Vec3.norm (Vec3.sub (Vec3.ofFn recv) (Vec3.ofFn src))) (M b)) := by
  unfold directSoundKang directSound
  dsimp only
  have h1 : ((1 : Nat) : ℝ) = 1 := by norm_num
  have h4 : ((4 : Nat) : ℝ) = (1 + 1) + (1 + 1) := by norm_num
  rw [h1, h4]
  rfl

theorem directSoundKang_law (recv src : Nat → ℝ) (M : Nat → ℝ) (c fs : ℝ) (b : Nat) :
    (directSoundKang recv src M c fs).2 b =
      Real.exp (-(M b) * Vec3.norm (Vec3.sub (Vec3.ofFn recv) (Vec3.ofFn src))) /
        (4 * Real.pi * (Vec3.norm (Vec3.sub (Vec3.ofFn recv) (Vec3.ofFn src))) ^ 2) := by
  rw [directSoundKang_eq]
  unfold directSound
  dsimp only
  rw [transc_exp_real, transc_pi_real, one_div, ← div_eq_inv_mul]
  congr 1
  ring


theorem kr_flatMap_length {β : Type} (f : Nat → Nat → β) (K n : Nat) :
    ((List.range K).flatMap fun k => (List.range n).map (f k)).length = K * n := by
  induction K with
  | zero => simp
  | succ K ih =>
    rw [List.range_succ, List.flatMap_append, List.length_append, ih]
    simp [Nat.add_mul]

theorem kr_flatMap_get {β : Type} (f : Nat → Nat → β) (K n k w : Nat) (hk : k < K) (hw : w < n) :
    ((List.range K).flatMap fun k => (List.range n).map (f k))[k * n + w]? = some (f k w) := by
  induction K with
  | zero => omega
  | succ K ih =>
    rw [List.range_succ, List.flatMap_append]
    by_cases h : k < K
    · have hlt : k * n + w < K * n := by
        have : (k + 1) * n ≤ K * n := Nat.mul_le_mul_right n h
        rw [Nat.add_mul, Nat.one_mul] at this
        omega
      rw [List.getElem?_append_left (by rw [kr_flatMap_length]; exact hlt)]
      exact ih h
    · have e : k = K := by omega
      subst e
      rw [List.getElem?_append_right (by rw [kr_flatMap_length]; omega), kr_flatMap_length]
      simp [hw]

theorem kr_sched_exchange (nW K w k : Nat) (hw : w < nW) (hk : 1 ≤ k) (hk' : k ≤ K) (h2 : 1 < nW) :
    (runSchedule nW K)[nW + nW + (k - 1) * nW + w]? = some (KangCall.exchange w k) := by
  unfold runSchedule
  rw [if_pos h2, if_pos h2]
  rw [List.getElem?_append_right (by simp; omega)]
  have e : nW + nW + (k - 1) * nW + w -
      ((List.range nW).map KangCall.init ++ (List.range nW).map KangCall.formFactor).length = (k - 1) * nW + w := by
    simp; omega
  rw [e, kr_flatMap_get (fun k_ w => KangCall.exchange w (k_ + 1)) K nW (k - 1) w (by omega) hw]
  have : k - 1 + 1 = k := by omega
  rw [this]

/-- **call schedule of `RadiosityKang.run`**: an exchange of order `k+1` is issued only after every wall's exchange of order `k`
    (for `k ≥ 1`) — the order recursion reads complete order-`k` histograms -/
theorem runSchedule_order (nW K w w' k : Nat) (hw : w < nW) (hw' : w' < nW) (hk : 1 ≤ k) (hk' : k + 1 ≤ K) (h2 : 1 < nW) :
    ∃ i j : Nat, i < j ∧ (runSchedule nW K)[i]? = some (KangCall.exchange w' k) ∧
      (runSchedule nW K)[j]? = some (KangCall.exchange w (k + 1)) := by
  refine ⟨nW + nW + (k - 1) * nW + w', nW + nW + (k + 1 - 1) * nW + w, ?_,
    kr_sched_exchange nW K w' k hw' hk (by omega) h2, kr_sched_exchange nW K w (k + 1) hw (by omega) hk' h2⟩
  have e : (k + 1 - 1) * nW = (k - 1) * nW + nW := by
    have : k + 1 - 1 = (k - 1) + 1 := by omega
    rw [this, Nat.add_mul, Nat.one_mul]
  omega

/-- every wall is initialised before any exchange is issued -/
theorem runSchedule_init_first (nW K w w' k : Nat) (hw : w < nW) (hw' : w' < nW) (hk : 1 ≤ k) (hk' : k ≤ K) (h2 : 1 < nW) :
    ∃ i j : Nat, i < j ∧ (runSchedule nW K)[i]? = some (KangCall.init w') ∧
      (runSchedule nW K)[j]? = some (KangCall.exchange w k) := by
  refine ⟨w', nW + nW + (k - 1) * nW + w, by omega, ?_, kr_sched_exchange nW K w k hw hk hk' h2⟩
  unfold runSchedule
  rw [List.append_assoc, List.getElem?_append_left (by simpa using hw')]
  simp [hw']

/-- each call is issued exactly once -/
theorem runSchedule_nodup (nW K : Nat) : (runSchedule nW K).Nodup := by
  unfold runSchedule
  by_cases h2 : nW > 1
  · rw [if_pos h2, if_pos h2]
    have hA : ((List.range nW).map KangCall.init).Nodup :=
      List.Nodup.map (fun a b h => by cases h; rfl) List.nodup_range
    have hB : ((List.range nW).map KangCall.formFactor).Nodup :=
      List.Nodup.map (fun a b h => by cases h; rfl) List.nodup_range
    have hC : ((List.range K).flatMap fun k_ => (List.range nW).map fun w => KangCall.exchange w (k_ + 1)).Nodup := by
      rw [List.nodup_flatMap]
      refine ⟨fun k _ => List.Nodup.map (fun a b h => by cases h; rfl) List.nodup_range, ?_⟩
      refine List.Pairwise.imp ?_ List.nodup_range
      intro a b hab
      show List.Disjoint _ _
      intro x hx hy
      obtain ⟨w1, _, rfl⟩ := List.mem_map.1 hx
      obtain ⟨w2, _, h⟩ := List.mem_map.1 hy
      cases h
      exact hab rfl
    refine List.Nodup.append (List.Nodup.append hA hB ?_) hC ?_
    · intro x hx hy
      obtain ⟨w1, _, rfl⟩ := List.mem_map.1 hx
      obtain ⟨w2, _, h⟩ := List.mem_map.1 hy
      cases h
    · intro x hx hy
      obtain ⟨k, _, hk⟩ := List.mem_flatMap.1 hy
      obtain ⟨w2, _, rfl⟩ := List.mem_map.1 hk
      rcases List.mem_append.1 hx with h | h
      · obtain ⟨w1, _, h⟩ := List.mem_map.1 h
        cases h
      · obtain ⟨w1, _, h⟩ := List.mem_map.1 h
        cases h
  · rw [if_neg h2, if_neg h2, List.append_nil, List.append_nil]
    exact List.Nodup.map (fun a b h => by cases h; rfl) List.nodup_range

/-- a single wall: initialisation only (no form factors, no exchange) -/
theorem runSchedule_single (K : Nat) : runSchedule 1 K = [KangCall.init 0] := by
  simp [runSchedule, List.range_succ]

end Sparrow
