import Sparrow.Proofs.Energy
import Sparrow.Model.Collect
import Mathlib.Algebra.Order.BigOperators.Group.List

namespace Sparrow

/-- Monotonicity of the whole exchange in its inputs: with the same geometry (pairs, bins,
    direction map, sizes), smaller-or-equal non-negative initial energies and transfer factors
    give smaller-or-equal histograms in every bin, at every order. -/
theorem orderH_mono (sc sc' : ExScene ℝ)
    (hP : sc'.P = sc.P) (hD : sc'.D = sc.D) (hS : sc'.S = sc.S) (hpairs : sc'.pairs = sc.pairs)
    (hbin0 : sc'.bin0 = sc.bin0) (hbin : sc'.bin = sc.bin) (hdir : sc'.dir = sc.dir)
    (he0 : ∀ j d, 0 ≤ sc.e0 j d) (hf0 : ∀ i j d, 0 ≤ sc.fft i j d)
    (he : ∀ j d, sc.e0 j d ≤ sc'.e0 j d) (hf : ∀ i j d, sc.fft i j d ≤ sc'.fft i j d)
    (k j d t : Nat) : orderH sc k j d t ≤ orderH sc' k j d t := by
  have hnn := orderH_nonneg sc he0 hf0
  obtain ⟨P, D, S, pairs, bin0, bin, e0, fft, dir⟩ := sc
  obtain ⟨P', D', S', pairs', bin0', bin', e0', fft', dir'⟩ := sc'
  dsimp only at hP hD hS hpairs hbin0 hbin hdir he0 hf0 he hf
  subst hP hD hS hpairs hbin0 hbin hdir
  induction k generalizing j d t with
  | zero =>
    rw [orderH_zero, orderH_zero]
    dsimp only
    split
    · unfold initF
      dsimp only
      split
      · exact he j d
      · exact le_rfl
    · exact le_rfl
  | succ k ih =>
    rw [orderH_succ, orderH_succ]
    dsimp only
    split
    · rw [stepF_eq_sum, stepF_eq_sum]
      apply List.sum_le_sum
      intro a _
      unfold term
      dsimp only
      split
      · exact mul_le_mul (hf _ _ _) (ih _ _ _) (hnn k _ _ _) (le_trans (hf0 _ _ _) (hf _ _ _))
      · exact le_rfl
    · exact le_rfl

theorem etc_mono (sc sc' : ExScene ℝ)
    (hP : sc'.P = sc.P) (hD : sc'.D = sc.D) (hS : sc'.S = sc.S) (hpairs : sc'.pairs = sc.pairs)
    (hbin0 : sc'.bin0 = sc.bin0) (hbin : sc'.bin = sc.bin) (hdir : sc'.dir = sc.dir)
    (he0 : ∀ j d, 0 ≤ sc.e0 j d) (hf0 : ∀ i j d, 0 ≤ sc.fft i j d)
    (he : ∀ j d, sc.e0 j d ≤ sc'.e0 j d) (hf : ∀ i j d, sc.fft i j d ≤ sc'.fft i j d)
    (K j d t : Nat) : etc sc K j d t ≤ etc sc' K j d t := by
  rw [etc_eq_sum, etc_eq_sum]
  apply List.sum_le_sum
  intro k _
  exact orderH_mono sc sc' hP hD hS hpairs hbin0 hbin hdir he0 hf0 he hf k j d t

theorem etc_nonneg (sc : ExScene ℝ) (he : ∀ j d, 0 ≤ sc.e0 j d)
    (hf : ∀ i j d, 0 ≤ sc.fft i j d) (K j d t : Nat) : 0 ≤ etc sc K j d t := by
  rw [etc_eq_sum]
  apply List.sum_nonneg
  intro x hx
  obtain ⟨k, _, rfl⟩ := List.mem_map.mp hx
  exact orderH_nonneg sc he hf k j d t

/-- Diffuse walls make the direction slots irrelevant: if initial energies and transfer
    factors do not depend on the outgoing slot, then every slot `d < D` of the `D`-slot
    scene carries exactly the histogram of the corresponding one-slot scene
    (whatever the direction map says). -/
theorem diffuse_direction_free (sc : ExScene ℝ) (hwf : sc.WF)
    (he : ∀ j d d', sc.e0 j d = sc.e0 j d') (hf : ∀ i j d d', sc.fft i j d = sc.fft i j d')
    (k j d t : Nat) (hd : d < sc.D) :
    orderH sc k j d t =
      orderH { sc with D := 1, dir := fun _ _ => 0 } k j 0 t := by
  induction k generalizing j d t with
  | zero =>
    rw [orderH_zero, orderH_zero]
    by_cases h : j < sc.P ∧ t < sc.S
    · rw [if_pos ⟨h.1, hd, h.2⟩, if_pos ⟨h.1, Nat.one_pos, h.2⟩]
      unfold initF
      dsimp only
      rw [he j d 0]
    · rw [if_neg (fun hh => h ⟨hh.1, hh.2.2⟩), if_neg (fun hh => h ⟨hh.1, hh.2.2⟩)]
  | succ k ih =>
    rw [orderH_succ, orderH_succ]
    by_cases h : j < sc.P ∧ t < sc.S
    · rw [if_pos ⟨h.1, hd, h.2⟩, if_pos ⟨h.1, Nat.one_pos, h.2⟩, stepF_eq_sum, stepF_eq_sum]
      show ((sc.arcs.filter fun a => a.2 == j).map _).sum =
        ((sc.arcs.filter fun a => a.2 == j).map _).sum
      congr 1
      apply List.map_congr_left
      intro a ha
      have ha' : a ∈ sc.arcs := (List.mem_filter.mp ha).1
      obtain ⟨_, _, h3⟩ := hwf a ha'
      unfold term
      dsimp only
      rw [ih a.1 (sc.dir a.1 a.2) (t - sc.bin a.1 a.2) h3, hf a.1 a.2 d 0]
    · rw [if_neg (fun hh => h ⟨hh.1, hh.2.2⟩), if_neg (fun hh => h ⟨hh.1, hh.2.2⟩)]

end Sparrow
