import Sparrow.Model.Patches
import Sparrow.Proofs.RealInst
import Mathlib.Tactic.Ring
import Mathlib.Tactic.Linarith
import Mathlib.Tactic.FieldSimp
import Mathlib.Algebra.Order.Floor.Semiring

namespace Sparrow

/-- An axis-aligned rectangular wall: flat along axis `fl` (coordinate `z`), spanning
    `[x0, x0+sx] × [y0, y0+sy]` along the other two axes `xa < ya`. Stated through what the code
    reads: per-axis minima and maxima over the four vertices. -/
structure RectWall (w : Quad ℝ) (fl xa ya : Nat) (x0 y0 sx sy z : ℝ) : Prop where
  perm : (fl = 0 ∧ xa = 1 ∧ ya = 2) ∨ (fl = 1 ∧ xa = 0 ∧ ya = 2) ∨ (fl = 2 ∧ xa = 0 ∧ ya = 1)
  flat : ∀ v, v < 4 → w v fl = z
  xmin : minOver (fun v => w v xa) 4 = x0
  xmax : maxOver (fun v => w v xa) 4 = x0 + sx
  ymin : minOver (fun v => w v ya) 4 = y0
  ymax : maxOver (fun v => w v ya) 4 = y0 + sy
  sx_pos : 0 < sx
  sy_pos : 0 < sy

@[simp] theorem floorNat_real (x : ℝ) : ToBin.floorNat x = ⌊x⌋₊ := rfl

/-- **The grid the code computes** for a rectangular wall and a patch size `0 < p ≤ sx, sy`:
    `⌊sx/p⌋ × ⌊sy/p⌋` cells (both at least 1) of size `sx/⌊sx/p⌋ × sy/⌊sy/p⌋`, anchored at the
    wall's minimum corner, along the wall's own two in-plane axes. -/
theorem grid_of_rect (w : Quad ℝ) (fl xa ya : Nat) (x0 y0 sx sy z p : ℝ)
    (h : RectWall w fl xa ya x0 y0 sx sy z) (hp : 0 < p) (hpx : p ≤ sx) (hpy : p ≤ sy) :
    ∃ g : Grid ℝ, grid w p = some g ∧ g.nx = ⌊sx / p⌋₊ ∧ g.ny = ⌊sy / p⌋₊ ∧ 1 ≤ g.nx ∧ 1 ≤ g.ny ∧
      g.xIdx = xa ∧ g.yIdx = ya ∧ g.xMin = x0 ∧ g.yMin = y0 ∧
      g.rx = sx / (g.nx : ℝ) ∧ g.ry = sy / (g.ny : ℝ) := by
  have hfl : extent w fl = 0 := by
    have h0 := h.flat 0 (by norm_num)
    have h1 := h.flat 1 (by norm_num)
    have h2 := h.flat 2 (by norm_num)
    have h3 := h.flat 3 (by norm_num)
    simp [extent, maxOver, minOver, List.range_succ, h0, h1, h2, h3]
  have hex : extent w xa = sx := by simp [extent, h.xmin, h.xmax]
  have hey : extent w ya = sy := by simp [extent, h.ymin, h.ymax]
  have nfl : patchNum w p fl = 0 := by simp [patchNum, hfl]
  have nxa : patchNum w p xa = ⌊sx / p⌋₊ := by simp [patchNum, hex]
  have nya : patchNum w p ya = ⌊sy / p⌋₊ := by simp [patchNum, hey]
  have hnx : 1 ≤ ⌊sx / p⌋₊ := Nat.le_floor (by rw [Nat.cast_one]; exact (one_le_div hp).2 hpx)
  have hny : 1 ≤ ⌊sy / p⌋₊ := Nat.le_floor (by rw [Nat.cast_one]; exact (one_le_div hp).2 hpy)
  have hnx0 : ⌊sx / p⌋₊ ≠ 0 := by omega
  have hny0 : ⌊sy / p⌋₊ ≠ 0 := by omega
  have hxm := h.xmin
  have hym := h.ymin
  rcases h.perm with ⟨rfl, rfl, rfl⟩ | ⟨rfl, rfl, rfl⟩ | ⟨rfl, rfl, rfl⟩
  · refine ⟨_, by simp only [grid, nfl, nxa, nya, planeAxes, if_true]; rfl, ?_⟩
    simp [hnx, hny, hxm, hym, hex, hey]
  · refine ⟨_, by simp only [grid, nfl, nxa, nya, planeAxes, if_true, if_neg hnx0]; rfl, ?_⟩
    simp [hnx, hny, hxm, hym, hex, hey]
  · refine ⟨_, by simp only [grid, nfl, nxa, nya, planeAxes, if_true, if_neg hnx0, if_neg hny0]; rfl, ?_⟩
    simp [hnx, hny, hxm, hym, hex, hey]

/-- Vertices of patch `(ix, iy)`: the rectangle `[x0+ix·rx, x0+(ix+1)·rx] × [y0+iy·ry, y0+(iy+1)·ry]`
    in the order (lo,lo), (hi,lo), (hi,hi), (lo,hi), lying in the wall's plane. -/
theorem patch_rect (w : Quad ℝ) (g : Grid ℝ) (fl : Nat) (z : ℝ) (ix iy : Nat)
    (hx : g.xIdx ≠ g.yIdx) (hfx : fl ≠ g.xIdx) (hfy : fl ≠ g.yIdx) (hflat : ∀ v, v < 4 → w v fl = z) :
    (patchCoord w g ix iy 0 g.xIdx = g.xMin + ix * g.rx ∧ patchCoord w g ix iy 0 g.yIdx = g.yMin + iy * g.ry) ∧
    (patchCoord w g ix iy 1 g.xIdx = g.xMin + (ix + 1) * g.rx ∧ patchCoord w g ix iy 1 g.yIdx = g.yMin + iy * g.ry) ∧
    (patchCoord w g ix iy 2 g.xIdx = g.xMin + (ix + 1) * g.rx ∧ patchCoord w g ix iy 2 g.yIdx = g.yMin + (iy + 1) * g.ry) ∧
    (patchCoord w g ix iy 3 g.xIdx = g.xMin + ix * g.rx ∧ patchCoord w g ix iy 3 g.yIdx = g.yMin + (iy + 1) * g.ry) ∧
    (∀ v, v < 4 → patchCoord w g ix iy v fl = z) := by
  have hx' : g.yIdx ≠ g.xIdx := fun h => hx h.symm
  refine ⟨⟨?_, ?_⟩, ⟨?_, ?_⟩, ⟨?_, ?_⟩, ⟨?_, ?_⟩, ?_⟩
  · simp [patchCoord]
  · simp [patchCoord, hx']
  · simp [patchCoord]
  · simp [patchCoord, hx']
  · simp [patchCoord]
  · simp [patchCoord, hx']
  · simp [patchCoord]
  · simp [patchCoord, hx']
  · intro v hv
    simp [patchCoord, hfx, hfy, hflat v hv]

/-- Enumeration: patch number `k < nx·ny` is cell `(k / ny, k % ny)`, and every cell occurs
    exactly once. -/
theorem enumeration (g : Grid ℝ) (hny : 1 ≤ g.ny) :
    (∀ k, k < totalPatches g → k / g.ny < g.nx ∧ k % g.ny < g.ny) ∧
    (∀ ix iy, ix < g.nx → iy < g.ny → ∃ k, k < totalPatches g ∧ k / g.ny = ix ∧ k % g.ny = iy) ∧
    (∀ k k', k < totalPatches g → k' < totalPatches g → k / g.ny = k' / g.ny → k % g.ny = k' % g.ny → k = k') := by
  have hpos : 0 < g.ny := hny
  refine ⟨?_, ?_, ?_⟩
  · intro k hk
    refine ⟨?_, Nat.mod_lt _ hpos⟩
    rw [Nat.div_lt_iff_lt_mul hpos]
    exact hk
  · intro ix iy hix hiy
    refine ⟨ix * g.ny + iy, ?_, ?_, ?_⟩
    · unfold totalPatches
      calc ix * g.ny + iy < ix * g.ny + g.ny := by omega
        _ = (ix + 1) * g.ny := by ring
        _ ≤ g.nx * g.ny := Nat.mul_le_mul_right _ hix
    · rw [Nat.mul_comm, Nat.mul_add_div hpos, Nat.div_eq_of_lt hiy]; simp
    · rw [Nat.mul_comm, Nat.mul_add_mod, Nat.mod_eq_of_lt hiy]
  · intro k k' _ _ h1 h2
    rw [← Nat.div_add_mod k g.ny, ← Nat.div_add_mod k' g.ny, h1, h2]

/-- Areas sum to the wall area. -/
theorem areas_sum (nx ny : Nat) (sx sy : ℝ) (hx : 1 ≤ nx) (hy : 1 ≤ ny) :
    ((nx * ny : Nat) : ℝ) * ((sx / nx) * (sy / ny)) = sx * sy := by
  have h1 : (nx : ℝ) ≠ 0 := by exact_mod_cast (by omega : nx ≠ 0)
  have h2 : (ny : ℝ) ≠ 0 := by exact_mod_cast (by omega : ny ≠ 0)
  push_cast
  field_simp

theorem cover1 (n : Nat) (a s b : ℝ) (hn : 1 ≤ n) (hs : 0 < s) (h1 : a ≤ b) (h2 : b ≤ a + s) :
    ∃ i, i < n ∧ a + i * (s / n) ≤ b ∧ b ≤ a + (i + 1) * (s / n) := by
  have hn0 : (0 : ℝ) < n := by exact_mod_cast hn
  have hr : 0 < s / n := div_pos hs hn0
  have hnr : (n : ℝ) * (s / n) = s := by field_simp
  have hq : 0 ≤ (b - a) / (s / n) := div_nonneg (by linarith) hr.le
  by_cases hc : ⌊(b - a) / (s / n)⌋₊ < n
  · refine ⟨_, hc, ?_, ?_⟩
    · have := Nat.floor_le hq
      rw [le_div_iff₀ hr] at this
      linarith
    · have := Nat.lt_floor_add_one ((b - a) / (s / n))
      rw [div_lt_iff₀ hr] at this
      linarith
  · have hc' : n ≤ ⌊(b - a) / (s / n)⌋₊ := by omega
    have h3 : (n : ℝ) ≤ (b - a) / (s / n) := le_trans (by exact_mod_cast hc') (Nat.floor_le hq)
    rw [le_div_iff₀ hr] at h3
    refine ⟨n - 1, by omega, ?_, ?_⟩
    · have : ((n - 1 : Nat) : ℝ) = (n : ℝ) - 1 := by
        rw [Nat.cast_sub hn]; simp
      rw [this]
      nlinarith
    · have : ((n - 1 : Nat) : ℝ) = (n : ℝ) - 1 := by
        rw [Nat.cast_sub hn]; simp
      rw [this]
      have : (n : ℝ) - 1 + 1 = n := by ring
      rw [this, hnr]
      exact h2

/-- The cells cover the wall: every point of `[x0, x0+sx] × [y0, y0+sy]` lies in some cell. -/
theorem cells_cover (nx ny : Nat) (x0 y0 sx sy u v : ℝ) (hx : 1 ≤ nx) (hy : 1 ≤ ny)
    (hsx : 0 < sx) (hsy : 0 < sy) (hu : x0 ≤ u ∧ u ≤ x0 + sx) (hv : y0 ≤ v ∧ v ≤ y0 + sy) :
    ∃ ix iy, ix < nx ∧ iy < ny ∧
      x0 + ix * (sx / nx) ≤ u ∧ u ≤ x0 + (ix + 1) * (sx / nx) ∧
      y0 + iy * (sy / ny) ≤ v ∧ v ≤ y0 + (iy + 1) * (sy / ny) := by
  obtain ⟨ix, a1, a2, a3⟩ := cover1 nx x0 sx u hx hsx hu.1 hu.2
  obtain ⟨iy, b1, b2, b3⟩ := cover1 ny y0 sy v hy hsy hv.1 hv.2
  exact ⟨ix, iy, a1, b1, a2, a3, b2, b3⟩

/-- … every cell lies inside the wall … -/
theorem cells_inside (nx ny : Nat) (x0 sx : ℝ) (ix : Nat) (hx : 1 ≤ nx) (hsx : 0 < sx) (hix : ix < nx) :
    x0 ≤ x0 + ix * (sx / nx) ∧ x0 + (ix + 1) * (sx / nx) ≤ x0 + sx := by
  have h1 : (0 : ℝ) < nx := by exact_mod_cast hx
  have hr : 0 < sx / nx := div_pos hsx h1
  have h2 : ((ix : ℝ) + 1) ≤ nx := by exact_mod_cast hix
  constructor
  · have : 0 ≤ (ix : ℝ) * (sx / nx) := mul_nonneg (Nat.cast_nonneg _) hr.le
    linarith
  · have : ((ix : ℝ) + 1) * (sx / nx) ≤ nx * (sx / nx) := mul_le_mul_of_nonneg_right h2 hr.le
    have h3 : (nx : ℝ) * (sx / nx) = sx := by field_simp
    linarith

/-- … and distinct cells have disjoint interiors. -/
theorem cells_disjoint (nx ny : Nat) (x0 y0 sx sy u v : ℝ) (ix iy ix' iy' : Nat)
    (hx : 1 ≤ nx) (hy : 1 ≤ ny) (hsx : 0 < sx) (hsy : 0 < sy) (hne : (ix, iy) ≠ (ix', iy'))
    (h1 : x0 + ix * (sx / nx) < u ∧ u < x0 + (ix + 1) * (sx / nx) ∧
          y0 + iy * (sy / ny) < v ∧ v < y0 + (iy + 1) * (sy / ny))
    (h2 : x0 + ix' * (sx / nx) < u ∧ u < x0 + (ix' + 1) * (sx / nx) ∧
          y0 + iy' * (sy / ny) < v ∧ v < y0 + (iy' + 1) * (sy / ny)) : False := by
  have key : ∀ (r a b : ℝ) (i j : Nat), 0 < r → a + i * r < b → b < a + (i + 1) * r →
      a + j * r < b → b < a + (j + 1) * r → i = j := by
    intro r a b i j hr h1 h2 h3 h4
    by_contra hij
    rcases Nat.lt_or_gt_of_ne hij with hlt | hlt
    · have : ((i : ℝ) + 1) ≤ j := by exact_mod_cast hlt
      have := mul_le_mul_of_nonneg_right this hr.le
      linarith
    · have : ((j : ℝ) + 1) ≤ i := by exact_mod_cast hlt
      have := mul_le_mul_of_nonneg_right this hr.le
      linarith
  have hnx : (0 : ℝ) < nx := by exact_mod_cast hx
  have hny : (0 : ℝ) < ny := by exact_mod_cast hy
  obtain ⟨a1, a2, a3, a4⟩ := h1
  obtain ⟨b1, b2, b3, b4⟩ := h2
  have e1 := key _ _ _ _ _ (div_pos hsx hnx) a1 a2 b1 b2
  have e2 := key _ _ _ _ _ (div_pos hsy hny) a3 a4 b3 b4
  exact hne (by rw [e1, e2])

/-- The tiling depends on the wall only through its per-axis minima and maxima and its flat
    coordinates: re-ordering the vertices of a rectangle (any of the 8 orderings) changes nothing. -/
theorem vertex_order_free (w w' : Quad ℝ) (p : ℝ)
    (hmin : ∀ a, a < 3 → minOver (fun v => w v a) 4 = minOver (fun v => w' v a) 4)
    (hmax : ∀ a, a < 3 → maxOver (fun v => w v a) 4 = maxOver (fun v => w' v a) 4) :
    (grid w p).map (fun g => (g.nx, g.ny, g.xIdx, g.yIdx, g.xMin, g.yMin, g.rx, g.ry)) =
      (grid w' p).map (fun g => (g.nx, g.ny, g.xIdx, g.yIdx, g.xMin, g.yMin, g.rx, g.ry)) := by
  have hext : ∀ a, a < 3 → extent w a = extent w' a := by
    intro a ha; unfold extent; rw [hmin a ha, hmax a ha]
  have hpn : ∀ a, a < 3 → patchNum w p a = patchNum w' p a := by
    intro a ha; unfold patchNum; rw [hext a ha]
  unfold grid
  simp only [hpn 0 (by norm_num), hpn 1 (by norm_num), hpn 2 (by norm_num)]
  rcases hpa : planeAxes (patchNum w' p 0) (patchNum w' p 1) (patchNum w' p 2) with _ | ⟨xi, yi⟩
  · rfl
  · have hlt : xi < 3 ∧ yi < 3 := by
      unfold planeAxes at hpa
      split_ifs at hpa <;> simp at hpa <;> omega
    simp only [Option.map_some, hmin xi hlt.1, hmin yi hlt.2, hext xi hlt.1, hext yi hlt.2]

theorem foldl_min_add (f : Nat → ℝ) (c : ℝ) (l : List Nat) (m : ℝ) :
    l.foldl (fun m k => if Cmp.lt (f k + c) m then f k + c else m) (m + c)
      = l.foldl (fun m k => if Cmp.lt (f k) m then f k else m) m + c := by
  induction l generalizing m with
  | nil => rfl
  | cons a l ih =>
    simp only [List.foldl_cons, cmp_lt_real, add_lt_add_iff_right]
    by_cases hlt : f a < m
    · simp only [hlt, decide_true, if_true]
      have := ih (f a)
      simpa only [cmp_lt_real] using this
    · simp only [hlt, decide_false, Bool.false_eq_true, if_false]
      have := ih m
      simpa only [cmp_lt_real] using this

theorem foldl_max_add (f : Nat → ℝ) (c : ℝ) (l : List Nat) (m : ℝ) :
    l.foldl (fun m k => if Cmp.lt m (f k + c) then f k + c else m) (m + c)
      = l.foldl (fun m k => if Cmp.lt m (f k) then f k else m) m + c := by
  induction l generalizing m with
  | nil => rfl
  | cons a l ih =>
    simp only [List.foldl_cons, cmp_lt_real, add_lt_add_iff_right]
    by_cases hlt : m < f a
    · simp only [hlt, decide_true, if_true]
      have := ih (f a)
      simpa only [cmp_lt_real] using this
    · simp only [hlt, decide_false, Bool.false_eq_true, if_false]
      have := ih m
      simpa only [cmp_lt_real] using this

theorem minOver_add (f : Nat → ℝ) (c : ℝ) (n : Nat) :
    minOver (fun k => f k + c) n = minOver f n + c := foldl_min_add f c _ _

theorem maxOver_add (f : Nat → ℝ) (c : ℝ) (n : Nat) :
    maxOver (fun k => f k + c) n = maxOver f n + c := foldl_max_add f c _ _

theorem extent_add (w : Quad ℝ) (t : Nat → ℝ) (a : Nat) :
    extent (fun v a => w v a + t a) a = extent w a := by
  unfold extent
  rw [minOver_add (fun v => w v a), maxOver_add (fun v => w v a)]
  ring

theorem patchNum_add (w : Quad ℝ) (t : Nat → ℝ) (p : ℝ) (a : Nat) :
    patchNum (fun v a => w v a + t a) p a = patchNum w p a := by
  unfold patchNum; rw [extent_add]

/-- Translation covariance: translating the wall by `t` translates every patch by `t`
    (same cell counts and sizes, anchor shifted). -/
theorem translation_covariant (w : Quad ℝ) (t : Nat → ℝ) (p : ℝ) (g : Grid ℝ) (hg : grid w p = some g) :
    ∃ g', grid (fun v a => w v a + t a) p = some g' ∧ g'.nx = g.nx ∧ g'.ny = g.ny ∧ g'.xIdx = g.xIdx ∧
      g'.yIdx = g.yIdx ∧ g'.rx = g.rx ∧ g'.ry = g.ry ∧
      ∀ ix iy v a, patchCoord (fun v a => w v a + t a) g' ix iy v a = patchCoord w g ix iy v a + t a := by
  unfold grid at hg ⊢
  simp only [patchNum_add, extent_add] at hg ⊢
  rcases hpa : planeAxes (patchNum w p 0) (patchNum w p 1) (patchNum w p 2) with _ | ⟨xi, yi⟩
  · rw [hpa] at hg; simp at hg
  · rw [hpa] at hg
    simp only [Option.some.injEq] at hg
    subst hg
    refine ⟨_, rfl, rfl, rfl, rfl, rfl, rfl, rfl, ?_⟩
    intro ix iy v a
    simp only [patchCoord, minOver_add (fun v => w v xi), minOver_add (fun v => w v yi)]
    by_cases hax : a = xi
    · subst hax
      simp only [if_true]
      ring
    · by_cases hay : a = yi
      · subst hay
        simp only [if_neg hax, if_true]
        ring
      · simp only [if_neg hax, if_neg hay]

theorem wallOfPatch_go (cs : List Nat) (acc w k : Nat) (hw : w < cs.length)
    (hlo : (cs.take w).sum ≤ k) (hhi : k < (cs.take (w + 1)).sum) :
    wallOfPatch.go cs acc k = acc + w := by
  induction cs generalizing acc w k with
  | nil => simp at hw
  | cons c rest ih =>
    cases w with
    | zero =>
      simp at hhi
      simp [wallOfPatch.go, hhi]
    | succ w =>
      simp [List.take_succ_cons] at hlo hhi hw
      have hc : ¬ k < c := by omega
      rw [wallOfPatch.go, if_neg hc, ih (acc + 1) w (k - c) hw (by omega) (by omega)]
      omega

/-- `_process_patches` attributes global patch index `k` to the wall whose index block
    `[Σ_{v<w} n_v, Σ_{v≤w} n_v)` contains it. -/
theorem wallOfPatch_block (counts : List Nat) (w k : Nat) (hw : w < counts.length)
    (hlo : (counts.take w).sum ≤ k) (hhi : k < (counts.take (w + 1)).sum) :
    wallOfPatch counts k = w := by
  unfold wallOfPatch
  rw [wallOfPatch_go counts 0 w k hw hlo hhi]; simp

end Sparrow
