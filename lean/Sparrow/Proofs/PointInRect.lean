import Sparrow.Proofs.VisibilityLemmas
import Mathlib.Tactic.IntervalCases
/-
  Correctness of the membership test `_point_in_polygon` (winding count of the `+x` ray in the
  rotated plane) for the polygons the radiosity engines actually hand to it in shoebox rooms:
  axis-parallel rectangles.  2-D: the count is non-zero EXACTLY on the half-open box
  `x0 ≤ x < x1`, `y0 - η/2 ≤ y ≤ y1 + η/2` — for either orientation and any starting corner.
  3-D: for a rectangle in a coordinate plane with normal `±e_k`, the test accepts every point of
  the slab that is strictly inside and rejects every point that is outside by more than `η`.
-/
namespace Sparrow
open Vec3

/-- corners of `[x0,x1] × [y0,y1]`, counter-clockwise from the lower left one -/
def rectCCW (x0 x1 y0 y1 : ℝ) (i : Nat) : Vec2 ℝ :=
  match i % 4 with
  | 0 => ⟨x0, y0⟩
  | 1 => ⟨x1, y0⟩
  | 2 => ⟨x1, y1⟩
  | _ => ⟨x0, y1⟩

/-- the winding count `_point_in_polygon` accumulates (its 2-D part) -/
noncomputable def windingCount (eta : ℝ) (pt : Vec2 ℝ) (poly : Nat → Vec2 ℝ) (n : Nat) : Int :=
  (List.range n).foldl (fun (acc : Int) i => acc + windingSide eta pt (poly i) (poly ((i + 1) % n))) 0

/-! ### helper lemmas: the sides of an axis-parallel rectangle -/

theorem pir_ray (pt : Vec2 ℝ) : Vec2.sub (Vec2.add pt ⟨1, 0⟩) pt = ⟨1, 0⟩ := by
  simp [Vec2.sub, Vec2.add]

theorem pir_norm_vert (X a b : ℝ) : Vec2.norm (Vec2.sub ⟨X, a⟩ ⟨X, b⟩) = |a - b| := by
  simp [Vec2.norm, Vec2.sub, Vec2.dot, Real.sqrt_mul_self_eq_abs]

/-- horizontal sides are parallel to the ray: no contribution -/
theorem pir_side_horiz (eta : ℝ) (h0 : 0 ≤ eta) (pt : Vec2 ℝ) (xa xb Y : ℝ) :
    windingSide eta pt ⟨xa, Y⟩ ⟨xb, Y⟩ = 0 := by
  unfold windingSide projectToLine2
  simp only [pir_ray]
  simp [Vec2.sub, Vec2.dot, not_lt.mpr h0]

theorem pir_ycond_up (eta y ya yb : ℝ) (h0 : 0 ≤ eta) (h : ya < yb) :
    |(|y - ya| + |y - yb| - |yb - ya|)| ≤ eta ↔ (ya - eta / 2 ≤ y ∧ y ≤ yb + eta / 2) := by
  rw [abs_of_pos (sub_pos.mpr h)]
  rcases abs_cases (y - ya) with ⟨e1, _⟩ | ⟨e1, _⟩ <;>
    rcases abs_cases (y - yb) with ⟨e2, _⟩ | ⟨e2, _⟩ <;>
    rw [e1, e2, abs_le] <;> constructor <;> intro hh <;> constructor <;> linarith [hh.1, hh.2]

theorem pir_ycond_down (eta y ya yb : ℝ) (h0 : 0 ≤ eta) (h : yb < ya) :
    |(|y - ya| + |y - yb| - |yb - ya|)| ≤ eta ↔ (yb - eta / 2 ≤ y ∧ y ≤ ya + eta / 2) := by
  rw [abs_of_neg (sub_neg.mpr h)]
  rcases abs_cases (y - ya) with ⟨e1, _⟩ | ⟨e1, _⟩ <;>
    rcases abs_cases (y - yb) with ⟨e2, _⟩ | ⟨e2, _⟩ <;>
    rw [e1, e2, abs_le] <;> constructor <;> intro hh <;> constructor <;> linarith [hh.1, hh.2]

theorem pir_proj_vert (eta : ℝ) (h1 : eta < 1) (pt : Vec2 ℝ) (X yb σ : ℝ) (hσ : σ = 1 ∨ σ = -1) :
    projectToLine2 eta pt (Vec2.add pt ⟨1, 0⟩) ⟨X, yb⟩ ⟨σ, 0⟩ = some ⟨X, pt.y⟩ := by
  have habs : |σ| = 1 := by rcases hσ with h | h <;> simp [h]
  have hne : σ ≠ 0 := by rcases hσ with h | h <;> simp [h]
  unfold projectToLine2
  simp only [pir_ray]
  have hdp : Vec2.dot (⟨1, 0⟩ : Vec2 ℝ) ⟨σ, 0⟩ = σ := by simp [Vec2.dot]
  rw [hdp]
  simp only [cmp_lt_real, cmp_abs_real, habs, h1, decide_true, if_true]
  congr 1
  simp only [Vec2.add, Vec2.sub, Vec2.smul, Vec2.dot]
  congr 1
  · field_simp
    ring
  · ring

/-- a vertical side counts `∓1` when the point is to its left and (within `η`) level with it -/
theorem pir_side_vert (eta : ℝ) (h1 : eta < 1) (pt : Vec2 ℝ) (X ya yb : ℝ) (hne : ya ≠ yb) :
    windingSide eta pt ⟨X, ya⟩ ⟨X, yb⟩ =
      if pt.x < X ∧ |(|pt.y - ya| + |pt.y - yb| - |yb - ya|)| ≤ eta then
        (if yb < ya then 1 else -1) else 0 := by
  have hnl : ∃ σ : ℝ, (σ = 1 ∨ σ = -1) ∧ (σ = 1 ↔ yb < ya) ∧
      (⟨-(Vec2.sub (⟨X, yb⟩ : Vec2 ℝ) ⟨X, ya⟩).y / |yb - ya|,
        (Vec2.sub (⟨X, yb⟩ : Vec2 ℝ) ⟨X, ya⟩).x / |yb - ya|⟩ : Vec2 ℝ) = ⟨σ, 0⟩ := by
    rcases lt_or_gt_of_ne hne with h | h
    · refine ⟨-1, Or.inr rfl, ?_, ?_⟩
      · constructor
        · intro h'; norm_num at h'
        · intro h'; linarith
      · have hp : 0 < yb - ya := sub_pos.mpr h
        simp only [Vec2.sub, abs_of_pos hp, sub_self, zero_div]
        congr 1
        field_simp
    · refine ⟨1, Or.inl rfl, ?_, ?_⟩
      · simp [h]
      · have hp : yb - ya < 0 := sub_neg.mpr h
        simp only [Vec2.sub, abs_of_neg hp, sub_self, zero_div]
        congr 1
        field_simp
  obtain ⟨σ, hσ, hsign, hnl⟩ := hnl
  unfold windingSide
  simp only [pir_norm_vert, hnl, pir_proj_vert eta h1 pt X yb σ hσ]
  have hd : Vec2.dot (Vec2.sub (⟨X, pt.y⟩ : Vec2 ℝ) pt) ⟨σ, 0⟩ = (X - pt.x) * σ := by
    simp [Vec2.dot, Vec2.sub]
  rw [hd]
  simp only [cmp_lt_real, cmp_le_real, cmp_abs_real, decide_eq_true_eq]
  by_cases hx : pt.x < X
  · by_cases hyc : |(|pt.y - ya| + |pt.y - yb| - |yb - ya|)| ≤ eta
    · have hpos : 0 < X - pt.x := sub_pos.mpr hx
      simp only [hx, hyc, and_self, if_true]
      rcases hσ with h | h
      · have h2 : yb < ya := hsign.mp h
        have h3 : 0 < (X - pt.x) * σ := by rw [h]; linarith
        simp only [h2, h3, if_true]
      · have h2 : ¬ yb < ya := fun h' => by
          have := hsign.mpr h'
          linarith
        have h3 : ¬ 0 < (X - pt.x) * σ := by rw [h]; linarith
        have h4 : (X - pt.x) * σ < 0 := by rw [h]; linarith
        simp only [h2, h3, h4, if_true, if_false]
    · simp only [hx, hyc, and_false, if_true, if_false]
  · simp only [hx, false_and, if_false]

theorem pir_side_up (eta : ℝ) (h0 : 0 ≤ eta) (h1 : eta < 1) (pt : Vec2 ℝ) (X y0 y1 : ℝ)
    (hy : y0 < y1) :
    windingSide eta pt ⟨X, y0⟩ ⟨X, y1⟩ =
      if pt.x < X ∧ (y0 - eta / 2 ≤ pt.y ∧ pt.y ≤ y1 + eta / 2) then -1 else 0 := by
  rw [pir_side_vert eta h1 pt X y0 y1 hy.ne]
  by_cases h : pt.x < X ∧ (y0 - eta / 2 ≤ pt.y ∧ pt.y ≤ y1 + eta / 2)
  · rw [if_pos h, if_pos ⟨h.1, (pir_ycond_up eta pt.y y0 y1 h0 hy).mpr h.2⟩,
      if_neg (not_lt.mpr hy.le)]
  · rw [if_neg h, if_neg (fun h' => h ⟨h'.1, (pir_ycond_up eta pt.y y0 y1 h0 hy).mp h'.2⟩)]

theorem pir_side_down (eta : ℝ) (h0 : 0 ≤ eta) (h1 : eta < 1) (pt : Vec2 ℝ) (X y0 y1 : ℝ)
    (hy : y0 < y1) :
    windingSide eta pt ⟨X, y1⟩ ⟨X, y0⟩ =
      if pt.x < X ∧ (y0 - eta / 2 ≤ pt.y ∧ pt.y ≤ y1 + eta / 2) then 1 else 0 := by
  rw [pir_side_vert eta h1 pt X y1 y0 hy.ne']
  by_cases h : pt.x < X ∧ (y0 - eta / 2 ≤ pt.y ∧ pt.y ≤ y1 + eta / 2)
  · rw [if_pos h, if_pos ⟨h.1, (pir_ycond_down eta pt.y y1 y0 h0 hy).mpr h.2⟩, if_pos hy]
  · rw [if_neg h, if_neg (fun h' => h ⟨h'.1, (pir_ycond_down eta pt.y y1 y0 h0 hy).mp h'.2⟩)]

theorem pir_sum_ccw (x0 x1 px : ℝ) (hx : x0 < x1) (Y : Prop) [Decidable Y] :
    ((if px < x1 ∧ Y then (-1 : Int) else 0) + (if px < x0 ∧ Y then 1 else 0) ≠ 0) ↔
      (x0 ≤ px ∧ px < x1 ∧ Y) := by
  by_cases hY : Y
  · by_cases ha : px < x0
    · have hb : px < x1 := lt_trans ha hx
      simp [hY, ha, hb]
    · by_cases hb : px < x1
      · simp [hY, ha, hb, not_lt.mp ha]
      · simp [hY, ha, hb]
  · simp [hY]

theorem pir_sum_cw (x0 x1 px : ℝ) (hx : x0 < x1) (Y : Prop) [Decidable Y] :
    ((if px < x1 ∧ Y then (1 : Int) else 0) + (if px < x0 ∧ Y then -1 else 0) ≠ 0) ↔
      (x0 ≤ px ∧ px < x1 ∧ Y) := by
  by_cases hY : Y
  · by_cases ha : px < x0
    · have hb : px < x1 := lt_trans ha hx
      simp [hY, ha, hb]
    · by_cases hb : px < x1
      · simp [hY, ha, hb, not_lt.mp ha]
      · simp [hY, ha, hb]
  · simp [hY]

theorem pir_rect_congr (x0 x1 y0 y1 : ℝ) {a b : Nat} (h : a % 4 = b % 4) :
    rectCCW x0 x1 y0 y1 a = rectCCW x0 x1 y0 y1 b := by
  unfold rectCCW
  rw [h]

theorem pir_count4 (eta : ℝ) (pt : Vec2 ℝ) (poly : Nat → Vec2 ℝ) :
    windingCount eta pt poly 4 =
      windingSide eta pt (poly 0) (poly 1) + windingSide eta pt (poly 1) (poly 2) +
        windingSide eta pt (poly 2) (poly 3) + windingSide eta pt (poly 3) (poly 0) := by
  simp [windingCount, List.range_succ]

theorem pir_r0 (x0 x1 y0 y1 : ℝ) {i : Nat} (h : i % 4 = 0) : rectCCW x0 x1 y0 y1 i = ⟨x0, y0⟩ := by
  simp only [rectCCW, h]
theorem pir_r1 (x0 x1 y0 y1 : ℝ) {i : Nat} (h : i % 4 = 1) : rectCCW x0 x1 y0 y1 i = ⟨x1, y0⟩ := by
  simp only [rectCCW, h]
theorem pir_r2 (x0 x1 y0 y1 : ℝ) {i : Nat} (h : i % 4 = 2) : rectCCW x0 x1 y0 y1 i = ⟨x1, y1⟩ := by
  simp only [rectCCW, h]
theorem pir_r3 (x0 x1 y0 y1 : ℝ) {i : Nat} (h : i % 4 = 3) : rectCCW x0 x1 y0 y1 i = ⟨x0, y1⟩ := by
  simp only [rectCCW, h]

/-- counter-clockwise rectangle, any starting corner `s` -/
theorem windingCount_rect_ccw (eta x0 x1 y0 y1 : ℝ) (h0 : 0 ≤ eta) (h1 : eta < 1)
    (hx : x0 < x1) (hy : y0 < y1) (pt : Vec2 ℝ) (s : Nat) :
    windingCount eta pt (fun i => rectCCW x0 x1 y0 y1 (s + i)) 4 ≠ 0 ↔
      (x0 ≤ pt.x ∧ pt.x < x1 ∧ y0 - eta / 2 ≤ pt.y ∧ pt.y ≤ y1 + eta / 2) := by
  rw [pir_count4]
  have hsum := pir_sum_ccw x0 x1 pt.x hx (y0 - eta / 2 ≤ pt.y ∧ pt.y ≤ y1 + eta / 2)
  have c : s % 4 = 0 ∨ s % 4 = 1 ∨ s % 4 = 2 ∨ s % 4 = 3 := by omega
  rcases c with c | c | c | c
  · rw [pir_r0 x0 x1 y0 y1 (i := s + 0) (by omega), pir_r1 x0 x1 y0 y1 (i := s + 1) (by omega),
      pir_r2 x0 x1 y0 y1 (i := s + 2) (by omega), pir_r3 x0 x1 y0 y1 (i := s + 3) (by omega),
      pir_side_horiz eta h0, pir_side_horiz eta h0, pir_side_up eta h0 h1 pt x1 y0 y1 hy,
      pir_side_down eta h0 h1 pt x0 y0 y1 hy, zero_add, add_zero]
    exact hsum
  · rw [pir_r1 x0 x1 y0 y1 (i := s + 0) (by omega), pir_r2 x0 x1 y0 y1 (i := s + 1) (by omega),
      pir_r3 x0 x1 y0 y1 (i := s + 2) (by omega), pir_r0 x0 x1 y0 y1 (i := s + 3) (by omega),
      pir_side_horiz eta h0, pir_side_horiz eta h0, pir_side_up eta h0 h1 pt x1 y0 y1 hy,
      pir_side_down eta h0 h1 pt x0 y0 y1 hy, add_zero, add_zero]
    exact hsum
  · rw [pir_r2 x0 x1 y0 y1 (i := s + 0) (by omega), pir_r3 x0 x1 y0 y1 (i := s + 1) (by omega),
      pir_r0 x0 x1 y0 y1 (i := s + 2) (by omega), pir_r1 x0 x1 y0 y1 (i := s + 3) (by omega),
      pir_side_horiz eta h0, pir_side_horiz eta h0, pir_side_up eta h0 h1 pt x1 y0 y1 hy,
      pir_side_down eta h0 h1 pt x0 y0 y1 hy, zero_add, add_zero, Int.add_comm]
    exact hsum
  · rw [pir_r3 x0 x1 y0 y1 (i := s + 0) (by omega), pir_r0 x0 x1 y0 y1 (i := s + 1) (by omega),
      pir_r1 x0 x1 y0 y1 (i := s + 2) (by omega), pir_r2 x0 x1 y0 y1 (i := s + 3) (by omega),
      pir_side_horiz eta h0, pir_side_horiz eta h0, pir_side_up eta h0 h1 pt x1 y0 y1 hy,
      pir_side_down eta h0 h1 pt x0 y0 y1 hy, add_zero, add_zero, Int.add_comm]
    exact hsum

/-- clockwise rectangle (`s + 3 i` walks the corners backwards), any starting corner -/
theorem windingCount_rect_cw (eta x0 x1 y0 y1 : ℝ) (h0 : 0 ≤ eta) (h1 : eta < 1)
    (hx : x0 < x1) (hy : y0 < y1) (pt : Vec2 ℝ) (s : Nat) :
    windingCount eta pt (fun i => rectCCW x0 x1 y0 y1 (s + 3 * i)) 4 ≠ 0 ↔
      (x0 ≤ pt.x ∧ pt.x < x1 ∧ y0 - eta / 2 ≤ pt.y ∧ pt.y ≤ y1 + eta / 2) := by
  rw [pir_count4]
  have hsum := pir_sum_cw x0 x1 pt.x hx (y0 - eta / 2 ≤ pt.y ∧ pt.y ≤ y1 + eta / 2)
  have c : s % 4 = 0 ∨ s % 4 = 1 ∨ s % 4 = 2 ∨ s % 4 = 3 := by omega
  rcases c with c | c | c | c
  · rw [pir_r0 x0 x1 y0 y1 (i := s + 3 * 0) (by omega), pir_r3 x0 x1 y0 y1 (i := s + 3 * 1) (by omega), pir_r2 x0 x1 y0 y1 (i := s + 3 * 2) (by omega), pir_r1 x0 x1 y0 y1 (i := s + 3 * 3) (by omega),
      pir_side_horiz eta h0, pir_side_horiz eta h0, pir_side_up eta h0 h1 pt x0 y0 y1 hy,
      pir_side_down eta h0 h1 pt x1 y0 y1 hy, add_zero, add_zero, Int.add_comm]
    exact hsum
  · rw [pir_r1 x0 x1 y0 y1 (i := s + 3 * 0) (by omega), pir_r0 x0 x1 y0 y1 (i := s + 3 * 1) (by omega), pir_r3 x0 x1 y0 y1 (i := s + 3 * 2) (by omega), pir_r2 x0 x1 y0 y1 (i := s + 3 * 3) (by omega),
      pir_side_horiz eta h0, pir_side_horiz eta h0, pir_side_up eta h0 h1 pt x0 y0 y1 hy,
      pir_side_down eta h0 h1 pt x1 y0 y1 hy, zero_add, add_zero, Int.add_comm]
    exact hsum
  · rw [pir_r2 x0 x1 y0 y1 (i := s + 3 * 0) (by omega), pir_r1 x0 x1 y0 y1 (i := s + 3 * 1) (by omega), pir_r0 x0 x1 y0 y1 (i := s + 3 * 2) (by omega), pir_r3 x0 x1 y0 y1 (i := s + 3 * 3) (by omega),
      pir_side_horiz eta h0, pir_side_horiz eta h0, pir_side_up eta h0 h1 pt x0 y0 y1 hy,
      pir_side_down eta h0 h1 pt x1 y0 y1 hy, add_zero, add_zero]
    exact hsum
  · rw [pir_r3 x0 x1 y0 y1 (i := s + 3 * 0) (by omega), pir_r2 x0 x1 y0 y1 (i := s + 3 * 1) (by omega), pir_r1 x0 x1 y0 y1 (i := s + 3 * 2) (by omega), pir_r0 x0 x1 y0 y1 (i := s + 3 * 3) (by omega),
      pir_side_horiz eta h0, pir_side_horiz eta h0, pir_side_up eta h0 h1 pt x0 y0 y1 hy,
      pir_side_down eta h0 h1 pt x1 y0 y1 hy, zero_add, add_zero]
    exact hsum

/-- coordinate `k` (0, 1, 2) of a vector -/
def coord (v : Vec3 ℝ) (k : Nat) : ℝ := if k = 0 then v.x else if k = 1 then v.y else v.z

/-- the vector with coordinate `k` equal to `c`, coordinate `k+1` equal to `u`, `k+2` equal to `v`
    (indices mod 3) -/
def mk3 (k : Nat) (c u v : ℝ) : Vec3 ℝ :=
  if k = 0 then ⟨c, u, v⟩ else if k = 1 then ⟨v, c, u⟩ else ⟨u, v, c⟩

/-- rectangle in the plane `coord k = c`, with `[u0,u1]` along axis `k+1` and `[v0,v1]` along axis
    `k+2`; `s` is the starting corner and `rev` the orientation -/
def rect3 (k : Nat) (c u0 u1 v0 v1 : ℝ) (s : Nat) (rev : Bool) (i : Nat) : Vec3 ℝ :=
  let q := rectCCW u0 u1 v0 v1 (if rev then s + 3 * i else s + i)
  mk3 k c q.x q.y

/-- unit normal `± e_k` -/
def axisNormal (k : Nat) (neg : Bool) : Vec3 ℝ :=
  let sg : ℝ := if neg then -1 else 1
  mk3 k sg 0 0

/-! ### helper lemmas: signed permutations of the two coordinates map rectangles to rectangles -/

theorem pir_T_id (u0 u1 v0 v1 : ℝ) (j : Nat) :
    (⟨(rectCCW u0 u1 v0 v1 j).x, (rectCCW u0 u1 v0 v1 j).y⟩ : Vec2 ℝ) =
      rectCCW u0 u1 v0 v1 (0 + j) := by
  rw [Nat.zero_add]

theorem pir_T_negx (u0 u1 v0 v1 : ℝ) (j : Nat) :
    (⟨-(rectCCW u0 u1 v0 v1 j).x, (rectCCW u0 u1 v0 v1 j).y⟩ : Vec2 ℝ) =
      rectCCW (-u1) (-u0) v0 v1 (1 + 3 * j) := by
  have hr : j % 4 < 4 := Nat.mod_lt _ (by norm_num)
  rw [pir_rect_congr u0 u1 v0 v1 (a := j) (b := j % 4) (by omega),
    pir_rect_congr (-u1) (-u0) v0 v1 (a := 1 + 3 * j) (b := 1 + 3 * (j % 4)) (by omega)]
  generalize j % 4 = r at hr
  interval_cases r <;> simp [rectCCW]

theorem pir_T_rot (u0 u1 v0 v1 : ℝ) (j : Nat) :
    (⟨-(rectCCW u0 u1 v0 v1 j).y, (rectCCW u0 u1 v0 v1 j).x⟩ : Vec2 ℝ) =
      rectCCW (-v1) (-v0) u0 u1 (1 + j) := by
  have hr : j % 4 < 4 := Nat.mod_lt _ (by norm_num)
  rw [pir_rect_congr u0 u1 v0 v1 (a := j) (b := j % 4) (by omega),
    pir_rect_congr (-v1) (-v0) u0 u1 (a := 1 + j) (b := 1 + (j % 4)) (by omega)]
  generalize j % 4 = r at hr
  interval_cases r <;> simp [rectCCW]

theorem pir_T_swap (u0 u1 v0 v1 : ℝ) (j : Nat) :
    (⟨(rectCCW u0 u1 v0 v1 j).y, (rectCCW u0 u1 v0 v1 j).x⟩ : Vec2 ℝ) =
      rectCCW v0 v1 u0 u1 (0 + 3 * j) := by
  have hr : j % 4 < 4 := Nat.mod_lt _ (by norm_num)
  rw [pir_rect_congr u0 u1 v0 v1 (a := j) (b := j % 4) (by omega),
    pir_rect_congr v0 v1 u0 u1 (a := 0 + 3 * j) (b := 0 + 3 * (j % 4)) (by omega)]
  generalize j % 4 = r at hr
  interval_cases r <;> simp [rectCCW]

theorem pir_T_rotm (u0 u1 v0 v1 : ℝ) (j : Nat) :
    (⟨(rectCCW u0 u1 v0 v1 j).y, -(rectCCW u0 u1 v0 v1 j).x⟩ : Vec2 ℝ) =
      rectCCW v0 v1 (-u1) (-u0) (3 + j) := by
  have hr : j % 4 < 4 := Nat.mod_lt _ (by norm_num)
  rw [pir_rect_congr u0 u1 v0 v1 (a := j) (b := j % 4) (by omega),
    pir_rect_congr v0 v1 (-u1) (-u0) (a := 3 + j) (b := 3 + (j % 4)) (by omega)]
  generalize j % 4 = r at hr
  interval_cases r <;> simp [rectCCW]

/-! ### helper lemmas: the six rotation matrices -/

theorem pir_rot_zpos : rotationToZ (⟨0, 0, 1⟩ : Vec3 ℝ) = Mat3.id := by
  rw [rotationToZ_eq, if_pos ⟨rfl, rfl, rfl⟩]

theorem pir_rot_zneg :
    rotationToZ (⟨0, 0, -1⟩ : Vec3 ℝ) = ⟨⟨-1, 0, 0⟩, ⟨0, 1, 0⟩, ⟨0, 0, -1⟩⟩ := by
  rw [rotationToZ_eq, if_neg (by norm_num), normalize_of_unit _ (by simp [dot])]
  have hc : dot (⟨0, 0, -1⟩ : Vec3 ℝ) ⟨0, 0, 1⟩ = -1 := by simp [dot]
  have hv : cross (⟨0, 0, -1⟩ : Vec3 ℝ) ⟨0, 0, 1⟩ = ⟨0, 0, 0⟩ := by simp [cross]
  have hs : norm (⟨0, 0, 0⟩ : Vec3 ℝ) = 0 := by simp [Vec3.norm, dot]
  rw [hc, hv, hs]
  unfold rotCore
  rw [if_neg, if_neg]
  · simp only [Bool.not_eq_true', Bool.not_eq_false]
    exact (feq_iff _ _).mpr rfl
  · simp only [Bool.and_eq_true, feq_iff, cmp_lt_real, decide_eq_true_eq]
    rintro ⟨_, h⟩
    linarith

theorem pir_rot_xpos :
    rotationToZ (⟨1, 0, 0⟩ : Vec3 ℝ) = ⟨⟨0, 0, -1⟩, ⟨0, 1, 0⟩, ⟨1, 0, 0⟩⟩ := by
  rw [rotationToZ_eq, if_neg (by norm_num), normalize_of_unit _ (by simp [dot])]
  have hc : dot (⟨1, 0, 0⟩ : Vec3 ℝ) ⟨0, 0, 1⟩ = 0 := by simp [dot]
  have hv : cross (⟨1, 0, 0⟩ : Vec3 ℝ) ⟨0, 0, 1⟩ = ⟨0, -1, 0⟩ := by simp [cross]
  have hs : norm (⟨0, -1, 0⟩ : Vec3 ℝ) = 1 := by simp [Vec3.norm, dot]
  rw [hc, hv, hs, rotCore_rod 1 0 0 1 (by norm_num) (by norm_num)]
  simp [rodF]

theorem pir_rot_xneg :
    rotationToZ (⟨-1, 0, 0⟩ : Vec3 ℝ) = ⟨⟨0, 0, 1⟩, ⟨0, 1, 0⟩, ⟨-1, 0, 0⟩⟩ := by
  rw [rotationToZ_eq, if_neg (by norm_num), normalize_of_unit _ (by simp [dot])]
  have hc : dot (⟨-1, 0, 0⟩ : Vec3 ℝ) ⟨0, 0, 1⟩ = 0 := by simp [dot]
  have hv : cross (⟨-1, 0, 0⟩ : Vec3 ℝ) ⟨0, 0, 1⟩ = ⟨0, -(-1), 0⟩ := by simp [cross]
  have hs : norm (⟨0, -(-1), 0⟩ : Vec3 ℝ) = 1 := by simp [Vec3.norm, dot]
  rw [hc, hv, hs, rotCore_rod (-1) 0 0 1 (by norm_num) (by norm_num)]
  simp [rodF]

theorem pir_rot_ypos :
    rotationToZ (⟨0, 1, 0⟩ : Vec3 ℝ) = ⟨⟨1, 0, 0⟩, ⟨0, 0, -1⟩, ⟨0, 1, 0⟩⟩ := by
  rw [rotationToZ_eq, if_neg (by norm_num), normalize_of_unit _ (by simp [dot])]
  have hc : dot (⟨0, 1, 0⟩ : Vec3 ℝ) ⟨0, 0, 1⟩ = 0 := by simp [dot]
  have hv : cross (⟨0, 1, 0⟩ : Vec3 ℝ) ⟨0, 0, 1⟩ = ⟨1, -0, 0⟩ := by simp [cross]
  have hs : norm (⟨1, -0, 0⟩ : Vec3 ℝ) = 1 := by simp [Vec3.norm, dot]
  rw [hc, hv, hs, rotCore_rod 0 1 0 1 (by norm_num) (by norm_num)]
  simp [rodF]

theorem pir_rot_yneg :
    rotationToZ (⟨0, -1, 0⟩ : Vec3 ℝ) = ⟨⟨1, 0, 0⟩, ⟨0, 0, 1⟩, ⟨0, -1, 0⟩⟩ := by
  rw [rotationToZ_eq, if_neg (by norm_num), normalize_of_unit _ (by simp [dot])]
  have hc : dot (⟨0, -1, 0⟩ : Vec3 ℝ) ⟨0, 0, 1⟩ = 0 := by simp [dot]
  have hv : cross (⟨0, -1, 0⟩ : Vec3 ℝ) ⟨0, 0, 1⟩ = ⟨-1, -0, 0⟩ := by simp [cross]
  have hs : norm (⟨-1, -0, 0⟩ : Vec3 ℝ) = 1 := by simp [Vec3.norm, dot]
  rw [hc, hv, hs, rotCore_rod 0 (-1) 0 1 (by norm_num) (by norm_num)]
  simp [rodF]

/-! ### helper lemmas: the 3-D test in terms of the 2-D count -/

/-- rotate with `M` and drop `z` -/
def pir_to2 (M : Mat3 ℝ) (q : Vec3 ℝ) : Vec2 ℝ := ⟨(M.mulVec q).x, (M.mulVec q).y⟩

theorem pir_pip_unfold (eta : ℝ) (p : Vec3 ℝ) (poly : Nat → Vec3 ℝ) (normal : Vec3 ℝ) :
    pointInPolygon eta p poly 4 normal =
      if eta < |dot (sub p (poly 0)) normal| then false
      else windingCount eta (pir_to2 (rotationToZ normal) p)
        (fun i => pir_to2 (rotationToZ normal) (poly i)) 4 != 0 := by
  unfold pointInPolygon windingCount pir_to2
  simp only [cmp_lt_real, cmp_abs_real, decide_eq_true_eq]

theorem pir_count_idx (eta x0 x1 y0 y1 : ℝ) (h0 : 0 ≤ eta) (h1 : eta < 1)
    (hx : x0 < x1) (hy : y0 < y1) (pt : Vec2 ℝ) (idx : Nat → Nat) (t : Nat)
    (hidx : (∀ i, idx i % 4 = (t + i) % 4) ∨ (∀ i, idx i % 4 = (t + 3 * i) % 4)) :
    windingCount eta pt (fun i => rectCCW x0 x1 y0 y1 (idx i)) 4 ≠ 0 ↔
      (x0 ≤ pt.x ∧ pt.x < x1 ∧ y0 - eta / 2 ≤ pt.y ∧ pt.y ≤ y1 + eta / 2) := by
  rcases hidx with h | h
  · have : (fun i => rectCCW x0 x1 y0 y1 (idx i)) = fun i => rectCCW x0 x1 y0 y1 (t + i) := by
      funext i
      exact pir_rect_congr x0 x1 y0 y1 (h i)
    rw [this]
    exact windingCount_rect_ccw eta x0 x1 y0 y1 h0 h1 hx hy pt t
  · have : (fun i => rectCCW x0 x1 y0 y1 (idx i)) = fun i => rectCCW x0 x1 y0 y1 (t + 3 * i) := by
      funext i
      exact pir_rect_congr x0 x1 y0 y1 (h i)
    rw [this]
    exact windingCount_rect_cw eta x0 x1 y0 y1 h0 h1 hx hy pt t

theorem pir_pip_iff (eta : ℝ) (h0 : 0 ≤ eta) (h1 : eta < 1) (p : Vec3 ℝ) (poly : Nat → Vec3 ℝ)
    (normal : Vec3 ℝ) (M : Mat3 ℝ) (hM : rotationToZ normal = M)
    (x0 x1 y0 y1 : ℝ) (hx : x0 < x1) (hy : y0 < y1) (idx : Nat → Nat) (t : Nat)
    (hidx : (∀ i, idx i % 4 = (t + i) % 4) ∨ (∀ i, idx i % 4 = (t + 3 * i) % 4))
    (himg : ∀ i, pir_to2 M (poly i) = rectCCW x0 x1 y0 y1 (idx i))
    (d : ℝ) (hd : |dot (sub p (poly 0)) normal| = |d|) :
    pointInPolygon eta p poly 4 normal = true ↔
      (|d| ≤ eta ∧ x0 ≤ (pir_to2 M p).x ∧ (pir_to2 M p).x < x1 ∧
        y0 - eta / 2 ≤ (pir_to2 M p).y ∧ (pir_to2 M p).y ≤ y1 + eta / 2) := by
  rw [pir_pip_unfold, hM, hd]
  have himg' : (fun i => pir_to2 M (poly i)) = fun i => rectCCW x0 x1 y0 y1 (idx i) :=
    funext himg
  rw [himg']
  have hc := pir_count_idx eta x0 x1 y0 y1 h0 h1 hx hy (pir_to2 M p) idx t hidx
  by_cases hs : eta < |d|
  · rw [if_pos hs]
    constructor
    · intro h; exact absurd h (by simp)
    · intro h; exact absurd h.1 (not_le.mpr hs)
  · rw [if_neg hs]
    simp only [bne_iff_ne]
    rw [hc]
    constructor
    · intro h; exact ⟨not_lt.mp hs, h⟩
    · intro h; exact h.2

theorem pir_dot_axis (k : Nat) (hk : k < 3) (neg : Bool) (p : Vec3 ℝ) (c a b : ℝ) :
    |dot (sub p (mk3 k c a b)) (axisNormal k neg)| = |coord p k - c| := by
  interval_cases k <;> cases neg <;> simp [mk3, axisNormal, coord, dot, sub, abs_sub_comm]

theorem pir_axis_iff (eta : ℝ) (h0 : 0 ≤ eta) (h1 : eta < 1) (k : Nat) (hk : k < 3) (neg : Bool)
    (c u0 u1 v0 v1 : ℝ) (s : Nat) (rev : Bool) (p : Vec3 ℝ)
    (M : Mat3 ℝ) (hM : rotationToZ (axisNormal k neg) = M)
    (x0 x1 y0 y1 : ℝ) (hx : x0 < x1) (hy : y0 < y1) (t : Nat) (flip : Bool)
    (hT : ∀ j, pir_to2 M (mk3 k c (rectCCW u0 u1 v0 v1 j).x (rectCCW u0 u1 v0 v1 j).y) =
      rectCCW x0 x1 y0 y1 (if flip then t + 3 * j else t + j)) :
    pointInPolygon eta p (rect3 k c u0 u1 v0 v1 s rev) 4 (axisNormal k neg) = true ↔
      (|coord p k - c| ≤ eta ∧ x0 ≤ (pir_to2 M p).x ∧ (pir_to2 M p).x < x1 ∧
        y0 - eta / 2 ≤ (pir_to2 M p).y ∧ (pir_to2 M p).y ≤ y1 + eta / 2) := by
  refine pir_pip_iff eta h0 h1 p _ _ M hM x0 x1 y0 y1 hx hy
    (fun i => if flip then t + 3 * (if rev then s + 3 * i else s + i)
      else t + (if rev then s + 3 * i else s + i))
    (if flip then t + 3 * s else t + s) ?_ ?_ (coord p k - c) ?_
  · cases flip <;> cases rev
    · left; intro i; simp only [Bool.false_eq_true, if_false]; omega
    · right; intro i; simp only [Bool.false_eq_true, if_false, if_true]; omega
    · right; intro i; simp only [Bool.false_eq_true, if_false, if_true]; omega
    · left; intro i; simp only [if_true]; omega
  · intro i
    simp only [rect3]
    exact hT _
  · simp only [rect3]
    exact pir_dot_axis k hk neg p c _ _

theorem pir_axis_both (eta : ℝ) (h0 : 0 ≤ eta) (h1 : eta < 1) (k : Nat) (hk : k < 3) (neg : Bool)
    (c u0 u1 v0 v1 : ℝ) (hu : u0 < u1) (hv : v0 < v1) (s : Nat) (rev : Bool) (p : Vec3 ℝ) :
    (|coord p k - c| ≤ eta → u0 < coord p ((k + 1) % 3) → coord p ((k + 1) % 3) < u1 →
      v0 < coord p ((k + 2) % 3) → coord p ((k + 2) % 3) < v1 →
      pointInPolygon eta p (rect3 k c u0 u1 v0 v1 s rev) 4 (axisNormal k neg) = true) ∧
    (pointInPolygon eta p (rect3 k c u0 u1 v0 v1 s rev) 4 (axisNormal k neg) = true →
      |coord p k - c| ≤ eta ∧ u0 - eta ≤ coord p ((k + 1) % 3) ∧ coord p ((k + 1) % 3) ≤ u1 + eta ∧
      v0 - eta ≤ coord p ((k + 2) % 3) ∧ coord p ((k + 2) % 3) ≤ v1 + eta) := by
  interval_cases k <;> cases neg
  · -- `+x`
    have H := pir_axis_iff eta h0 h1 0 (by norm_num) false c u0 u1 v0 v1 s rev p _ pir_rot_xpos
      (-v1) (-v0) u0 u1 (by linarith) hu 1 false
      (by intro j; simp only [Bool.false_eq_true, if_false]; rw [← pir_T_rot]
          simp [pir_to2, Mat3.mulVec, dot, mk3])
    simp [pir_to2, Mat3.mulVec, dot, coord] at H ⊢
    rw [H]
    constructor
    · intro a1 a2 a3 a4 a5
      exact ⟨a1, by linarith, by linarith, by linarith, by linarith⟩
    · rintro ⟨b1, b2, b3, b4, b5⟩
      exact ⟨b1, by linarith, by linarith, by linarith, by linarith⟩
  · -- `-x`
    have H := pir_axis_iff eta h0 h1 0 (by norm_num) true c u0 u1 v0 v1 s rev p _ pir_rot_xneg
      v0 v1 u0 u1 hv hu 0 true
      (by intro j; simp only [if_true]; rw [← pir_T_swap]
          simp [pir_to2, Mat3.mulVec, dot, mk3])
    simp [pir_to2, Mat3.mulVec, dot, coord] at H ⊢
    rw [H]
    constructor
    · intro a1 a2 a3 a4 a5
      exact ⟨a1, by linarith, by linarith, by linarith, by linarith⟩
    · rintro ⟨b1, b2, b3, b4, b5⟩
      exact ⟨b1, by linarith, by linarith, by linarith, by linarith⟩
  · -- `+y`
    have H := pir_axis_iff eta h0 h1 1 (by norm_num) false c u0 u1 v0 v1 s rev p _ pir_rot_ypos
      v0 v1 (-u1) (-u0) hv (by linarith) 3 false
      (by intro j; simp only [Bool.false_eq_true, if_false]; rw [← pir_T_rotm]
          simp [pir_to2, Mat3.mulVec, dot, mk3])
    simp [pir_to2, Mat3.mulVec, dot, coord] at H ⊢
    rw [H]
    constructor
    · intro a1 a2 a3 a4 a5
      exact ⟨a1, by linarith, by linarith, by linarith, by linarith⟩
    · rintro ⟨b1, b2, b3, b4, b5⟩
      exact ⟨b1, by linarith, by linarith, by linarith, by linarith⟩
  · -- `-y`
    have H := pir_axis_iff eta h0 h1 1 (by norm_num) true c u0 u1 v0 v1 s rev p _ pir_rot_yneg
      v0 v1 u0 u1 hv hu 0 true
      (by intro j; simp only [if_true]; rw [← pir_T_swap]
          simp [pir_to2, Mat3.mulVec, dot, mk3])
    simp [pir_to2, Mat3.mulVec, dot, coord] at H ⊢
    rw [H]
    constructor
    · intro a1 a2 a3 a4 a5
      exact ⟨a1, by linarith, by linarith, by linarith, by linarith⟩
    · rintro ⟨b1, b2, b3, b4, b5⟩
      exact ⟨b1, by linarith, by linarith, by linarith, by linarith⟩
  · -- `+z`
    have H := pir_axis_iff eta h0 h1 2 (by norm_num) false c u0 u1 v0 v1 s rev p _ pir_rot_zpos
      u0 u1 v0 v1 hu hv 0 false
      (by intro j; simp only [Bool.false_eq_true, if_false]; rw [← pir_T_id]
          simp [pir_to2, Mat3.mulVec, dot, mk3, Mat3.id])
    simp [pir_to2, Mat3.mulVec, dot, coord, Mat3.id] at H ⊢
    rw [H]
    constructor
    · intro a1 a2 a3 a4 a5
      exact ⟨a1, by linarith, by linarith, by linarith, by linarith⟩
    · rintro ⟨b1, b2, b3, b4, b5⟩
      exact ⟨b1, by linarith, by linarith, by linarith, by linarith⟩
  · -- `-z`
    have H := pir_axis_iff eta h0 h1 2 (by norm_num) true c u0 u1 v0 v1 s rev p _ pir_rot_zneg
      (-u1) (-u0) v0 v1 (by linarith) hv 1 true
      (by intro j; simp only [if_true]; rw [← pir_T_negx]
          simp [pir_to2, Mat3.mulVec, dot, mk3])
    simp [pir_to2, Mat3.mulVec, dot, coord] at H ⊢
    rw [H]
    constructor
    · intro a1 a2 a3 a4 a5
      exact ⟨a1, by linarith, by linarith, by linarith, by linarith⟩
    · rintro ⟨b1, b2, b3, b4, b5⟩
      exact ⟨b1, by linarith, by linarith, by linarith, by linarith⟩

/-- 3-D, accepted: points of the slab strictly inside the rectangle. -/
theorem pointInPolygon_axis_rect_inside (eta : ℝ) (h0 : 0 ≤ eta) (h1 : eta < 1)
    (k : Nat) (hk : k < 3) (neg : Bool) (c u0 u1 v0 v1 : ℝ) (hu : u0 < u1) (hv : v0 < v1)
    (s : Nat) (rev : Bool) (p : Vec3 ℝ)
    (hslab : |coord p k - c| ≤ eta)
    (hin : u0 < coord p ((k + 1) % 3) ∧ coord p ((k + 1) % 3) < u1 ∧
           v0 < coord p ((k + 2) % 3) ∧ coord p ((k + 2) % 3) < v1) :
    pointInPolygon eta p (rect3 k c u0 u1 v0 v1 s rev) 4 (axisNormal k neg) = true :=
  (pir_axis_both eta h0 h1 k hk neg c u0 u1 v0 v1 hu hv s rev p).1 hslab hin.1 hin.2.1 hin.2.2.1
    hin.2.2.2

/-- 3-D, rejected: points off the plane by more than `η`, or outside the rectangle by more than
    `η` along one of its axes. -/
theorem pointInPolygon_axis_rect_outside (eta : ℝ) (h0 : 0 ≤ eta) (h1 : eta < 1)
    (k : Nat) (hk : k < 3) (neg : Bool) (c u0 u1 v0 v1 : ℝ) (hu : u0 < u1) (hv : v0 < v1)
    (s : Nat) (rev : Bool) (p : Vec3 ℝ)
    (hout : eta < |coord p k - c| ∨
            coord p ((k + 1) % 3) < u0 - eta ∨ u1 + eta < coord p ((k + 1) % 3) ∨
            coord p ((k + 2) % 3) < v0 - eta ∨ v1 + eta < coord p ((k + 2) % 3)) :
    pointInPolygon eta p (rect3 k c u0 u1 v0 v1 s rev) 4 (axisNormal k neg) = false := by
  rw [Bool.eq_false_iff]
  intro h
  obtain ⟨b1, b2, b3, b4, b5⟩ :=
    (pir_axis_both eta h0 h1 k hk neg c u0 u1 v0 v1 hu hv s rev p).2 h
  rcases hout with h' | h' | h' | h' | h' <;> linarith

end Sparrow
