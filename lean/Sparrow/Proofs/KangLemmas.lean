import Sparrow.Model.Kang
import Sparrow.Proofs.Refinement
import Sparrow.Proofs.Mono
import Sparrow.Proofs.RealInst
import Mathlib.Algebra.BigOperators.Group.Finset.Basic
import Mathlib.Tactic.Ring
import Mathlib.Tactic.Linarith

namespace Sparrow
open Finset

theorem kang_mem_pairs (ks : KangScene ℝ) (i j : Nat) :
    (i, j) ∈ ks.pairs ↔ i < ks.P ∧ j < ks.P ∧ i < j ∧ ks.wall i ≠ ks.wall j := by
  unfold KangScene.pairs
  simp only [List.mem_flatMap, List.mem_map, List.mem_filter, List.mem_range, Bool.and_eq_true,
    decide_eq_true_eq, bne_iff_ne, Prod.mk.injEq]
  constructor
  · rintro ⟨a, ha, b, ⟨hb, hab, hw⟩, rfl, rfl⟩
    exact ⟨ha, hb, hab, hw⟩
  · rintro ⟨hi, hj, hij, hw⟩
    exact ⟨i, hi, j, ⟨hj, hij, hw⟩, rfl, rfl⟩

theorem mem_arcsOf (pairs : List (Nat × Nat)) (i j : Nat) :
    (i, j) ∈ arcsOf pairs ↔ (i, j) ∈ pairs ∨ (j, i) ∈ pairs := by
  unfold arcsOf
  simp only [List.mem_flatMap, List.mem_cons, Prod.mk.injEq, List.not_mem_nil, or_false]
  constructor
  · rintro ⟨⟨a, b⟩, hp, h | h⟩
    · obtain ⟨rfl, rfl⟩ := h; exact Or.inl hp
    · obtain ⟨rfl, rfl⟩ := h; exact Or.inr hp
  · rintro (h | h)
    · exact ⟨(i, j), h, Or.inl ⟨rfl, rfl⟩⟩
    · exact ⟨(j, i), h, Or.inr ⟨rfl, rfl⟩⟩

theorem kang_arcs_char (ks : KangScene ℝ) (i j : Nat) :
    (i, j) ∈ ks.toEx.arcs ↔ i < ks.P ∧ j < ks.P ∧ ks.wall i ≠ ks.wall j := by
  show (i, j) ∈ arcsOf ks.pairs ↔ _
  rw [mem_arcsOf, kang_mem_pairs, kang_mem_pairs]
  constructor
  · rintro (⟨h1, h2, _, h4⟩ | ⟨h1, h2, _, h4⟩)
    · exact ⟨h1, h2, h4⟩
    · exact ⟨h2, h1, fun h => h4 h.symm⟩
  · rintro ⟨h1, h2, h3⟩
    have hne : i ≠ j := fun h => h3 (by rw [h])
    rcases Nat.lt_or_gt_of_ne hne with h | h
    · exact Or.inl ⟨h1, h2, h, h3⟩
    · exact Or.inr ⟨h2, h1, h, fun h => h3 h.symm⟩

theorem kang_pairs_nodup (ks : KangScene ℝ) : ks.pairs.Nodup := by
  unfold KangScene.pairs
  rw [List.nodup_flatMap]
  constructor
  · intro i _
    apply List.Nodup.map
    · intro a b h; exact (Prod.mk.inj h).2
    · exact List.Nodup.filter _ List.nodup_range
  · apply List.Pairwise.imp _ (List.nodup_range (n := ks.P))
    intro a b hab
    simp only [Function.onFun, List.disjoint_left, List.mem_map, List.mem_filter]
    rintro ⟨x, y⟩ ⟨c, _, hc⟩ ⟨d, _, hd⟩
    exact hab ((Prod.mk.inj hc).1.trans (Prod.mk.inj hd).1.symm)

theorem arcsOf_nodup (pairs : List (Nat × Nat)) (hnd : pairs.Nodup) (hlt : ∀ p ∈ pairs, p.1 < p.2) :
    (arcsOf pairs).Nodup := by
  unfold arcsOf
  rw [List.nodup_flatMap]
  constructor
  · intro p hp
    have := hlt p hp
    simp only [List.nodup_cons, List.mem_cons, Prod.mk.injEq, List.not_mem_nil, or_false,
      not_false_eq_true, List.nodup_nil, and_true]
    omega
  · apply List.Pairwise.imp_of_mem _ hnd
    intro p q hp hq hpq
    have h1 := hlt p hp
    have h2 := hlt q hq
    obtain ⟨p1, p2⟩ := p
    obtain ⟨q1, q2⟩ := q
    simp only [Function.onFun, List.disjoint_left, List.mem_cons, List.not_mem_nil, or_false]
    rintro ⟨x, y⟩ (h | h) (h' | h') <;> simp only [Prod.mk.injEq] at h h' <;>
      obtain ⟨rfl, rfl⟩ := h <;> obtain ⟨h3, h4⟩ := h'
    · exact hpq (by rw [h3, h4])
    · simp only at h1 h2; omega
    · simp only at h1 h2; omega
    · exact hpq (by rw [h3, h4])

theorem kang_arcs_nodup (ks : KangScene ℝ) : ks.toEx.arcs.Nodup := by
  show (arcsOf ks.pairs).Nodup
  apply arcsOf_nodup _ (kang_pairs_nodup ks)
  rintro ⟨a, b⟩ hp
  exact ((kang_mem_pairs ks a b).mp hp).2.2.1

theorem kang_wf (ks : KangScene ℝ) : ks.toEx.WF := by
  rintro ⟨a, b⟩ h
  obtain ⟨h1, h2, _⟩ := (kang_arcs_char ks a b).mp h
  exact ⟨h1, h2, Nat.one_pos⟩

theorem sum_filter_snd (l : List (Nat × Nat)) (hnd : l.Nodup) (P : Nat) (h : ∀ a ∈ l, a.1 < P)
    (j : Nat) (g : Nat × Nat → ℝ) :
    ((l.filter fun a => a.2 == j).map g).sum = ∑ i ∈ range P, if (i, j) ∈ l then g (i, j) else 0 := by
  induction l with
  | nil => simp
  | cons a l ih =>
    obtain ⟨a1, a2⟩ := a
    obtain ⟨hnot, hnd'⟩ := List.nodup_cons.mp hnd
    have ha : a1 < P := h (a1, a2) (by simp)
    have ih' := ih hnd' (fun b hb => h b (by simp [hb]))
    by_cases hj : a2 = j
    · subst hj
      have : ∀ i, (if (i, a2) ∈ (a1, a2) :: l then g (i, a2) else 0) =
          (if a1 = i then g (a1, a2) else 0) + (if (i, a2) ∈ l then g (i, a2) else 0) := by
        intro i
        by_cases hi : a1 = i
        · subst hi; simp [hnot]
        · have : ¬ i = a1 := fun h => hi h.symm
          simp [hi, this]
      simp only [this, Finset.sum_add_distrib, Finset.sum_ite_eq, Finset.mem_range, ha, if_true]
      simp [ih']
    · have : ∀ i, (if (i, j) ∈ (a1, a2) :: l then g (i, j) else 0) =
          (if (i, j) ∈ l then g (i, j) else 0) := by
        intro i
        have : ¬ j = a2 := fun h => hj h.symm
        simp [this]
      simp only [this]
      simp [hj, ih']

theorem kang_order_recursion (ks : KangScene ℝ) (k j t : Nat) (hj : j < ks.P) (ht : t < ks.S) :
    orderH ks.toEx (k + 1) j 0 t =
      ∑ i ∈ range ks.P,
        if ks.wall i ≠ ks.wall j ∧ ks.bin i j ≤ t then
          ks.ff i j * ks.refl j * ks.attw i j * orderH ks.toEx k i 0 (t - ks.bin i j)
        else 0 := by
  have hcond : j < ks.toEx.P ∧ 0 < ks.toEx.D ∧ t < ks.toEx.S := ⟨hj, Nat.one_pos, ht⟩
  rw [orderH_succ, if_pos hcond, stepF_eq_sum,
    sum_filter_snd _ (kang_arcs_nodup ks) ks.P (fun a ha => ((kang_wf ks) a ha).1)]
  apply Finset.sum_congr rfl
  intro i hi
  have hi' := Finset.mem_range.mp hi
  have hiff := kang_arcs_char ks i j
  by_cases hw : ks.wall i ≠ ks.wall j
  · have hmem : (i, j) ∈ ks.toEx.arcs := hiff.mpr ⟨hi', hj, hw⟩
    rw [if_pos hmem]
    unfold term
    show (if ks.bin i j ≤ t then _ else _) = _
    by_cases hb : ks.bin i j ≤ t
    · rw [if_pos hb, if_pos ⟨hw, hb⟩]
      rfl
    · rw [if_neg hb, if_neg (fun h => hb h.2)]
  · have hmem : ¬ (i, j) ∈ ks.toEx.arcs := fun h => hw (hiff.mp h).2.2
    rw [if_neg hmem, if_neg (fun h => hw h.1)]

theorem kang_truncation (ks : KangScene ℝ) (S' : Nat) (hS : S' ≤ ks.S) (k j t : Nat)
    (hj : j < ks.P) (ht : t < S') :
    orderH ({ ks with S := S' } : KangScene ℝ).toEx k j 0 t = orderH ks.toEx k j 0 t := by
  have hwf := kang_wf ks
  have hwf' := kang_wf ({ ks with S := S' } : KangScene ℝ)
  have e : ({ ks with S := S' } : KangScene ℝ).toEx = { ks.toEx with S := S' } := rfl
  rw [orderH_eq_coeff _ hwf' k j 0 t hj Nat.one_pos ht,
    orderH_eq_coeff _ hwf k j 0 t hj Nat.one_pos (Nat.lt_of_lt_of_le ht hS), e, specOrder_congr_S]

theorem foldl_add_eq_sum {β : Type} (l : List β) (f : β → ℝ) (acc : ℝ) :
    l.foldl (fun acc k => acc + f k) acc = acc + (l.map f).sum := by
  induction l generalizing acc with
  | nil => simp
  | cons a l ih => simp only [List.foldl_cons, List.map_cons, List.sum_cons, ih]; ring

theorem kang_monotone_in_k (ks : KangScene ℝ) (he : ∀ j, 0 ≤ ks.e0 j)
    (hf : ∀ i j, 0 ≤ ks.ff i j * ks.refl j * ks.attw i j) (binR : Nat → Nat) (factor : Nat → ℝ)
    (hfac : ∀ j, 0 ≤ factor j) (K t : Nat) :
    kangReceiver ks.toEx K binR factor t ≤ kangReceiver ks.toEx (K + 1) binR factor t := by
  have hnn : ∀ k j d t, 0 ≤ orderH ks.toEx k j d t :=
    orderH_nonneg ks.toEx (fun j _ => he j) (fun i j _ => hf i j)
  unfold kangReceiver kangReceiverOf monoF
  rw [foldl_add_eq_sum, foldl_add_eq_sum, zero_add, zero_add]
  apply List.sum_le_sum
  intro j _
  unfold collectF
  split
  · apply mul_le_mul_of_nonneg_right _ (hfac j)
    dsimp only
    rw [foldl_add_eq_sum, foldl_add_eq_sum, List.range_succ (n := K + 1), List.map_append,
      List.sum_append]
    have := hnn (K + 1) j 0 (t - binR j)
    simp only [List.map_cons, List.map_nil, List.sum_cons, List.sum_nil]
    linarith
  · exact le_rfl

/-! ### placement invariance of the analytic kernels -/

def Vec3.tr (v t : Vec3 ℝ) : Vec3 ℝ := Vec3.add v t

/-- cyclic permutation of the axes x → y → z → x: the old x coordinate becomes the new y … -/
def Vec3.cyc (v : Vec3 ℝ) : Vec3 ℝ := ⟨v.z, v.x, v.y⟩

theorem Vec3.get_tr (v t : Vec3 ℝ) (i : Nat) : (v.tr t).get i = v.get i + t.get i := by
  unfold Vec3.tr Vec3.add Vec3.get
  split_ifs <;> rfl

theorem kangFFOrth_translation (sc rc ns nr t : Vec3 ℝ) (dd thr5 thr12 : ℝ) :
    kangFFOrth (sc.tr t) (rc.tr t) ns nr dd thr5 thr12 = kangFFOrth sc rc ns nr dd thr5 thr12 := by
  have h1 : ∀ a, (sc.tr t).get a - (rc.tr t).get a = sc.get a - rc.get a := by
    intro a; rw [Vec3.get_tr, Vec3.get_tr]; ring
  have h2 : ∀ a c, (sc.tr t).get a - c - (rc.tr t).get a = sc.get a - c - rc.get a := by
    intro a c; rw [Vec3.get_tr, Vec3.get_tr]; ring
  have h3 : ∀ a c, (sc.tr t).get a + c - (rc.tr t).get a = sc.get a + c - rc.get a := by
    intro a c; rw [Vec3.get_tr, Vec3.get_tr]; ring
  unfold kangFFOrth
  simp only [h1, h2, h3]

theorem kangFFPar_translation (sc rc wd t : Vec3 ℝ) (dd thr5 : ℝ) :
    kangFFPar (sc.tr t) (rc.tr t) wd dd thr5 = kangFFPar sc rc wd dd thr5 := by
  have h1 : ∀ a, (rc.tr t).get a - (sc.tr t).get a = rc.get a - sc.get a := by
    intro a; rw [Vec3.get_tr, Vec3.get_tr]; ring
  unfold kangFFPar
  simp only [h1]

theorem kangInit_shift (dl dm dn ddl ddm sx sy sz power alpha dist att thr11 a b : ℝ) :
    kangInit (dl + a) (dm + b) dn ddl ddm (sx + a) (sy + b) sz power alpha dist att thr11 =
      kangInit dl dm dn ddl ddm sx sy sz power alpha dist att thr11 := by
  have e1 : ∀ c, dl + a + c - (sx + a) = dl + c - sx := by intro c; ring
  have e2 : ∀ c, dl + a - c - (sx + a) = dl - c - sx := by intro c; ring
  have e3 : ∀ c, dm + b + c - (sy + b) = dm + c - sy := by intro c; ring
  have e4 : ∀ c, dm + b - c - (sy + b) = dm - c - sy := by intro c; ring
  have e5 : dm + b - (sy + b) = dm - sy := by ring
  have c1 : ∀ c, Cmp.le (dl + a - c) (sx + a) = Cmp.le (dl - c) sx := by
    intro c; simp only [cmp_le_real, decide_eq_decide]; constructor <;> intro h <;> linarith
  have c2 : ∀ c, Cmp.le (sx + a) (dl + a + c) = Cmp.le sx (dl + c) := by
    intro c; simp only [cmp_le_real, decide_eq_decide]; constructor <;> intro h <;> linarith
  have c3 : ∀ c, Cmp.le (dm + b - c) (sy + b) = Cmp.le (dm - c) sy := by
    intro c; simp only [cmp_le_real, decide_eq_decide]; constructor <;> intro h <;> linarith
  have c4 : ∀ c, Cmp.le (sy + b) (dm + b + c) = Cmp.le sy (dm + c) := by
    intro c; simp only [cmp_le_real, decide_eq_decide]; constructor <;> intro h <;> linarith
  unfold kangInit
  simp only [e1, e2, e3, e4, e5, c1, c2, c3, c4]

theorem kangInitPatch_translation (normal center size src t : Vec3 ℝ) (power alpha att thr99 thr11 : ℝ) :
    kangInitPatch normal (center.tr t) size (src.tr t) power alpha att thr99 thr11 =
      kangInitPatch normal center size src power alpha att thr99 thr11 := by
  have hi : normalAxisFrom2 normal thr99 = 0 ∨ normalAxisFrom2 normal thr99 = 1 ∨
      normalAxisFrom2 normal thr99 = 2 := by
    unfold normalAxisFrom2; split_ifs <;> simp
  have hd : Vec3.sub (center.tr t) (src.tr t) = Vec3.sub center src := by
    simp [Vec3.sub, Vec3.tr, Vec3.add]
  unfold kangInitPatch
  rw [hd]
  rcases hi with hi | hi | hi <;> rw [hi] <;>
    simp [kangInitAxes, Vec3.get_tr, kangInit_shift]

/-- an axis-aligned unit-like vector: exactly one component exceeds `thr` in absolute value -/
def AxisAligned (n : Vec3 ℝ) (thr : ℝ) : Prop :=
  (thr < |n.x| ∧ ¬ thr < |n.y| ∧ ¬ thr < |n.z|) ∨ (¬ thr < |n.x| ∧ thr < |n.y| ∧ ¬ thr < |n.z|) ∨
    (¬ thr < |n.x| ∧ ¬ thr < |n.y| ∧ thr < |n.z|)

theorem normalAxis_cyc_cases (n : Vec3 ℝ) (thr : ℝ) (h : AxisAligned n thr) :
    (normalAxis n thr = 0 ∧ normalAxis n.cyc thr = 1) ∨
    (normalAxis n thr = 1 ∧ normalAxis n.cyc thr = 2) ∨
    (normalAxis n thr = 2 ∧ normalAxis n.cyc thr = 0) := by
  rcases h with ⟨h1, h2, h3⟩ | ⟨h1, h2, h3⟩ | ⟨h1, h2, h3⟩ <;>
    simp [normalAxis, Vec3.cyc, h1, h2, h3]

theorem normalAxisFrom2_cyc_cases (n : Vec3 ℝ) (thr : ℝ) (h : AxisAligned n thr) :
    (normalAxisFrom2 n thr = 0 ∧ normalAxisFrom2 n.cyc thr = 1) ∨
    (normalAxisFrom2 n thr = 1 ∧ normalAxisFrom2 n.cyc thr = 2) ∨
    (normalAxisFrom2 n thr = 2 ∧ normalAxisFrom2 n.cyc thr = 0) := by
  rcases h with ⟨h1, h2, h3⟩ | ⟨h1, h2, h3⟩ | ⟨h1, h2, h3⟩ <;>
    simp [normalAxisFrom2, Vec3.cyc, h1, h2, h3]

theorem kangFFOrth_cyclic (sc rc ns nr : Vec3 ℝ) (dd thr5 thr12 : ℝ)
    (hs : AxisAligned ns thr5) (hr : AxisAligned nr thr5)
    (hdiff : normalAxis ns thr5 ≠ normalAxis nr thr5) :
    kangFFOrth sc.cyc rc.cyc ns.cyc nr.cyc dd thr5 thr12 = kangFFOrth sc rc ns nr dd thr5 thr12 := by
  unfold kangFFOrth
  rcases normalAxis_cyc_cases ns thr5 hs with ⟨a1, a2⟩ | ⟨a1, a2⟩ | ⟨a1, a2⟩ <;>
    rcases normalAxis_cyc_cases nr thr5 hr with ⟨b1, b2⟩ | ⟨b1, b2⟩ | ⟨b1, b2⟩ <;>
    first
    | (exfalso; rw [a1, b1] at hdiff; exact hdiff rfl)
    | (rw [a1, a2, b1, b2]; simp [thirdAxis, Vec3.get, Vec3.cyc])

/-- parallel walls: the wall centres differ along exactly one axis (the common normal) -/
theorem kangFFPar_cyclic (sc rc wd : Vec3 ℝ) (dd thr5 : ℝ)
    (hw : (thr5 < wd.x ∧ ¬ thr5 < wd.y ∧ ¬ thr5 < wd.z) ∨ (¬ thr5 < wd.x ∧ thr5 < wd.y ∧ ¬ thr5 < wd.z) ∨
      (¬ thr5 < wd.x ∧ ¬ thr5 < wd.y ∧ thr5 < wd.z)) :
    kangFFPar sc.cyc rc.cyc wd.cyc dd thr5 = kangFFPar sc rc wd dd thr5 := by
  unfold kangFFPar
  rcases hw with ⟨h1, h2, h3⟩ | ⟨h1, h2, h3⟩ | ⟨h1, h2, h3⟩ <;>
  · simp only [Vec3.cyc, cmp_lt_real, h1, h2, h3, decide_true, decide_false, if_true,
      Bool.false_eq_true, if_false, Option.map_some, Vec3.get]
    simp only [if_false, OfNat.ofNat_ne_zero, OfNat.ofNat_ne_one,
      one_ne_zero, transc_sqrt_real, transc_pi_real]
    try ring_nf

theorem kangInitPatch_cyclic (normal center size src : Vec3 ℝ) (power alpha att thr99 thr11 : ℝ)
    (hn : AxisAligned normal thr99) :
    kangInitPatch normal.cyc center.cyc size.cyc src.cyc power alpha att thr99 thr11 =
      kangInitPatch normal center size src power alpha att thr99 thr11 := by
  have hd : Vec3.norm (Vec3.sub center.cyc src.cyc) = Vec3.norm (Vec3.sub center src) := by
    simp only [Vec3.norm, Vec3.dot, Vec3.sub, Vec3.cyc]
    congr 1
    ring
  unfold kangInitPatch
  rw [hd]
  rcases normalAxisFrom2_cyc_cases normal thr99 hn with ⟨a1, a2⟩ | ⟨a1, a2⟩ | ⟨a1, a2⟩ <;>
  · rw [a1, a2]
    simp [kangInitAxes, Vec3.get, Vec3.cyc]

end Sparrow
