import Sparrow.Proofs.GlueEquiv
import Sparrow.Proofs.MonoGlueEquiv
import Sparrow.Proofs.Batch2
/-
  The tail of the fast engine as TRANSLATED text — `_collect_energy_patches` (with its kernels) followed by the sum of
  `collect_energy_receiver_mono` — is the model's mono curve `monoF ∘ patchwiseCodeF` of the stored histogram, with the
  receiver data (`g`: visibility gate × point factor, `w`: attenuation, `binR`: delay, `ridx`: direction slot) read off
  the receiver's position.  With it, theorems about `monoCurveCode` (reciprocity C09, …) are theorems about that text.
-/
namespace Sparrow
open Sparrow.Generated.Glue Sparrow.Generated.MonoGlue

theorem translated_mono_eq
    (vis : (Nat → ℝ) → (Nat → Nat → ℝ) → (Nat → Nat → ℝ) → (Nat → Nat → Nat → ℝ) → Nat → Bool)
    (pt : (Nat → ℝ) → (Nat → Nat → ℝ) → ℝ) (R P B S W D : Nat) (rpos : Nat → Nat → ℝ) (att : Nat → ℝ)
    (pp : Nat → Nat → Nat → ℝ) (pc : Nat → Nat → ℝ) (etcA : Nat → Nat → Nat → Nat → ℝ)
    (wp : Nat → Nat → Nat → ℝ) (wn : Nat → Nat → ℝ) (dirs : Nat → Nat → Nat → ℝ) (wall : Nat → Nat)
    (c dt : ℝ) (s0 s1 s2 s3 s4 s5 s6 s7 s8 s9 s10 s11 : Nat)
    (j1 : Nat → Nat → Nat → ℝ) (j2 : Nat → Nat → Nat → ℝ) (j3 : Nat → Nat → Nat → Nat → ℝ) (j4 : Nat → Nat → Bool)
    (Bn : Nat) (r : Nat → ℝ) (rc : Nat → Nat → ℝ) (B' : Nat) (att' : Option (Nat → ℝ))
    (gd : Option ((Nat → Nat → ℝ) → ℝ → Nat → ℝ)) (freq : Nat → ℝ) (c' dt' : ℝ)
    (i b t : Nat) (hi : i < R) (hb : b < B) :
    collectEnergyReceiverMono
        (collectEnergyPatches vis pt R 3 rpos s0 att P s1 s2 pp P 3 pc s3 s4 s5 S etcA s6 s7 s8 wp s9 s10 wn W D 3 dirs s11 wall
          P B c dt true j1 j2 j3 j4)
        R P Bn S false r rc B' att' gd freq c' dt' i b t =
      monoF P (patchwiseCodeF S (fun k d t => etcA k d b t)
        (fun k => nearest (fun q => ⟨dirs (wall k) q 0, dirs (wall k) q 1, dirs (wall k) q 2⟩) D
          (Vec3.normalize (Vec3.sub ⟨rpos i 0, rpos i 1, rpos i 2⟩ ⟨pc k 0, pc k 1, pc k 2⟩)))
        (fun k => if vis (fun q => rpos i q) pc wn wp k then pt (fun q => rpos i q) (fun v q => pp k v q) else 0)
        (fun k => ToBin.ceilNat (Vec3.norm (Vec3.sub ⟨pc k 0, pc k 1, pc k 2⟩ ⟨rpos i 0, rpos i 1, rpos i 2⟩) / c / dt))
        (fun k => Real.exp (-(att b) * Vec3.norm (Vec3.sub ⟨pc k 0, pc k 1, pc k 2⟩ ⟨rpos i 0, rpos i 1, rpos i 2⟩)))) t := by
  rw [collectEnergyReceiverMono_additive]
  unfold monoF
  rw [mg_sumFold]
  apply Finset.sum_congr rfl
  intro p hp
  have hp' : p < P := Finset.mem_range.mp hp
  rw [collectEnergyPatches_eq vis pt R P B S W D rpos att pp pc etcA wp wn dirs wall c dt true s0 s1 s2 s3 s4 s5 s6 s7 s8 s9 s10 s11
    j1 j2 j3 j4 i p b t hi hp' hb]
  unfold glueRow patchwiseCodeF glueE
  simp

end Sparrow
