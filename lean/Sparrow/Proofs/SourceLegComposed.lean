import Sparrow.Proofs.LegKernelEquiv
import Sparrow.Proofs.PolygonFnEquiv
import Sparrow.Proofs.PointFactorEquiv
/-
  THE SOURCE LEG COMPOSED FROM REGENERATED TEXT ONLY (C04): `_source2patch_energy_universal` (Generated/LegKernels.lean) with its two
  opaque parameters instantiated by the regenerated point-to-patch factor (`pt_solution`, mode "source": Generated/PointFactor.lean)
  and the regenerated point-to-patches line-of-sight scan over the walls (Generated/VisibilityFn.lean + Generated/PolygonFn.lean).
-/
namespace Sparrow
open Sparrow.Generated.LegKernels Sparrow.Generated.PointFactor Sparrow.Generated.VisibilityFn Sparrow.Generated.PolygonFn

/-- the regenerated scan "is patch `j` in line of sight of the source" over `nS` walls with `nvw` vertices each -/
noncomputable def srcVisT (thr eta : ℝ) (src : Nat → ℝ) (pc : Nat → Nat → ℝ) (wp : Nat → Nat → Nat → ℝ) (nvw : Nat)
    (wn : Nat → Nat → ℝ) (nS : Nat) : Nat → Bool :=
  fun j => checkPoint2PatchVisibility (fun a b s => basicVisibilityT thr (fun x => pointInPolygonT thr x (fun k q => wp s k q) nvw
      (fun q => wn s q) eta eta) a b (fun k q => wp s k q) nvw (fun q => wn s q) eta eta) src pc nS j

theorem srcVisT_eq (thr eta : ℝ) (src : Nat → ℝ) (pc : Nat → Nat → ℝ) (wp : Nat → Nat → Nat → ℝ) (nvw : Nat)
    (wn : Nat → Nat → ℝ) (nS j : Nat) :
    srcVisT thr eta src pc wp nvw wn nS j =
      visibleThroughAll eta (Vec3.ofFn src) (Vec3.ofFn (fun q => pc j q)) nS
        (fun s => ptsOf (fun k q => wp s k q)) nvw (fun s => Vec3.ofFn (fun q => wn s q)) := by
  unfold srcVisT
  exact checkPoint2PatchVisibility_full_eq thr eta src pc wp nvw wn nS j

/-- **a patch hidden from the source (or seen from behind, or coplanar) receives exactly zero** — the composed regenerated text,
    every scene, every band, with or without attenuation -/
theorem source2patch_composed_hidden_zero (thr eta : ℝ) (P B nvp : Nat) (src : Nat → ℝ) (pc : Nat → Nat → ℝ)
    (pp : Nat → Nat → Nat → ℝ) (wp : Nat → Nat → Nat → ℝ) (nvw : Nat) (wn : Nat → Nat → ℝ) (nS : Nat) (att : Option (Nat → ℝ))
    (s0 s1 s2 s3 s4 : Nat) (j b : Nat) (hj : j < P)
    (hv : visibleThroughAll eta (Vec3.ofFn src) (Vec3.ofFn (fun q => pc j q)) nS
        (fun s => ptsOf (fun k q => wp s k q)) nvw (fun s => Vec3.ofFn (fun q => wn s q)) = false) :
    (source2patchEnergyUniversal (fun x pts => ptSolutionSource thr x pts nvp) 3 src P 3 pc s0 s1 s2 pp s3
        (srcVisT thr eta src pc wp nvw wn nS) s4 att B).1 j b = 0 := by
  have h := source2patch_hidden_zero (fun x pts => ptSolutionSource thr x pts nvp) P B src pc pp
    (srcVisT thr eta src pc wp nvw wn nS) att s0 s1 s2 s3 s4 j b hj (by rw [srcVisT_eq]; exact hv)
  exact h.1

/-- **a visible patch receives the solid-angle share of the model (`ptSource`), times `exp(-m d)` if there is attenuation** -/
theorem source2patch_composed_visible (thr eta : ℝ) (P B nvp : Nat) (src : Nat → ℝ) (pc : Nat → Nat → ℝ)
    (pp : Nat → Nat → Nat → ℝ) (wp : Nat → Nat → Nat → ℝ) (nvw : Nat) (wn : Nat → Nat → ℝ) (nS : Nat) (att : Option (Nat → ℝ))
    (s0 s1 s2 s3 s4 : Nat) (j b : Nat) (hj : j < P)
    (hv : visibleThroughAll eta (Vec3.ofFn src) (Vec3.ofFn (fun q => pc j q)) nS
        (fun s => ptsOf (fun k q => wp s k q)) nvw (fun s => Vec3.ofFn (fun q => wn s q)) = true) :
    (source2patchEnergyUniversal (fun x pts => ptSolutionSource thr x pts nvp) 3 src P 3 pc s0 s1 s2 pp s3
        (srcVisT thr eta src pc wp nvw wn nS) s4 att B).1 j b =
      sourceEnergy true (Vec3.norm (Vec3.sub ⟨src 0, src 1, src 2⟩ ⟨pc j 0, pc j 1, pc j 2⟩)) (att.map fun a => a b)
        (ptSource thr (Vec3.ofFn src) (ptsOf (fun v q => pp j v q)) nvp) := by
  rw [source2patchEnergy_eq (fun x pts => ptSolutionSource thr x pts nvp) P B src pc pp
    (srcVisT thr eta src pc wp nvw wn nS) att s0 s1 s2 s3 s4 j b hj, srcVisT_eq, hv, ptSolutionSource_eq]

end Sparrow
