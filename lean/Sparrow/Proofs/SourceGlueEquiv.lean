import Sparrow.Generated.SourceGlue
import Sparrow.Proofs.BakeKernelEquiv
import Sparrow.Proofs.LegKernelEquiv
/-
  `DirectionalRadiosityFast.init_source_energy`, TRANSLATED from the Python source on every run
  (`Generated/SourceGlue.lean`; object with materials and attenuation installed).  What it stores:
  the visibility vector of the source, the source–centre distances (0 for hidden patches), and per patch,
  outgoing direction and band: solid-angle factor × `exp(-m_b d)` × the table of the patch's wall at the
  incoming sample nearest to the direction towards the source × the source's directivity towards the patch
  (the same for every outgoing direction) — exactly 0 for a patch the source does not see.
-/
namespace Sparrow
open Sparrow.Generated.SourceGlue Sparrow.Generated.BakeKernels Sparrow.Generated.LegKernels

/-- the directivity factor the method multiplies with -/
noncomputable def glueDirFactor (isSS : Bool) (g : Option ((Nat → Nat → ℝ) → ℝ → Nat → ℝ)) (pc : Nat → Nat → ℝ)
    (freq : Nat → ℝ) (p b : Nat) : ℝ :=
  if isSS then (match g with | some g => g pc (freq b) p | none => 1) else 1

/-- the directivity table built by the frequency loop -/
theorem glue_dirFold (B : Nat) (g : Nat → Nat → ℝ) (nd : Nat) (p d b : Nat) (hb : b < B) :
    ((List.range B).foldl (fun (st_ : Nat → Nat → Nat → ℝ) i =>
      if nd = 1 then fun p0 p1 p2 => if p2 = i then g i p0 else st_ p0 p1 p2
      else fun p0 p1 p2 => if p2 = i then g i p0 else st_ p0 p1 p2) (fun _ _ _ => 0)) p d b = g b p := by
  refine be_foldl_cell _ (fun (st : Nat → Nat → Nat → ℝ) => st p d b) _ B b hb ?_ _ ?_
  · intro ii _ hne st
    by_cases h : nd = 1 <;> simp [h, Ne.symm hne]
  · intro st _
    by_cases h : nd = 1 <;> simp [h]

theorem initSourceEnergy_visibility
    (vis : (Nat → ℝ) → (Nat → Nat → ℝ) → (Nat → Nat → ℝ) → (Nat → Nat → Nat → ℝ) → Nat → Bool)
    (pt : (Nat → ℝ) → (Nat → Nat → ℝ) → ℝ) (isSS : Bool) (g : Option ((Nat → Nat → ℝ) → ℝ → Nat → ℝ))
    (P B W T nIn D : Nat) (src : Nat → ℝ) (wall : Nat → Nat) (dirsIn dirsOut : Nat → Nat → Nat → ℝ)
    (brdf : Nat → Nat → Nat → Nat → ℝ) (bidx : Nat → Nat) (pc : Nat → Nat → ℝ) (wp : Nat → Nat → Nat → ℝ)
    (wn : Nat → Nat → ℝ) (pp : Nat → Nat → Nat → ℝ) (att freq : Nat → ℝ)
    (s0 s1 s2 s3 s4 s5 s6 s7 s8 s9 s10 s11 s12 : Nat) (p : Nat) :
    (initSourceEnergy vis pt isSS g 3 src s0 wall W nIn 3 dirsIn s1 D s2 dirsOut T nIn D B brdf s3 bidx P 3 pc
      s4 s5 s6 wp s7 s8 wn s9 s10 s11 pp s12 att B freq B).1 p = vis src pc wn wp p := by
  simp only [initSourceEnergy]

/-- the stored distances -/
theorem initSourceEnergy_distance
    (vis : (Nat → ℝ) → (Nat → Nat → ℝ) → (Nat → Nat → ℝ) → (Nat → Nat → Nat → ℝ) → Nat → Bool)
    (pt : (Nat → ℝ) → (Nat → Nat → ℝ) → ℝ) (isSS : Bool) (g : Option ((Nat → Nat → ℝ) → ℝ → Nat → ℝ))
    (P B W T nIn D : Nat) (src : Nat → ℝ) (wall : Nat → Nat) (dirsIn dirsOut : Nat → Nat → Nat → ℝ)
    (brdf : Nat → Nat → Nat → Nat → ℝ) (bidx : Nat → Nat) (pc : Nat → Nat → ℝ) (wp : Nat → Nat → Nat → ℝ)
    (wn : Nat → Nat → ℝ) (pp : Nat → Nat → Nat → ℝ) (att freq : Nat → ℝ)
    (s0 s1 s2 s3 s4 s5 s6 s7 s8 s9 s10 s11 s12 : Nat) (p : Nat) (hp : p < P) :
    (initSourceEnergy vis pt isSS g 3 src s0 wall W nIn 3 dirsIn s1 D s2 dirsOut T nIn D B brdf s3 bidx P 3 pc
      s4 s5 s6 wp s7 s8 wn s9 s10 s11 pp s12 att B freq B).2.2 p =
      sourceDistance (vis src pc wn wp p) (Vec3.norm (Vec3.sub ⟨src 0, src 1, src 2⟩ ⟨pc p 0, pc p 1, pc p 2⟩)) := by
  simp only [initSourceEnergy]
  exact source2patchDistance_eq pt P B src pc pp _ (some att) s9 s10 s11 P s12 p hp

/-- **the stored initial energy**, patch `p`, outgoing direction `d`, band `b` -/
theorem initSourceEnergy_energy
    (vis : (Nat → ℝ) → (Nat → Nat → ℝ) → (Nat → Nat → ℝ) → (Nat → Nat → Nat → ℝ) → Nat → Bool)
    (pt : (Nat → ℝ) → (Nat → Nat → ℝ) → ℝ) (isSS : Bool) (g : Option ((Nat → Nat → ℝ) → ℝ → Nat → ℝ))
    (P B W T nIn D : Nat) (src : Nat → ℝ) (wall : Nat → Nat) (dirsIn dirsOut : Nat → Nat → Nat → ℝ)
    (brdf : Nat → Nat → Nat → Nat → ℝ) (bidx : Nat → Nat) (pc : Nat → Nat → ℝ) (wp : Nat → Nat → Nat → ℝ)
    (wn : Nat → Nat → ℝ) (pp : Nat → Nat → Nat → ℝ) (att freq : Nat → ℝ)
    (s0 s1 s2 s3 s4 s5 s6 s7 s8 s9 s10 s11 s12 : Nat)
    (visM : Nat → Nat → Bool) (F : Nat → Nat → ℝ) (area : Nat → ℝ) (attM : Option (Nat → ℝ))
    (p d b : Nat) (hp : p < P) (hb : b < B) :
    (initSourceEnergy vis pt isSS g 3 src s0 wall W nIn 3 dirsIn s1 D s2 dirsOut T nIn D B brdf s3 bidx P 3 pc
      s4 s5 s6 wp s7 s8 wn s9 s10 s11 pp s12 att B freq B).2.1 p d b =
      (bakeSceneOfArgs P D nIn visM F pc area attM wall (some brdf) bidx dirsIn dirsOut b).addDirectional
          ⟨src 0, src 1, src 2⟩
          (fun k => sourceEnergy (vis src pc wn wp k)
            (Vec3.norm (Vec3.sub ⟨src 0, src 1, src 2⟩ ⟨pc k 0, pc k 1, pc k 2⟩)) (some (att b)) (pt src (fun v q => pp k v q))) p d
        * glueDirFactor isSS g pc freq p b := by
  have hadd := addDirectional_eq P D nIn B W T
    (fun a0_ a1_ => (source2patchEnergyUniversal pt 3 (fun a0_ => src a0_) P 3 (fun a0_ a1_ => pc a0_ a1_) s9 s10 s11
      (fun a0_ a1_ a2_ => pp a0_ a1_ a2_) P (fun a0_ => vis (fun a0_ => src a0_) (fun a0_ a1_ => pc a0_ a1_)
        (fun a0_ a1_ => wn a0_ a1_) (fun a0_ a1_ a2_ => wp a0_ a1_ a2_) a0_) s12 (some fun a0_ => att a0_) B).1 a0_ a1_)
    src pc wall dirsIn dirsOut brdf bidx visM F area attM P B s0 s1 s2 s3 p d b hp
  have he : ∀ k, k < P → (source2patchEnergyUniversal pt 3 (fun a0_ => src a0_) P 3 (fun a0_ a1_ => pc a0_ a1_) s9 s10 s11
      (fun a0_ a1_ a2_ => pp a0_ a1_ a2_) P (fun a0_ => vis (fun a0_ => src a0_) (fun a0_ a1_ => pc a0_ a1_)
        (fun a0_ a1_ => wn a0_ a1_) (fun a0_ a1_ a2_ => wp a0_ a1_ a2_) a0_) s12 (some fun a0_ => att a0_) B).1 k b =
      sourceEnergy (vis src pc wn wp k) (Vec3.norm (Vec3.sub ⟨src 0, src 1, src 2⟩ ⟨pc k 0, pc k 1, pc k 2⟩)) (some (att b))
        (pt src (fun v q => pp k v q)) := by
    intro k hk
    exact source2patchEnergy_eq pt P B src pc pp _ (some att) s9 s10 s11 P s12 k b hk
  simp only [initSourceEnergy]
  unfold glueDirFactor
  cases isSS
  · simp only [Bool.false_eq_true, if_false, mul_one]
    rw [hadd]
    unfold BakeScene.addDirectional
    simp only [he p hp]
  · simp only [if_true]
    cases g with
    | none =>
      simp only [mul_one]
      rw [hadd]
      unfold BakeScene.addDirectional
      simp only [he p hp]
    | some g =>
      simp only
      rw [hadd]
      unfold BakeScene.addDirectional
      simp only [he p hp]
      rw [glue_dirFold B (fun i p0 => g (fun a0_ a1_ => pc a0_ a1_) (freq i) p0) D p d b hb]

/-- a patch the source does not see is initialised with exactly nothing, in every direction and band -/
theorem initSourceEnergy_hidden_zero
    (vis : (Nat → ℝ) → (Nat → Nat → ℝ) → (Nat → Nat → ℝ) → (Nat → Nat → Nat → ℝ) → Nat → Bool)
    (pt : (Nat → ℝ) → (Nat → Nat → ℝ) → ℝ) (isSS : Bool) (g : Option ((Nat → Nat → ℝ) → ℝ → Nat → ℝ))
    (P B W T nIn D : Nat) (src : Nat → ℝ) (wall : Nat → Nat) (dirsIn dirsOut : Nat → Nat → Nat → ℝ)
    (brdf : Nat → Nat → Nat → Nat → ℝ) (bidx : Nat → Nat) (pc : Nat → Nat → ℝ) (wp : Nat → Nat → Nat → ℝ)
    (wn : Nat → Nat → ℝ) (pp : Nat → Nat → Nat → ℝ) (att freq : Nat → ℝ)
    (s0 s1 s2 s3 s4 s5 s6 s7 s8 s9 s10 s11 s12 : Nat)
    (p d b : Nat) (hp : p < P) (hb : b < B) (hv : vis src pc wn wp p = false) :
    (initSourceEnergy vis pt isSS g 3 src s0 wall W nIn 3 dirsIn s1 D s2 dirsOut T nIn D B brdf s3 bidx P 3 pc
      s4 s5 s6 wp s7 s8 wn s9 s10 s11 pp s12 att B freq B).2.1 p d b = 0 := by
  rw [initSourceEnergy_energy vis pt isSS g P B W T nIn D src wall dirsIn dirsOut brdf bidx pc wp wn pp att freq
    s0 s1 s2 s3 s4 s5 s6 s7 s8 s9 s10 s11 s12 (fun _ _ => false) (fun _ _ => 0) (fun _ => 0) none p d b hp hb]
  unfold BakeScene.addDirectional
  simp [hv, sourceEnergy]

/-- **directivity** (C20, the glue's part): a `SoundSource` with a directivity stores, for every patch, outgoing
    direction and band, the energy of the same source without directivity times its directivity towards that patch
    at that band's frequency. -/
theorem initSourceEnergy_directivity
    (vis : (Nat → ℝ) → (Nat → Nat → ℝ) → (Nat → Nat → ℝ) → (Nat → Nat → Nat → ℝ) → Nat → Bool)
    (pt : (Nat → ℝ) → (Nat → Nat → ℝ) → ℝ) (g : (Nat → Nat → ℝ) → ℝ → Nat → ℝ)
    (P B W T nIn D : Nat) (src : Nat → ℝ) (wall : Nat → Nat) (dirsIn dirsOut : Nat → Nat → Nat → ℝ)
    (brdf : Nat → Nat → Nat → Nat → ℝ) (bidx : Nat → Nat) (pc : Nat → Nat → ℝ) (wp : Nat → Nat → Nat → ℝ)
    (wn : Nat → Nat → ℝ) (pp : Nat → Nat → Nat → ℝ) (att freq : Nat → ℝ)
    (s0 s1 s2 s3 s4 s5 s6 s7 s8 s9 s10 s11 s12 : Nat)
    (p d b : Nat) (hp : p < P) (hb : b < B) :
    (initSourceEnergy vis pt true (some g) 3 src s0 wall W nIn 3 dirsIn s1 D s2 dirsOut T nIn D B brdf s3 bidx P 3 pc
      s4 s5 s6 wp s7 s8 wn s9 s10 s11 pp s12 att B freq B).2.1 p d b =
    (initSourceEnergy vis pt true none 3 src s0 wall W nIn 3 dirsIn s1 D s2 dirsOut T nIn D B brdf s3 bidx P 3 pc
      s4 s5 s6 wp s7 s8 wn s9 s10 s11 pp s12 att B freq B).2.1 p d b * g pc (freq b) p := by
  rw [initSourceEnergy_energy vis pt true (some g) P B W T nIn D src wall dirsIn dirsOut brdf bidx pc wp wn pp att freq
      s0 s1 s2 s3 s4 s5 s6 s7 s8 s9 s10 s11 s12 (fun _ _ => false) (fun _ _ => 0) (fun _ => 0) none p d b hp hb,
    initSourceEnergy_energy vis pt true none P B W T nIn D src wall dirsIn dirsOut brdf bidx pc wp wn pp att freq
      s0 s1 s2 s3 s4 s5 s6 s7 s8 s9 s10 s11 s12 (fun _ _ => false) (fun _ _ => 0) (fun _ => 0) none p d b hp hb]
  simp [glueDirFactor]

end Sparrow
