import Sparrow.Generated.PointFactor
import Sparrow.Model.PointPatch
import Sparrow.Model.Kang
import Sparrow.Proofs.BakeKernelEquiv
/-
  The small numeric functions behind the point-to-patch factor, TRANSLATED by rule from the Python source on every run
  (`Generated/PointFactor.lean`: `_sphere_tangent_vector`, `_polygon_area`, `pt_solution` in both modes), compute the
  hand-written model (`Model/PointPatch.lean`: `sphereTangent`, `polygonArea`, `ptSource`, `ptReceiver`).  So the
  opaque `pt_solution_…` of the translated source-leg and receiver-leg kernels can be instantiated by text that is itself
  regenerated from `/repo`, and C04's theorems about `ptSource` (the solid-angle share) are about that text.
-/
namespace Sparrow
open Sparrow.Generated.PointFactor

/-- a list of 3-vectors given as an array -/
def ptsOf {α : Type} (pts : Nat → Nat → α) : Nat → Vec3 α := fun k => ⟨pts k 0, pts k 1, pts k 2⟩

theorem sphereTangentVector_eq {α : Type} [Add α] [Sub α] [Mul α] [Div α] [Neg α] [Zero α] [Cmp α] [Transc α] [NatCast α]
    (thr : α) (v0 v1 : Nat → α) :
    Vec3.ofFn (sphereTangentVector thr v0 v1) = sphereTangent thr (Vec3.ofFn v0) (Vec3.ofFn v1) := by
  unfold sphereTangentVector sphereTangent Vec3.ofFn
  by_cases h : Cmp.lt thr (Cmp.abs (v0 0 * v1 0 + v0 1 * v1 1 + v0 2 * v1 2)) = true
  · simp [h, Vec3.dot, Vec3.sub, Vec3.smul, Vec3.sdiv, Vec3.norm]
  · simp [h, Vec3.dot, Vec3.sdiv, Vec3.norm]

theorem pf_foldl_congr {σ : Type} (f g : σ → Nat → σ) (n : Nat) (s : σ) (h : ∀ st i, i < n → f st i = g st i) :
    (List.range n).foldl f s = (List.range n).foldl g s := by
  induction n with
  | zero => rfl
  | succ n ih =>
    rw [List.range_succ, List.foldl_append, List.foldl_append, ih (fun st i hi => h st i (by omega))]
    simp [h _ n (by omega)]

theorem polygonAreaT_eq (thr : ℝ) (pts : Nat → Nat → ℝ) (n : Nat) :
    polygonAreaT thr pts n = polygonArea (ptsOf pts) n := by
  unfold polygonAreaT polygonArea ptsOf
  have h1 : ((1 : Nat) : ℝ) = 1 := by norm_num
  have h2 : ((2 : Nat) : ℝ) = 1 + 1 := by norm_num
  simp only [h1, h2, Vec3.norm, Vec3.dot, Vec3.cross, Vec3.sub]

/-- the rows of `patch_onsphere` after its loop -/
theorem pf_onSphere_fold (n : Nat) (x : Nat → ℝ) (pts : Nat → Nat → ℝ) (k q : Nat) (hk : k < n) :
    ((List.range n).foldl (fun (st_ : Nat → Nat → ℝ) i => fun k_ q_ =>
      if k_ = i then (pts i q_ - x q_) / Transc.sqrt ((pts i 0 - x 0) * (pts i 0 - x 0) + (pts i 1 - x 1) * (pts i 1 - x 1) +
        (pts i 2 - x 2) * (pts i 2 - x 2)) else st_ k_ q_) (fun _ _ => 0)) k q =
      (pts k q - x q) / Transc.sqrt ((pts k 0 - x 0) * (pts k 0 - x 0) + (pts k 1 - x 1) * (pts k 1 - x 1) +
        (pts k 2 - x 2) * (pts k 2 - x 2)) := by
  refine be_foldl_cell _ (fun (st : Nat → Nat → ℝ) => st k q) _ n k hk ?_ _ ?_
  · intro ii _ hne st; simp [Ne.symm hne]
  · intro st _; simp

theorem pf_onSphere_vec (n : Nat) (x : Nat → ℝ) (pts : Nat → Nat → ℝ) (k : Nat) (hk : k < n) :
    Vec3.ofFn (fun q => ((List.range n).foldl (fun (st_ : Nat → Nat → ℝ) i => fun k_ q_ =>
      if k_ = i then (pts i q_ - x q_) / Transc.sqrt ((pts i 0 - x 0) * (pts i 0 - x 0) + (pts i 1 - x 1) * (pts i 1 - x 1) +
        (pts i 2 - x 2) * (pts i 2 - x 2)) else st_ k_ q_) (fun _ _ => 0)) k q) =
      onSphere (Vec3.ofFn x) (ptsOf pts) k := by
  unfold Vec3.ofFn onSphere ptsOf Vec3.normalize Vec3.sdiv Vec3.norm Vec3.dot Vec3.sub
  simp only [pf_onSphere_fold n x pts k _ hk]

/-- the accumulated interior angles = the model's sum -/
theorem pf_angles (thr : ℝ) (x : Nat → ℝ) (pts : Nat → Nat → ℝ) (n : Nat) :
    (List.range n).foldl (fun (st_ : ℝ) i =>
      st_ + Transc.acos (
        sphereTangentVector thr (fun q_ => ((List.range n).foldl (fun (st_ : Nat → Nat → ℝ) i => fun k_ q_ =>
            if k_ = i then (pts i q_ - x q_) / Transc.sqrt ((pts i 0 - x 0) * (pts i 0 - x 0) + (pts i 1 - x 1) * (pts i 1 - x 1) +
              (pts i 2 - x 2) * (pts i 2 - x 2)) else st_ k_ q_) (fun _ _ => 0)) i q_)
          (fun q_ => ((List.range n).foldl (fun (st_ : Nat → Nat → ℝ) i => fun k_ q_ =>
            if k_ = i then (pts i q_ - x q_) / Transc.sqrt ((pts i 0 - x 0) * (pts i 0 - x 0) + (pts i 1 - x 1) * (pts i 1 - x 1) +
              (pts i 2 - x 2) * (pts i 2 - x 2)) else st_ k_ q_) (fun _ _ => 0)) ((i + n - 1) % n) q_) 0 *
        sphereTangentVector thr (fun q_ => ((List.range n).foldl (fun (st_ : Nat → Nat → ℝ) i => fun k_ q_ =>
            if k_ = i then (pts i q_ - x q_) / Transc.sqrt ((pts i 0 - x 0) * (pts i 0 - x 0) + (pts i 1 - x 1) * (pts i 1 - x 1) +
              (pts i 2 - x 2) * (pts i 2 - x 2)) else st_ k_ q_) (fun _ _ => 0)) i q_)
          (fun q_ => ((List.range n).foldl (fun (st_ : Nat → Nat → ℝ) i => fun k_ q_ =>
            if k_ = i then (pts i q_ - x q_) / Transc.sqrt ((pts i 0 - x 0) * (pts i 0 - x 0) + (pts i 1 - x 1) * (pts i 1 - x 1) +
              (pts i 2 - x 2) * (pts i 2 - x 2)) else st_ k_ q_) (fun _ _ => 0)) ((i + 1) % n) q_) 0 +
        sphereTangentVector thr (fun q_ => ((List.range n).foldl (fun (st_ : Nat → Nat → ℝ) i => fun k_ q_ =>
            if k_ = i then (pts i q_ - x q_) / Transc.sqrt ((pts i 0 - x 0) * (pts i 0 - x 0) + (pts i 1 - x 1) * (pts i 1 - x 1) +
              (pts i 2 - x 2) * (pts i 2 - x 2)) else st_ k_ q_) (fun _ _ => 0)) i q_)
          (fun q_ => ((List.range n).foldl (fun (st_ : Nat → Nat → ℝ) i => fun k_ q_ =>
            if k_ = i then (pts i q_ - x q_) / Transc.sqrt ((pts i 0 - x 0) * (pts i 0 - x 0) + (pts i 1 - x 1) * (pts i 1 - x 1) +
              (pts i 2 - x 2) * (pts i 2 - x 2)) else st_ k_ q_) (fun _ _ => 0)) ((i + n - 1) % n) q_) 1 *
        sphereTangentVector thr (fun q_ => ((List.range n).foldl (fun (st_ : Nat → Nat → ℝ) i => fun k_ q_ =>
            if k_ = i then (pts i q_ - x q_) / Transc.sqrt ((pts i 0 - x 0) * (pts i 0 - x 0) + (pts i 1 - x 1) * (pts i 1 - x 1) +
              (pts i 2 - x 2) * (pts i 2 - x 2)) else st_ k_ q_) (fun _ _ => 0)) i q_)
          (fun q_ => ((List.range n).foldl (fun (st_ : Nat → Nat → ℝ) i => fun k_ q_ =>
            if k_ = i then (pts i q_ - x q_) / Transc.sqrt ((pts i 0 - x 0) * (pts i 0 - x 0) + (pts i 1 - x 1) * (pts i 1 - x 1) +
              (pts i 2 - x 2) * (pts i 2 - x 2)) else st_ k_ q_) (fun _ _ => 0)) ((i + 1) % n) q_) 1 +
        sphereTangentVector thr (fun q_ => ((List.range n).foldl (fun (st_ : Nat → Nat → ℝ) i => fun k_ q_ =>
            if k_ = i then (pts i q_ - x q_) / Transc.sqrt ((pts i 0 - x 0) * (pts i 0 - x 0) + (pts i 1 - x 1) * (pts i 1 - x 1) +
              (pts i 2 - x 2) * (pts i 2 - x 2)) else st_ k_ q_) (fun _ _ => 0)) i q_)
          (fun q_ => ((List.range n).foldl (fun (st_ : Nat → Nat → ℝ) i => fun k_ q_ =>
            if k_ = i then (pts i q_ - x q_) / Transc.sqrt ((pts i 0 - x 0) * (pts i 0 - x 0) + (pts i 1 - x 1) * (pts i 1 - x 1) +
              (pts i 2 - x 2) * (pts i 2 - x 2)) else st_ k_ q_) (fun _ _ => 0)) ((i + n - 1) % n) q_) 2 *
        sphereTangentVector thr (fun q_ => ((List.range n).foldl (fun (st_ : Nat → Nat → ℝ) i => fun k_ q_ =>
            if k_ = i then (pts i q_ - x q_) / Transc.sqrt ((pts i 0 - x 0) * (pts i 0 - x 0) + (pts i 1 - x 1) * (pts i 1 - x 1) +
              (pts i 2 - x 2) * (pts i 2 - x 2)) else st_ k_ q_) (fun _ _ => 0)) i q_)
          (fun q_ => ((List.range n).foldl (fun (st_ : Nat → Nat → ℝ) i => fun k_ q_ =>
            if k_ = i then (pts i q_ - x q_) / Transc.sqrt ((pts i 0 - x 0) * (pts i 0 - x 0) + (pts i 1 - x 1) * (pts i 1 - x 1) +
              (pts i 2 - x 2) * (pts i 2 - x 2)) else st_ k_ q_) (fun _ _ => 0)) ((i + 1) % n) q_) 2)) 0 =
    (List.range n).foldl (fun acc i => acc + interiorAngle thr (Vec3.ofFn x) (ptsOf pts) n i) 0 := by
  apply pf_foldl_congr
  intro st i hi
  have hn : 0 < n := by omega
  have hm1 : (i + n - 1) % n < n := Nat.mod_lt _ hn
  have hp1 : (i + 1) % n < n := Nat.mod_lt _ hn
  have e0 := sphereTangentVector_eq thr
    (fun q_ => ((List.range n).foldl (fun (st_ : Nat → Nat → ℝ) i => fun k_ q_ =>
      if k_ = i then (pts i q_ - x q_) / Transc.sqrt ((pts i 0 - x 0) * (pts i 0 - x 0) + (pts i 1 - x 1) * (pts i 1 - x 1) +
        (pts i 2 - x 2) * (pts i 2 - x 2)) else st_ k_ q_) (fun _ _ => 0)) i q_)
    (fun q_ => ((List.range n).foldl (fun (st_ : Nat → Nat → ℝ) i => fun k_ q_ =>
      if k_ = i then (pts i q_ - x q_) / Transc.sqrt ((pts i 0 - x 0) * (pts i 0 - x 0) + (pts i 1 - x 1) * (pts i 1 - x 1) +
        (pts i 2 - x 2) * (pts i 2 - x 2)) else st_ k_ q_) (fun _ _ => 0)) ((i + n - 1) % n) q_)
  have e1 := sphereTangentVector_eq thr
    (fun q_ => ((List.range n).foldl (fun (st_ : Nat → Nat → ℝ) i => fun k_ q_ =>
      if k_ = i then (pts i q_ - x q_) / Transc.sqrt ((pts i 0 - x 0) * (pts i 0 - x 0) + (pts i 1 - x 1) * (pts i 1 - x 1) +
        (pts i 2 - x 2) * (pts i 2 - x 2)) else st_ k_ q_) (fun _ _ => 0)) i q_)
    (fun q_ => ((List.range n).foldl (fun (st_ : Nat → Nat → ℝ) i => fun k_ q_ =>
      if k_ = i then (pts i q_ - x q_) / Transc.sqrt ((pts i 0 - x 0) * (pts i 0 - x 0) + (pts i 1 - x 1) * (pts i 1 - x 1) +
        (pts i 2 - x 2) * (pts i 2 - x 2)) else st_ k_ q_) (fun _ _ => 0)) ((i + 1) % n) q_)
  rw [pf_onSphere_vec n x pts i hi, pf_onSphere_vec n x pts _ hm1] at e0
  rw [pf_onSphere_vec n x pts i hi, pf_onSphere_vec n x pts _ hp1] at e1
  unfold interiorAngle
  simp only
  rw [← e0, ← e1]
  simp [Vec3.dot, Vec3.ofFn]

/-- **`pt_solution(point, patch, mode="source")` as translated = the model's `ptSource`** (spherical excess of the patch seen
    from the point, divided by `4π`) -/
theorem ptSolutionSource_eq (thr : ℝ) (x : Nat → ℝ) (pts : Nat → Nat → ℝ) (n : Nat) :
    ptSolutionSource thr x pts n = ptSource thr (Vec3.ofFn x) (ptsOf pts) n := by
  unfold ptSolutionSource ptSource sphericalExcess
  simp only
  rw [pf_angles thr x pts n]
  have h4 : ((4 : Nat) : ℝ) = 1 + 1 + (1 + 1) := by norm_num
  rw [h4]

/-- **`pt_solution(point, patch, mode="receiver")` as translated = the model's `ptReceiver`** (… divided by `π · area`) -/
theorem ptSolutionReceiver_eq (thr : ℝ) (x : Nat → ℝ) (pts : Nat → Nat → ℝ) (n : Nat) :
    ptSolutionReceiver thr x pts n = ptReceiver thr (Vec3.ofFn x) (ptsOf pts) n := by
  unfold ptSolutionReceiver ptReceiver sphericalExcess
  simp only
  rw [pf_angles thr x pts n, polygonAreaT_eq]

end Sparrow
