import Sparrow.Generated.Kernels
import Sparrow.Proofs.Refinement
import Sparrow.Proofs.CollectLemmas
import Sparrow.Proofs.RealInst
/-
  The kernels TRANSLATED from the Python source (`Generated/Kernels.lean`, rewritten on every run)
  compute what the hand-written model says: for every scene, order, histogram length, band and
  in-range index.  With these theorems every statement proved about `initF` / `etc` /
  `collectRollF` is a statement about the translated source text.
-/
namespace Sparrow
open Sparrow.Generated.Kernels

/-- the exchange scene of band `b` described by the arguments of `_energy_exchange` -/
noncomputable def exSceneOfArgs (n_samples P D : Nat) (energy_0 : Nat → Nat → Nat → ℝ) (distance_0 : Nat → ℝ)
    (distance_ij : Nat → Nat → ℝ) (fft : Nat → Nat → Nat → Nat → ℝ) (p2o : Nat → Nat → Nat)
    (c dt : ℝ) (nVis : Nat) (vp : Nat → Nat → Nat) (b : Nat) : ExScene ℝ :=
  { P := P, D := D, S := n_samples
    pairs := (List.range nVis).map fun ii => (vp ii 0, vp ii 1)
    bin0 := fun j => ToBin.floorNat (distance_0 j / c / dt)
    bin := fun i j => ToBin.floorNat (distance_ij i j / c / dt)
    e0 := fun j d => energy_0 j d b
    fft := fun i j d => fft i j d b
    dir := p2o }

/-! ### helper lemmas -/

theorem ke_foldl_range_succ {σ : Type} (f : σ → Nat → σ) (s : σ) (n : Nat) :
    (List.range (n + 1)).foldl f s = f ((List.range n).foldl f s) n := by
  rw [List.range_succ, List.foldl_append]; rfl

/-- one directed arc `a = (i, j)` of the exchange loop, writing slot `cur` and reading the other -/
noncomputable def ke_arcStep (bin : Nat → Nat → Nat) (fft : Nat → Nat → Nat → Nat → ℝ)
    (p2o : Nat → Nat → Nat) (cur : Nat) (E : Nat → Nat → Nat → Nat → Nat → ℝ) (a : Nat × Nat) :
    Nat → Nat → Nat → Nat → Nat → ℝ :=
  fun p0 p1 p2 p3 p4 =>
    if p0 = cur ∧ p1 = a.2 ∧ bin a.1 a.2 ≤ p4 then
      E p0 p1 p2 p3 p4 + fft a.1 a.2 p2 p3 * E ((cur + 2 - 1) % 2) a.1 (p2o a.1 a.2) p3 (p4 - bin a.1 a.2)
    else E p0 p1 p2 p3 p4

/-- the `jj`-loop of the translated text = the arc `(vp ii 0, vp ii 1)` then its reverse -/
theorem ke_pairStep (distance_ij : Nat → Nat → ℝ) (c dt : ℝ) (fft : Nat → Nat → Nat → Nat → ℝ)
    (p2o : Nat → Nat → Nat) (vp : Nat → Nat → Nat) (cur ii : Nat)
    (E : Nat → Nat → Nat → Nat → Nat → ℝ) :
    List.foldl
      (fun (st_ : Nat → Nat → Nat → Nat → Nat → ℝ) jj =>
        if 0 < ToBin.floorNat (distance_ij (if jj = 0 then vp ii 0 else vp ii 1)
              (if jj = 0 then vp ii 1 else vp ii 0) / c / dt) then
          fun p0 p1 p2 p3 p4 =>
          if p0 = cur ∧ (p1 = if jj = 0 then vp ii 1 else vp ii 0) ∧
              ToBin.floorNat (distance_ij (if jj = 0 then vp ii 0 else vp ii 1)
                (if jj = 0 then vp ii 1 else vp ii 0) / c / dt) ≤ p4 then
            st_ p0 p1 p2 p3 p4 +
              fft (if jj = 0 then vp ii 0 else vp ii 1) (if jj = 0 then vp ii 1 else vp ii 0) p2 p3 *
                st_ ((cur + 2 - 1) % 2) (if jj = 0 then vp ii 0 else vp ii 1)
                  (p2o (if jj = 0 then vp ii 0 else vp ii 1) (if jj = 0 then vp ii 1 else vp ii 0)) p3
                  (p4 - ToBin.floorNat (distance_ij (if jj = 0 then vp ii 0 else vp ii 1)
                    (if jj = 0 then vp ii 1 else vp ii 0) / c / dt))
          else st_ p0 p1 p2 p3 p4
        else fun p0 p1 p2 p3 p4 =>
          if p0 = cur ∧ p1 = if jj = 0 then vp ii 1 else vp ii 0 then
            st_ p0 p1 p2 p3 p4 +
              fft (if jj = 0 then vp ii 0 else vp ii 1) (if jj = 0 then vp ii 1 else vp ii 0) p2 p3 *
                st_ ((cur + 2 - 1) % 2) (if jj = 0 then vp ii 0 else vp ii 1)
                  (p2o (if jj = 0 then vp ii 0 else vp ii 1) (if jj = 0 then vp ii 1 else vp ii 0)) p3 p4
          else st_ p0 p1 p2 p3 p4)
      E (List.range 2) =
    ke_arcStep (fun i j => ToBin.floorNat (distance_ij i j / c / dt)) fft p2o cur
      (ke_arcStep (fun i j => ToBin.floorNat (distance_ij i j / c / dt)) fft p2o cur E (vp ii 0, vp ii 1))
      (vp ii 1, vp ii 0) := by
  have h2 : List.range 2 = [0, 1] := by decide
  rw [h2]
  simp only [List.foldl_cons, List.foldl_nil, if_true, one_ne_zero, if_false]
  have hstep : ∀ (A : Nat → Nat → Nat → Nat → Nat → ℝ) (i j : Nat),
      (if 0 < ToBin.floorNat (distance_ij i j / c / dt) then
          fun p0 p1 p2 p3 p4 =>
          if p0 = cur ∧ p1 = j ∧ ToBin.floorNat (distance_ij i j / c / dt) ≤ p4 then
            A p0 p1 p2 p3 p4 + fft i j p2 p3 * A ((cur + 2 - 1) % 2) i (p2o i j) p3
              (p4 - ToBin.floorNat (distance_ij i j / c / dt))
          else A p0 p1 p2 p3 p4
        else fun p0 p1 p2 p3 p4 =>
          if p0 = cur ∧ p1 = j then
            A p0 p1 p2 p3 p4 + fft i j p2 p3 * A ((cur + 2 - 1) % 2) i (p2o i j) p3 p4
          else A p0 p1 p2 p3 p4) =
      ke_arcStep (fun i j => ToBin.floorNat (distance_ij i j / c / dt)) fft p2o cur A (i, j) := by
    intro A i j
    unfold ke_arcStep
    by_cases h : 0 < ToBin.floorNat (distance_ij i j / c / dt)
    · rw [if_pos h]
    · rw [if_neg h]
      have h0 : ToBin.floorNat (distance_ij i j / c / dt) = 0 := by omega
      funext p0 p1 p2 p3 p4
      simp [h0]
  rw [hstep, hstep]

/-- the double loop over the rows of `visible_patches` = one fold over the arc list -/
theorem ke_arcsFold (step : (Nat → Nat → Nat → Nat → Nat → ℝ) → Nat × Nat → (Nat → Nat → Nat → Nat → Nat → ℝ))
    (vp : Nat → Nat → Nat) (nVis : Nat) (E : Nat → Nat → Nat → Nat → Nat → ℝ) :
    (List.range nVis).foldl (fun st_ ii => step (step st_ (vp ii 0, vp ii 1)) (vp ii 1, vp ii 0)) E =
      (arcsOf ((List.range nVis).map fun ii => (vp ii 0, vp ii 1))).foldl step E := by
  unfold arcsOf
  rw [List.foldl_flatMap, List.foldl_map]
  rfl

/-- the arcs never write a slot other than `cur` -/
theorem ke_arcs_other (bin : Nat → Nat → Nat) (fft : Nat → Nat → Nat → Nat → ℝ)
    (p2o : Nat → Nat → Nat) (cur : Nat) (l : List (Nat × Nat)) (E : Nat → Nat → Nat → Nat → Nat → ℝ)
    (p0 p1 p2 p3 p4 : Nat) (h : p0 ≠ cur) :
    l.foldl (ke_arcStep bin fft p2o cur) E p0 p1 p2 p3 p4 = E p0 p1 p2 p3 p4 := by
  induction l generalizing E with
  | nil => rfl
  | cons a l ih =>
    rw [List.foldl_cons, ih]
    unfold ke_arcStep
    simp [h]

/-- slot `cur` at `(j, d, b, t)` after the arcs = the model's gather over the arcs with target `j` -/
theorem ke_arcs_cur (bin : Nat → Nat → Nat) (fft : Nat → Nat → Nat → Nat → ℝ)
    (p2o : Nat → Nat → Nat) (cur : Nat) (hcur : (cur + 2 - 1) % 2 ≠ cur)
    (l : List (Nat × Nat)) (E : Nat → Nat → Nat → Nat → Nat → ℝ) (j d b t : Nat) :
    l.foldl (ke_arcStep bin fft p2o cur) E cur j d b t =
      (l.filter fun a => a.2 == j).foldl (fun acc a =>
        if bin a.1 a.2 ≤ t then
          acc + fft a.1 a.2 d b * E ((cur + 2 - 1) % 2) a.1 (p2o a.1 a.2) b (t - bin a.1 a.2)
        else acc) (E cur j d b t) := by
  induction l generalizing E with
  | nil => rfl
  | cons a l ih =>
    rw [List.foldl_cons, ih]
    have hprev : ∀ q1 q2 q3 q4, ke_arcStep bin fft p2o cur E a ((cur + 2 - 1) % 2) q1 q2 q3 q4 =
        E ((cur + 2 - 1) % 2) q1 q2 q3 q4 := by
      intro q1 q2 q3 q4
      unfold ke_arcStep
      rw [if_neg (fun h => hcur h.1)]
    simp only [hprev]
    rw [List.filter_cons]
    by_cases haj : a.2 = j
    · have : (a.2 == j) = true := by simpa using haj
      rw [if_pos this, List.foldl_cons]
      congr 1
      unfold ke_arcStep
      simp [haj]
    · have : ¬ ((a.2 == j) = true) := by simpa using haj
      rw [if_neg this]
      congr 1
      unfold ke_arcStep
      have : ¬ j = a.2 := fun h => haj h.symm
      simp [this]


theorem ke_foldl_range_inv {σ : Type} (Inv : Nat → σ → Prop) (f : σ → Nat → σ) (s : σ) (n : Nat)
    (h0 : Inv 0 s) (hs : ∀ k s, Inv k s → Inv (k + 1) (f s k)) :
    Inv n ((List.range n).foldl f s) := by
  induction n with
  | zero => exact h0
  | succ n ih => rw [ke_foldl_range_succ]; exact hs _ _ ih

/-- a loop over `range n` whose `i`-th pass overwrites exactly the cells `(i, p1, p2)` -/
theorem ke_foldl_range_set2 (v : Nat → Nat → Nat → ℝ) (A : Nat → Nat → Nat → ℝ) (i n p0 p1 p2 : Nat) :
    (List.range n).foldl (fun (st_ : Nat → Nat → Nat → ℝ) j =>
        fun p0 p1 p2 => if p0 = i ∧ p1 = j then v i j p2 else st_ p0 p1 p2) A p0 p1 p2 =
      if p0 = i ∧ p1 < n then v i p1 p2 else A p0 p1 p2 := by
  induction n with
  | zero => simp
  | succ n ih =>
    rw [ke_foldl_range_succ]
    simp only [ih]
    by_cases h0 : p0 = i
    · by_cases h1 : p1 = n
      · subst h1; simp [h0]
      · have : p1 < n + 1 ↔ p1 < n := by omega
        simp [h0, h1, this]
    · simp [h0]

/-- `_energy_exchange_init_energy` as translated = order 0 of the model. -/
theorem energyExchangeInitEnergy_eq (n_samples P D B : Nat) (energy_0 : Nat → Nat → Nat → ℝ)
    (s0 : Nat) (distance_0 : Nat → ℝ) (c dt : ℝ) (j d b t : Nat) (hj : j < P) :
    energyExchangeInitEnergy n_samples P D B energy_0 s0 distance_0 c dt j d b t =
      (if t < n_samples then
        (if t = ToBin.floorNat (distance_0 j / c / dt) then energy_0 j d b else 0) else 0) := by
  unfold energyExchangeInitEnergy
  dsimp only
  have key : ∀ n, (List.range n).foldl (fun (st_ : (Nat → Nat → Nat → Nat → ℝ)) i =>
        if ToBin.floorNat (distance_0 i / c / dt) < n_samples then
          fun p0 p1 p2 p3 => if p0 = i ∧ p3 = ToBin.floorNat (distance_0 i / c / dt) then st_ p0 p1 p2 p3 + energy_0 i p1 p2 else st_ p0 p1 p2 p3
        else st_) (fun _ _ _ _ => 0) j d b t =
      if j < n then (if t < n_samples then
        (if t = ToBin.floorNat (distance_0 j / c / dt) then energy_0 j d b else 0) else 0) else 0 := by
    intro n
    induction n with
    | zero => simp
    | succ n ih =>
      rw [ke_foldl_range_succ]
      by_cases hjn : j = n
      · subst hjn
        rw [if_neg (Nat.lt_irrefl _)] at ih
        by_cases hlt : ToBin.floorNat (distance_0 j / c / dt) < n_samples
        · simp only [if_pos hlt, true_and, ih, zero_add, Nat.lt_succ_self, if_true]
          by_cases ht : t = ToBin.floorNat (distance_0 j / c / dt)
          · simp [ht, hlt]
          · simp [ht]
        · simp only [if_neg hlt, ih, Nat.lt_succ_self, if_true]
          by_cases ht : t = ToBin.floorNat (distance_0 j / c / dt)
          · simp [ht, hlt]
          · simp [ht]
      · have hlt' : (j < n + 1) ↔ (j < n) := by omega
        simp only [hlt']
        rw [← ih]
        split
        · simp [hjn]
        · rfl
  rw [key P, if_pos hj]

/-- `_energy_exchange` as translated = the accumulated histogram `etc` of the model, for every
    order `K`, band `b` and in-range cell.  Hypotheses: the array shapes are consistent (`P` patches
    everywhere) and the index data are in range (what numpy needs not to raise). -/
theorem energyExchange_eq (n_samples P D B : Nat) (energy_0 : Nat → Nat → Nat → ℝ)
    (s0 : Nat) (distance_0 : Nat → ℝ) (s1 s2 : Nat) (distance_ij : Nat → Nat → ℝ)
    (P' : Nat) (fft : Nat → Nat → Nat → Nat → ℝ) (s3 s4 : Nat) (p2o : Nat → Nat → Nat)
    (c dt : ℝ) (K nVis s5 : Nat) (vp : Nat → Nat → Nat) (b : Nat)
    (hwf : (exSceneOfArgs n_samples P D energy_0 distance_0 distance_ij fft p2o c dt nVis vp b).WF)
    (j d t : Nat) (hj : j < P) (hd : d < D) (ht : t < n_samples) :
    energyExchange n_samples P D B energy_0 s0 distance_0 s1 s2 distance_ij P P' D B fft s3 s4 p2o c dt K
        nVis s5 vp j d b t =
      etc (exSceneOfArgs n_samples P D energy_0 distance_0 distance_ij fft p2o c dt nVis vp b) K j d t := by
  have hP : (exSceneOfArgs n_samples P D energy_0 distance_0 distance_ij fft p2o c dt nVis vp b).P = P := rfl
  have hD : (exSceneOfArgs n_samples P D energy_0 distance_0 distance_ij fft p2o c dt nVis vp b).D = D := rfl
  have hS : (exSceneOfArgs n_samples P D energy_0 distance_0 distance_ij fft p2o c dt nVis vp b).S = n_samples := rfl
  have harcs : (exSceneOfArgs n_samples P D energy_0 distance_0 distance_ij fft p2o c dt nVis vp b).arcs =
      arcsOf ((List.range nVis).map fun ii => (vp ii 0, vp ii 1)) := rfl
  have hbin0 : (exSceneOfArgs n_samples P D energy_0 distance_0 distance_ij fft p2o c dt nVis vp b).bin0 =
      fun j => ToBin.floorNat (distance_0 j / c / dt) := rfl
  have hbin : (exSceneOfArgs n_samples P D energy_0 distance_0 distance_ij fft p2o c dt nVis vp b).bin =
      fun i j => ToBin.floorNat (distance_ij i j / c / dt) := rfl
  have he0 : (exSceneOfArgs n_samples P D energy_0 distance_0 distance_ij fft p2o c dt nVis vp b).e0 =
      fun j d => energy_0 j d b := rfl
  have hfft : (exSceneOfArgs n_samples P D energy_0 distance_0 distance_ij fft p2o c dt nVis vp b).fft =
      fun i j d => fft i j d b := rfl
  have hdir : (exSceneOfArgs n_samples P D energy_0 distance_0 distance_ij fft p2o c dt nVis vp b).dir = p2o := rfl
  generalize exSceneOfArgs n_samples P D energy_0 distance_0 distance_ij fft p2o c dt nVis vp b = sc at *
  have hinit : ∀ j d t, j < P → d < D → t < n_samples →
      energyExchangeInitEnergy n_samples P D B energy_0 s0 distance_0 c dt j d b t = orderH sc 0 j d t := by
    intro j d t hj hd ht
    rw [energyExchangeInitEnergy_eq _ _ _ _ _ _ _ _ _ _ _ _ _ hj, if_pos ht, orderH_zero, hP, hD, hS,
      if_pos (show j < P ∧ d < D ∧ t < n_samples from ⟨hj, hd, ht⟩)]
    unfold initF
    rw [hbin0, he0]
  unfold energyExchange
  dsimp only
  by_cases hK : K = 0
  · subst hK
    rw [if_pos rfl, etc_zero]
    exact hinit j d t hj hd ht
  rw [if_neg hK]
  refine (ke_foldl_range_inv (fun m (st : (Nat → Nat → Nat → Nat → Nat → ℝ) × (Nat → Nat → Nat → Nat → ℝ)) =>
    (∀ j d t, j < P → d < D → t < n_samples → st.1 (m % 2) j d b t = orderH sc m j d t) ∧
    (∀ j d t, j < P → d < D → t < n_samples → st.2 j d b t = etc sc m j d t)) _ _ K ?_ ?_).2 j d t hj hd ht
  · refine ⟨?_, ?_⟩
    · intro j d t hj hd ht
      simp only [Nat.zero_mod, if_true, zero_add]
      exact hinit j d t hj hd ht
    · intro j d t hj hd ht
      rw [etc_zero]
      exact hinit j d t hj hd ht
  · intro k st ⟨hE, hT⟩
    dsimp only
    simp only [ke_pairStep]
    simp only [ke_arcsFold (ke_arcStep (fun i j => ToBin.floorNat (distance_ij i j / c / dt)) fft p2o ((1 + k) % 2))]
    have hcur : ((1 + k) % 2 + 2 - 1) % 2 ≠ (1 + k) % 2 := by omega
    have hprev : ((1 + k) % 2 + 2 - 1) % 2 = k % 2 := by omega
    have hval : ∀ j d t, j < P → d < D → t < n_samples →
        List.foldl (ke_arcStep (fun i j => ToBin.floorNat (distance_ij i j / c / dt)) fft p2o ((1 + k) % 2))
          (fun p0 p1 p2 p3 p4 => if p0 = (1 + k) % 2 then 0 else st.1 p0 p1 p2 p3 p4)
          (arcsOf (List.map (fun ii => (vp ii 0, vp ii 1)) (List.range nVis))) ((1 + k) % 2) j d b t =
        orderH sc (k + 1) j d t := by
      intro j d t hj hd ht
      rw [ke_arcs_cur _ _ _ _ hcur, orderH_succ, hP, hD, hS, if_pos (show j < P ∧ d < D ∧ t < n_samples from ⟨hj, hd, ht⟩)]
      unfold stepF
      rw [harcs, if_pos rfl]
      have hcur' : ¬ (k % 2 = (1 + k) % 2) := by omega
      simp only [hprev, if_neg hcur']
      apply List.foldl_ext
      intro acc a ha
      have ha' : a ∈ sc.arcs := by rw [harcs]; exact (List.mem_filter.mp ha).1
      obtain ⟨h1, _, h3⟩ := hwf a ha'
      rw [hP] at h1
      rw [hD, hdir] at h3
      unfold contrib
      rw [hbin, hfft, hdir]
      dsimp only
      by_cases hle : ToBin.floorNat (distance_ij a.1 a.2 / c / dt) ≤ t
      · rw [if_pos hle, if_pos hle, hE _ _ _ h1 h3 (by omega)]
      · rw [if_neg hle, if_neg hle]
    have hcomm : (k + 1) % 2 = (1 + k) % 2 := by rw [Nat.add_comm]
    refine ⟨?_, ?_⟩
    · intro j d t hj hd ht
      rw [hcomm]
      exact hval j d t hj hd ht
    · intro j d t hj hd ht
      rw [hval j d t hj hd ht, etc_succ, hP, hD, hS, if_pos (show j < P ∧ d < D ∧ t < n_samples from ⟨hj, hd, ht⟩), hT j d t hj hd ht]

/-- `_collect_receiver_energy` as translated = the model's receiver kernel (`np.roll`, D3). -/
theorem collectReceiverEnergy_eq (P B S : Nat) (E : Nat → Nat → Nat → ℝ) (s0 : Nat) (dist : Nat → ℝ)
    (c dt : ℝ) (s1 : Nat) (att : Nat → ℝ) (i b t : Nat) (hi : i < P) (hb : b < B) :
    collectReceiverEnergy P B S E s0 dist c dt s1 att i b t =
      collectRollF S (fun i => ToBin.ceilNat (dist i / c / dt)) (fun i => Real.exp (-(att b) * dist i))
        (fun i t => E i b t) i t := by
  unfold collectReceiverEnergy collectRollF
  dsimp only
  have key : ∀ n, (List.range n).foldl (fun (st_ : Nat → Nat → Nat → ℝ) i =>
      (List.range B).foldl (fun (st_ : Nat → Nat → Nat → ℝ) j =>
        fun p0 p1 p2 => if p0 = i ∧ p1 = j then
          E i j ((p2 + S - ToBin.ceilNat (dist i / c / dt) % S) % S) * Transc.exp (-(att j) * dist i)
          else st_ p0 p1 p2) st_) (fun _ _ _ => 0) i b t =
      if i < n then E i b ((t + S - ToBin.ceilNat (dist i / c / dt) % S) % S) * Real.exp (-(att b) * dist i) else 0 := by
    intro n
    induction n with
    | zero => simp
    | succ n ih =>
      rw [ke_foldl_range_succ]
      rw [ke_foldl_range_set2 (fun i j p2 => E i j ((p2 + S - ToBin.ceilNat (dist i / c / dt) % S) % S) * Transc.exp (-(att j) * dist i))]
      rw [ih]
      by_cases h : i = n
      · subst h; simp [hb]
      · have : i < n + 1 ↔ i < n := by omega
        simp [h, this]
  rw [key P, if_pos hi]

end Sparrow

namespace Sparrow
open Sparrow.Generated.Kernels

/-- **Bands are independent in the translated source** (`_energy_exchange`): band `b` of the result
    depends on the initial energies and transfer factors of band `b` only — two calls whose data
    agree in band `b` (and share geometry, delays and index maps) agree in band `b`, for every
    order, histogram length and number of bands. -/
theorem energyExchange_band_local (n_samples P D B : Nat) (e0 e0' : Nat → Nat → Nat → ℝ)
    (s0 : Nat) (distance_0 : Nat → ℝ) (s1 s2 : Nat) (distance_ij : Nat → Nat → ℝ)
    (P' : Nat) (fft fft' : Nat → Nat → Nat → Nat → ℝ) (s3 s4 : Nat) (p2o : Nat → Nat → Nat)
    (c dt : ℝ) (K nVis s5 : Nat) (vp : Nat → Nat → Nat) (b : Nat)
    (he : ∀ j d, e0 j d b = e0' j d b) (hf : ∀ i j d, fft i j d b = fft' i j d b)
    (hwf : (exSceneOfArgs n_samples P D e0 distance_0 distance_ij fft p2o c dt nVis vp b).WF)
    (j d t : Nat) (hj : j < P) (hd : d < D) (ht : t < n_samples) :
    energyExchange n_samples P D B e0 s0 distance_0 s1 s2 distance_ij P P' D B fft s3 s4 p2o c dt K
        nVis s5 vp j d b t =
      energyExchange n_samples P D B e0' s0 distance_0 s1 s2 distance_ij P P' D B fft' s3 s4 p2o c dt K
        nVis s5 vp j d b t := by
  have hsc : exSceneOfArgs n_samples P D e0 distance_0 distance_ij fft p2o c dt nVis vp b =
      exSceneOfArgs n_samples P D e0' distance_0 distance_ij fft' p2o c dt nVis vp b := by
    unfold exSceneOfArgs
    congr 1
    · funext j d; exact he j d
    · funext i j d; exact hf i j d
  rw [energyExchange_eq n_samples P D B e0 s0 distance_0 s1 s2 distance_ij P' fft s3 s4 p2o c dt K nVis s5 vp b
        hwf j d t hj hd ht,
      energyExchange_eq n_samples P D B e0' s0 distance_0 s1 s2 distance_ij P' fft' s3 s4 p2o c dt K nVis s5 vp b
        (hsc ▸ hwf) j d t hj hd ht, hsc]

/-- … and in the translated receiver kernel: band `b` of the output depends on band `b` of the
    patch histograms and on the attenuation coefficient of band `b` only. -/
theorem collectReceiverEnergy_band_local (P B S : Nat) (E E' : Nat → Nat → Nat → ℝ) (s0 : Nat) (dist : Nat → ℝ)
    (c dt : ℝ) (s1 : Nat) (att att' : Nat → ℝ) (i b t : Nat) (hi : i < P) (hb : b < B)
    (hE : ∀ i t, E i b t = E' i b t) (ha : att b = att' b) :
    collectReceiverEnergy P B S E s0 dist c dt s1 att i b t =
      collectReceiverEnergy P B S E' s0 dist c dt s1 att' i b t := by
  rw [collectReceiverEnergy_eq P B S E s0 dist c dt s1 att i b t hi hb,
      collectReceiverEnergy_eq P B S E' s0 dist c dt s1 att' i b t hi hb]
  unfold collectRollF
  simp only [hE, ha]

end Sparrow
