import Sparrow.Proofs.LegKernelEquiv
import Sparrow.Proofs.PointFactorEquiv
/-
  The source leg and the receiver leg with NOTHING opaque but the visibility vector: the translated kernels applied to the
  translated `pt_solution` compute the model's formulas with the model's solid-angle factor.
-/
namespace Sparrow
open Sparrow.Generated.LegKernels Sparrow.Generated.PointFactor

/-- source leg, all of it translated: energy of patch `j` (a quadrilateral), band `b` -/
theorem source2patchEnergy_closed (thr : ℝ) (P B : Nat) (src : Nat → ℝ) (pc : Nat → Nat → ℝ) (pp : Nat → Nat → Nat → ℝ)
    (vis : Nat → Bool) (att : Option (Nat → ℝ)) (s0 s1 s2 s3 s4 : Nat) (j b : Nat) (hj : j < P) :
    (source2patchEnergyUniversal (fun p q => ptSolutionSource thr p q 4) 3 src P 3 pc s0 s1 s2 pp s3 vis s4 att B).1 j b =
      sourceEnergy (vis j) (Vec3.norm (Vec3.sub ⟨src 0, src 1, src 2⟩ ⟨pc j 0, pc j 1, pc j 2⟩)) (att.map fun a => a b)
        (ptSource thr (Vec3.ofFn src) (ptsOf (fun v q => pp j v q)) 4) := by
  rw [source2patchEnergy_eq (fun p q => ptSolutionSource thr p q 4) P B src pc pp vis att s0 s1 s2 s3 s4 j b hj,
    ptSolutionSource_eq]

/-- receiver leg, all of it translated -/
theorem patch2receiverEnergy_closed (thr : ℝ) (P : Nat) (rec : Nat → ℝ) (pp : Nat → Nat → Nat → ℝ) (vis : Nat → Bool)
    (s0 s1 s2 s3 : Nat) (i : Nat) (hi : i < P) :
    patch2receiverEnergyUniversal (fun p q => ptSolutionReceiver thr p q 4) s0 rec P s1 s2 pp s3 vis i =
      if vis i then ptReceiver thr (Vec3.ofFn rec) (ptsOf (fun v q => pp i v q)) 4 else 0 := by
  rw [patch2receiverEnergy_eq (fun p q => ptSolutionReceiver thr p q 4) P rec pp vis s0 s1 s2 s3 i hi, ptSolutionReceiver_eq]

end Sparrow
