import Sparrow.Model.Lifecycle

namespace Sparrow.Life

/-- Two objects that differ at most in the unsaved `_source` attribute. -/
def agreeModSource (a b : St) : Prop := { a with source := Term.none } = { b with source := Term.none }

def Op.isSetter : Op → Bool
  | .setBrdf _ _ => true
  | .setAtt _ => true
  | _ => false

/-! ### Helpers

  NOTE.  The proofs treat the tests `t.isNone` as uninterpreted Booleans (case split on their
  value): the statements up to `matEq_step` hold for any interpretation of the test. -/

/-- `s` with the derived ("tail") attributes of `t`. -/
def setTail (s t : St) : St :=
  { s with vis := t.vis, visible := t.visible, ff := t.ff, fft := t.fft, p2o := t.p2o, c := t.c,
           dt := t.dt, dur := t.dur, d0 := t.d0, e0 := t.e0, etc := t.etc, source := t.source }

theorem freqFix (t c : Term) :
    (if (if t.isNone = true then c else t).isNone = true then c
      else (if t.isNone = true then c else t)) = (if t.isNone = true then c else t) := by
  cases h : t.isNone <;> simp [h]

def dflt1 (s : St) : St :=
  if s.dirsIn.isSome then s else
    let f := if s.freq.isNone then Term.inp "F0" else s.freq
    { setBrdfT { s with freq := f } (List.range s.W) (.app "ones" [f]) "default" with freq := f }

def dflt2 (s1 : St) : St :=
  if s1.att.isNone then
    let f := if s1.freq.isNone then Term.inp "F0" else s1.freq
    { s1 with att := .app "zeros" [f], freq := f }
  else s1

theorem installDefaults_eq (s : St) : installDefaults s = dflt2 (dflt1 s) := rfl

theorem dflt1_tail (s t : St) : dflt1 (setTail s t) = setTail (dflt1 s) t := by
  unfold dflt1
  by_cases h : s.dirsIn.isSome = true
  · have h' : (setTail s t).dirsIn.isSome = true := h
    rw [if_pos h, if_pos h']
  · have h' : ¬ (setTail s t).dirsIn.isSome = true := h
    rw [if_neg h, if_neg h']; rfl

theorem dflt2_tail (s t : St) : dflt2 (setTail s t) = setTail (dflt2 s) t := by
  unfold dflt2
  by_cases h : s.att.isNone = true
  · have h' : (setTail s t).att.isNone = true := h
    rw [if_pos h, if_pos h']; rfl
  · have h' : ¬ (setTail s t).att.isNone = true := h
    rw [if_neg h, if_neg h']

theorem installDefaults_tail (s t : St) :
    installDefaults (setTail s t) = setTail (installDefaults s) t := by
  rw [installDefaults_eq, installDefaults_eq, dflt1_tail, dflt2_tail]

theorem dflt1_isSome (s : St) : (dflt1 s).dirsIn.isSome = true := by
  unfold dflt1
  by_cases h : s.dirsIn.isSome = true
  · rw [if_pos h]; exact h
  · rw [if_neg h]; rfl

theorem dflt1_idem (s : St) (h : s.dirsIn.isSome = true) : dflt1 s = s := by
  unfold dflt1; rw [if_pos h]

theorem dflt2_dirsIn (s : St) : (dflt2 s).dirsIn = s.dirsIn := by
  unfold dflt2; split <;> rfl

theorem dflt2_idem (s : St) : dflt2 (dflt2 s) = dflt2 s := by
  by_cases h : s.att.isNone = true
  · generalize hf : (if s.freq.isNone then Term.inp "F0" else s.freq) = f
    have hff : (if f.isNone then Term.inp "F0" else f) = f := by
      rw [← hf]; exact freqFix _ _
    have e : dflt2 s = { s with att := .app "zeros" [f], freq := f } := by
      unfold dflt2; rw [if_pos h, ← hf]
    rw [e]
    unfold dflt2
    split
    · simp only [hff]
    · rfl
  · have e : dflt2 s = s := by unfold dflt2; rw [if_neg h]
    rw [e, e]

theorem installDefaults_self_tail (s : St) : installDefaults s = setTail (installDefaults s) s :=
  (installDefaults_tail s s)

theorem installDefaults_source (s : St) (x : Term) :
    installDefaults { s with source := x } = { installDefaults s with source := x } :=
  calc installDefaults { s with source := x }
      = setTail (installDefaults s) { s with source := x } := installDefaults_tail s { s with source := x }
    _ = { setTail (installDefaults s) s with source := x } := rfl
    _ = { installDefaults s with source := x } := by rw [← installDefaults_self_tail]

def initCore (s1 : St) (src : String) : St :=
  { s1 with
    source := .inp src
    d0 := .app "d0" [s1.geom, .inp src]
    e0 := .app "e0" ([s1.geom, .inp src, s1.att, s1.freq] ++ effAll s1 ++ (s1.dirsIn.getD []) ++ (s1.dirsOut.getD [])) }

theorem init_eq (s : St) (src : String) : init s src = initCore (installDefaults s) src := rfl

theorem init_source (s : St) (x : Term) (src : String) : init { s with source := x } src = init s src := by
  rw [init_eq, init_eq, installDefaults_source]; rfl

theorem bake_source (s : St) (x : Term) : bake { s with source := x } = { bake s with source := x } := by
  cases s with
  | mk W geom freq brdf index dirsIn dirsOut att vis visible ff fft p2o c dt dur d0 e0 etc source =>
  cases dirsIn <;> cases dirsOut <;> rfl

theorem step_source (s : St) (x : Term) (op : Op) :
    { step { s with source := x } op with source := Term.none } = { step s op with source := Term.none } := by
  cases op with
  | init src => simp only [step]; rw [init_source]
  | bake => simp only [step]; rw [bake_source]
  | exchange p z r =>
    simp only [step, exchange]
    by_cases hc : (s.etc.isNone || r) = true
    · rw [if_pos hc, if_pos hc]
    · rw [if_neg hc, if_neg hc]
  | _ => rfl

theorem agree_step (a b : St) (h : agreeModSource a b) (op : Op) :
    agreeModSource (step a op) (step b op) := by
  unfold agreeModSource at *
  rw [← step_source a Term.none, ← step_source b Term.none, h]

theorem agree_run (ops : List Op) : ∀ (a b : St), agreeModSource a b →
    agreeModSource (run a ops) (run b ops) := by
  induction ops with
  | nil => intro a b h; exact h
  | cons op ops ih => intro a b h; exact ih _ _ (agree_step a b h op)

theorem agree_init (a b : St) (h : agreeModSource a b) (src : String) : init a src = init b src := by
  rw [← init_source a Term.none, ← init_source b Term.none]; unfold agreeModSource at h; rw [h]

theorem agree_run_init (ops : List Op) : ∀ (a b : St), agreeModSource a b →
    (∃ src, Op.init src ∈ ops) → run a ops = run b ops := by
  induction ops with
  | nil => intro a b _ ⟨src, hm⟩; cases hm
  | cons op ops ih =>
    intro a b h ⟨src, hm⟩
    by_cases hop : ∃ s', op = Op.init s'
    · obtain ⟨s', rfl⟩ := hop
      show run (init a s') ops = run (init b s') ops
      rw [agree_init a b h]
    · have : Op.init src ∈ ops := by
        rcases List.mem_cons.mp hm with h1 | h1
        · exact absurd ⟨src, h1.symm⟩ hop
        · exact h1
      exact ih _ _ (agree_step a b h op) ⟨src, this⟩

/-! ### C15 — save / restore -/

/-- Continuing after a save/restore: whatever operations follow (setters, bake, init, exchange,
    further save/restores), the restored object and the original differ at most in `_source`. -/
theorem restored_continues (s : St) (ops : List Op) :
    agreeModSource (run s ops) (run (saveRestore s) ops) :=
  agree_run ops _ _ rfl

/-- … and not even there once a source has been initialised after the restore. -/
theorem restored_continues_after_init (s : St) (ops : List Op) (h : ∃ src, Op.init src ∈ ops) :
    run s ops = run (saveRestore s) ops :=
  agree_run_init ops _ _ rfl h

/-- Receiver collection does not look at `_source`: identical observations. -/
theorem restored_collect_same (s : St) (ops : List Op) (recv : String) :
    obsCollect (run s ops) recv = obsCollect (run (saveRestore s) ops) recv := by
  have h := restored_continues s ops
  unfold agreeModSource at h
  have e : ∀ a : St, obsCollect a recv = obsCollect { a with source := Term.none } recv := fun _ => rfl
  rw [e (run s ops), e (run (saveRestore s) ops), h]

/-! ### C16 — results depend only on the final configuration -/

theorem bake_idem (s : St) : bake (bake s) = bake s := by
  cases s with
  | mk W geom freq brdf index dirsIn dirsOut att vis visible ff fft p2o c dt dur d0 e0 etc source =>
  cases dirsIn <;> cases dirsOut <;> rfl

theorem installDefaults_idem (s : St) : installDefaults (installDefaults s) = installDefaults s := by
  rw [installDefaults_eq, installDefaults_eq]
  rw [dflt1_idem (dflt2 (dflt1 s)) (by rw [dflt2_dirsIn]; exact dflt1_isSome s), dflt2_idem]

theorem installDefaults_init (s : St) (a : String) : installDefaults (init s a) = init s a := by
  have e : init s a = setTail (installDefaults s) (init s a) := rfl
  calc installDefaults (init s a) = installDefaults (setTail (installDefaults s) (init s a)) := by rw [← e]
    _ = setTail (installDefaults s) (init s a) := by rw [installDefaults_tail, installDefaults_idem]
    _ = init s a := e.symm

theorem init_init (s : St) (a b : String) : init (init s a) b = init s b := by
  rw [init_eq (init s a), installDefaults_init]; rfl

theorem exchange_idem (s : St) (p : String) (z r : Bool) :
    exchange (exchange s p z r) p z r = exchange s p z r := by
  unfold exchange
  cases r <;> cases h : s.etc.isNone <;> simp [h]

theorem setAtt_idem (s : St) (a : String) : setAtt (setAtt s a) a = setAtt s a := by
  cases h : s.freq.isNone <;> simp [setAtt, h]

/-- Repeating a stage with the same arguments changes nothing. -/
theorem stage_idempotent (s : St) (op : Op)
    (h : op = .bake ∨ (∃ src, op = .init src) ∨ (∃ p z r, op = .exchange p z r) ∨ (∃ a, op = .setAtt a) ∨
      op = .saveRestore) :
    step (step s op) op = step s op := by
  rcases h with rfl | ⟨src, rfl⟩ | ⟨p, z, r, rfl⟩ | ⟨a, rfl⟩ | rfl
  · exact bake_idem s
  · exact init_init s src src
  · exact exchange_idem s p z r
  · exact setAtt_idem s a
  · rfl

/-- One source/exchange cycle of a history: the source is initialised one or more times,
    then the exchange is computed one or more times with `recalculate=True` (possibly with
    different parameters; the last call is the configuration in force). -/
structure Cycle where
  src : String
  extraInits : Nat
  exchanges : List (String × Bool)
  lastPar : String
  lastZero : Bool

def Cycle.ops (c : Cycle) : List Op :=
  List.replicate (c.extraInits + 1) (Op.init c.src) ++
    c.exchanges.map (fun p => Op.exchange p.1 p.2 true) ++ [Op.exchange c.lastPar c.lastZero true]

/-- A history of the grammar  `setters* ; bake+ ; (init+ ; exchange(recalc)+)*`. -/
structure Hist where
  setters : List Op
  extraBakes : Nat
  cycles : List Cycle
  last : Cycle

def Hist.ops (h : Hist) : List Op :=
  h.setters ++ List.replicate (h.extraBakes + 1) Op.bake ++ h.cycles.flatMap Cycle.ops ++ h.last.ops

/-- The fresh object configured the same way: same setters, one bake, one init, one exchange. -/
def Hist.canonical (h : Hist) : List Op :=
  h.setters ++ [Op.bake, Op.init h.last.src, Op.exchange h.last.lastPar h.last.lastZero true]


/-- `s` with the exchange outputs (`etc`, `c`, `dt`, `dur`) of `t`. -/
def withX (s t : St) : St := { s with etc := t.etc, c := t.c, dt := t.dt, dur := t.dur }

theorem run_append (s : St) (l1 l2 : List Op) : run s (l1 ++ l2) = run (run s l1) l2 := by
  unfold run; rw [List.foldl_append]

theorem run_cons (s : St) (op : Op) (l : List Op) : run s (op :: l) = run (step s op) l := rfl

/-- with `recalculate=True` the histogram and its parameters are always rewritten -/
theorem exchange_true (s : St) (p : String) (z : Bool) :
    exchange s p z true =
      { s with
        etc := if z then Term.app "etc0" [s.e0, s.d0, .inp p]
          else Term.app "etc" [s.e0, s.d0, s.geom, s.fft, s.p2o, s.visible, .inp p]
        c := .app "c" [.inp p], dt := .app "dt" [.inp p], dur := .app "dur" [.inp p] } := by
  unfold exchange; rw [Bool.or_true, if_pos rfl]

/-- an exchange touches at most the exchange outputs -/
theorem exchange_eq_withX (s : St) (p : String) (z r : Bool) :
    exchange s p z r = withX s (exchange s p z r) := by
  unfold exchange; split <;> rfl

theorem exchange_withX (s t : St) (p : String) (z : Bool) :
    exchange (withX s t) p z true = exchange s p z true := by
  rw [exchange_true, exchange_true]; rfl

theorem init_withX (s t : St) (src : String) : init (withX s t) src = withX (init s src) t := by
  have e : withX s t = setTail s (withX s t) := rfl
  have hm : installDefaults s = setTail (installDefaults s) s := installDefaults_self_tail s
  rw [e, init_eq, init_eq, installDefaults_tail]
  generalize installDefaults s = m at hm ⊢
  conv => rhs; rw [hm]
  rfl

theorem run_bakes (n : Nat) : ∀ s : St, run s (List.replicate (n + 1) Op.bake) = bake s := by
  induction n with
  | zero => intro s; rfl
  | succ n ih => intro s; rw [List.replicate_succ, run_cons, ih]; exact bake_idem s

theorem run_inits (n : Nat) (src : String) : ∀ s : St,
    run s (List.replicate (n + 1) (Op.init src)) = init s src := by
  induction n with
  | zero => intro s; rfl
  | succ n ih => intro s; rw [List.replicate_succ, run_cons, ih]; exact init_init s src src

theorem run_exchanges (l : List (String × Bool)) : ∀ s : St,
    ∃ t, run s (l.map (fun p => Op.exchange p.1 p.2 true)) = withX s t := by
  induction l with
  | nil => intro s; exact ⟨s, rfl⟩
  | cons p l ih =>
    intro s
    obtain ⟨t, ht⟩ := ih (exchange s p.1 p.2 true)
    refine ⟨t, ?_⟩
    rw [List.map_cons, run_cons]
    show run (exchange s p.1 p.2 true) _ = _
    rw [ht, exchange_eq_withX s p.1 p.2 true]; rfl

theorem run_cycle (c : Cycle) (s : St) :
    run s c.ops = exchange (init s c.src) c.lastPar c.lastZero true := by
  unfold Cycle.ops
  rw [run_append, run_append, run_inits]
  obtain ⟨t, ht⟩ := run_exchanges c.exchanges (init s c.src)
  rw [ht]
  exact exchange_withX _ _ _ _

/-- invariant of the cycle loop: initialising a source gives the state obtained from `b`, up
    to the exchange outputs -/
def cycInv (t b : St) : Prop := ∀ src, ∃ u, init t src = withX (init b src) u

theorem cycInv_cycle (c : Cycle) (t b : St) (h : cycInv t b) : cycInv (run t c.ops) b := by
  intro src'
  obtain ⟨u, hu⟩ := h src'
  rw [run_cycle]
  have e : exchange (init t c.src) c.lastPar c.lastZero true
      = withX (init t c.src) (exchange (init t c.src) c.lastPar c.lastZero true) :=
    exchange_eq_withX _ _ _ _
  rw [e, init_withX, init_init, hu]
  exact ⟨_, rfl⟩

theorem cycInv_cycles (cs : List Cycle) : ∀ (t b : St), cycInv t b →
    cycInv (run t (cs.flatMap Cycle.ops)) b := by
  induction cs with
  | nil => intro t b h; exact h
  | cons c cs ih =>
    intro t b h
    rw [List.flatMap_cons, run_append]
    exact ih _ _ (cycInv_cycle c t b h)

/-- **Results depend only on the configuration in force, not on the call history**: the
    whole state (hence every histogram and every receiver curve) after any history of the
    grammar equals the state of a fresh object configured the same way. -/
theorem config_determines (W : Nat) (g : String) (h : Hist)
    (hset : ∀ o ∈ h.setters, o.isSetter = true) :
    run (fresh W g) h.ops = run (fresh W g) h.canonical := by
  have _ := hset
  unfold Hist.ops Hist.canonical
  rw [run_append, run_append, run_append, run_append, run_bakes]
  generalize run (fresh W g) h.setters = s0
  have hinv : cycInv (run (bake s0) (h.cycles.flatMap Cycle.ops)) (bake s0) :=
    cycInv_cycles _ _ _ (fun src => ⟨_, rfl⟩)
  rw [run_cycle]
  obtain ⟨u, hu⟩ := hinv h.last.src
  rw [hu, exchange_withX]
  rfl

/-- Same materials: same per-wall effective tables, direction sets, attenuation and
    frequencies, and everything else identical — the private numbering `_brdf`/`_brdf_index`
    may differ. -/
def matEq (a b : St) : Prop :=
  effAll a = effAll b ∧
    { a with brdf := [], index := none } = { b with brdf := [], index := none }


/-- Setting attenuation and a wall BRDF commute exactly. -/
theorem setAtt_setBrdf_comm (s : St) (a : String) (walls : List Nat) (m : String) :
    setAtt (setBrdf s walls m) a = setBrdf (setAtt s a) walls m := by
  cases h : s.freq.isNone <;> simp [setAtt, setBrdf, setBrdfT, h]

/-! #### `set_wall_brdf` on disjoint wall sets -/

theorem setAll_length {β : Type} (l : List β) (idx : List Nat) (f : Nat → β) :
    (setAll l idx f).length = l.length := by
  simp [setAll]

theorem setAll_getD {β : Type} (l : List β) (idx : List Nat) (f : Nat → β) (i : Nat) (d : β)
    (hi : i < l.length) :
    (setAll l idx f).getD i d = if i ∈ idx then f i else l.getD i d := by
  simp [setAll, List.getD_eq_getElem?_getD, hi]

theorem setAll_comm {β : Type} (l : List β) (w1 w2 : List Nat) (f1 f2 : Nat → β)
    (hdisj : ∀ w, w ∈ w1 → w ∉ w2) :
    setAll (setAll l w1 f1) w2 f2 = setAll (setAll l w2 f2) w1 f1 := by
  apply List.ext_getElem
  · simp [setAll_length]
  · intro i h1 h2
    have hi : i < l.length := by simpa [setAll_length] using h1
    have e1 := setAll_getD (setAll l w1 f1) w2 f2 i (f1 i) (by simpa [setAll_length] using hi)
    have e2 := setAll_getD (setAll l w2 f2) w1 f1 i (f1 i) (by simpa [setAll_length] using hi)
    rw [List.getElem_eq_getD (f1 i), List.getElem_eq_getD (f1 i), e1, e2, setAll_getD _ _ _ _ _ hi, setAll_getD _ _ _ _ _ hi]
    by_cases a1 : i ∈ w1 <;> by_cases a2 : i ∈ w2 <;> simp [a1, a2]
    exact absurd a2 (hdisj i a1)


theorem tableAt_nat (B : List Term) (n : Nat) : tableAt B (n : Int) = B.getD n .none := by
  simp [tableAt]

theorem tableAt_set2 (ix0 : List Int) (br0 : List Term) (T1 T2 : Term) (w1 w2 : List Nat) (w : Nat)
    (hw : w < ix0.length)
    (hin : w ∉ w1 → w ∉ w2 → 0 ≤ ix0.getD w (-1) ∧ ix0.getD w (-1) < br0.length) :
    tableAt (br0 ++ [T1] ++ [T2])
      ((setAll (setAll ix0 w1 fun _ => ((br0 ++ [T1]).length : Int) - 1) w2
          fun _ => ((br0 ++ [T1] ++ [T2]).length : Int) - 1).getD w (-1))
      = if w ∈ w2 then T2 else if w ∈ w1 then T1 else br0.getD (ix0.getD w (-1)).toNat .none := by
  rw [setAll_getD _ _ _ _ _ (by simpa [setAll_length] using hw), setAll_getD _ _ _ _ _ hw]
  have e1 : ((br0 ++ [T1]).length : Int) - 1 = ((br0.length : Nat) : Int) := by simp
  have e2 : ((br0 ++ [T1] ++ [T2]).length : Int) - 1 = ((br0.length + 1 : Nat) : Int) := by
    simp; omega
  rw [e1, e2]
  by_cases a2 : w ∈ w2
  · rw [if_pos a2, if_pos a2, tableAt_nat]
    simp
  · rw [if_neg a2, if_neg a2]
    by_cases a1 : w ∈ w1
    · rw [if_pos a1, if_pos a1, tableAt_nat]
      simp
    · rw [if_neg a1, if_neg a1]
      obtain ⟨h0, h1⟩ := hin a1 a2
      generalize ix0.getD w (-1) = k at h0 h1
      obtain ⟨n, rfl⟩ := Int.eq_ofNat_of_zero_le h0
      rw [tableAt_nat]
      have : n < br0.length := by omega
      simp [List.getElem?_append_left, this]


/-- index list / table list a `set_wall_brdf` call starts from -/
def ix0 (s : St) : List Int :=
  if s.dirsIn.isSome then s.index.getD (List.replicate s.W (-1)) else List.replicate s.W (-1)
def br0 (s : St) : List Term := if s.dirsIn.isSome then s.brdf else []

def dirIn (g : Term) (m : String) : Nat → Term := fun i => .app "rot" [g, .inp (toString i), .inp (m ++ ".in")]
def dirOut (g : Term) (m : String) : Nat → Term := fun i => .app "rot" [g, .inp (toString i), .inp (m ++ ".out")]

/-- normal form of two successive `set_wall_brdf` calls -/
def set2 (s : St) (w1 w2 : List Nat) (m1 m2 : String) : St :=
  let f1 := if s.freq.isNone then Term.inp "F" else s.freq
  { s with
    freq := if f1.isNone then Term.inp "F" else f1
    dirsIn := some (setAll (setAll (s.dirsIn.getD (List.replicate s.W .none)) w1 (dirIn s.geom m1)) w2 (dirIn s.geom m2))
    dirsOut := some (setAll (setAll (s.dirsOut.getD (List.replicate s.W .none)) w1 (dirOut s.geom m1)) w2 (dirOut s.geom m2))
    brdf := br0 s ++ [Term.app "pi*" [.inp m1]] ++ [Term.app "pi*" [.inp m2]]
    index := some (setAll (setAll (ix0 s) w1 fun _ => ((br0 s ++ [Term.app "pi*" [.inp m1]]).length : Int) - 1) w2
        fun _ => ((br0 s ++ [Term.app "pi*" [.inp m1]] ++ [Term.app "pi*" [.inp m2]]).length : Int) - 1) }

theorem setBrdf_setBrdf (s : St) (w1 w2 : List Nat) (m1 m2 : String) :
    setBrdf (setBrdf s w1 m1) w2 m2 = set2 s w1 w2 m1 m2 := rfl


theorem effAll_set2 (s : St) (w1 w2 : List Nat) (m1 m2 : String) :
    effAll (set2 s w1 w2 m1 m2) = (List.range s.W).map fun w =>
      tableAt (br0 s ++ [Term.app "pi*" [.inp m1]] ++ [Term.app "pi*" [.inp m2]])
        ((setAll (setAll (ix0 s) w1 fun _ => ((br0 s ++ [Term.app "pi*" [.inp m1]]).length : Int) - 1) w2
          fun _ => ((br0 s ++ [Term.app "pi*" [.inp m1]] ++ [Term.app "pi*" [.inp m2]]).length : Int) - 1).getD w (-1)) :=
  rfl

/-- The original statement (without `hixlen`) is false. -/
theorem setBrdf_comm_counterexample :
    ¬ ∀ (s : St) (w1 w2 : List Nat) (m1 m2 : String)
      (_ : ∀ w, w ∈ w1 → w ∉ w2)
      (_ : ∀ w, w < s.W → w ∈ w1 ∨ w ∈ w2 ∨
        (s.dirsIn.isSome = true ∧ ∃ ix, s.index = some ix ∧ 0 ≤ ix.getD w (-1) ∧ ix.length = s.W))
      (_ : s.dirsIn.isSome = true → (s.dirsIn.getD []).length = s.W ∧ (s.dirsOut.getD []).length = s.W ∧
        s.dirsOut.isSome = true ∧ ∀ ix, s.index = some ix → ∀ w, w < s.W → ix.getD w (-1) < s.brdf.length),
      matEq (setBrdf (setBrdf s w1 m1) w2 m2) (setBrdf (setBrdf s w2 m2) w1 m1) := by
  intro h
  have := h { fresh 1 "g" with dirsIn := some [.none], dirsOut := some [.none], index := some [] }
    [0] [] "a" "b" (by simp) (by simp [fresh]) (by simp [fresh])
  have h1 := this.1
  simp [effAll, eff, setBrdf, setBrdfT, fresh, setAll, tableAt] at h1

/-- Two `set_wall_brdf` calls on disjoint wall sets commute up to the private numbering,
    provided every wall has a table afterwards (walls inside the room, the remaining walls
    already set).

    The statement as originally written (without `hixlen`) is FALSE, see
    `setBrdf_comm_counterexample`: with `W = 1`, materials installed but a stored index list
    shorter than `W` (`index = some []`), `w1 = [0]`, `w2 = []`, wall 0 reads `_brdf[-1]`,
    i.e. the table appended *last*, which depends on the call order. -/
theorem setBrdf_comm (s : St) (w1 w2 : List Nat) (m1 m2 : String)
    (hdisj : ∀ w, w ∈ w1 → w ∉ w2)
    (hcover : ∀ w, w < s.W → w ∈ w1 ∨ w ∈ w2 ∨
      (s.dirsIn.isSome = true ∧ ∃ ix, s.index = some ix ∧ 0 ≤ ix.getD w (-1) ∧ ix.length = s.W))
    (hlen : s.dirsIn.isSome = true → (s.dirsIn.getD []).length = s.W ∧ (s.dirsOut.getD []).length = s.W ∧
      s.dirsOut.isSome = true ∧ ∀ ix, s.index = some ix → ∀ w, w < s.W → ix.getD w (-1) < s.brdf.length)
    -- ADDED HYPOTHESIS: if materials are installed, the stored index list covers every wall
    (hixlen : s.dirsIn.isSome = true → ∀ ix, s.index = some ix → s.W ≤ ix.length) :
    matEq (setBrdf (setBrdf s w1 m1) w2 m2) (setBrdf (setBrdf s w2 m2) w1 m1) := by
  rw [setBrdf_setBrdf, setBrdf_setBrdf]
  have hdisj' : ∀ w, w ∈ w2 → w ∉ w1 := fun w h2 h1 => hdisj w h1 h2
  have hW : s.W ≤ (ix0 s).length := by
    unfold ix0
    by_cases hs : s.dirsIn.isSome = true
    · rw [if_pos hs]
      cases hi : s.index with
      | none => simp
      | some ix => simpa using hixlen hs ix hi
    · rw [if_neg hs]; simp
  have hin : ∀ w, w < s.W → w ∉ w1 → w ∉ w2 →
      0 ≤ (ix0 s).getD w (-1) ∧ (ix0 s).getD w (-1) < (br0 s).length := by
    intro w hw a1 a2
    rcases hcover w hw with h | h | ⟨hs, ix, hi, h0, _⟩
    · exact absurd h a1
    · exact absurd h a2
    · have hb := (hlen hs).2.2.2 ix hi w hw
      unfold ix0 br0
      rw [if_pos hs, if_pos hs, hi]
      exact ⟨h0, hb⟩
  constructor
  · rw [effAll_set2, effAll_set2]
    apply List.map_congr_left
    intro w hw
    have hw' : w < s.W := List.mem_range.mp hw
    rw [tableAt_set2 _ _ _ _ _ _ _ (Nat.lt_of_lt_of_le hw' hW) (hin w hw'),
      tableAt_set2 _ _ _ _ _ _ _ (Nat.lt_of_lt_of_le hw' hW) (fun a2 a1 => hin w hw' a1 a2)]
    by_cases a1 : w ∈ w1 <;> by_cases a2 : w ∈ w2 <;> simp [a1, a2]
    exact absurd a2 (hdisj w a1)
  · simp only [set2]
    rw [setAll_comm _ w1 w2 _ _ hdisj, setAll_comm _ w1 w2 _ _ hdisj]

/-! #### same materials are preserved by the non-setter stages -/

theorem matEq_dflt1 (a b : St) (h : matEq a b) : matEq (dflt1 a) (dflt1 b) := by
  cases a with
  | mk W geom freq brdf index dirsIn dirsOut att vis visible ff fft p2o c dt dur d0 e0 etc source =>
  cases b with
  | mk W' geom' freq' brdf' index' dirsIn' dirsOut' att' vis' visible' ff' fft' p2o' c' dt' dur' d0' e0' etc' source' =>
  obtain ⟨h1, h2⟩ := h
  simp only [St.mk.injEq, true_and] at h2
  obtain ⟨rfl, rfl, rfl, rfl, rfl, rfl, rfl, rfl, rfl, rfl, rfl, rfl, rfl, rfl, rfl, rfl, rfl, rfl⟩ := h2
  cases dirsIn with
  | some d => exact ⟨h1, rfl⟩
  | none => exact ⟨rfl, rfl⟩

theorem matEq_dflt2 (a b : St) (h : matEq a b) : matEq (dflt2 a) (dflt2 b) := by
  cases a with
  | mk W geom freq brdf index dirsIn dirsOut att vis visible ff fft p2o c dt dur d0 e0 etc source =>
  cases b with
  | mk W' geom' freq' brdf' index' dirsIn' dirsOut' att' vis' visible' ff' fft' p2o' c' dt' dur' d0' e0' etc' source' =>
  obtain ⟨h1, h2⟩ := h
  simp only [St.mk.injEq, true_and] at h2
  obtain ⟨rfl, rfl, rfl, rfl, rfl, rfl, rfl, rfl, rfl, rfl, rfl, rfl, rfl, rfl, rfl, rfl, rfl, rfl⟩ := h2
  unfold dflt2
  by_cases hc : att.isNone = true
  · rw [if_pos hc, if_pos hc]; exact ⟨h1, rfl⟩
  · rw [if_neg hc, if_neg hc]; exact ⟨h1, rfl⟩


theorem matEq_installDefaults (a b : St) (h : matEq a b) :
    matEq (installDefaults a) (installDefaults b) := by
  rw [installDefaults_eq, installDefaults_eq]
  exact matEq_dflt2 _ _ (matEq_dflt1 _ _ h)

theorem matEq_initCore (a b : St) (h : matEq a b) (src : String) :
    matEq (initCore a src) (initCore b src) := by
  cases a with
  | mk W geom freq brdf index dirsIn dirsOut att vis visible ff fft p2o c dt dur d0 e0 etc source =>
  cases b with
  | mk W' geom' freq' brdf' index' dirsIn' dirsOut' att' vis' visible' ff' fft' p2o' c' dt' dur' d0' e0' etc' source' =>
  obtain ⟨h1, h2⟩ := h
  simp only [St.mk.injEq, true_and] at h2
  obtain ⟨rfl, rfl, rfl, rfl, rfl, rfl, rfl, rfl, rfl, rfl, rfl, rfl, rfl, rfl, rfl, rfl, rfl, rfl⟩ := h2
  refine ⟨h1, ?_⟩
  simp only [initCore]
  rw [h1]

theorem matEq_bake (a b : St) (h : matEq a b) : matEq (bake a) (bake b) := by
  cases a with
  | mk W geom freq brdf index dirsIn dirsOut att vis visible ff fft p2o c dt dur d0 e0 etc source =>
  cases b with
  | mk W' geom' freq' brdf' index' dirsIn' dirsOut' att' vis' visible' ff' fft' p2o' c' dt' dur' d0' e0' etc' source' =>
  obtain ⟨h1, h2⟩ := h
  simp only [St.mk.injEq, true_and] at h2
  obtain ⟨rfl, rfl, rfl, rfl, rfl, rfl, rfl, rfl, rfl, rfl, rfl, rfl, rfl, rfl, rfl, rfl, rfl, rfl⟩ := h2
  cases dirsIn <;> cases dirsOut
  · exact ⟨h1, rfl⟩
  · exact ⟨h1, rfl⟩
  · exact ⟨h1, rfl⟩
  · refine ⟨h1, ?_⟩
    simp only [bake]
    rw [h1]

theorem matEq_exchange (a b : St) (h : matEq a b) (p : String) (z r : Bool) :
    matEq (exchange a p z r) (exchange b p z r) := by
  cases a with
  | mk W geom freq brdf index dirsIn dirsOut att vis visible ff fft p2o c dt dur d0 e0 etc source =>
  cases b with
  | mk W' geom' freq' brdf' index' dirsIn' dirsOut' att' vis' visible' ff' fft' p2o' c' dt' dur' d0' e0' etc' source' =>
  obtain ⟨h1, h2⟩ := h
  simp only [St.mk.injEq, true_and] at h2
  obtain ⟨rfl, rfl, rfl, rfl, rfl, rfl, rfl, rfl, rfl, rfl, rfl, rfl, rfl, rfl, rfl, rfl, rfl, rfl⟩ := h2
  unfold exchange
  by_cases hc : (etc.isNone || r) = true
  · rw [if_pos hc, if_pos hc]; exact ⟨h1, rfl⟩
  · rw [if_neg hc, if_neg hc]; exact ⟨h1, rfl⟩

theorem matEq_saveRestore (a b : St) (h : matEq a b) : matEq (saveRestore a) (saveRestore b) := by
  obtain ⟨h1, h2⟩ := h
  refine ⟨h1, ?_⟩
  show { ({ a with brdf := [], index := none } : St) with source := Term.none } = { ({ b with brdf := [], index := none } : St) with source := Term.none }
  rw [h2]

/-- Everything downstream reads the materials only through the effective tables: objects with
    the same materials stay so under bake / init / exchange / save-restore. -/
theorem matEq_step (a b : St) (h : matEq a b) (op : Op) (hop : op.isSetter = false) :
    matEq (step a op) (step b op) := by
  cases op with
  | setBrdf w m => cases hop
  | setAtt x => cases hop
  | bake => exact matEq_bake a b h
  | init src => exact matEq_initCore _ _ (matEq_installDefaults a b h) src
  | exchange p z r => exact matEq_exchange a b h p z r
  | saveRestore => exact matEq_saveRestore a b h

/-! ### D8 — the source is not saved -/

/-- D8 witness: after the exchange, the original object can compute the direct sound, the restored one cannot (the source is not saved). -/
theorem direct_sound_lost_on_restore :
    ∃ (s : St) (recv : String), (obsDirect s recv).isSome = true ∧ (obsDirect (saveRestore s) recv).isSome = false :=
  ⟨run (fresh 1 "g") [.bake, .init "a", .exchange "p" false true], "r", rfl, rfl⟩

/-- … and it is available again, identical, as soon as a source is initialised after the restore. -/
theorem direct_sound_after_reinit (s : St) (ops : List Op) (recv : String) (h : ∃ src, Op.init src ∈ ops) :
    obsDirect (run s ops) recv = obsDirect (run (saveRestore s) ops) recv := by
  rw [← restored_continues_after_init s ops h]

/-- After any source initialisation followed by exchanges the object can be observed: the receiver collection term is built from a non-none histogram. -/
theorem exchange_sets_etc (s : St) (p : String) (z : Bool) : ((exchange s p z true).etc).isNone = false := by
  cases z <;> simp [exchange, Term.isNone]

end Sparrow.Life

/-! ### the stored parameters describe the stored histogram (D14) -/
namespace Sparrow.Life

/-- the parameter set a histogram term was computed with -/
def etcParam : Term → Option String
  | .app "etc0" [_, _, .inp p] => some p
  | .app "etc" [_, _, _, _, _, _, .inp p] => some p
  | _ => none

/-- either no histogram is stored, or speed of sound, resolution and duration are the ones the
    stored histogram was computed with — what `check()` demands of a saved state
    (`n_samples = int(duration / resolution)` must be the histogram's length). -/
def ParamsDescribeEtc (s : St) : Prop :=
  s.etc.isNone = true ∨
    ∃ p, etcParam s.etc = some p ∧ s.c = .app "c" [.inp p] ∧ s.dt = .app "dt" [.inp p] ∧ s.dur = .app "dur" [.inp p]

theorem etcParam_etc0 (a b : Term) (p : String) : etcParam (.app "etc0" [a, b, .inp p]) = some p := by
  simp [etcParam]

theorem etcParam_etc (a b c d e f : Term) (p : String) :
    etcParam (.app "etc" [a, b, c, d, e, f, .inp p]) = some p := by
  simp [etcParam]

/-- the property reads `etc`, `c`, `dt`, `dur` only -/
theorem ParamsDescribeEtc.congr {a b : St} (he : a.etc = b.etc) (hc : a.c = b.c) (hdt : a.dt = b.dt)
    (hdur : a.dur = b.dur) (h : ParamsDescribeEtc b) : ParamsDescribeEtc a := by
  unfold ParamsDescribeEtc at *
  rw [he, hc, hdt, hdur]; exact h

theorem ParamsDescribeEtc.exchange (s : St) (h : ParamsDescribeEtc s) (p : String) (z r : Bool) :
    ParamsDescribeEtc (exchange s p z r) := by
  unfold Sparrow.Life.exchange
  split
  · right
    refine ⟨p, ?_, rfl, rfl, rfl⟩
    cases z
    · exact etcParam_etc _ _ _ _ _ _ _
    · exact etcParam_etc0 _ _ _
  · exact h

theorem ParamsDescribeEtc.step (s : St) (h : ParamsDescribeEtc s) (op : Op) :
    ParamsDescribeEtc (step s op) := by
  cases op with
  | setBrdf w m => exact h.congr rfl rfl rfl rfl
  | setAtt a => exact h.congr rfl rfl rfl rfl
  | bake =>
    refine h.congr ?_ ?_ ?_ ?_ <;>
      (simp only [Sparrow.Life.step, bake]; cases s.dirsIn <;> cases s.dirsOut <;> rfl)
  | init src =>
    have e' : installDefaults s = setTail (installDefaults s) s := installDefaults_self_tail s
    refine h.congr ?_ ?_ ?_ ?_ <;> (rw [Sparrow.Life.step, init_eq, e']; rfl)
  | exchange p z r => exact h.exchange s p z r
  | saveRestore => exact h.congr rfl rfl rfl rfl

/-- invariant of every history (setters, bake, init, exchange with or without recalculation,
    save/restore), from any state that satisfies it — in particular from a fresh object -/
theorem params_describe_etc (s : St) (h : ParamsDescribeEtc s) (ops : List Op) :
    ParamsDescribeEtc (run s ops) := by
  induction ops generalizing s with
  | nil => exact h
  | cons op ops ih => exact ih _ (h.step s op)

/-- a fresh object satisfies the invariant (no histogram stored) -/
example (W : Nat) (g : String) : ParamsDescribeEtc (fresh W g) := Or.inl rfl

/-- non-trivial: a later call without recalculation does not overwrite the stored parameters -/
example :
    (run (fresh 1 "g") [.bake, .init "a", .exchange "p0" false true, .exchange "p1" false false]).dur
      = .app "dur" [.inp "p0"] := by
  rfl

example :
    ParamsDescribeEtc (run (fresh 1 "g") [.bake, .init "a", .exchange "p0" false true, .exchange "p1" false false]) :=
  params_describe_etc _ (Or.inl rfl) _

/-- … and there the histogram is present, so the invariant holds through its second disjunct -/
example :
    (run (fresh 1 "g") [.bake, .init "a", .exchange "p0" false true, .exchange "p1" false false]).etc.isNone
      = false := by
  rfl


end Sparrow.Life
