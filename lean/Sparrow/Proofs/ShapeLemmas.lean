import Sparrow.Model.ShapeLife
import Sparrow.Proofs.CheckSound
/-
  Which reachable states of the simulation object does `check()` accept when they are saved and
  restored?  Exactly the ones that are not in one of two situations (both known findings of C15):
  materials set on only some of the walls (D13), or an array computed for another number of
  outgoing directions / frequency bands than the configuration in force (D15: a setter since the
  last bake / source initialisation changed that number).  Everything else that a history of
  calls can produce is accepted — for every room, every number of walls, patches, directions,
  bands, and every history.
-/
namespace Sparrow.Shape
open Sparrow Sparrow.Generated

/-- the geometry `from_polygon` produces: every patch belongs to a wall, every wall owns a patch -/
def GeomOK (W P : Nat) (ids : List Int) : Prop :=
  ids.length = P ∧ (∀ i ∈ ids, 0 ≤ i ∧ i < Int.ofNat W) ∧ (∀ w, w < W → Int.ofNat w ∈ ids)

/-- no wall is left without direction sets once some wall has them (¬ D13) -/
def DirsComplete (s : St) : Prop := ∀ d, s.dirs = some d → ∀ e ∈ d, e.isSome = true

/-- every stored array was computed for the number of outgoing directions and bands in force (¬ D15) -/
def Fresh (s : St) : Prop :=
  (∀ x, s.fft = some x → x = (curOut s, curBins s)) ∧
  (∀ x, s.e0 = some x → x = (curOut s, curBins s)) ∧
  (∀ x, s.etc = some x → (x.1, x.2.1) = (curOut s, curBins s))

/-! ### Helpers: reading `check()` on a saved state -/

theorem sh_oi_inj (a b : Nat) : oi a = oi b ↔ a = b := by
  simp only [oi, Int.ofNat_eq_natCast]; omega

def sh_g2 : Option (Nat × Nat) → Bool × Int := fun e => match e with
      | some x => (true, oi x.2) | none => (false, 0)

def sh_g1 : Option (Nat × Nat) → Bool × Int := fun e => match e with
      | some x => (true, oi x.1) | none => (false, 0)

theorem sh_out (s : St) : (convert (toCfg s)).brdf_outgoing_directions = s.dirs.map (fun d => d.map sh_g2) := rfl

theorem sh_in (s : St) : (convert (toCfg s)).brdf_incoming_directions = s.dirs.map (fun d => d.map sh_g1) := rfl

theorem sh_fr (s : St) : (convert (toCfg s)).frequencies = s.freq.map fun f => [oi f.n] := rfl

theorem sh_np (s : St) : (convert (toCfg s)).n_patches = oi s.P := rfl

theorem sh_nOut (s : St) : nOut (convert (toCfg s)) = oi (curOut s) := by
  unfold nOut curOut
  rw [sh_out]
  cases hd : s.dirs with
  | none => rfl
  | some d =>
    cases d with
    | nil => rfl
    | cons e es => cases e <;> rfl

theorem sh_nBins (s : St) : nBins (convert (toCfg s)) = oi (curBins s) := by
  unfold nBins curBins
  rw [sh_fr]
  cases hd : s.freq with
  | none => rfl
  | some f => simp [shapeSize, List.foldl]

structure sh_Inv (W P : Nat) (ids : List Int) (s : St) : Prop where
  hW : s.W = W
  hP : s.P = P
  hids : s.ids = ids
  att : ∀ n, s.att = some n → ∃ f, s.freq = some f ∧ n = f.n
  cpos : ∀ v, s.c = some v → 0 < v
  dtpos : ∀ v, s.dt = some v → 0 < v
  durpos : ∀ v, s.dur = some v → 0 < v
  etc : ∀ x, s.etc = some x → ∃ dur dt, s.dur = some dur ∧ s.dt = some dt ∧ x.2.2 = truncDiv dur dt

theorem sh_g1_fst (e : Option (Nat × Nat)) : (sh_g1 e).1 = e.isSome := by cases e <;> rfl

theorem sh_g2_fst (e : Option (Nat × Nat)) : (sh_g2 e).1 = e.isSome := by cases e <;> rfl

theorem sh_acc_iff (W P : Nat) (ids : List Int) (hg : GeomOK W P ids) (s : St)
    (inv : sh_Inv W P ids s) : Acc (convert (toCfg s)) ↔ (DirsComplete s ∧ Fresh s) := by
  obtain ⟨hW, hP, hids, hatt, hc, hdt, hdur, hetc⟩ := inv
  obtain ⟨hlen, hrange, hown⟩ := hg
  constructor
  · intro A
    refine ⟨?_, ?_, ?_, ?_⟩
    · intro d hd e he
      have := A.a11 (d.map sh_g1) (by rw [sh_in, hd]; rfl) (sh_g1 e) (List.mem_map_of_mem he)
      rwa [sh_g1_fst] at this
    · intro x hx
      have := A.a13 [oi s.P, oi s.P, oi x.1, oi x.2]
        (by show s.fft.map _ = _; rw [hx]; rfl)
      rw [sh_nOut, sh_nBins, sh_np] at this
      simp only [List.cons.injEq, sh_oi_inj, and_true, true_and] at this
      exact Prod.ext this.1 this.2
    · intro x hx
      have := A.a20 [oi s.P, oi x.1, oi x.2]
        (by show s.e0.map _ = _; rw [hx]; rfl)
      rw [sh_nOut, sh_nBins, sh_np] at this
      simp only [List.cons.injEq, sh_oi_inj, and_true, true_and] at this
      exact Prod.ext this.1 this.2
    · intro x hx
      have := A.a22 [oi s.P, oi x.1, oi x.2.1, x.2.2]
        (by show s.etc.map _ = _; rw [hx]; rfl)
      rw [sh_nOut, sh_nBins, sh_np] at this
      simp only [List.cons.injEq, sh_oi_inj, and_true, true_and] at this
      exact Prod.ext this.1 this.2.1
  · rintro ⟨hD, hF1, hF2, hF3⟩
    refine
      { a1 := ⟨rfl, rfl⟩, a2 := rfl, a3 := rfl, a4 := ⟨rfl, rfl, rfl⟩, a5 := rfl
        a6 := ?_, a7 := ?_, a8 := ?_, a9 := ?_, a10 := ?_, a11 := ?_, a12 := ?_, a13 := ?_
        a14 := ?_, a15 := ?_, a16 := hc, a17 := hdt, a18 := hdur, a19 := ?_, a20 := ?_
        a21 := ?_, a22 := ?_ }
    · intro i hi
      have : i ∈ ids := by rw [← hids]; exact hi
      have := hrange i this
      rw [← hW] at this; exact this
    · intro w hw
      have hw' : w < W := by rw [← hW]; exact hw
      have := hown w hw'
      rw [← hids] at this; exact this
    · intro l hl
      rw [sh_fr] at hl
      cases hf : s.freq with
      | none => rw [hf] at hl; cases hl
      | some f => rw [hf] at hl; cases hl; rfl
    · intro l hl
      change s.nvis.map _ = _ at hl
      cases hf : s.nvis with
      | none => rw [hf] at hl; cases hl
      | some f => rw [hf] at hl; cases hl; rfl
    · intro l hl
      change s.dirs.map _ = _ at hl
      cases hf : s.dirs with
      | none => rw [hf] at hl; cases hl
      | some f => rw [hf] at hl; cases hl; rfl
    · intro l hl e he
      rw [sh_in] at hl
      cases hf : s.dirs with
      | none => rw [hf] at hl; cases hl
      | some d =>
        rw [hf] at hl; cases hl
        obtain ⟨e', he', rfl⟩ := List.mem_map.1 he
        rw [sh_g1_fst]; exact hD d hf e' he'
    · intro l hl e he
      rw [sh_out] at hl
      cases hf : s.dirs with
      | none => rw [hf] at hl; cases hl
      | some d =>
        rw [hf] at hl; cases hl
        obtain ⟨e', he', rfl⟩ := List.mem_map.1 he
        rw [sh_g2_fst]; exact hD d hf e' he'
    · intro l hl
      change s.fft.map _ = _ at hl
      cases hf : s.fft with
      | none => rw [hf] at hl; cases hl
      | some x =>
        rw [hf] at hl; cases hl
        rw [sh_nOut, sh_nBins, sh_np, hF1 x hf]
    · intro l hl
      change s.att.map _ = _ at hl
      cases hf : s.att with
      | none => rw [hf] at hl; cases hl
      | some f => rw [hf] at hl; cases hl; rfl
    · intro l hl
      change s.att.map _ = _ at hl
      cases hf : s.att with
      | none => rw [hf] at hl; cases hl
      | some n =>
        rw [hf] at hl; cases hl
        obtain ⟨f, hfr, rfl⟩ := hatt n hf
        rw [sh_nBins]; unfold curBins; rw [hfr]; rfl
    · intro l hl
      change s.e0.map _ = _ at hl
      cases hf : s.e0 with
      | none => rw [hf] at hl; cases hl
      | some f => rw [hf] at hl; cases hl; rfl
    · intro l hl
      change s.e0.map _ = _ at hl
      cases hf : s.e0 with
      | none => rw [hf] at hl; cases hl
      | some x =>
        rw [hf] at hl; cases hl
        rw [sh_nOut, sh_nBins, sh_np, hF2 x hf]
    · intro l hl
      change s.etc.map _ = _ at hl
      cases hf : s.etc with
      | none => rw [hf] at hl; cases hl
      | some x =>
        obtain ⟨dur, dt, h1, h2, h3⟩ := hetc x hf
        change s.dur.isSome = true ∧ s.dt.isSome = true
        rw [h1, h2]; exact ⟨rfl, rfl⟩
    · intro l hl
      change s.etc.map _ = _ at hl
      cases hf : s.etc with
      | none => rw [hf] at hl; cases hl
      | some x =>
        rw [hf] at hl; cases hl
        obtain ⟨dur, dt, h1, h2, h3⟩ := hetc x hf
        have := hF3 x hf
        simp only [Prod.mk.injEq] at this
        rw [sh_nOut, sh_nBins, sh_np]
        change _ = [_, _, _, truncDiv (s.dur.getD 1) (s.dt.getD 1)]
        rw [h1, h2]
        show [oi s.P, oi x.1, oi x.2.1, x.2.2] = _
        rw [h3, this.1, this.2]; rfl

theorem sh_inv_fresh (W nv P : Nat) (ids : List Int) : sh_Inv W P ids (fresh W nv P ids) := by
  constructor <;> simp [fresh]

theorem sh_setFreq {s t : St} {f : Freq} (h : setFreq s f = some t) :
    t = { s with freq := some f } ∧ (s.freq = none ∨ s.freq = some f) := by
  unfold setFreq at h
  split at h
  · next hn => cases h; exact ⟨rfl, Or.inl hn⟩
  · next g hg =>
    split at h
    · next hgf => cases h; subst hgf; cases s; simp_all
    · cases h

theorem sh_inv_of {W P : Nat} {ids : List Int} {s t : St} (inv : sh_Inv W P ids s)
    (hW : t.W = s.W) (hP : t.P = s.P) (hids : t.ids = s.ids) (hc : t.c = s.c) (hdt : t.dt = s.dt)
    (hdur : t.dur = s.dur) (hetc : t.etc = s.etc)
    (hatt : ∀ n, t.att = some n → ∃ f, t.freq = some f ∧ n = f.n) : sh_Inv W P ids t := by
  obtain ⟨h1, h2, h3, h4, h5, h6, h7, h8⟩ := inv
  refine ⟨hW ▸ h1, hP ▸ h2, hids ▸ h3, hatt, hc ▸ h5, hdt ▸ h6, hdur ▸ h7, ?_⟩
  rw [hetc, hdur, hdt]; exact h8

theorem sh_inv_setFreq {W P : Nat} {ids : List Int} {s t : St} {f : Freq} (inv : sh_Inv W P ids s)
    (h : setFreq s f = some t) : sh_Inv W P ids t ∧ t.freq = some f := by
  obtain ⟨rfl, hfr⟩ := sh_setFreq h
  refine ⟨sh_inv_of inv rfl rfl rfl rfl rfl rfl rfl ?_, rfl⟩
  intro n hn
  obtain ⟨g, hg, rfl⟩ := inv.att n hn
  refine ⟨f, rfl, ?_⟩
  rcases hfr with h0 | h0 <;> rw [h0] at hg <;> cases hg
  rfl

theorem sh_inv_setBrdfT {W P : Nat} {ids : List Int} {s t : St} {ws : List Nat} {nIn nOut : Nat}
    {f : Freq} {ts : List Nat} (inv : sh_Inv W P ids s)
    (h : setBrdfT s ws nIn nOut f ts = some t) : sh_Inv W P ids t ∧ t.freq = some f := by
  unfold setBrdfT at h
  split at h
  · split at h
    · cases h
    · next s1 hs1 =>
      obtain ⟨inv1, hf1⟩ := sh_inv_setFreq inv hs1
      cases h
      exact ⟨sh_inv_of inv1 rfl rfl rfl rfl rfl rfl rfl inv1.att, hf1⟩
  · cases h

theorem sh_inv_setAtt {W P : Nat} {ids : List Int} {s t : St} {f : Freq} (inv : sh_Inv W P ids s)
    (h : setAtt s f = some t) : sh_Inv W P ids t ∧ t.freq = some f := by
  unfold setAtt at h
  cases hs : setFreq s f with
  | none => rw [hs] at h; cases h
  | some s1 =>
    rw [hs] at h; cases h
    obtain ⟨inv1, hf1⟩ := sh_inv_setFreq inv hs
    refine ⟨sh_inv_of inv1 rfl rfl rfl rfl rfl rfl rfl ?_, hf1⟩
    intro n hn; cases hn; exact ⟨f, hf1, rfl⟩

theorem sh_with_freq (t : St) (f : Freq) (h : t.freq = some f) : { t with freq := some f } = t := by
  cases t; simp_all

theorem sh_inv_installDefaults {W P : Nat} {ids : List Int} {s t : St} (inv : sh_Inv W P ids s)
    (h : installDefaults s = some t) : sh_Inv W P ids t := by
  unfold installDefaults at h
  simp only [Option.bind_eq_some_iff] at h
  obtain ⟨u, hu, h⟩ := h
  have invu : sh_Inv W P ids u := by
    split at hu
    · cases hu; exact inv
    · simp only [Option.map_eq_some_iff] at hu
      obtain ⟨v, hv, rfl⟩ := hu
      obtain ⟨i, hf⟩ := sh_inv_setBrdfT inv hv
      rw [sh_with_freq _ _ hf]; exact i
  split at h
  · cases h; exact invu
  · simp only [Option.map_eq_some_iff] at h
    obtain ⟨v, hv, rfl⟩ := h
    obtain ⟨i, hf⟩ := sh_inv_setAtt invu hv
    rw [sh_with_freq _ _ hf]; exact i

theorem sh_inv_exch {W P : Nat} {ids : List Int} {s : St} (inv : sh_Inv W P ids s) (a b : Nat)
    (c dt dur : Rat) (hpos : 0 < c ∧ 0 < dt ∧ 0 < dur) :
    sh_Inv W P ids { s with etc := some (a, b, truncDiv dur dt), c := some c, dt := some dt, dur := some dur } := by
  obtain ⟨h1, h2, h3, h4, h5, h6, h7, h8⟩ := inv
  refine ⟨h1, h2, h3, h4, ?_, ?_, ?_, ?_⟩
  · intro v hv; cases hv; exact hpos.1
  · intro v hv; cases hv; exact hpos.2.1
  · intro v hv; cases hv; exact hpos.2.2
  · intro x hx; cases hx; exact ⟨dur, dt, rfl, rfl, rfl⟩

theorem sh_inv_step {W P : Nat} {ids : List Int} {s t : St} {op : Op} (inv : sh_Inv W P ids s)
    (h : step s op = some t) : sh_Inv W P ids t := by
  cases op with
  | setBrdf ws nIn nOut f => exact (sh_inv_setBrdfT inv h).1
  | setAtt f => exact (sh_inv_setAtt inv h).1
  | bake n =>
    simp only [step, bake] at h
    split at h
    · cases h; exact sh_inv_of inv rfl rfl rfl rfl rfl rfl rfl inv.att
    · split at h
      · cases h
      · split at h
        · cases h; exact sh_inv_of inv rfl rfl rfl rfl rfl rfl rfl inv.att
        · cases h
  | init =>
    simp only [step, init, Option.bind_eq_some_iff] at h
    obtain ⟨u, hu, h⟩ := h
    have invu := sh_inv_installDefaults inv hu
    split at h
    · cases h
    · split at h
      · cases h; exact sh_inv_of invu rfl rfl rfl rfl rfl rfl rfl invu.att
      · cases h
  | exchange c dt dur k r =>
    simp only [step, exchange] at h
    split at h
    · next hpos =>
      split at h
      · cases h
      · split at h
        · split at h
          · cases h; exact sh_inv_exch inv _ _ _ _ _ hpos
          · split at h
            · cases h; exact sh_inv_exch inv _ _ _ _ _ hpos
            · cases h
        · cases h; exact inv
    · cases h
  | saveRestore =>
    simp only [step] at h
    split at h
    · cases h; exact inv
    · cases h

theorem sh_inv_run {W P : Nat} {ids : List Int} (ops : List Op) : ∀ {s t : St}, sh_Inv W P ids s →
    run s ops = some t → sh_Inv W P ids t := by
  induction ops with
  | nil => intro s t inv h; simp only [run] at h; cases h; exact inv
  | cons op ops ih =>
    intro s t inv h
    simp only [run, Option.bind_eq_some_iff] at h
    obtain ⟨u, hu, h⟩ := h
    exact ih (sh_inv_step inv hu) h

theorem sh_run_append (s : St) (ops ops' : List Op) :
    run s (ops ++ ops') = (run s ops).bind fun t => run t ops' := by
  induction ops generalizing s with
  | nil => rfl
  | cons op ops ih =>
    simp only [List.cons_append, run]
    cases step s op with
    | none => rfl
    | some u => simp only [Option.bind_some]; exact ih u

theorem sh_accepted_iff (s : St) : accepted s = true ↔ Acc (convert (toCfg s)) := by
  rw [← accepts_iff]
  unfold accepted
  cases h : checkGen (convert (toCfg s)) with
  | ok u => simp
  | error e => simp

theorem sh_accepted_of_inv {W P : Nat} {ids : List Int} (hg : GeomOK W P ids) {s : St}
    (inv : sh_Inv W P ids s) : accepted s = true ↔ (DirsComplete s ∧ Fresh s) :=
  (sh_accepted_iff s).trans (sh_acc_iff W P ids hg s inv)

/-- **Main theorem.** For every state reachable from `from_polygon` by any history of successful
    calls: saving and restoring is accepted by the generated `check()` iff the state is neither
    partially set (D13) nor stale (D15). -/
theorem reachable_accepted_iff (W nv P : Nat) (ids : List Int) (hg : GeomOK W P ids)
    (ops : List Op) (s : St) (h : run (fresh W nv P ids) ops = some s) :
    accepted s = true ↔ (DirsComplete s ∧ Fresh s) :=
  sh_accepted_of_inv hg (sh_inv_run ops (sh_inv_fresh W nv P ids) h)

/-- Consequently a history that ends with a save/restore is refused exactly in those situations. -/
theorem restore_refused_iff (W nv P : Nat) (ids : List Int) (hg : GeomOK W P ids)
    (ops : List Op) (s : St) (h : run (fresh W nv P ids) ops = some s) :
    run (fresh W nv P ids) (ops ++ [Op.saveRestore]) = none ↔ ¬ (DirsComplete s ∧ Fresh s) := by
  rw [sh_run_append, h, ← reachable_accepted_iff W nv P ids hg ops s h]
  simp only [Option.bind_some, run, step]
  cases accepted s <;> simp

/-- A save/restore never changes what is stored. -/
theorem saveRestore_id (s t : St) (h : step s Op.saveRestore = some t) : t = s := by
  simp only [step] at h
  split at h
  · cases h; rfl
  · cases h

/-! ### Helpers: the states of the two pipelines -/

theorem sh_setAt_replicate {β : Type} (W : Nat) (a v : β) :
    setAt (List.replicate W a) (List.range W) v = List.replicate W v := by
  unfold setAt
  apply List.ext_getElem
  · simp
  · intro i h1 h2
    simp at h1
    simp [h1]

theorem sh_dirsUniform_rep (s : St) (x : Nat × Nat) (n : Nat)
    (h : s.dirs = some (List.replicate (n+1) (some x))) : dirsUniform s = some x := by
  unfold dirsUniform
  rw [h]
  simp [allSame, List.replicate_succ]

theorem sh_curOut_rep (s : St) (x : Nat × Nat) (n : Nat)
    (h : s.dirs = some (List.replicate (n+1) (some x))) : curOut s = x.2 := by
  unfold curOut
  rw [h]
  simp [List.replicate_succ]

theorem sh_dirsComplete_rep (s : St) (x : Nat × Nat) (n : Nat)
    (h : s.dirs = some (List.replicate n (some x))) : DirsComplete s := by
  intro d hd e he
  rw [h] at hd; cases hd
  rw [List.eq_of_mem_replicate he]; rfl

theorem sh_range_all (W : Nat) : (List.range W).all (fun x => decide (x < W)) = true := by
  rw [List.all_eq_true]
  intro x hx
  exact decide_eq_true (List.mem_range.1 hx)

theorem sh_setBrdfT_range (s : St) (W : Nat) (hW : s.W = W) (nIn nOut : Nat) (f : Freq) (ts : List Nat) :
    setBrdfT s (List.range W) nIn nOut f ts = (setFreq s f).map fun s1 =>
      { s1 with dirs := some (setAt (s1.dirs.getD (List.replicate s1.W none)) (List.range W) (some (nIn, nOut))),
                tables := s1.tables ++ [ts] } := by
  subst hW
  unfold setBrdfT
  rw [if_pos (sh_range_all s.W)]
  cases setFreq s f <;> rfl

def sh_r1 (W nv P : Nat) (ids : List Int) (nIn nOut : Nat) (f : Freq) : St :=
  { fresh W nv P ids with freq := some f, dirs := some (List.replicate W (some (nIn, nOut))),
                          tables := [[nIn, nOut, f.n]] }

theorem sh_reg1 (W nv P : Nat) (ids : List Int) (nIn nOut : Nat) (f : Freq) :
    step (fresh W nv P ids) (Op.setBrdf (List.range W) nIn nOut f) = some (sh_r1 W nv P ids nIn nOut f) := by
  simp only [step, setBrdf]
  rw [sh_setBrdfT_range (fresh W nv P ids) W rfl]
  simp [setFreq, fresh, sh_r1, sh_setAt_replicate]

def sh_r2 (W nv P : Nat) (ids : List Int) (nIn nOut : Nat) (f : Freq) : St :=
  { sh_r1 W nv P ids nIn nOut f with att := some f.n }

def sh_r3 (W nv P : Nat) (ids : List Int) (nIn nOut : Nat) (f : Freq) (nVis : Nat) : St :=
  { sh_r2 W nv P ids nIn nOut f with nvis := some nVis, fft := some (nOut, f.n) }

def sh_r4 (W nv P : Nat) (ids : List Int) (nIn nOut : Nat) (f : Freq) (nVis : Nat) : St :=
  { sh_r3 W nv P ids nIn nOut f nVis with e0 := some (nOut, f.n) }

def sh_r5 (W nv P : Nat) (ids : List Int) (nIn nOut : Nat) (f : Freq) (nVis : Nat) (c dt dur : Rat) : St :=
  { sh_r4 W nv P ids nIn nOut f nVis with etc := some (nOut, f.n, truncDiv dur dt), c := some c, dt := some dt, dur := some dur }

theorem sh_reg2 (W nv P : Nat) (ids : List Int) (nIn nOut : Nat) (f : Freq) :
    step (sh_r1 W nv P ids nIn nOut f) (Op.setAtt f) = some (sh_r2 W nv P ids nIn nOut f) := by
  simp [step, setAtt, setFreq, sh_r1, sh_r2]

theorem sh_reg3 (n nv P : Nat) (ids : List Int) (nIn nOut : Nat) (f : Freq) (nVis : Nat) :
    step (sh_r2 (n+1) nv P ids nIn nOut f) (Op.bake nVis) = some (sh_r3 (n+1) nv P ids nIn nOut f nVis) := by
  have hd : dirsUniform (sh_r2 (n+1) nv P ids nIn nOut f) = some (nIn, nOut) :=
    sh_dirsUniform_rep _ _ n rfl
  simp only [step, bake, hd]
  simp [sh_r3, sh_r2, sh_r1, allSame, curBins]

theorem sh_reg4 (n nv P : Nat) (ids : List Int) (nIn nOut : Nat) (f : Freq) (nVis : Nat) :
    step (sh_r3 (n+1) nv P ids nIn nOut f nVis) Op.init = some (sh_r4 (n+1) nv P ids nIn nOut f nVis) := by
  have hi : installDefaults (sh_r3 (n+1) nv P ids nIn nOut f nVis) = some (sh_r3 (n+1) nv P ids nIn nOut f nVis) := by
    simp [installDefaults, sh_r3, sh_r2, sh_r1]
  have hd : dirsUniform (sh_r3 (n+1) nv P ids nIn nOut f nVis) = some (nIn, nOut) :=
    sh_dirsUniform_rep _ _ n rfl
  simp only [step, init, hi, Option.bind_some, hd]
  simp [sh_r4, sh_r3, sh_r2, sh_r1, allSame, curBins]

theorem sh_reg5 (W nv P : Nat) (ids : List Int) (nIn nOut : Nat) (f : Freq) (nVis : Nat)
    (c dt dur : Rat) (hc : 0 < c) (hdt : 0 < dt) (hdur : 0 < dur) (order : Int) :
    step (sh_r4 W nv P ids nIn nOut f nVis) (Op.exchange c dt dur order true) =
      some (sh_r5 W nv P ids nIn nOut f nVis c dt dur) := by
  simp [step, exchange, hc, hdt, hdur, sh_r5, sh_r4, sh_r3, sh_r2, sh_r1, fresh]

theorem sh_good_fresh (W nv P : Nat) (ids : List Int) :
    DirsComplete (fresh W nv P ids) ∧ Fresh (fresh W nv P ids) := by
  refine ⟨?_, ?_, ?_, ?_⟩ <;> intro x hx <;> cases hx

theorem sh_run_some_accepted {W nv P : Nat} {ids : List Int} (hg : GeomOK W P ids) {ops : List Op} {s : St}
    (h : run (fresh W nv P ids) ops = some s) (hgood : DirsComplete s ∧ Fresh s) :
    ∃ s, run (fresh W nv P ids) ops = some s ∧ accepted s = true :=
  ⟨s, h, (reachable_accepted_iff W nv P ids hg ops s h).2 hgood⟩

def sh_d1 (W nv P : Nat) (ids : List Int) (nVis : Nat) : St :=
  { fresh W nv P ids with nvis := some nVis, fft := some (1, 1) }

def sh_d1' (W nv P : Nat) (ids : List Int) (nVis : Nat) : St :=
  { sh_d1 W nv P ids nVis with freq := some ⟨1, 0⟩, dirs := some (List.replicate W (some (1, 1))), tables := [[1, 1]], att := some 1 }

def sh_d2 (W nv P : Nat) (ids : List Int) (nVis : Nat) : St :=
  { sh_d1' W nv P ids nVis with e0 := some (1, 1) }

def sh_d3 (W nv P : Nat) (ids : List Int) (nVis : Nat) (c dt dur : Rat) : St :=
  { sh_d2 W nv P ids nVis with etc := some (1, 1, truncDiv dur dt), c := some c, dt := some dt, dur := some dur }

theorem sh_def1 (W nv P : Nat) (ids : List Int) (nVis : Nat) :
    step (fresh W nv P ids) (Op.bake nVis) = some (sh_d1 W nv P ids nVis) := by
  simp [step, bake, fresh, sh_d1, curBins]

theorem sh_def2 (n nv P : Nat) (ids : List Int) (nVis : Nat) :
    step (sh_d1 (n+1) nv P ids nVis) Op.init = some (sh_d2 (n+1) nv P ids nVis) := by
  have hi : installDefaults (sh_d1 (n+1) nv P ids nVis) = some (sh_d1' (n+1) nv P ids nVis) := by
    unfold installDefaults
    simp only [sh_setBrdfT_range (sh_d1 (n+1) nv P ids nVis) _ rfl]
    simp [setAtt, setFreq, sh_d1, sh_d1', fresh, sh_setAt_replicate]
  have hd : dirsUniform (sh_d1' (n+1) nv P ids nVis) = some (1, 1) :=
    sh_dirsUniform_rep _ _ n rfl
  simp only [step, init, hi, Option.bind_some, hd]
  simp [sh_d2, sh_d1', allSame, curBins]

theorem sh_def3 (W nv P : Nat) (ids : List Int) (nVis : Nat)
    (c dt dur : Rat) (hc : 0 < c) (hdt : 0 < dt) (hdur : 0 < dur) (order : Int) :
    step (sh_d2 W nv P ids nVis) (Op.exchange c dt dur order true) =
      some (sh_d3 W nv P ids nVis c dt dur) := by
  simp [step, exchange, hc, hdt, hdur, sh_d3, sh_d2, sh_d1', sh_d1, fresh]

/-- The regular pipeline — materials on all walls, attenuation, bake, source, exchange — can be
    saved and restored after each of its stages, whatever the sizes and parameters. -/
theorem regular_pipeline_accepted (W nv P : Nat) (ids : List Int) (hg : GeomOK W P ids) (hW : 0 < W)
    (nIn nOut : Nat) (f : Freq) (nVis : Nat) (c dt dur : Rat) (hc : 0 < c) (hdt : 0 < dt) (hdur : 0 < dur)
    (order : Int) (k : Nat) :
    ∃ s, run (fresh W nv P ids)
        ([Op.setBrdf (List.range W) nIn nOut f, Op.setAtt f, Op.bake nVis, Op.init,
          Op.exchange c dt dur order true].take k) = some s ∧ accepted s = true := by
  obtain ⟨n, rfl⟩ : ∃ n, W = n + 1 := ⟨W - 1, by omega⟩
  have h1 := sh_reg1 (n+1) nv P ids nIn nOut f
  have h2 := sh_reg2 (n+1) nv P ids nIn nOut f
  have h3 := sh_reg3 n nv P ids nIn nOut f nVis
  have h4 := sh_reg4 n nv P ids nIn nOut f nVis
  have h5 := sh_reg5 (n+1) nv P ids nIn nOut f nVis c dt dur hc hdt hdur order
  have hco : ∀ s : St, s.dirs = some (List.replicate (n+1) (some (nIn, nOut))) → curOut s = nOut :=
    fun s hs => sh_curOut_rep s _ n hs
  match k with
  | 0 => exact sh_run_some_accepted hg (s := fresh (n+1) nv P ids) rfl (sh_good_fresh _ _ _ _)
  | 1 =>
    refine sh_run_some_accepted hg (s := sh_r1 (n+1) nv P ids nIn nOut f) (by simp [run, h1]) ⟨sh_dirsComplete_rep _ _ _ rfl, ?_⟩
    refine ⟨?_, ?_, ?_⟩ <;> intro x hx <;> cases hx
  | 2 =>
    refine sh_run_some_accepted hg (s := sh_r2 (n+1) nv P ids nIn nOut f) (by simp [run, h1, h2]) ⟨sh_dirsComplete_rep _ _ _ rfl, ?_⟩
    refine ⟨?_, ?_, ?_⟩ <;> intro x hx <;> cases hx
  | 3 =>
    refine sh_run_some_accepted hg (s := sh_r3 (n+1) nv P ids nIn nOut f nVis) (by simp [run, h1, h2, h3]) ⟨sh_dirsComplete_rep _ _ _ rfl, ?_⟩
    refine ⟨?_, ?_, ?_⟩ <;> intro x hx <;> cases hx
    rw [hco _ rfl]; rfl
  | 4 =>
    refine sh_run_some_accepted hg (s := sh_r4 (n+1) nv P ids nIn nOut f nVis) (by simp [run, h1, h2, h3, h4]) ⟨sh_dirsComplete_rep _ _ _ rfl, ?_⟩
    refine ⟨?_, ?_, ?_⟩ <;> intro x hx <;> cases hx
    · rw [hco _ rfl]; rfl
    · rw [hco _ rfl]; rfl
  | k + 5 =>
    refine sh_run_some_accepted hg (s := sh_r5 (n+1) nv P ids nIn nOut f nVis c dt dur) (by simp [run, h1, h2, h3, h4, h5]) ⟨sh_dirsComplete_rep _ _ _ rfl, ?_⟩
    refine ⟨?_, ?_, ?_⟩ <;> intro x hx <;> cases hx
    · rw [hco _ rfl]; rfl
    · rw [hco _ rfl]; rfl
    · rw [hco _ rfl]; rfl

/-- The same without any material: the defaults installed by `init_source_energy` are consistent. -/
theorem default_pipeline_accepted (W nv P : Nat) (ids : List Int) (hg : GeomOK W P ids) (hW : 0 < W)
    (nVis : Nat) (c dt dur : Rat) (hc : 0 < c) (hdt : 0 < dt) (hdur : 0 < dur) (order : Int) (k : Nat) :
    ∃ s, run (fresh W nv P ids)
        ([Op.bake nVis, Op.init, Op.exchange c dt dur order true].take k) = some s ∧ accepted s = true := by
  obtain ⟨n, rfl⟩ : ∃ n, W = n + 1 := ⟨W - 1, by omega⟩
  have h1 := sh_def1 (n+1) nv P ids nVis
  have h2 := sh_def2 n nv P ids nVis
  have h3 := sh_def3 (n+1) nv P ids nVis c dt dur hc hdt hdur order
  have hco : ∀ s : St, s.dirs = some (List.replicate (n+1) (some (1, 1))) → curOut s = 1 :=
    fun s hs => sh_curOut_rep s _ n hs
  match k with
  | 0 => exact sh_run_some_accepted hg (s := fresh (n+1) nv P ids) rfl (sh_good_fresh _ _ _ _)
  | 1 =>
    refine sh_run_some_accepted hg (s := sh_d1 (n+1) nv P ids nVis) (by simp [run, h1]) ⟨?_, ?_⟩
    · intro x hx; cases hx
    · refine ⟨?_, ?_, ?_⟩ <;> intro x hx <;> cases hx
      rfl
  | 2 =>
    refine sh_run_some_accepted hg (s := sh_d2 (n+1) nv P ids nVis) (by simp [run, h1, h2]) ⟨sh_dirsComplete_rep _ _ _ rfl, ?_⟩
    refine ⟨?_, ?_, ?_⟩ <;> intro x hx <;> cases hx
    · rw [hco _ rfl]; rfl
    · rw [hco _ rfl]; rfl
  | k + 3 =>
    refine sh_run_some_accepted hg (s := sh_d3 (n+1) nv P ids nVis c dt dur) (by simp [run, h1, h2, h3]) ⟨sh_dirsComplete_rep _ _ _ rfl, ?_⟩
    refine ⟨?_, ?_, ?_⟩ <;> intro x hx <;> cases hx
    · rw [hco _ rfl]; rfl
    · rw [hco _ rfl]; rfl
    · rw [hco _ rfl]; rfl

/-- D13 witness: two walls, material on wall 0 only — reachable, and refused on restore. -/
theorem partial_walls_rejected :
    ∃ s, run (fresh 2 4 2 [0, 1]) [Op.setBrdf [0] 1 1 ⟨1, 1⟩] = some s ∧ accepted s = false := by
  refine ⟨_, rfl, ?_⟩
  decide

/-- D15 witness: bake, then an attenuation with three bands — reachable, and refused on restore
    until the geometry is baked again. -/
theorem stale_factors_rejected :
    (∃ s, run (fresh 2 4 2 [0, 1]) [Op.bake 1, Op.setAtt ⟨3, 1⟩] = some s ∧ accepted s = false) ∧
    (∃ s, run (fresh 2 4 2 [0, 1]) [Op.bake 1, Op.setAtt ⟨3, 1⟩, Op.bake 1] = some s ∧ accepted s = true) := by
  refine ⟨⟨_, rfl, ?_⟩, ⟨_, rfl, ?_⟩⟩
  · decide
  · decide

end Sparrow.Shape
