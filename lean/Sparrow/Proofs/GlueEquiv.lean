import Sparrow.Generated.Glue
import Sparrow.Proofs.KernelEquiv
import Sparrow.Proofs.BakeKernelEquiv
import Sparrow.Proofs.LegKernelEquiv
/-
  `DirectionalRadiosityFast._collect_energy_patches`, TRANSLATED from the Python source on every run
  (`Generated/Glue.lean`): what it returns for receiver `i` is a function of THAT receiver's position and
  the stored state only — not of the other receivers, their number or order, nor of what the `np.empty`
  buffers held — and it is the model's receiver formula: stored histogram of the patch in the direction
  nearest to the receiver × (visibility gate · point-to-patch factor), delayed by `ceil(d/c/dt)` bins and
  attenuated by `exp(-m_b d)`.
-/
namespace Sparrow
open Sparrow.Generated.Glue Sparrow.Generated.Kernels Sparrow.Generated.BakeKernels Sparrow.Generated.LegKernels

/-- the weighted histogram of patch `k` as seen from the point `rp` (before delay and attenuation) -/
noncomputable def glueE (vis : (Nat → ℝ) → (Nat → Nat → ℝ) → (Nat → Nat → ℝ) → (Nat → Nat → Nat → ℝ) → Nat → Bool)
    (pt : (Nat → ℝ) → (Nat → Nat → ℝ) → ℝ) (rp : Nat → ℝ) (pp : Nat → Nat → Nat → ℝ) (pc : Nat → Nat → ℝ)
    (etc : Nat → Nat → Nat → Nat → ℝ) (wp : Nat → Nat → Nat → ℝ) (wn : Nat → Nat → ℝ)
    (dirs : Nat → Nat → Nat → ℝ) (wall : Nat → Nat) (D : Nat) (k b t : Nat) : ℝ :=
  etc k (nearest (fun q => ⟨dirs (wall k) q 0, dirs (wall k) q 1, dirs (wall k) q 2⟩) D
          (Vec3.normalize (Vec3.sub ⟨rp 0, rp 1, rp 2⟩ ⟨pc k 0, pc k 1, pc k 2⟩))) b t *
    (if vis rp pc wn wp k then pt rp (fun v q => pp k v q) else 0)

/-- the response of patch `p` at the point `rp`: delayed and attenuated (`propagation_fx`), or the weighted histogram -/
noncomputable def glueRow (vis : (Nat → ℝ) → (Nat → Nat → ℝ) → (Nat → Nat → ℝ) → (Nat → Nat → Nat → ℝ) → Nat → Bool)
    (pt : (Nat → ℝ) → (Nat → Nat → ℝ) → ℝ) (rp : Nat → ℝ) (att : Nat → ℝ) (pp : Nat → Nat → Nat → ℝ)
    (pc : Nat → Nat → ℝ) (etc : Nat → Nat → Nat → Nat → ℝ) (wp : Nat → Nat → Nat → ℝ) (wn : Nat → Nat → ℝ)
    (dirs : Nat → Nat → Nat → ℝ) (wall : Nat → Nat) (D S : Nat) (c dt : ℝ) (fx : Bool) (p b t : Nat) : ℝ :=
  if fx then
    collectRollF S (fun k => ToBin.ceilNat (Vec3.norm (Vec3.sub ⟨pc k 0, pc k 1, pc k 2⟩ ⟨rp 0, rp 1, rp 2⟩) / c / dt))
      (fun k => Real.exp (-(att b) * Vec3.norm (Vec3.sub ⟨pc k 0, pc k 1, pc k 2⟩ ⟨rp 0, rp 1, rp 2⟩)))
      (fun k t => glueE vis pt rp pp pc etc wp wn dirs wall D k b t) p t
  else glueE vis pt rp pp pc etc wp wn dirs wall D p b t

theorem glue_inner (P : Nat) (F : Nat → Nat → Nat → ℝ) (E0 : Nat → Nat → Nat → ℝ) (p b t : Nat) (hp : p < P) :
    ((List.range P).foldl (fun (st_ : Nat → Nat → Nat → ℝ) k => fun p0 p1 p2 =>
      if p0 = k then F k p1 p2 else st_ p0 p1 p2) E0) p b t = F p b t := by
  refine be_foldl_cell _ (fun (st : Nat → Nat → Nat → ℝ) => st p b t) _ P p hp ?_ _ ?_
  · intro ii _ hne st; simp [Ne.symm hne]
  · intro st _; simp

/-- **`_collect_energy_patches` as translated, receiver `i`, patch `p`, band `b`, bin `t`** -/
theorem collectEnergyPatches_eq
    (vis : (Nat → ℝ) → (Nat → Nat → ℝ) → (Nat → Nat → ℝ) → (Nat → Nat → Nat → ℝ) → Nat → Bool)
    (pt : (Nat → ℝ) → (Nat → Nat → ℝ) → ℝ) (R P B S W D : Nat) (rpos : Nat → Nat → ℝ) (att : Nat → ℝ)
    (pp : Nat → Nat → Nat → ℝ) (pc : Nat → Nat → ℝ) (etc : Nat → Nat → Nat → Nat → ℝ)
    (wp : Nat → Nat → Nat → ℝ) (wn : Nat → Nat → ℝ) (dirs : Nat → Nat → Nat → ℝ) (wall : Nat → Nat)
    (c dt : ℝ) (fx : Bool) (s0 s1 s2 s3 s4 s5 s6 s7 s8 s9 s10 s11 : Nat)
    (j1 : Nat → Nat → Nat → ℝ) (j2 : Nat → Nat → Nat → ℝ) (j3 : Nat → Nat → Nat → Nat → ℝ) (j4 : Nat → Nat → Bool)
    (i p b t : Nat) (hi : i < R) (hp : p < P) (hb : b < B) :
    collectEnergyPatches vis pt R 3 rpos s0 att P s1 s2 pp P 3 pc s3 s4 s5 S etc s6 s7 s8 wp s9 s10 wn W D 3 dirs s11 wall
        P B c dt fx j1 j2 j3 j4 i p b t =
      glueRow vis pt (fun q => rpos i q) att pp pc etc wp wn dirs wall D S c dt fx p b t := by
  simp only [collectEnergyPatches]
  refine be_foldl_cell _ (fun (st : (Nat → Nat → Bool) × (Nat → Nat → Nat → ℝ) × (Nat → Nat → Nat → Nat → ℝ)) =>
    st.2.2 i p b t) _ R i hi ?_ _ ?_
  · intro ii _ hne st
    cases fx <;> simp [Ne.symm hne]
  · intro st _
    have hE : ∀ (E0 : Nat → Nat → Nat → ℝ) k b' t', k < P →
        ((List.range P).foldl (fun (st_ : Nat → Nat → Nat → ℝ) k => fun p0 p1 p2 =>
          if p0 = k then
            etc k (getScatteringDataReceiverIndex P 3 (fun a0_ a1_ => pc a0_ a1_) 3 (fun a0_ => rpos i a0_) W D 3
                (fun a0_ a1_ a2_ => dirs a0_ a1_ a2_) s11 (fun a0_ => wall a0_) k) p1 p2 *
              patch2receiverEnergyUniversal pt 3 (fun a0_ => rpos i a0_) P s1 s2 (fun a0_ a1_ a2_ => pp a0_ a1_ a2_) P
                (fun a0_ => vis (fun a0_ => rpos i a0_) (fun a0_ a1_ => pc a0_ a1_)
                  (fun a0_ a1_ => wn a0_ a1_) (fun a0_ a1_ a2_ => wp a0_ a1_ a2_) a0_) k
          else st_ p0 p1 p2) E0) k b' t' =
        glueE vis pt (fun q => rpos i q) pp pc etc wp wn dirs wall D k b' t' := by
      intro E0 k b' t' hk
      rw [glue_inner P _ E0 k b' t' hk]
      unfold glueE
      rw [getScatteringDataReceiverIndex_eq P W D pc (fun q => rpos i q) dirs wall s11 k hk,
        patch2receiverEnergy_eq pt P (fun q => rpos i q) pp _ 3 s1 s2 P k hk]
    unfold glueRow
    cases fx
    · simp only [Bool.false_eq_true, if_false, if_true]
      exact hE _ p b t hp
    · simp only [if_true]
      rw [collectReceiverEnergy_eq P B S _ P _ c dt s0 att p b t hp hb]
      unfold collectRollF
      simp only [be_sum3, Vec3.norm, Vec3.dot, Vec3.sub]
      rw [hE _ p b _ hp]

/-- **Per-receiver** (C11): the rows of two calls agree whenever the two receiver positions agree — whatever the
    other receivers are, how many there are, in which order they come, and whatever the `np.empty` buffers held. -/
theorem collectEnergyPatches_receiver_local
    (vis : (Nat → ℝ) → (Nat → Nat → ℝ) → (Nat → Nat → ℝ) → (Nat → Nat → Nat → ℝ) → Nat → Bool)
    (pt : (Nat → ℝ) → (Nat → Nat → ℝ) → ℝ) (R R' P B S W D : Nat) (rpos rpos' : Nat → Nat → ℝ) (att : Nat → ℝ)
    (pp : Nat → Nat → Nat → ℝ) (pc : Nat → Nat → ℝ) (etc : Nat → Nat → Nat → Nat → ℝ)
    (wp : Nat → Nat → Nat → ℝ) (wn : Nat → Nat → ℝ) (dirs : Nat → Nat → Nat → ℝ) (wall : Nat → Nat)
    (c dt : ℝ) (fx : Bool) (s0 s1 s2 s3 s4 s5 s6 s7 s8 s9 s10 s11 : Nat)
    (j1 j1' : Nat → Nat → Nat → ℝ) (j2 j2' : Nat → Nat → Nat → ℝ) (j3 j3' : Nat → Nat → Nat → Nat → ℝ) (j4 j4' : Nat → Nat → Bool)
    (i i' p b t : Nat) (hi : i < R) (hi' : i' < R') (hp : p < P) (hb : b < B) (hpos : ∀ q, rpos i q = rpos' i' q) :
    collectEnergyPatches vis pt R 3 rpos s0 att P s1 s2 pp P 3 pc s3 s4 s5 S etc s6 s7 s8 wp s9 s10 wn W D 3 dirs s11 wall
        P B c dt fx j1 j2 j3 j4 i p b t =
    collectEnergyPatches vis pt R' 3 rpos' s0 att P s1 s2 pp P 3 pc s3 s4 s5 S etc s6 s7 s8 wp s9 s10 wn W D 3 dirs s11 wall
        P B c dt fx j1' j2' j3' j4' i' p b t := by
  rw [collectEnergyPatches_eq vis pt R P B S W D rpos att pp pc etc wp wn dirs wall c dt fx s0 s1 s2 s3 s4 s5 s6 s7 s8 s9 s10 s11
      j1 j2 j3 j4 i p b t hi hp hb,
    collectEnergyPatches_eq vis pt R' P B S W D rpos' att pp pc etc wp wn dirs wall c dt fx s0 s1 s2 s3 s4 s5 s6 s7 s8 s9 s10 s11
      j1' j2' j3' j4' i' p b t hi' hp hb]
  have : (fun q => rpos i q) = (fun q => rpos' i' q) := funext hpos
  rw [this]

/-- **Geometric** (C11): a patch the receiver does not see contributes exactly nothing, in every band and bin. -/
theorem collectEnergyPatches_hidden_zero
    (vis : (Nat → ℝ) → (Nat → Nat → ℝ) → (Nat → Nat → ℝ) → (Nat → Nat → Nat → ℝ) → Nat → Bool)
    (pt : (Nat → ℝ) → (Nat → Nat → ℝ) → ℝ) (R P B S W D : Nat) (rpos : Nat → Nat → ℝ) (att : Nat → ℝ)
    (pp : Nat → Nat → Nat → ℝ) (pc : Nat → Nat → ℝ) (etc : Nat → Nat → Nat → Nat → ℝ)
    (wp : Nat → Nat → Nat → ℝ) (wn : Nat → Nat → ℝ) (dirs : Nat → Nat → Nat → ℝ) (wall : Nat → Nat)
    (c dt : ℝ) (fx : Bool) (s0 s1 s2 s3 s4 s5 s6 s7 s8 s9 s10 s11 : Nat)
    (j1 : Nat → Nat → Nat → ℝ) (j2 : Nat → Nat → Nat → ℝ) (j3 : Nat → Nat → Nat → Nat → ℝ) (j4 : Nat → Nat → Bool)
    (i p b t : Nat) (hi : i < R) (hp : p < P) (hb : b < B)
    (hv : vis (fun q => rpos i q) pc wn wp p = false) :
    collectEnergyPatches vis pt R 3 rpos s0 att P s1 s2 pp P 3 pc s3 s4 s5 S etc s6 s7 s8 wp s9 s10 wn W D 3 dirs s11 wall
        P B c dt fx j1 j2 j3 j4 i p b t = 0 := by
  rw [collectEnergyPatches_eq vis pt R P B S W D rpos att pp pc etc wp wn dirs wall c dt fx s0 s1 s2 s3 s4 s5 s6 s7 s8 s9 s10 s11
      j1 j2 j3 j4 i p b t hi hp hb]
  unfold glueRow collectRollF glueE
  cases fx <;> simp [hv]

/-- the response of a patch is linear in its stored histogram: scaling the stored state by `s` scales the row -/
theorem collectEnergyPatches_scale
    (vis : (Nat → ℝ) → (Nat → Nat → ℝ) → (Nat → Nat → ℝ) → (Nat → Nat → Nat → ℝ) → Nat → Bool)
    (pt : (Nat → ℝ) → (Nat → Nat → ℝ) → ℝ) (R P B S W D : Nat) (rpos : Nat → Nat → ℝ) (att : Nat → ℝ)
    (pp : Nat → Nat → Nat → ℝ) (pc : Nat → Nat → ℝ) (etc : Nat → Nat → Nat → Nat → ℝ)
    (wp : Nat → Nat → Nat → ℝ) (wn : Nat → Nat → ℝ) (dirs : Nat → Nat → Nat → ℝ) (wall : Nat → Nat)
    (c dt : ℝ) (fx : Bool) (s0 s1 s2 s3 s4 s5 s6 s7 s8 s9 s10 s11 : Nat)
    (j1 : Nat → Nat → Nat → ℝ) (j2 : Nat → Nat → Nat → ℝ) (j3 : Nat → Nat → Nat → Nat → ℝ) (j4 : Nat → Nat → Bool)
    (i p b t : Nat) (hi : i < R) (hp : p < P) (hb : b < B) (s : ℝ) :
    collectEnergyPatches vis pt R 3 rpos s0 att P s1 s2 pp P 3 pc s3 s4 s5 S (fun k d b t => s * etc k d b t)
        s6 s7 s8 wp s9 s10 wn W D 3 dirs s11 wall P B c dt fx j1 j2 j3 j4 i p b t =
    s * collectEnergyPatches vis pt R 3 rpos s0 att P s1 s2 pp P 3 pc s3 s4 s5 S etc s6 s7 s8 wp s9 s10 wn W D 3 dirs s11 wall
        P B c dt fx j1 j2 j3 j4 i p b t := by
  rw [collectEnergyPatches_eq vis pt R P B S W D rpos att pp pc _ wp wn dirs wall c dt fx s0 s1 s2 s3 s4 s5 s6 s7 s8 s9 s10 s11
      j1 j2 j3 j4 i p b t hi hp hb,
    collectEnergyPatches_eq vis pt R P B S W D rpos att pp pc etc wp wn dirs wall c dt fx s0 s1 s2 s3 s4 s5 s6 s7 s8 s9 s10 s11
      j1 j2 j3 j4 i p b t hi hp hb]
  unfold glueRow collectRollF glueE
  cases fx <;> simp <;> split_ifs <;> ring

end Sparrow
